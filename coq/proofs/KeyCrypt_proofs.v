(* C43: the theorems about encrypted key containers, under stated assumptions on AES-256-GCM and Argon2id, and
   the theorems about plain key PEM blocks (no assumptions). *)
From Coq Require Import List NArith Bool Lia PeanoNat.
Import ListNotations.
From NV Require Import lib.Bytes lib.Proto lib.Corr lib.KeyCrypt_lib gen.Consts_KeyCrypt model.KeyCrypt
  proofs.KeyCrypt_codec proofs.KeyCrypt_consts.
Open Scope N_scope.

(* ---- what is assumed of the cryptography ------------------------------------------------------------ *)

(* opening what was sealed with the same key and nonce returns the plaintext *)
Definition aead_correct (enc : list N -> list N -> list N -> list N) (dec : list N -> list N -> list N -> option (list N)) : Prop :=
  forall k n m, dec k n (enc k n m) = Some m.
(* integrity: whatever opens under (key, nonce) is the sealing of its plaintext under exactly that key and nonce;
   an altered ciphertext, another key or another nonce does not open *)
Definition aead_integrity (enc : list N -> list N -> list N -> list N) (dec : list N -> list N -> list N -> option (list N)) : Prop :=
  (forall k n c m, dec k n c = Some m -> c = enc k n m) /\
  (forall k n m k' n' m', enc k n m = enc k' n' m' -> k = k' /\ n = n' /\ m = m').
(* the key derivation does not collide: it is injective in (passphrase, salt, iterations, memory, parallelism) *)
Definition kdf_injective (kdf : list N -> list N -> N -> N -> N -> list N) : Prop :=
  forall p s i m t p' s' i' m' t', kdf p s i m t = kdf p' s' i' m' t' -> p = p' /\ s = s' /\ i = i' /\ m = m' /\ t = t'.

(* ---- facts about the generated constants (T1); the documented texts are in KeyCrypt_consts.v ----------- *)

Lemma key_banners_distinct : NoDup key_banners.
Proof.
  assert (H : forall l : list (list N), (fix nd (l : list (list N)) : bool :=
             match l with [] => true | a :: r => negb (existsb (beq a) r) && nd r end) l = true -> NoDup l).
  { induction l as [|a r IH]; intros E; [constructor|].
    apply andb_true_iff in E as [E1 E2]. constructor; [|now apply IH].
    intros I. apply negb_true_iff in E1. assert (existsb (beq a) r = true); [|congruence].
    apply existsb_exists. exists a. split; [exact I|]. unfold beq. now apply nlist_eqb_eq. }
  apply H. vm_compute. reflexivity.
Qed.

Lemma alg_name_utf8 : kc_utf8_valid alg_name = true. Proof. vm_compute. reflexivity. Qed.
Lemma alg_name_short : N.of_nat (length alg_name) < two32. Proof. vm_compute. reflexivity. Qed.

Lemma beq_eq a b : beq a b = true <-> a = b.
Proof. unfold beq. apply nlist_eqb_eq. Qed.

Lemma beq_refl a : beq a a = true.
Proof. now apply beq_eq. Qed.

(* ---- curves and banners of encrypted keys ----------------------------------------------------------- *)

Lemma enc_banner_curve_spec banner cv : enc_banner_curve banner = Some cv -> enc_banner cv = Some banner /\ (cv = 0 \/ cv = 1).
Proof.
  unfold enc_banner_curve. destruct (beq banner banner_ed25519_enc) eqn:E1.
  - intros H. inversion H; subst. apply beq_eq in E1. subst. split; [reflexivity|now left].
  - destruct (beq banner banner_ecdsa_p256_enc) eqn:E2; [|discriminate].
    intros H. inversion H; subst. apply beq_eq in E2. subst. split; [reflexivity|now right].
Qed.

Lemma enc_banner_curve_of cv banner : enc_banner cv = Some banner -> enc_banner_curve banner = Some cv.
Proof.
  unfold enc_banner. destruct cv as [|[| |]]; try discriminate; intros H; inversion H; subst; vm_compute; reflexivity.
Qed.

(* a key has the length of at most one curve *)
Lemma key_len_curve cv cv' k : (cv = 0 \/ cv = 1) -> (cv' = 0 \/ cv' = 1) ->
  key_len_ok cv k = true -> key_len_ok cv' k = true -> cv = cv'.
Proof.
  unfold key_len_ok. intros [-> | ->] [-> | ->] H1 H2; try reflexivity;
    apply N.eqb_eq in H1, H2; rewrite H1 in H2; discriminate.
Qed.

Section Crypto.
  Variable kdf : list N -> list N -> N -> N -> N -> list N.
  Variable enc : list N -> list N -> list N -> list N.
  Variable dec : list N -> list N -> list N -> option (list N).

  (* the inputs of an honest encryption: a key of the curve's length, parameters as EncryptAndMarshal... accepts
     them and as they fit the container, the 32-byte (at least 16) salt and the 12-byte nonce it draws; the
     ciphertext is not empty (GCM appends its tag) and fits a 32-bit length *)
  Definition honest (curve : N) (key : list N) (mem par it : N) (salt nonce : list N) (ct : list N) : Prop :=
    (curve = 0 \/ curve = 1) /\ key_len_ok curve key = true /\
    1 <= mem < two32 /\ 1 <= par <= 255 /\ 1 <= it < two32 /\
    (16 <= length salt)%nat /\ N.of_nat (length salt) < two32 /\
    length nonce = nonce_len /\ (0 < length ct)%nat /\ N.of_nat (length nonce + length ct) < two32.

  (* every way [decrypt] can succeed *)
  Lemma decrypt_inv pass blk cv k : decrypt kdf dec pass blk = Some (cv, k) ->
    exists alg a blob,
      enc_banner_curve (fst blk) = Some cv /\
      parse_edata (snd blk) = Some (mkEData (Some (mkMeta alg (Some a))) blob) /\
      params_ok a = true /\ alg = alg_name /\ a_version a = argon2_version /\
      (min_salt_len <= length (a_salt a))%nat /\ (nonce_len < length blob)%nat /\
      dec (kdf pass (a_salt a) (a_it a) (a_mem a) (a_par a)) (firstn nonce_len blob) (skipn nonce_len blob) = Some k /\
      key_len_ok cv k = true.
  Proof.
    unfold decrypt. destruct (enc_banner_curve (fst blk)) as [cv0|] eqn:B; [|discriminate].
    destruct (parse_edata (snd blk)) as [[[[alg [a|]]|] blob]|] eqn:P; try discriminate.
    cbn [e_meta m_argon m_alg e_blob].
    destruct (params_ok a) eqn:PO; [|discriminate]. cbn [negb].
    destruct (beq alg alg_name) eqn:A; [|discriminate]. cbn [negb].
    destruct (a_version a =? argon2_version) eqn:V; [|discriminate]. cbn [negb].
    destruct (Nat.ltb (length (a_salt a)) min_salt_len) eqn:S; [discriminate|].
    destruct (Nat.leb (length blob) nonce_len) eqn:L; [discriminate|].
    destruct (dec _ _ _) as [pt|] eqn:D; [|discriminate].
    destruct (key_len_ok cv0 pt) eqn:K; [|discriminate].
    intros H. inversion H; subst. exists alg, a, blob.
    apply beq_eq in A. apply N.eqb_eq in V. apply Nat.ltb_ge in S. apply Nat.leb_gt in L.
    repeat split; assumption.
  Qed.

  Hypothesis Hcorrect : aead_correct enc dec.

  (* round trip: the right passphrase returns the curve and exactly the key *)
  Lemma roundtrip curve key pass mem par it salt nonce :
    honest curve key mem par it salt nonce (enc (kdf pass salt it mem par) nonce key) ->
    exists blk, encrypt kdf enc curve key pass mem par it salt nonce = Some blk /\
                decrypt kdf dec pass blk = Some (curve, key).
  Proof.
    intros (Hc & Hk & Hm & Hp & Hi & Hs1 & Hs2 & Hn & Hct & Hb).
    unfold encrypt. destruct (enc_banner curve) as [banner|] eqn:B.
    2:{ destruct Hc as [-> | ->]; discriminate. }
    eexists. split; [reflexivity|].
    unfold decrypt. cbn [fst snd]. rewrite (enc_banner_curve_of _ _ B).
    set (ct := enc (kdf pass salt it mem par) nonce key) in *.
    rewrite parse_encode_edata.
    - cbn [e_meta m_argon m_alg e_blob a_version a_mem a_par a_it a_salt].
      unfold params_ok. cbn [a_mem a_par a_it].
      replace (mem =? 0) with false by (symmetry; apply N.eqb_neq; lia).
      replace (par =? 0) with false by (symmetry; apply N.eqb_neq; lia).
      replace (par <=? 255) with true by (symmetry; apply N.leb_le; lia).
      replace (it =? 0) with false by (symmetry; apply N.eqb_neq; lia).
      cbn [negb andb]. rewrite beq_refl, N.eqb_refl. cbn [negb].
      replace (Nat.ltb (length salt) min_salt_len) with false by (symmetry; apply Nat.ltb_ge; unfold min_salt_len; lia).
      replace (Nat.leb (length (nonce ++ ct)) nonce_len) with false
        by (symmetry; apply Nat.leb_gt; rewrite app_length; lia).
      rewrite <- Hn. rewrite firstn_app, Nat.sub_diag, firstn_all, firstn_O, app_nil_r.
      rewrite skipn_app, Nat.sub_diag, skipn_all, skipn_O. cbn [app].
      unfold ct. rewrite Hcorrect, Hk. reflexivity.
    - exact alg_name_utf8.
    - exact alg_name_short.
    - repeat split; cbn [a_version a_mem a_par a_it a_salt]; try lia; try assumption. vm_compute. reflexivity.
    - rewrite app_length. exact Hb.
  Qed.
End Crypto.

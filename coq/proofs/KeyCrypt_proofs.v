(* C43: the theorems about encrypted key containers, under stated assumptions on AES-256-GCM and Argon2id, and
   the theorems about plain key PEM blocks (no assumptions). *)
From Coq Require Import List NArith Bool Lia PeanoNat.
Import ListNotations.
From NV Require Import lib.Bytes lib.Proto lib.Corr lib.KeyCrypt_lib gen.Consts_KeyCrypt model.KeyCrypt
  proofs.KeyCrypt_codec proofs.KeyCrypt_consts.
Open Scope N_scope.

(* ---- what is assumed of the cryptography ------------------------------------------------------------ *)

(* opening what was sealed with the same key and nonce returns the plaintext *)
Definition aead_correct (enc : list N -> list N -> list N -> list N) (dec : list N -> list N -> list N -> option (list N)) : Prop :=
  forall k n m, dec k n (enc k n m) = Some m.
(* integrity: whatever opens under (key, nonce) is the sealing of its plaintext under exactly that key and nonce;
   an altered ciphertext, another key or another nonce does not open *)
Definition aead_integrity (enc : list N -> list N -> list N -> list N) (dec : list N -> list N -> list N -> option (list N)) : Prop :=
  (forall k n c m, dec k n c = Some m -> c = enc k n m) /\
  (forall k n m k' n' m', enc k n m = enc k' n' m' -> k = k' /\ n = n' /\ m = m').
(* the key derivation does not collide: it is injective in (passphrase, salt, iterations, memory, parallelism) *)
Definition kdf_injective (kdf : list N -> list N -> N -> N -> N -> list N) : Prop :=
  forall p s i m t p' s' i' m' t', kdf p s i m t = kdf p' s' i' m' t' -> p = p' /\ s = s' /\ i = i' /\ m = m' /\ t = t'.

(* ---- facts about the generated constants (T1); the documented texts are in KeyCrypt_consts.v ----------- *)

Lemma key_banners_distinct : NoDup key_banners.
Proof.
  assert (H : forall l : list (list N), (fix nd (l : list (list N)) : bool :=
             match l with [] => true | a :: r => negb (existsb (beq a) r) && nd r end) l = true -> NoDup l).
  { induction l as [|a r IH]; intros E; [constructor|].
    apply andb_true_iff in E as [E1 E2]. constructor; [|now apply IH].
    intros I. apply negb_true_iff in E1. assert (existsb (beq a) r = true); [|congruence].
    apply existsb_exists. exists a. split; [exact I|]. unfold beq. now apply nlist_eqb_eq. }
  apply H. vm_compute. reflexivity.
Qed.

Lemma alg_name_utf8 : kc_utf8_valid alg_name = true. Proof. vm_compute. reflexivity. Qed.
Lemma alg_name_short : N.of_nat (length alg_name) < two32. Proof. vm_compute. reflexivity. Qed.

Lemma beq_eq a b : beq a b = true <-> a = b.
Proof. unfold beq. apply nlist_eqb_eq. Qed.

Lemma beq_refl a : beq a a = true.
Proof. now apply beq_eq. Qed.

(* ---- curves and banners of encrypted keys ----------------------------------------------------------- *)

Lemma enc_banner_curve_spec banner cv : enc_banner_curve banner = Some cv -> enc_banner cv = Some banner /\ (cv = 0 \/ cv = 1).
Proof.
  unfold enc_banner_curve. destruct (beq banner banner_ed25519_enc) eqn:E1.
  - intros H. inversion H; subst. apply beq_eq in E1. subst. split; [reflexivity|now left].
  - destruct (beq banner banner_ecdsa_p256_enc) eqn:E2; [|discriminate].
    intros H. inversion H; subst. apply beq_eq in E2. subst. split; [reflexivity|now right].
Qed.

Lemma enc_banner_curve_of cv banner : enc_banner cv = Some banner -> enc_banner_curve banner = Some cv.
Proof.
  unfold enc_banner. destruct cv as [|[| |]]; try discriminate; intros H; inversion H; subst; vm_compute; reflexivity.
Qed.

(* a key has the length of at most one curve *)
Lemma key_len_curve cv cv' k : (cv = 0 \/ cv = 1) -> (cv' = 0 \/ cv' = 1) ->
  key_len_ok cv k = true -> key_len_ok cv' k = true -> cv = cv'.
Proof.
  unfold key_len_ok. intros [-> | ->] [-> | ->] H1 H2; try reflexivity;
    apply N.eqb_eq in H1, H2; rewrite H1 in H2; discriminate.
Qed.

Section Crypto.
  Variable kdf : list N -> list N -> N -> N -> N -> list N.
  Variable enc : list N -> list N -> list N -> list N.
  Variable dec : list N -> list N -> list N -> option (list N).

  (* the inputs of an honest encryption: a key of the curve's length, parameters as EncryptAndMarshal... accepts
     them and as they fit the container, the 32-byte (at least 16) salt and the 12-byte nonce it draws; the
     ciphertext is not empty (GCM appends its tag) and fits a 32-bit length *)
  Definition honest (curve : N) (key : list N) (mem par it : N) (salt nonce : list N) (ct : list N) : Prop :=
    (curve = 0 \/ curve = 1) /\ key_len_ok curve key = true /\
    1 <= mem < two32 /\ 1 <= par <= 255 /\ 1 <= it < two32 /\
    (16 <= length salt)%nat /\ N.of_nat (length salt) < two32 /\
    length nonce = nonce_len /\ (0 < length ct)%nat /\ N.of_nat (length nonce + length ct) < two32.

  (* every way [decrypt] can succeed *)
  Lemma decrypt_inv pass blk cv k : decrypt kdf dec pass blk = Some (cv, k) ->
    exists alg a blob,
      enc_banner_curve (fst blk) = Some cv /\
      parse_edata (snd blk) = Some (mkEData (Some (mkMeta alg (Some a))) blob) /\
      params_ok a = true /\ alg = alg_name /\ a_version a = argon2_version /\
      (min_salt_len <= length (a_salt a))%nat /\ (nonce_len < length blob)%nat /\
      dec (kdf pass (a_salt a) (a_it a) (a_mem a) (a_par a)) (firstn nonce_len blob) (skipn nonce_len blob) = Some k /\
      key_len_ok cv k = true.
  Proof.
    unfold decrypt. destruct (enc_banner_curve (fst blk)) as [cv0|] eqn:B; [|discriminate].
    destruct (parse_edata (snd blk)) as [[[[alg [a|]]|] blob]|] eqn:P; try discriminate.
    cbn [e_meta m_argon m_alg e_blob].
    destruct (params_ok a) eqn:PO; [|discriminate]. cbn [negb].
    destruct (beq alg alg_name) eqn:A; [|discriminate]. cbn [negb].
    destruct (a_version a =? argon2_version) eqn:V; [|discriminate]. cbn [negb].
    destruct (Nat.ltb (length (a_salt a)) min_salt_len) eqn:S; [discriminate|].
    destruct (Nat.leb (length blob) nonce_len) eqn:L; [discriminate|].
    destruct (dec _ _ _) as [pt|] eqn:D; [|discriminate].
    destruct (key_len_ok cv0 pt) eqn:K; [|discriminate].
    intros H. inversion H; subst. exists alg, a, blob.
    apply beq_eq in A. apply N.eqb_eq in V. apply Nat.ltb_ge in S. apply Nat.leb_gt in L.
    repeat split; assumption.
  Qed.

  Hypothesis Hcorrect : aead_correct enc dec.

  (* round trip: the right passphrase returns the curve and exactly the key *)
  Lemma roundtrip curve key pass mem par it salt nonce :
    honest curve key mem par it salt nonce (enc (kdf pass salt it mem par) nonce key) ->
    exists blk, encrypt kdf enc curve key pass mem par it salt nonce = Some blk /\
                decrypt kdf dec pass blk = Some (curve, key).
  Proof.
    intros (Hc & Hk & Hm & Hp & Hi & Hs1 & Hs2 & Hn & Hct & Hb).
    unfold encrypt. destruct (enc_banner curve) as [banner|] eqn:B.
    2:{ destruct Hc as [-> | ->]; discriminate. }
    eexists. split; [reflexivity|].
    unfold decrypt. cbn [fst snd]. rewrite (enc_banner_curve_of _ _ B).
    set (ct := enc (kdf pass salt it mem par) nonce key) in *.
    rewrite parse_encode_edata.
    - cbn [e_meta m_argon m_alg e_blob a_version a_mem a_par a_it a_salt].
      unfold params_ok. cbn [a_mem a_par a_it].
      replace (mem =? 0) with false by (symmetry; apply N.eqb_neq; lia).
      replace (par =? 0) with false by (symmetry; apply N.eqb_neq; lia).
      replace (par <=? 255) with true by (symmetry; apply N.leb_le; lia).
      replace (it =? 0) with false by (symmetry; apply N.eqb_neq; lia).
      cbn [negb andb]. rewrite beq_refl, N.eqb_refl. cbn [negb].
      replace (Nat.ltb (length salt) min_salt_len) with false by (symmetry; apply Nat.ltb_ge; unfold min_salt_len; lia).
      replace (Nat.leb (length (nonce ++ ct)) nonce_len) with false
        by (symmetry; apply Nat.leb_gt; rewrite app_length; lia).
      rewrite <- Hn. rewrite firstn_app, Nat.sub_diag, firstn_all, firstn_O, app_nil_r.
      rewrite skipn_app, Nat.sub_diag, skipn_all, skipn_O. cbn [app].
      unfold ct. rewrite Hcorrect, Hk. reflexivity.
    - exact alg_name_utf8.
    - exact alg_name_short.
    - unfold argon_wf, two32 in *. cbn [a_version a_mem a_par a_it a_salt]. repeat split; try lia; reflexivity.
    - rewrite app_length. exact Hb.
  Qed.

  Hypothesis Hintegrity : aead_integrity enc dec.
  Hypothesis Hkdf : kdf_injective kdf.

  (* under another key, or another nonce, a sealed message does not open *)
  Lemma dec_other k n m k' n' pt : dec k' n' (enc k n m) = Some pt -> k' = k /\ n' = n /\ pt = m.
  Proof.
    destruct Hintegrity as [G I]. intros D. apply G in D. apply I in D. destruct D as (? & ? & ?). now subst.
  Qed.

  (* THE BINDING THEOREM. Take an honest container. Any block whatsoever - any banner, any bytes - that carries
     the honest ciphertext and opens under any passphrase whatsoever: then the passphrase is the right one, the
     banner is the original one, every field the block decodes to (algorithm, version, memory, parallelism,
     iterations, salt, nonce) is the original one, and what comes out is the original curve and key.
     Contrapositive: any other passphrase, and any alteration of salt, parameters, version, algorithm name, nonce
     or banner, is refused. *)
  Lemma binding curve key pass mem par it salt nonce pass' blk' cv' k' :
    let ct := enc (kdf pass salt it mem par) nonce key in
    honest curve key mem par it salt nonce ct ->
    decrypt kdf dec pass' blk' = Some (cv', k') ->
    (forall e, parse_edata (snd blk') = Some e -> skipn nonce_len (e_blob e) = ct) ->
    pass' = pass /\ enc_banner curve = Some (fst blk') /\
    parse_edata (snd blk') =
      Some (mkEData (Some (mkMeta alg_name (Some (mkArgon argon2_version mem par it salt)))) (nonce ++ ct)) /\
    cv' = curve /\ k' = key.
  Proof.
    intros ct (Hc & Hk & Hm & Hp & Hi & Hs1 & Hs2 & Hn & Hct & Hb) D Hsame.
    apply decrypt_inv in D as (alg & a & blob & B & P & PO & A & V & S & L & D & K).
    specialize (Hsame _ P). cbn [e_blob] in Hsame. rewrite Hsame in D. unfold ct in D.
    apply dec_other in D as (Ek & En & Em). apply Hkdf in Ek as (E1 & E2 & E3 & E4 & E5).
    subst k' pass'. destruct (enc_banner_curve_spec _ _ B) as [B' Hc'].
    assert (cv' = curve) by (eapply key_len_curve; eassumption). subst cv'.
    repeat split; try reflexivity; try assumption.
    rewrite P. do 2 f_equal.
    - f_equal. destruct a as [v m p i s]. cbn [a_version a_mem a_par a_it a_salt] in *. subst. reflexivity.
    - rewrite <- (firstn_skipn nonce_len blob), Hsame, En. reflexivity.
  Qed.

  (* any other passphrase is refused *)
  Lemma wrong_passphrase curve key pass mem par it salt nonce blk pass' :
    honest curve key mem par it salt nonce (enc (kdf pass salt it mem par) nonce key) ->
    encrypt kdf enc curve key pass mem par it salt nonce = Some blk -> pass' <> pass ->
    decrypt kdf dec pass' blk = None.
  Proof.
    intros H E NE. destruct (decrypt kdf dec pass' blk) as [[cv' k']|] eqn:D; [|reflexivity]. exfalso.
    pose proof H as (Hc & Hk & Hm & Hp & Hi & Hs1 & Hs2 & Hn & Hct & Hb).
    unfold encrypt in E. destruct (enc_banner curve) as [banner|]; [|discriminate]. inversion E; subst blk.
    eapply binding in D; [destruct D as (D & _); exact (NE D)|exact H|].
    intros e P. cbn [snd] in P. rewrite parse_encode_edata in P.
    - inversion P; subst e. cbn [e_blob]. rewrite <- Hn. rewrite skipn_app, Nat.sub_diag, skipn_all, skipn_O. reflexivity.
    - exact alg_name_utf8.
    - exact alg_name_short.
    - unfold argon_wf, two32 in *. cbn [a_version a_mem a_par a_it a_salt]. repeat split; try lia; reflexivity.
    - rewrite app_length. exact Hb.
  Qed.

  (* a block whose fields differ from the honest container's anywhere but in the ciphertext is refused under EVERY
     passphrase; [alg], [a], [blob] are what the block decodes to *)
  Lemma altered_refused curve key pass mem par it salt nonce pass' banner' body' alg a blob :
    let ct := enc (kdf pass salt it mem par) nonce key in
    honest curve key mem par it salt nonce ct ->
    parse_edata body' = Some (mkEData (Some (mkMeta alg (Some a))) blob) ->
    skipn nonce_len blob = ct ->
    (enc_banner curve <> Some banner' \/ alg <> alg_name \/ a <> mkArgon argon2_version mem par it salt \/
     firstn nonce_len blob <> nonce) ->
    decrypt kdf dec pass' (banner', body') = None.
  Proof.
    intros ct H P S ALT. destruct (decrypt kdf dec pass' (banner', body')) as [[cv' k']|] eqn:D; [|reflexivity]. exfalso.
    pose proof H as (_ & _ & _ & _ & _ & _ & _ & Hn & _ & _).
    eapply binding in D; [|exact H|].
    - destruct D as (_ & B & P' & _). cbn [fst snd] in *. rewrite P in P'. inversion P'; subst.
      destruct ALT as [X|[X|[X|X]]]; try (now apply X).
      apply X. rewrite <- Hn. rewrite firstn_app, Nat.sub_diag, firstn_all, firstn_O, app_nil_r. reflexivity.
    - intros e Pe. cbn [snd] in Pe. rewrite P in Pe. inversion Pe; subst. exact S.
  Qed.

  (* whatever opens - also with an altered ciphertext - carries a genuine sealing, under the key derived from the
     presented passphrase and the block's own salt and parameters, of exactly the key that comes out: somebody who
     cannot seal under a key derived from the passphrase cannot make a block that opens *)
  Lemma opens_only_genuine pass' blk' cv' k' : decrypt kdf dec pass' blk' = Some (cv', k') ->
    exists a blob, parse_edata (snd blk') = Some (mkEData (Some (mkMeta alg_name (Some a))) blob) /\
      skipn nonce_len blob = enc (kdf pass' (a_salt a) (a_it a) (a_mem a) (a_par a)) (firstn nonce_len blob) k'.
  Proof.
    intros D. apply decrypt_inv in D as (alg & a & blob & B & P & PO & A & V & S & L & D & K). subst alg.
    exists a, blob. split; [exact P|]. destruct Hintegrity as [G _]. now apply G.
  Qed.
End Crypto.

(* ---- plain key blocks ------------------------------------------------------------------------------------ *)

(* the length each marshal function is meant for *)
Definition plain_len (fn curve : N) : N :=
  match fn, curve with
  | 0, _ => 32 | 1, 0 => 64 | 1, _ => 32 | 2, 0 => 32 | 2, _ => 65 | 3, 0 => 32 | _, _ => 65
  end.

Lemma plain_roundtrip fn curve key blk : marshal_key fn curve key = Some blk ->
  N.of_nat (length key) = plain_len fn curve -> unmarshal_key fn blk = Some (key, curve).
Proof.
  unfold marshal_key. destruct (marshal_banner fn curve) as [b|] eqn:B; [|discriminate].
  intros H L. inversion H; subst blk. unfold unmarshal_key. cbn [fst snd].
  destruct fn as [|[[|[]|]|[|[]|]|]]; destruct curve as [|[| |]]; try discriminate B;
    inversion B; subst b; cbn in L |- *; rewrite L; reflexivity.
Qed.

(* what an unmarshal function takes is exactly what the matching marshal function writes for that curve, at that
   length: under any other banner (another key kind, another curve's, an encrypted key's, a certificate's, anything
   else) and at any other length it refuses *)
Lemma plain_accept_only fn banner bytes key curve : unmarshal_key fn (banner, bytes) = Some (key, curve) ->
  marshal_key fn curve bytes = Some (banner, bytes) /\ key = bytes /\ N.of_nat (length bytes) = plain_len fn curve.
Proof.
  unfold unmarshal_key, marshal_key. cbn [fst snd].
  destruct (unmarshal_rule fn banner) as [[cv l]|] eqn:R; [|discriminate].
  destruct (N.of_nat (length bytes) =? l) eqn:L; [|discriminate]. apply N.eqb_eq in L.
  intros H. inversion H; subst key cv.
  unfold unmarshal_rule in R.
  destruct fn as [|[[|[]|]|[|[]|]|]]; try discriminate R;
    repeat match type of R with
    | (if beq ?x ?y then _ else _) = Some _ => let E := fresh "E" in destruct (beq x y) eqn:E; [apply beq_eq in E|]
    end; try discriminate R; inversion R; subst; cbn; repeat split; first [reflexivity | congruence].
Qed.

(* the acceptance matrix, swept completely: every function x every key banner *)
Definition plain_matrix_ok : bool :=
  forallb (fun fn => forallb (fun b =>
    Bool.eqb (match unmarshal_rule fn b with Some _ => true | None => false end)
             (existsb (fun cv => match marshal_banner fn cv with Some b' => beq b b' | None => false end) [0; 1]))
    (key_banners ++ [banner_cert_v1; banner_cert_v2; []])) [0; 1; 2; 3; 4].

Lemma plain_matrix : plain_matrix_ok = true.
Proof. vm_compute. reflexivity. Qed.

(* ---- the assumptions can be met ------------------------------------------------------------------------------ *)

Definition frame (l : list N) : list N := N.of_nat (length l) :: l.
Definition toy_kdf (p s : list N) (i m t : N) : list N := frame p ++ frame s ++ [i; m; t].
Definition toy_enc (k n m : list N) : list N := frame k ++ frame n ++ m.
Definition toy_dec (k n c : list N) : option (list N) :=
  let p := frame k ++ frame n in
  if beq (firstn (length p) c) p then Some (skipn (length p) c) else None.

Lemma firstn_len_app (a x : list N) : firstn (length a) (a ++ x) = a.
Proof. rewrite firstn_app, Nat.sub_diag, firstn_all, firstn_O, app_nil_r. reflexivity. Qed.
Lemma skipn_len_app (a x : list N) : skipn (length a) (a ++ x) = x.
Proof. rewrite skipn_app, Nat.sub_diag, skipn_all, skipn_O. reflexivity. Qed.

Lemma frame_inj a x b y : frame a ++ x = frame b ++ y -> a = b /\ x = y.
Proof.
  unfold frame. cbn [app]. intros H. inversion H as [[L E]]. apply Nat2N.inj in L.
  assert (a = b).
  { pose proof (firstn_len_app a x) as Fa. rewrite E, L, firstn_len_app in Fa. now symmetry. }
  subst. split; [reflexivity|]. now apply app_inv_head in E.
Qed.

Lemma toy_meets_assumptions : aead_correct toy_enc toy_dec /\ aead_integrity toy_enc toy_dec /\ kdf_injective toy_kdf.
Proof.
  repeat split.
  - intros k n m. unfold toy_dec, toy_enc. rewrite app_assoc.
    rewrite firstn_len_app. rewrite beq_refl. now rewrite skipn_len_app.
  - intros k n c m. unfold toy_dec, toy_enc.
    destruct (beq (firstn (length (frame k ++ frame n)) c) (frame k ++ frame n)) eqn:E; [|discriminate].
    apply beq_eq in E. intros H. inversion H; subst. rewrite app_assoc. rewrite <- E at 1. now rewrite firstn_skipn.
  - unfold toy_enc in H. apply frame_inj in H. tauto.
  - unfold toy_enc in H. apply frame_inj in H as [_ H]. apply frame_inj in H. tauto.
  - unfold toy_enc in H. apply frame_inj in H as [_ H]. apply frame_inj in H. tauto.
  - unfold toy_kdf in H. apply frame_inj in H. tauto.
  - unfold toy_kdf in H. apply frame_inj in H as [_ H]. apply frame_inj in H. tauto.
  - unfold toy_kdf in H. apply frame_inj in H as [_ H]. apply frame_inj in H as [_ H]. now inversion H.
  - unfold toy_kdf in H. apply frame_inj in H as [_ H]. apply frame_inj in H as [_ H]. now inversion H.
  - unfold toy_kdf in H. apply frame_inj in H as [_ H]. apply frame_inj in H as [_ H]. now inversion H.
Qed.

(* ... and the honest inputs exist: an Ed25519 key under the toy cryptography *)
Example honest_example :
  honest 0 (repeat 7 64) 8 1 1 (repeat 1 32) (repeat 2 12)
         (toy_enc (toy_kdf [112] (repeat 1 32) 1 8 1) (repeat 2 12) (repeat 7 64)).
Proof. unfold honest. repeat split; try (now left); vm_compute; try reflexivity; try discriminate; lia. Qed.

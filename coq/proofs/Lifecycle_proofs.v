(* Lifecycle_proofs: from every reachable state of the Control state machine, stopping releases everything. *)
From Coq Require Import List NArith Bool Arith Lia.
Import ListNotations.
From NV Require Import gen.Tab_Lifecycle model.Lifecycle.

(* ---- resources -------------------------------------------------------------------------------------------------- *)
Lemma res_eqb_eq a b : res_eqb a b = true <-> a = b.
Proof. destruct a, b; simpl; split; intro H; try reflexivity; try discriminate. Qed.

Lemma has_in r l : has r l = true <-> In r l.
Proof.
  unfold has. rewrite existsb_exists. split.
  - intros [x [Hx E]]. apply res_eqb_eq in E. now subst.
  - intro H. exists r. split; [exact H|now apply res_eqb_eq].
Qed.

Lemma close_in r x l : In x (close r l) <-> x = r \/ In x l.
Proof.
  unfold close. destruct (has r l) eqn:H.
  - apply has_in in H. split; [auto|]. intros [->|K]; auto.
  - simpl. split; intros [K|K]; auto.
Qed.

Lemma close_mono r l x : In x l -> In x (close r l).
Proof. intro H. apply close_in. now right. Qed.

Lemma fold_close_in cl rs x : In x (fold_right close cl rs) <-> In x rs \/ In x cl.
Proof.
  induction rs as [|r rs IH]; simpl.
  - tauto.
  - rewrite close_in, IH. split; intros [H|H]; auto; destruct H; auto.
Qed.

Lemma iface_close_has closed :
  In RToken (iface_close closed) /\ (In RUdp closed -> In RTun closed -> In RToken closed -> iface_close closed = closed) /\
  (forall x, In x closed -> In x (iface_close closed)) /\
  (~ In RToken closed -> In RUdp (iface_close closed) /\ In RTun (iface_close closed)).
Proof.
  unfold iface_close. destruct (has RToken closed) eqn:H.
  - apply has_in in H. split; [exact H|]. split; [reflexivity|]. split; [auto|]. intro K. contradiction.
  - split; [apply close_in; now left|]. split.
    { intros _ _ K. apply has_in in K. congruence. }
    split.
    { intros x K. now apply close_mono, close_mono, close_mono. }
    intros _. split.
    + apply close_mono, close_mono, close_in. now left.
    + apply close_mono, close_in. now left.
Qed.

(* ---- sweeping --------------------------------------------------------------------------------------------------- *)
Lemma sweep_spec closed l :
  let '(keep, cl) := sweep closed l in
  (forall x, In x closed -> In x cl) /\
  (forall a, In a keep -> In a l /\ has (r_guard a) closed = false) /\
  (forall a, In a l -> has (r_guard a) closed = true -> forall x, In x (r_closes a) -> In x cl) /\
  (forall x, In x cl -> In x closed \/ exists a, In a l /\ has (r_guard a) closed = true /\ In x (r_closes a)).
Proof.
  induction l as [|a r IH]; simpl.
  - split; [auto|]. split; [intros a []|]. split; [intros a []|]. intros x Hx. now left.
  - destruct (sweep closed r) as [keep cl]. destruct IH as (I1 & I2 & I3 & I4).
    destruct (has (r_guard a) closed) eqn:G.
    + split; [|split; [|split]].
      * intros x Hx. apply fold_close_in. right. now apply I1.
      * intros b Hb. destruct (I2 b Hb). auto.
      * intros b [<-|Hb] Gb x Hx; apply fold_close_in; [now left|right; now apply (I3 b Hb Gb)].
      * intros x Hx. apply fold_close_in in Hx as [Hx|Hx].
        -- right. exists a. auto.
        -- destruct (I4 x Hx) as [K|[b (B1 & B2 & B3)]]; [now left|right; exists b; auto].
    + split; [|split; [|split]].
      * exact I1.
      * intros b [<-|Hb]; [auto|]. destruct (I2 b Hb). auto.
      * intros b [<-|Hb] Gb; [congruence|now apply I3].
      * intros x Hx. destruct (I4 x Hx) as [K|[b (B1 & B2 & B3)]]; [now left|right; exists b; auto].
Qed.

(* every goroutine waits for one of the three things Stop closes itself, or for something a context watcher that
   is also running closes *)
Definition direct (r : res) : Prop := r = RCtx \/ r = RUdp \/ r = RTun.
Definition wf_acts (l : list row) : Prop :=
  forall a, In a l -> direct (r_guard a) \/ exists w, In w l /\ r_guard w = RCtx /\ In (r_guard a) (r_closes w).

Lemma settle_empty s :
  In RCtx (l_closed s) -> In RUdp (l_closed s) -> In RTun (l_closed s) -> wf_acts (l_acts s) ->
  l_acts (settle s) = [] /\
  (forall x, In x (l_closed s) -> In x (l_closed (settle s))) /\
  (forall w x, In w (l_acts s) -> r_guard w = RCtx -> In x (r_closes w) -> In x (l_closed (settle s))).
Proof.
  intros C1 C2 C3 WF. unfold settle.
  pose proof (sweep_spec (l_closed s) (l_acts s)) as S1. destruct (sweep (l_closed s) (l_acts s)) as [a1 c1].
  destruct S1 as (M1 & K1 & X1 & _).
  pose proof (sweep_spec c1 a1) as S2. destruct (sweep c1 a1) as [a2 c2]. destruct S2 as (M2 & K2 & X2 & _).
  cbn [l_acts l_closed]. split; [|split].
  - destruct a2 as [|b rest]; [reflexivity|]. exfalso.
    destruct (K2 b (or_introl eq_refl)) as [Hb1 G2]. destruct (K1 b Hb1) as [Hb G1].
    destruct (WF b Hb) as [[D|[D|D]]|[w (W1 & W2 & W3)]].
    + rewrite D in G1. apply has_in in C1. congruence.
    + rewrite D in G1. apply has_in in C2. congruence.
    + rewrite D in G1. apply has_in in C3. congruence.
    + assert (In (r_guard b) c1) as H.
      { apply (X1 w W1); [rewrite W2; now apply has_in|exact W3]. }
      apply has_in in H. congruence.
  - intros x Hx. apply M2, M1, Hx.
  - intros w x W1 W2 W3. apply M2. apply (X1 w W1); [rewrite W2; now apply has_in|exact W3].
Qed.

(* ---- the table -------------------------------------------------------------------------------------------------- *)
Lemma in_rep {A} n (x y : A) : In y (rep n x) -> y = x /\ (0 < n)%nat.
Proof. induction n; simpl; [tauto|]. intros [<-|H]; [split; [reflexivity|lia]|]. destruct (IHn H). split; [auto|lia]. Qed.
Lemma rep_in {A} n (x : A) : (0 < n)%nat -> In x (rep n x).
Proof. destruct n; [lia|]. intros _. now left. Qed.

Lemma in_spawn c ph a : In a (spawn c ph) <-> In a table /\ r_phase a = ph /\ (0 < r_mult a c)%nat.
Proof.
  unfold spawn. rewrite in_flat_map. split.
  - intros [r [Hr Ha]]. destruct (r_phase r) eqn:P, ph; try (destruct Ha; fail);
      apply in_rep in Ha as [-> M]; auto.
  - intros (Ht & P & M). exists a. split; [exact Ht|]. rewrite P. destruct ph; now apply rep_in.
Qed.

Lemma wf_main c : wf_acts (spawn c PMain).
Proof.
  intros a Ha. apply in_spawn in Ha as (Ht & P & _). left.
  simpl in Ht. repeat (destruct Ht as [<-|Ht]; [simpl in P; try discriminate; unfold direct; simpl; auto|]). destruct Ht.
Qed.

Lemma wf_started c : wf_acts (spawn c PMain ++ spawn c PStart).
Proof.
  intros a Ha. apply in_app_or in Ha as [Ha|Ha].
  - destruct (wf_main c a Ha) as [D|[w (W1 & W2 & W3)]]; [now left|right; exists w; split; [apply in_or_app; now left|auto]].
  - apply in_spawn in Ha as (Ht & P & M). simpl in Ht.
    repeat (destruct Ht as [<-|Ht];
            [simpl in P; try discriminate; try (left; unfold direct; simpl; tauto)|]); try (destruct Ht).
    + (* dnsServer.Start waits for the server its watcher shuts down *)
      right. exists (mkRow 13 PStart (fun c => b2n (k_dns c)) RCtx [RDns]). split; [|simpl; auto].
      apply in_or_app. right. apply in_spawn. simpl in *. repeat split; auto 20.
    + right. exists (mkRow 14 PStart (fun c => b2n (k_sshd c)) RCtx [RSsh]). split; [|simpl; auto].
      apply in_or_app. right. apply in_spawn. simpl in *. repeat split; auto 20.
Qed.

(* ---- reachable states ------------------------------------------------------------------------------------------- *)
Definition base_closed : list res := [RToken; RTun; RUdp; RCtx].

Inductive form (c : cfg) : lst -> Prop :=
| F_ready n f : form c (mkL c SReady [] (opens c PMain) (spawn c PMain) n f)
| F_started n f : form c (mkL c SStarted [] (opens c PMain ++ opens c PStart) (spawn c PMain ++ spawn c PStart) n f)
| F_stopping n f : form c (mkL c SStopping [RCtx] (opens c PMain ++ opens c PStart) (spawn c PMain ++ spawn c PStart) n f)
| F_stopped_started n f : form c (mkL c SStopped base_closed (opens c PMain ++ opens c PStart) (spawn c PMain ++ spawn c PStart) n f)
| F_stopped_early n f : form c (mkL c SStopped base_closed (opens c PMain) (spawn c PMain) n f).

Lemma form_step c s o : form c s -> form c (step s o).
Proof.
  intro F. destruct F as [n f|n f|n f|n f|n f]; destruct o as [[|]| | | | |]; simpl; try constructor; destruct f; simpl; constructor.
Qed.

Lemma form_run c ops s : form c s -> form c (run s ops).
Proof. revert s. induction ops as [|o r IH]; intros s F; [exact F|]. simpl. apply IH. now apply form_step. Qed.

Lemma form_reachable c ops : form c (run (ready c) ops).
Proof. apply form_run. constructor. Qed.

Lemma base_in : In RCtx base_closed /\ In RUdp base_closed /\ In RTun base_closed /\ In RToken base_closed.
Proof. unfold base_closed. simpl. auto 10. Qed.

Lemma settle_opened s : l_opened (settle s) = l_opened s.
Proof. unfold settle. destruct (sweep _ _). destruct (sweep _ _). reflexivity. Qed.

Lemma released_of s :
  In RCtx (l_closed s) -> In RUdp (l_closed s) -> In RTun (l_closed s) -> wf_acts (l_acts s) ->
  (forall r, In r (l_opened s) ->
     In r (l_closed s) \/ exists w, In w (l_acts s) /\ r_guard w = RCtx /\ In r (r_closes w)) ->
  released s = true.
Proof.
  intros C1 C2 C3 WF O. unfold released. destruct (settle_empty s C1 C2 C3 WF) as (E & M & W).
  cbv zeta. rewrite E. unfold all_closed. rewrite settle_opened. apply forallb_forall. intros r Hr. apply has_in.
  destruct (O r Hr) as [K|[w (W1 & W2 & W3)]]; [now apply M|now apply (W w r)].
Qed.

Lemma released_stopped c s : form c s -> l_state s = SStopped -> released s = true.
Proof.
  intros F St. destruct base_in as (B1 & B2 & B3 & B4).
  destruct F; simpl in St; try discriminate; apply released_of; cbn [l_closed l_acts l_opened]; auto using wf_started, wf_main.
  - intros r Hr. apply in_app_or in Hr as [Hr|Hr].
    + left. simpl in Hr. unfold base_closed. simpl. tauto.
    + right. simpl in Hr. apply in_app_or in Hr as [Hr|Hr].
      * destruct (k_dns c) eqn:D; [|destruct Hr]. destruct Hr as [<-|[]].
        exists (mkRow 13 PStart (fun c => b2n (k_dns c)) RCtx [RDns]). split; [|simpl; auto].
        apply in_or_app. right. apply in_spawn. simpl. rewrite D. repeat split; auto 20.
      * destruct (k_sshd c) eqn:D; [|destruct Hr]. destruct Hr as [<-|[]].
        exists (mkRow 14 PStart (fun c => b2n (k_sshd c)) RCtx [RSsh]). split; [|simpl; auto].
        apply in_or_app. right. apply in_spawn. simpl. rewrite D. repeat split; auto 20.
  - intros r Hr. left. simpl in Hr. unfold base_closed. simpl. tauto.
Qed.

(* ---- the clauses ------------------------------------------------------------------------------------------------ *)
(* whenever the state is Stopped, everything is released *)
Lemma stopped_released c ops : let s := run (ready c) ops in l_state s = SStopped -> released s = true.
Proof. intros s. apply released_stopped with (c := c). apply form_reachable. Qed.

(* a Stop issued in any reachable state in which no other Stop is half way ends in Stopped with everything released;
   if another Stop is half way (state Stopping) this call returns at once and the other one's completion does it *)
Lemma stop_releases c ops :
  let s := run (ready c) ops in
  (l_state s <> SStopping -> l_state (step s OStop) = SStopped /\ released (step s OStop) = true) /\
  (l_state s = SStopping -> step s OStopBegin = s /\
                            l_state (step s OStopEnd) = SStopped /\ released (step s OStopEnd) = true).
Proof.
  intros s. pose proof (form_reachable c ops) as F. fold s in F. split.
  - intro NS. assert (St : l_state (step s OStop) = SStopped) by (destruct F; simpl in *; try reflexivity; congruence).
    split; [exact St|]. apply (released_stopped c); [now apply form_step|exact St].
  - intro S. assert (St : l_state (step s OStopEnd) = SStopped) by (destruct F; simpl in *; try reflexivity; congruence).
    split; [destruct F; simpl in *; try reflexivity; congruence|]. split; [exact St|].
    apply (released_stopped c); [now apply form_step|exact St].
Qed.

(* a second Stop changes nothing; no operation after Stop reopens, restarts or re-closes anything *)
Lemma stop_idempotent c ops o :
  let s := run (ready c) ops in
  l_state s = SStopped ->
  step s OStop = s /\
  l_state (step s o) = SStopped /\ l_closed (step s o) = l_closed s /\ l_acts (step s o) = l_acts s /\
  l_opened (step s o) = l_opened s /\ l_rebinds (step s o) = l_rebinds s.
Proof.
  intros s St. pose proof (form_reachable c ops) as F. fold s in F.
  destruct F as [n f|n f|n f|n f|n f]; simpl in St; try discriminate; (split; [reflexivity|]);
    destruct o as [[|]| | | | |]; try destruct f; simpl; auto.
Qed.

Lemma stop_twice c ops : let s := run (ready c) ops in step (step s OStop) OStop = step s OStop.
Proof. intros s. pose proof (form_reachable c ops) as F. fold s in F. destruct F; reflexivity. Qed.

(* a Start whose activation fails releases what Main had acquired *)
Lemma start_fail_releases c ops :
  let s := run (ready c) ops in
  l_state s = SReady -> l_state (step s (OStart false)) = SStopped /\ released (step s (OStart false)) = true.
Proof.
  intros s St. pose proof (form_reachable c ops) as F. fold s in F.
  assert (S2 : l_state (step s (OStart false)) = SStopped) by (destruct F; simpl in *; try reflexivity; congruence).
  split; [exact S2|]. apply (released_stopped c); [now apply form_step|exact S2].
Qed.

(* nothing is closed, cancelled or stopped before the first Stop / failed Start: a started node is fully up *)
Lemma started_all_open c ops : let s := run (ready c) ops in
  (l_state s = SReady \/ l_state s = SStarted) -> l_closed s = [].
Proof. intros s H. pose proof (form_reachable c ops) as F. fold s in F. destruct F; simpl in *; destruct H; try reflexivity; congruence. Qed.

Definition ex_cfg : cfg := mkCfg 3 2 true true true true true true.
Example ex_full_stop : released (run (ready ex_cfg) [OStart true; ORebind; OStop]) = true /\
                       released (run (ready ex_cfg) [OStart true; ORebind]) = false /\
                       length (l_acts (run (ready ex_cfg) [OStart true])) = 18%nat.
Proof. vm_compute. repeat split; reflexivity. Qed.

(* ---- Stop's tunnel-closing phase does not block ----------------------------------------------------------------- *)
(* measured on the real Interface.send: a CloseTunnel never touches the lighthouse query channel, whatever the rebind
   counters say, on a plain node and on a lighthouse (every other message type does, on a plain node whose tunnel has
   not sent since the last rebind) *)
Lemma close_tunnel_never_queries :
  forallb (fun r => let '(t, _, _, n) := r in negb (N.eqb t t_close_tunnel) || N.eqb n 0) send_queries = true /\
  lookup_queries send_queries t_close_tunnel true false = Some 0%N /\
  lookup_queries send_queries t_close_tunnel true true = Some 0%N /\
  lookup_queries send_queries t_close_tunnel false false = Some 0%N /\
  lookup_queries send_queries t_close_tunnel false true = Some 0%N.
Proof. vm_compute. repeat split; reflexivity. Qed.

(* the other rows, for contrast: the exemption of CloseTunnel is what keeps Stop from blocking *)
Lemma other_sends_do_query :
  forallb (fun r => let '(t, m, l, n) := r in N.eqb t t_close_tunnel || negb m || l || N.eqb n 1) send_queries = true.
Proof. vm_compute. reflexivity. Qed.

Lemma stop_phase_never_blocks c ops :
  let s := run (ready c) ops in
  forall q, lookup_queries send_queries t_close_tunnel true false = Some q -> may_block s (stop_sends q) = false.
Proof.
  intros s q H. destruct close_tunnel_never_queries as (_ & E & _). rewrite E in H. inversion H; subst. reflexivity.
Qed.

(* and the exemption is needed: while Stop is between cancelling the context and closing the interface, a send into
   the query channel has no receiver left *)
Lemma stopping_query_send_would_block c ops :
  let s := run (ready c) ops in l_state s = SStopping -> may_block s (stop_sends 1) = true.
Proof.
  intros s St. pose proof (form_reachable c ops) as F. fold s in F.
  destruct F as [n f|n f|n f|n f|n f]; simpl in St; try discriminate.
  unfold may_block, stop_sends, receivers. cbn [N.eqb existsb Pos.eqb orb]. rewrite orb_false_r. apply negb_true_iff.
  rewrite orb_false_r. unfold live_receiver. cbn [l_acts l_closed].
  apply not_true_is_false. intro E. apply existsb_exists in E as [r [Hr Er]]. apply andb_prop in Er as [E1 E2].
  apply N.eqb_eq in E1. apply negb_true_iff in E2.
  apply in_app_or in Hr as [Hr|Hr]; apply in_spawn in Hr as (Ht & _ & _); simpl in Ht;
    repeat (destruct Ht as [<-|Ht]; [simpl in E1; try discriminate; simpl in E2; discriminate|]); destruct Ht.
Qed.

(* ---- every listener Main opened is closed by Stop, whether or not it ever had a reader ------------------------------ *)
Lemma listeners_ledger c ops : let s := run (ready c) ops in
  (l_state s = SStopped -> udp_open s = 0%nat) /\
  (l_state s = SReady \/ l_state s = SStarted -> udp_open s = k_configured c) /\
  (k_routines c <= k_configured c)%nat /\ (k_routines c <= k_queues c)%nat.
Proof.
  intros s. pose proof (form_reachable c ops) as F. fold s in F. split; [|split; [|split]].
  - intro St. destruct F; simpl in St; try discriminate; reflexivity.
  - intro St. destruct F; simpl in St; destruct St; try discriminate; reflexivity.
  - unfold k_routines. destruct (Nat.ltb 1 (k_configured c) && negb (k_multi c)) eqn:E.
    + apply andb_prop in E as [E _]. apply Nat.ltb_lt in E. pose proof (Nat.le_min_l 1 (k_queues c)). lia.
    + apply Nat.le_min_l.
  - unfold k_routines. apply Nat.le_min_r.
Qed.

(* C43: what the model's protobuf reader makes of what the model's writer wrote (the honest container), and
   progress of the three message loops. *)
From Coq Require Import List NArith Bool Lia.
Import ListNotations.
From NV Require Import lib.Bytes lib.Proto lib.Corr lib.KeyCrypt_lib gen.Consts_KeyCrypt model.KeyCrypt.
Open Scope N_scope.

(* ---- every step of the three loops consumes at least one byte ------------------------------------- *)

Ltac step_progress_tac E :=
  repeat first
    [ match type of E with context [match ?n with _ => _ end] => is_var n; destruct n; cbv iota beta in E end
    | match type of E with context [if ?c then _ else _] => destruct c end ];
  first [ apply kc_varint_shorter in E | apply kc_bytes_shorter in E | apply kc_unknown_shorter in E ]; lia.

Lemma argon_step_progress a b a' b' : argon_step a b = Some (a', b') -> (length b' < length b)%nat.
Proof.
  unfold argon_step. destruct (kc_tag_dec b) as [[[num typ] b1]|] eqn:T; [|discriminate].
  apply kc_tag_dec_progress in T. intros E. step_progress_tac E.
Qed.

Lemma meta_step_progress m b m' b' : meta_step m b = Some (m', b') -> (length b' < length b)%nat.
Proof.
  unfold meta_step. destruct (kc_tag_dec b) as [[[num typ] b1]|] eqn:T; [|discriminate].
  apply kc_tag_dec_progress in T. intros E. step_progress_tac E.
Qed.

Lemma edata_step_progress e b e' b' : edata_step e b = Some (e', b') -> (length b' < length b)%nat.
Proof.
  unfold edata_step. destruct (kc_tag_dec b) as [[[num typ] b1]|] eqn:T; [|discriminate].
  apply kc_tag_dec_progress in T. intros E. step_progress_tac E.
Qed.

(* ---- sizes ------------------------------------------------------------------------------------------ *)

Definition two32 : N := 4294967296.

Lemma field_varint_length num x : num <= kc_max_valid_number -> x < two64 -> (length (field_varint num x) <= 20)%nat.
Proof.
  intros Hn Hx. unfold field_varint, tag_enc. rewrite app_length.
  pose proof (varint_enc_length (num * 8 + wt_varint)) as L1. pose proof (varint_enc_length x Hx) as L2.
  unfold kc_max_valid_number, wt_varint, two64 in *. specialize (L1 ltac:(lia)). lia.
Qed.

Lemma field_bytes_length num v : num <= kc_max_valid_number -> N.of_nat (length v) < two64 ->
  (length (field_bytes num v) <= 20 + length v)%nat.
Proof.
  intros Hn Hv. unfold field_bytes, tag_enc, bytes_enc. rewrite !app_length.
  pose proof (varint_enc_length (num * 8 + wt_bytes)) as L1. pose proof (varint_enc_length _ Hv) as L2.
  unfold kc_max_valid_number, wt_bytes, two64 in *. specialize (L1 ltac:(lia)). lia.
Qed.

(* ---- reading one honest field ---------------------------------------------------------------------- *)

Lemma kc_varint_field {St} num x rest (k : N -> St) : 1 <= num -> num <= kc_max_valid_number -> x < two64 ->
  (let? (n, t, b1) := kc_tag_dec (field_varint num x ++ rest) in Some (n, t, kc_varint b1 k)) =
  Some (num, 0, Some (k x, rest)).
Proof.
  intros H1 H2 Hx. unfold field_varint. rewrite <- app_assoc.
  rewrite kc_tag_dec_enc by (unfold wt_varint; first [assumption | lia | discriminate]).
  unfold kc_varint, wt_varint. now rewrite varint_dec_enc.
Qed.

Lemma kc_bytes_field {St} num v rest (k : list N -> option St) : 1 <= num -> num <= kc_max_valid_number ->
  N.of_nat (length v) < two64 ->
  (let? (n, t, b1) := kc_tag_dec (field_bytes num v ++ rest) in Some (n, t, kc_bytes b1 k)) =
  Some (num, 2, match k v with Some st => Some (st, rest) | None => None end).
Proof.
  intros H1 H2 Hv. unfold field_bytes. rewrite <- app_assoc.
  rewrite kc_tag_dec_enc by (unfold wt_bytes; first [assumption | lia | discriminate]).
  unfold kc_bytes, wt_bytes. now rewrite bytes_dec_enc.
Qed.

Lemma field_varint_nonempty num x : field_varint num x <> [].
Proof. unfold field_varint, tag_enc. pose proof (varint_enc_nonempty (num * 8 + wt_varint)). destruct (varint_enc _); [contradiction|discriminate]. Qed.

Lemma field_bytes_nonempty num v : field_bytes num v <> [].
Proof. unfold field_bytes, tag_enc. pose proof (varint_enc_nonempty (num * 8 + wt_bytes)). destruct (varint_enc _); [contradiction|discriminate]. Qed.

Lemma w32_small x : x < two32 -> w32 x = x.
Proof. intros H. unfold w32. apply N.mod_small. exact H. Qed.

(* one step of each loop on an honest field *)
Lemma argon_step_varint a num x rest : num = 1 \/ num = 2 \/ num = 3 \/ num = 4 -> x < two32 ->
  argon_step a (field_varint num x ++ rest) =
  Some (match num with 1 => set_version a x | 2 => set_mem a x | 3 => set_it a x | _ => set_par a x end, rest).
Proof.
  intros Hn Hx. unfold argon_step, field_varint. rewrite <- app_assoc.
  rewrite kc_tag_dec_enc by (unfold wt_varint, kc_max_valid_number; first [lia | discriminate]).
  unfold kc_varint, wt_varint. rewrite varint_dec_enc by (unfold two64, two32 in *; lia).
  rewrite (w32_small x Hx). destruct Hn as [ -> | [ -> | [ -> | -> ] ] ]; reflexivity.
Qed.

Lemma argon_step_salt a s rest : N.of_nat (length s) < two64 ->
  argon_step a (field_bytes 5 s ++ rest) = Some (set_salt a s, rest).
Proof.
  intros Hs. unfold argon_step, field_bytes. rewrite <- app_assoc.
  rewrite kc_tag_dec_enc by (unfold wt_bytes, kc_max_valid_number; first [lia | discriminate]).
  unfold kc_bytes, wt_bytes. now rewrite bytes_dec_enc.
Qed.

Definition argon_wf (a : argon) : Prop :=
  a_version a < two32 /\ a_mem a < two32 /\ a_par a < two32 /\ a_it a < two32 /\ N.of_nat (length (a_salt a)) < two32.

Lemma parse_encode_argon a0 a : argon_wf a -> msg_run argon_step a0 (encode_argon a) = Some a.
Proof.
  intros (Hv & Hm & Hp & Hi & Hs). unfold encode_argon.
  rewrite (msg_run_field _ argon_step_progress a0 (set_version a0 (a_version a)))
    by (first [apply field_varint_nonempty | apply argon_step_varint; [tauto|assumption]]).
  rewrite (msg_run_field _ argon_step_progress _ (set_mem (set_version a0 (a_version a)) (a_mem a)))
    by (first [apply field_varint_nonempty | apply argon_step_varint; [tauto|assumption]]).
  rewrite (msg_run_field _ argon_step_progress _ (set_it (set_mem (set_version a0 (a_version a)) (a_mem a)) (a_it a)))
    by (first [apply field_varint_nonempty | apply argon_step_varint; [tauto|assumption]]).
  rewrite (msg_run_field _ argon_step_progress _
             (set_par (set_it (set_mem (set_version a0 (a_version a)) (a_mem a)) (a_it a)) (a_par a)))
    by (first [apply field_varint_nonempty | apply argon_step_varint; [tauto|assumption]]).
  rewrite <- (app_nil_r (field_bytes 5 (a_salt a))).
  rewrite (msg_run_field _ argon_step_progress _
             (set_salt (set_par (set_it (set_mem (set_version a0 (a_version a)) (a_mem a)) (a_it a)) (a_par a)) (a_salt a)))
    by (first [apply field_bytes_nonempty | apply argon_step_salt; unfold two64, two32 in *; lia]).
  rewrite msg_run_nil. destruct a; reflexivity.
Qed.

Lemma encode_argon_length a : argon_wf a -> (length (encode_argon a) <= 100 + length (a_salt a))%nat.
Proof.
  intros (Hv & Hm & Hp & Hi & Hs). unfold encode_argon. rewrite !app_length.
  pose proof (field_varint_length 1 (a_version a)). pose proof (field_varint_length 2 (a_mem a)).
  pose proof (field_varint_length 3 (a_it a)). pose proof (field_varint_length 4 (a_par a)).
  pose proof (field_bytes_length 5 (a_salt a)).
  unfold kc_max_valid_number, two64, two32 in *. lia.
Qed.

Lemma parse_encode_meta alg a : kc_utf8_valid alg = true -> N.of_nat (length alg) < two32 -> argon_wf a ->
  msg_run meta_step meta0 (encode_meta alg a) = Some (mkMeta alg (Some a)).
Proof.
  intros Hu Hl Ha. unfold encode_meta.
  assert (S1 : meta_step meta0 (field_bytes 1 alg ++ field_bytes 2 (encode_argon a)) =
               Some (mkMeta alg None, field_bytes 2 (encode_argon a))).
  { unfold meta_step, field_bytes at 1. rewrite <- app_assoc.
    rewrite kc_tag_dec_enc by (unfold wt_bytes, kc_max_valid_number; first [lia | discriminate]).
    unfold kc_bytes, wt_bytes. rewrite bytes_dec_enc by (unfold two64, two32 in *; lia). now rewrite Hu. }
  rewrite (msg_run_field _ meta_step_progress _ _ _ _ (field_bytes_nonempty _ _) S1).
  pose proof (encode_argon_length a Ha) as L. destruct Ha as (Hv & Hm & Hp & Hi & Hs).
  assert (S2 : meta_step (mkMeta alg None) (field_bytes 2 (encode_argon a) ++ []) = Some (mkMeta alg (Some a), [])).
  { unfold meta_step, field_bytes. rewrite <- app_assoc.
    rewrite kc_tag_dec_enc by (unfold wt_bytes, kc_max_valid_number; first [lia | discriminate]).
    unfold kc_bytes, wt_bytes. rewrite bytes_dec_enc by (unfold two64, two32 in *; lia).
    cbn [m_argon m_alg]. rewrite parse_encode_argon by (repeat split; assumption). reflexivity. }
  rewrite <- (app_nil_r (field_bytes 2 (encode_argon a))).
  rewrite (msg_run_field _ meta_step_progress _ _ _ _ (field_bytes_nonempty _ _) S2). apply msg_run_nil.
Qed.

Lemma encode_meta_length alg a : N.of_nat (length alg) < two32 -> argon_wf a ->
  (length (encode_meta alg a) <= 200 + length alg + length (a_salt a))%nat.
Proof.
  intros Hl Ha. pose proof (encode_argon_length a Ha) as L. destruct Ha as (Hv & Hm & Hp & Hi & Hs).
  unfold encode_meta. rewrite !app_length.
  pose proof (field_bytes_length 1 alg). pose proof (field_bytes_length 2 (encode_argon a)).
  unfold kc_max_valid_number, two64, two32 in *. lia.
Qed.

(* the honest container reads back as exactly its fields *)
Lemma parse_encode_edata alg a blob : kc_utf8_valid alg = true -> N.of_nat (length alg) < two32 -> argon_wf a ->
  N.of_nat (length blob) < two32 ->
  parse_edata (encode_edata alg a blob) = Some (mkEData (Some (mkMeta alg (Some a))) blob).
Proof.
  intros Hu Hl Ha Hb. unfold parse_edata, encode_edata.
  pose proof (encode_meta_length alg a Hl Ha) as L. pose proof Ha as (Hv & Hm & Hp & Hi & Hs).
  destruct (field_bytes 1 (encode_meta alg a) ++ field_bytes 2 blob) eqn:E.
  { apply app_eq_nil in E as [E _]. now apply field_bytes_nonempty in E. }
  rewrite <- E. cbn [is_nil]. clear E.
  assert (S1 : edata_step edata0 (field_bytes 1 (encode_meta alg a) ++ field_bytes 2 blob) =
               Some (mkEData (Some (mkMeta alg (Some a))) [], field_bytes 2 blob)).
  { unfold edata_step, field_bytes at 1. rewrite <- app_assoc.
    rewrite kc_tag_dec_enc by (unfold wt_bytes, kc_max_valid_number; first [lia | discriminate]).
    unfold kc_bytes, wt_bytes. rewrite bytes_dec_enc by (unfold two64, two32 in *; lia).
    cbn [e_meta e_blob edata0]. now rewrite parse_encode_meta. }
  rewrite (msg_run_field _ edata_step_progress _ _ _ _ (field_bytes_nonempty _ _) S1).
  assert (S2 : edata_step (mkEData (Some (mkMeta alg (Some a))) []) (field_bytes 2 blob ++ []) =
               Some (mkEData (Some (mkMeta alg (Some a))) blob, [])).
  { unfold edata_step, field_bytes. rewrite <- app_assoc.
    rewrite kc_tag_dec_enc by (unfold wt_bytes, kc_max_valid_number; first [lia | discriminate]).
    unfold kc_bytes, wt_bytes. rewrite bytes_dec_enc by (unfold two64, two32 in *; lia). reflexivity. }
  rewrite <- (app_nil_r (field_bytes 2 blob)).
  rewrite (msg_run_field _ edata_step_progress _ _ _ _ (field_bytes_nonempty _ _) S2). apply msg_run_nil.
Qed.

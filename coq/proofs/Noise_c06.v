(* Lemmas for C06: completed handshakes agree on keys and indexes. *)
From Coq Require Import List NArith Lia Bool.
Import ListNotations.
From NV Require Import lib.Sym model.Noise model.Machine proofs.Noise_struct.
Open Scope N_scope.

#[local] Arguments dh : simpl never.
#[local] Arguments term_eqb : simpl never.
#[local] Arguments adec : simpl never.
#[local] Arguments N.add : simpl nomatch.
#[local] Arguments N.sub : simpl nomatch.
#[local] Arguments N.ltb : simpl nomatch.
#[local] Arguments N.leb : simpl nomatch.
#[local] Arguments N.eqb : simpl nomatch.

(* every credential of the node announces the public half of the node's private key *)
Definition honest_keys (c : config) : Prop := forall v cr, get_cred c v = Some cr -> cr_pub cr = Pub (c_spriv c).
(* one cipher and one curve in the network *)
Definition same_suite (cI cR : config) : Prop :=
  c_cipher cI = c_cipher cR /\
  forall v v' cr cr', get_cred cI v = Some cr -> get_cred cR v' = Some cr' -> cr_curve cr = cr_curve cr'.

Lemma write_too_long st e p : max_msg_len < p_len p -> hs_shouldWrite st = true -> snd (write_message st e (Pay p)) = WErr.
Proof.
  intros Hl Hs. unfold write_message. rewrite Hs. cbn [negb]. destruct (nth_error _ _); [|reflexivity].
  cbn [tlen]. apply N.ltb_lt in Hl. rewrite Hl. reflexivity.
Qed.

Theorem honest_agree cI cR vI vR rI rR p1 p2 :
  honest_keys cI -> honest_keys cR -> same_suite cI cR ->
  honest_exchange cI cR vI vR = Some (rI, rR, p1, p2) ->
  (* each side's sending key is the other side's receiving key, and differs from its own receiving key *)
  r_ekey rI = r_dkey rR /\ r_dkey rI = r_ekey rR /\ r_ekey rI <> None /\ r_dkey rI <> None /\
  r_ekey rI <> r_dkey rI /\ r_ekey rR <> r_dkey rR /\
  (* indexes: remote = the peer's local, local = what the own allocator returned, never zero *)
  r_remote_idx rI = r_local_idx rR /\ r_remote_idx rR = r_local_idx rI /\
  c_alloc cI = Some (r_local_idx rI) /\ c_alloc cR = Some (r_local_idx rR) /\
  r_local_idx rI <> 0 /\ r_local_idx rR <> 0 /\
  (* message counts *)
  r_msgidx rI = 2 /\ r_msgidx rR = 2 /\ r_initiator rI = true /\ r_initiator rR = false /\
  (* packet headers: message 1 carries index 0 and counter 1, message 2 the initiator's index and counter 2 *)
  pk_ri p1 = 0 /\ pk_ctr p1 = 1 /\ pk_ri p2 = r_local_idx rI /\ pk_ctr p2 = 2 /\
  (* each side reports a certificate recombined with the other's static key *)
  (exists b, r_remote_cert rI = Some (b, Pub (c_spriv cR))) /\ (exists b, r_remote_cert rR = Some (b, Pub (c_spriv cI))).
Proof.
  intros HkI HkR [Hci Hcv] Hrun. unfold honest_exchange, new_machine in Hrun.
  destruct (get_cred cI vI) as [crI|] eqn:HcI; [|discriminate].
  destruct (get_cred cR vR) as [crR|] eqn:HcR; [|discriminate].
  rewrite (HkI _ _ HcI), (HkR _ _ HcR), <- Hci, <- (Hcv _ _ _ _ HcI HcR) in Hrun.
  set (c := cr_curve crI) in *. set (ci := c_cipher cI) in *.
  (* Initiate *)
  unfold initiate in Hrun at 1. cbn [m_failed m_initiator m_res r_initiator negb m_hs init_hs hs_msgIdx] in Hrun.
  change (negb (0 =? 0)) with false in Hrun. cbn iota in Hrun.
  destruct (build_response _) as [[[mI1 pk1] k1]|] eqn:Hb1; [|discriminate].
  apply build_response_ok in Hb1. destruct Hb1 as (m1 & t1 & hs1 & out1 & Hm1 & Hw1 & -> & ->).
  rewrite my_flags_0 in Hm1 by reflexivity. cbn [fst snd] in Hm1. apply marshal_outgoing_ok in Hm1.
  destruct Hm1 as (cr & idxI & Hcr & Hidx & -> & ->). m_cbn. rewrite HcI in Hcr. injection Hcr as <-.
  match type of Hw1 with write_message _ _ (Pay ?p) = _ => set (pay1 := p) in * end.
  destruct (N.le_gt_cases (p_len pay1) 65535) as [Hl1|Hl1].
  2:{ pose proof (write_too_long (init_hs c ci (c_spriv cI) (Pub (c_spriv cI)) true ix_pattern) (c_eph cI) pay1 Hl1 eq_refl) as X.
      rewrite Hw1 in X. discriminate X. }
  rewrite ix_w1 in Hw1 by exact Hl1. injection Hw1 as <- <- <-.
  (* the responder processes message 1 *)
  destruct (process _ _) as [mR1 [|[pk2|] [rR'|]]] eqn:HpR in Hrun; try discriminate.
  apply process_done in HpR. destruct HpR as (hsr & msg & keys0 & m2 & _ & _ & Hrd & Hpp & Hfin).
  cbn [m_hs pk_body] in Hrd. rewrite ix_r1 in Hrd by exact Hl1. injection Hrd as <- <- <-.
  rewrite peer_flags_1 in Hpp by reflexivity. cbn [fst snd] in Hpp.
  apply process_payload_ok in Hpp. destruct Hpp as (p & rs & v' & Hmsg & Hrs & Hnz & Hacc & ->).
  injection Hmsg as <-. m_cbn. rewrite stR1_rs in Hrs. injection Hrs as <-.
  destruct Hfin as [(cs1 & cs2 & Hk & _)|(m3 & pkt & cs1 & cs2 & _ & Hb2 & Hpk & _ & _ & Hcomp)]; [discriminate Hk|].
  injection Hpk as <-.
  apply build_response_ok in Hb2. destruct Hb2 as (m1 & t2 & hs2 & out2 & Hm2 & Hw2 & -> & ->).
  rewrite my_flags_1 in Hm2 by reflexivity. cbn [fst snd] in Hm2.
  apply marshal_outgoing_ok in Hm2. destruct Hm2 as (crR2 & idxR & HcR2 & HidxR & -> & ->). m_cbn.
  match type of Hw2 with write_message _ _ (Pay ?p) = _ => set (pay2 := p) in * end.
  destruct (N.le_gt_cases (p_len pay2) 65535) as [Hl2|Hl2].
  2:{ pose proof (write_too_long (stR1 c ci (c_spriv cI) (c_spriv cR) (c_eph cI) pay1) (c_eph cR) pay2 Hl2 eq_refl) as X.
      rewrite Hw2 in X. discriminate X. }
  rewrite ix_w2 in Hw2 by assumption. injection Hw2 as <- <- <-.
  unfold completed in Hcomp. m_cbn. injection Hcomp as -> ->.
  (* the initiator processes message 2 *)
  destruct (process _ _) as [mI2 [|[pk3|] [rI'|]]] eqn:HpI in Hrun; try discriminate.
  injection Hrun as <- <- <- <-.
  apply process_done in HpI. destruct HpI as (hsi & msgi & keysi & mi2 & _ & _ & Hrd & Hpp & Hfin).
  cbn [m_hs set_hs pk_body] in Hrd. rewrite ix_r2 in Hrd by assumption. injection Hrd as <- <- <-.
  destruct Hfin as [(cs3 & cs4 & Hk & _ & _ & _ & Hcomp)|(m3 & pkt & cs3 & cs4 & Hk & _)]; [|discriminate Hk].
  injection Hk as <- <-.
  rewrite peer_flags_2 in Hpp by reflexivity. cbn [fst snd] in Hpp.
  apply process_payload_ok in Hpp. destruct Hpp as (p & rs & v'' & Hmsg & Hrs & Hnz2 & Hacc2 & ->).
  injection Hmsg as <-. m_cbn. rewrite stI2_rs in Hrs. injection Hrs as <-.
  unfold completed in Hcomp. m_cbn. injection Hcomp as _ ->. m_cbn. subst cs2.
  unfold pay2, pay1 in *. cbn [p_init_idx p_resp_idx] in *.
  repeat match goal with |- _ /\ _ => split end; try reflexivity; try assumption; try discriminate; try (intros [= ]; fail); eauto.
Qed.


(* ---- every suite and version combination completes (non-vacuity, by computation) ------------------------ *)

Module C06Ex.
  (* node k: private key k, certificate bytes 10k+1 (v1) / 10k+2 (v2) *)
  Definition cred_of (k ver curve : N) : cred := mkCred (10 * k + ver) ver curve (Pub k).
  (* has: 1 = v1 only, 2 = v2 only, 3 = both *)
  Definition node (k has curve cipher alloc eph : N) (peers : list (N * term)) : config :=
    mkCfg cipher 0
          (if (has =? 1) || (has =? 3) then Some (cred_of k 1 curve) else None)
          (if (has =? 2) || (has =? 3) then Some (cred_of k 2 curve) else None)
          k peers (Some alloc) 77 eph 200.
  Definition trust : list (N * term) := [(11, Pub 1); (12, Pub 1); (21, Pub 2); (22, Pub 2)].
  (* (has, default version) of a node *)
  Definition setups : list (N * N) := [(1, 1); (2, 2); (3, 1); (3, 2)].
  Definition agree (o : option (result * result * packet * packet)) : bool :=
    match o with
    | Some (rI, rR, p1, p2) =>
        match r_ekey rI, r_dkey rI, r_ekey rR, r_dkey rR with
        | Some a, Some b, Some c, Some d =>
            term_eqb a d && term_eqb b c && negb (term_eqb a b)
            && (r_remote_idx rI =? r_local_idx rR) && (r_remote_idx rR =? r_local_idx rI)
            && (r_msgidx rI =? 2) && (r_msgidx rR =? 2) && negb (r_local_idx rI =? 0) && negb (r_local_idx rR =? 0)
            && (pk_ri p2 =? r_local_idx rI)
        | _, _, _, _ => false
        end
    | None => false
    end.
  Definition all_combinations : bool :=
    forallb (fun curve => forallb (fun cipher => forallb (fun sI : N * N => forallb (fun sR : N * N =>
      agree (honest_exchange (node 1 (fst sI) curve cipher 4242 501 trust) (node 2 (fst sR) curve cipher 777 502 trust)
                             (snd sI) (snd sR)))
      setups) setups) [0; 1]) [0; 1].
  (* version negotiation: a responder holding both versions answers in the initiator's version *)
  Definition negotiated : bool :=
    match honest_exchange (node 1 2 0 0 5 501 trust) (node 2 3 0 0 6 502 trust) 2 1 with
    | Some (rI, rR, _, _) =>
        match r_remote_cert rI, r_mycert rR with
        | Some (b, _), Some b' => (b =? 22) && (b' =? 22)
        | _, _ => false
        end
    | None => false
    end.
  Lemma cfg_honest : honest_keys (node 1 3 0 0 5 501 trust) /\ honest_keys (node 2 3 0 0 6 502 trust) /\
                     same_suite (node 1 3 0 0 5 501 trust) (node 2 3 0 0 6 502 trust).
  Proof.
    unfold honest_keys, same_suite, get_cred. cbn.
    repeat split; intros; repeat match goal with H : (if ?c then _ else _) = Some _ |- _ => destruct c end;
      repeat match goal with H : Some _ = Some _ |- _ => injection H as <- | H : None = Some _ |- _ => discriminate H end; reflexivity.
  Qed.
End C06Ex.

(* Types shared by the generated table gen/Tab_Outside.v, the model and the proofs of C14: the abstract
   features of one underlay datagram that readOutsidePackets / handleOutsideRelayPacket / handleRecvError
   (outside.go) read, effect sets as bit masks, boolean equalities, association lookup. *)
From Coq Require Import List NArith Bool Lia.
Import ListNotations.
Open Scope N_scope.

(* how the datagram reached readOutsidePackets *)
Inductive via :=
| VDirect     (* from the UDP socket, source address outside my overlay networks *)
| VVpn        (* from the UDP socket, source address INSIDE my overlay networks *)
| VRelayed.   (* payload of a verified packet on a terminal relay record (ViaSender.IsRelayed) *)

(* Message/Relay packets: the relay record the index names *)
Inductive relrec :=
| RNA
| RTerm       (* Relay.Type = TerminalType: I am the end of the relay *)
| RFwdEst     (* ForwardingType and the record towards the target is Established *)
| RFwdDown.   (* ForwardingType, record towards the target Requested / PeerRequested / Disestablished *)

(* recv_error packets: the source address against the tunnel's current underlay remote *)
Inductive rmatch :=
| MNA
| MMatch      (* the tunnel has a direct remote and the source equals it *)
| MDiffer     (* the tunnel has a direct remote and the source differs *)
| MInvalid.   (* the tunnel has no direct remote (relayed only) *)

Record row := mkRow {
  r_ty : N;          (* header type nibble, 0..15 *)
  r_st : N;          (* header subtype: 0, 1, or 2 standing for every value >= 2 *)
  r_ver : bool;      (* header version = 1 *)
  r_via : via;
  r_cfgS : bool;     (* listen.send_recv_error permits the source endpoint *)
  r_cfgA : bool;     (* listen.accept_recv_error permits the source endpoint *)
  r_idx : bool;      (* the header index resolves: HostMap.Indexes (with a ConnectionState); HostMap.Relays for
                        Message/Relay; HostMap.RemoteIndexes for RecvError *)
  r_full : bool;     (* length >= 16 + AEAD overhead *)
  r_auth : bool;     (* the AEAD tag verifies under the receive key of the tunnel the index resolves to, with the
                        16 header bytes (the whole body for Message/Relay) as associated data and the counter as nonce *)
  r_fresh : bool;    (* the replay window of that tunnel accepts the counter *)
  r_rel : relrec;
  r_rm : rmatch
}.

Definition via_eqb (a b : via) : bool :=
  match a, b with VDirect, VDirect | VVpn, VVpn | VRelayed, VRelayed => true | _, _ => false end.
Definition rel_eqb (a b : relrec) : bool :=
  match a, b with RNA, RNA | RTerm, RTerm | RFwdEst, RFwdEst | RFwdDown, RFwdDown => true | _, _ => false end.
Definition rm_eqb (a b : rmatch) : bool :=
  match a, b with MNA, MNA | MMatch, MMatch | MDiffer, MDiffer | MInvalid, MInvalid => true | _, _ => false end.

Definition row_eqb (a b : row) : bool :=
  (r_ty a =? r_ty b) && (r_st a =? r_st b) && eqb (r_ver a) (r_ver b) && via_eqb (r_via a) (r_via b) &&
  eqb (r_cfgS a) (r_cfgS b) && eqb (r_cfgA a) (r_cfgA b) && eqb (r_idx a) (r_idx b) && eqb (r_full a) (r_full b) &&
  eqb (r_auth a) (r_auth b) && eqb (r_fresh a) (r_fresh b) && rel_eqb (r_rel a) (r_rel b) && rm_eqb (r_rm a) (r_rm b).

Lemma via_eqb_eq a b : via_eqb a b = true <-> a = b.
Proof. destruct a, b; cbn; split; congruence. Qed.
Lemma rel_eqb_eq a b : rel_eqb a b = true <-> a = b.
Proof. destruct a, b; cbn; split; congruence. Qed.
Lemma rm_eqb_eq a b : rm_eqb a b = true <-> a = b.
Proof. destruct a, b; cbn; split; congruence. Qed.

Lemma row_eqb_eq a b : row_eqb a b = true <-> a = b.
Proof.
  destruct a, b; unfold row_eqb; cbn [r_ty r_st r_ver r_via r_cfgS r_cfgA r_idx r_full r_auth r_fresh r_rel r_rm].
  rewrite !andb_true_iff, !N.eqb_eq, !eqb_true_iff, via_eqb_eq, rel_eqb_eq, rm_eqb_eq. split.
  - intros [[[[[[[[[[[? ?] ?] ?] ?] ?] ?] ?] ?] ?] ?] ?]. subst. reflexivity.
  - intros E. inversion E. subst. repeat split; reflexivity.
Qed.

Lemma row_eqb_refl a : row_eqb a a = true.
Proof. now apply row_eqb_eq. Qed.

(* ---- effects: bit numbers of the masks in the generated table ------------------------------------- *)

Definition e_deliver : N := 0.   (* a packet was written to the tun *)
Definition e_close : N := 1.     (* a tunnel left the hostmap *)
Definition e_roam : N := 2.      (* a tunnel's underlay remote changed *)
Definition e_live : N := 3.      (* inbound-traffic flag of a tunnel / relay-used mark set (connectionManager.In, RelayUsed) *)
Definition e_win : N := 4.       (* a replay window advanced *)
Definition e_lh : N := 5.        (* lighthouse cache (reported addresses, relays) changed or a lighthouse message was sent *)
Definition e_ctl : N := 6.       (* relay state changed or a relay control message was sent *)
Definition e_fwd : N := 7.       (* the relayed payload was forwarded to the relay target *)
Definition e_recverr : N := 8.   (* a recv_error was sent back *)
Definition e_hs : N := 9.        (* handshake manager acted: tunnel / pending handshake created, handshake packet sent *)
Definition e_reply : N := 10.    (* a test reply was sent *)
Definition e_unwrap : N := 11.   (* the payload of a relay packet was processed as a packet of its own *)
Definition e_other : N := 12.    (* anything else moved *)

Definition has (e m : N) : bool := N.testbit m e.
Definition bit (e : N) : N := 2 ^ e.
Definition mask_of (es : list N) : N := fold_right (fun e acc => N.lor (bit e) acc) 0 es.
(* every effect of m is one of allowed *)
Definition subset (m allowed : N) : bool := N.ldiff m allowed =? 0.

Lemma subset_has m a e : subset m a = true -> has e m = true -> has e a = true.
Proof.
  unfold subset, has. intros H Hm. apply N.eqb_eq in H.
  assert (T : N.testbit (N.ldiff m a) e = false) by (rewrite H; apply N.bits_0).
  rewrite N.ldiff_spec, Hm in T. cbn in T. now apply negb_false_iff in T.
Qed.

Lemma has_bit e k : has e (bit k) = true -> e = k.
Proof. unfold has, bit. rewrite N.pow2_bits_eqb. intros H. apply N.eqb_eq in H. now subst. Qed.

Lemma has_lor e a b : has e (N.lor a b) = has e a || has e b.
Proof. unfold has. apply N.lor_spec. Qed.

Lemma has_0 e : has e 0 = false.
Proof. unfold has. apply N.bits_0. Qed.

Lemma has_mask_of e es : has e (mask_of es) = true -> In e es.
Proof.
  induction es as [|k es IH]; cbn [mask_of fold_right].
  - rewrite has_0. discriminate.
  - rewrite has_lor. intros H. apply orb_true_iff in H as [H|H].
    + left. symmetry. now apply has_bit.
    + right. now apply IH.
Qed.

(* ---- association lookup ------------------------------------------------------------------------------ *)

Fixpoint lookup {V : Type} (k : row) (l : list (row * V)) : option V :=
  match l with
  | [] => None
  | (k', v) :: r => if row_eqb k k' then Some v else lookup k r
  end.

Lemma lookup_in {V} k (l : list (row * V)) v : lookup k l = Some v -> In (k, v) l.
Proof.
  induction l as [|[k' v'] l IH]; cbn; [discriminate|].
  destruct (row_eqb k k') eqn:E.
  - intros H. inversion H; subst. apply row_eqb_eq in E. subst. now left.
  - intros H. right. now apply IH.
Qed.

Lemma lookup_some {V} k (l : list (row * V)) : In k (map fst l) -> exists v, lookup k l = Some v.
Proof.
  induction l as [|[k' v'] l IH]; cbn; [intros []|].
  intros [E|H].
  - subst. rewrite row_eqb_refl. eauto.
  - destruct (row_eqb k k'); eauto.
Qed.

(* a boolean property of every entry of a table, checked by evaluation, used through lookup *)
Lemma lookup_forallb {V} (P : row -> V -> bool) (l : list (row * V)) :
  forallb (fun kv => P (fst kv) (snd kv)) l = true ->
  forall k v, lookup k l = Some v -> P k v = true.
Proof.
  intros H k v L. apply lookup_in in L. rewrite forallb_forall in H. exact (H (k, v) L).
Qed.

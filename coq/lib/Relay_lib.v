(* Types shared by the generated relay control tables (gen/Tab_Relay.v), the model (model/Relay.v) and the
   proofs for property C39: relay record states / types, the abstract features the two control-message
   handlers of /repo/relay_manager.go read, what they do in property-level terms, boolean equalities,
   association maps, and the complete enumeration of the finite feature spaces. *)
From Coq Require Import List NArith Bool.
Import ListNotations.
Open Scope N_scope.

(* Relay.State (hostmap.go: Requested, PeerRequested, Established, Disestablished) *)
Inductive rstate := SReq | SPeerReq | SEst | SDis.
(* Relay.Type (ForwardingType, TerminalType); AddRelay is never called with another value *)
Inductive rtype := TFwd | TTerm.

(* encoding of the incoming control message together with the one address-family fact the handlers read:
   EV1six = version-1 encoding while the first overlay address of the tunnel whose address would be put
   into the outgoing message is not IPv4 (request: the tunnel the message arrived on; response: the tunnel
   of the relay record's peer) *)
Inductive encf := EV2 | EV1 | EV1six.

(* ---- what handleCreateRelayRequest reads ---------------------------------------------------- *)
Record qrow := mkQ {
  q_enc : encf;
  q_am : bool;                              (* relay.am_relay *)
  q_from_me : bool;                         (* RelayFromAddr is one of my addresses *)
  q_tgt_me : bool;                          (* RelayToAddr is one of my addresses *)
  q_ex : option (rstate * bool);            (* the arrival tunnel's record for the other end (target-is-me: keyed by the
                                               from address; otherwise keyed by the target address): its state and whether its
                                               stored remote index equals the message's InitiatorRelayIndex *)
  q_peer : option (bool * option rstate)    (* primary tunnel of the target address: None = unknown; remote valid; state of
                                               its record for the from address *)
}.

(* ---- what handleCreateRelayResponse reads --------------------------------------------------- *)
Record xrow := mkX {
  x_enc : encf;
  x_rec : option (rtype * rstate * bool);   (* the arrival tunnel's record under InitiatorRelayIndex: type, state, stored
                                               remote index = ResponderRelayIndex *)
  x_peer : option (option rstate)           (* primary tunnel of that record's PeerAddr: None = unknown; state of its record
                                               for RelayToAddr, read after the arrival tunnel's record was completed *)
}.

(* ---- what a handler does --------------------------------------------------------------------- *)
(* to the arrival tunnel's record (key as for q_ex / x_rec) *)
Inductive hact := HNone
                | HSet (s : rstate)               (* state only *)
                | HComplete                       (* state := Established, remote index := the message's index *)
                | HCreate (t : rtype) (s : rstate). (* AddRelay with remote index := InitiatorRelayIndex *)
(* to the other tunnel's record (request: target's primary, keyed by the from address; response: the record's
   peer's primary, keyed by RelayToAddr) *)
Inductive pact := PNone | PSet (s : rstate) | PCreate (t : rtype) (s : rstate).  (* PCreate: AddRelay without remote index *)
(* control message written: none / to the arrival tunnel / to the other tunnel *)
Inductive sact := SNone | SToH | SToP.

Record act := mkA { a_h : hact; a_p : pact; a_s : sact; a_hs : bool (* a handshake to the target address was started *) }.

(* ---- boolean equalities ---------------------------------------------------------------------- *)
Definition rstate_eqb (a b : rstate) : bool :=
  match a, b with SReq, SReq | SPeerReq, SPeerReq | SEst, SEst | SDis, SDis => true | _, _ => false end.
Definition rtype_eqb (a b : rtype) : bool := match a, b with TFwd, TFwd | TTerm, TTerm => true | _, _ => false end.
Definition encf_eqb (a b : encf) : bool := match a, b with EV2, EV2 | EV1, EV1 | EV1six, EV1six => true | _, _ => false end.

Definition opt_eqb {A} (e : A -> A -> bool) (a b : option A) : bool :=
  match a, b with None, None => true | Some x, Some y => e x y | _, _ => false end.
Definition pair_eqb {A B} (ea : A -> A -> bool) (eb : B -> B -> bool) (a b : A * B) : bool :=
  ea (fst a) (fst b) && eb (snd a) (snd b).

Definition qrow_eqb (a b : qrow) : bool :=
  encf_eqb (q_enc a) (q_enc b) && eqb (q_am a) (q_am b) && eqb (q_from_me a) (q_from_me b) && eqb (q_tgt_me a) (q_tgt_me b) &&
  opt_eqb (pair_eqb rstate_eqb eqb) (q_ex a) (q_ex b) &&
  opt_eqb (pair_eqb eqb (opt_eqb rstate_eqb)) (q_peer a) (q_peer b).
Definition xrow_eqb (a b : xrow) : bool :=
  encf_eqb (x_enc a) (x_enc b) &&
  opt_eqb (pair_eqb (pair_eqb rtype_eqb rstate_eqb) eqb) (x_rec a) (x_rec b) &&
  opt_eqb (opt_eqb rstate_eqb) (x_peer a) (x_peer b).

Definition hact_eqb (a b : hact) : bool :=
  match a, b with
  | HNone, HNone | HComplete, HComplete => true
  | HSet s, HSet s' => rstate_eqb s s'
  | HCreate t s, HCreate t' s' => rtype_eqb t t' && rstate_eqb s s'
  | _, _ => false
  end.
Definition pact_eqb (a b : pact) : bool :=
  match a, b with
  | PNone, PNone => true
  | PSet s, PSet s' => rstate_eqb s s'
  | PCreate t s, PCreate t' s' => rtype_eqb t t' && rstate_eqb s s'
  | _, _ => false
  end.
Definition sact_eqb (a b : sact) : bool := match a, b with SNone, SNone | SToH, SToH | SToP, SToP => true | _, _ => false end.
Definition act_eqb (a b : act) : bool :=
  hact_eqb (a_h a) (a_h b) && pact_eqb (a_p a) (a_p b) && sact_eqb (a_s a) (a_s b) && eqb (a_hs a) (a_hs b).

Fixpoint assoc {K V} (e : K -> K -> bool) (k : K) (l : list (K * V)) : option V :=
  match l with
  | [] => None
  | (k', v) :: r => if e k k' then Some v else assoc e k r
  end.

(* ---- the complete feature spaces -------------------------------------------------------------- *)
Definition all_bool : list bool := [false; true].
Definition all_rstate : list rstate := [SReq; SPeerReq; SEst; SDis].
Definition all_rtype : list rtype := [TFwd; TTerm].
Definition all_encf : list encf := [EV2; EV1; EV1six].
Definition all_opt {A} (l : list A) : list (option A) := None :: map Some l.
Definition all_pair {A B} (la : list A) (lb : list B) : list (A * B) := flat_map (fun a => map (pair a) lb) la.

Definition all_qex : list (option (rstate * bool)) := all_opt (all_pair all_rstate all_bool).
Definition all_qpeer : list (option (bool * option rstate)) := all_opt (all_pair all_bool (all_opt all_rstate)).
Definition all_qrows : list qrow :=
  flat_map (fun e => flat_map (fun am => flat_map (fun fm => flat_map (fun tm => flat_map (fun ex =>
    map (fun p => mkQ e am fm tm ex p) all_qpeer) all_qex) all_bool) all_bool) all_bool) all_encf.

Definition all_xrec : list (option (rtype * rstate * bool)) := all_opt (all_pair (all_pair all_rtype all_rstate) all_bool).
Definition all_xpeer : list (option (option rstate)) := all_opt (all_opt all_rstate).
(* a response row can occur only if: no record => no peer looked up; v1 with a non-IPv4 peer => there is a peer *)
Definition xfeasible (r : xrow) : bool :=
  match x_rec r with None => match x_peer r with None => true | Some _ => false end | Some _ => true end &&
  match x_enc r with EV1six => match x_peer r with None => false | Some _ => true end | _ => true end.
Definition all_xrows : list xrow :=
  filter xfeasible (flat_map (fun e => flat_map (fun rc => map (fun p => mkX e rc p) all_xpeer) all_xrec) all_encf).

(* ---- association maps keyed by N (Go maps; kept sorted by key so that dumps are canonical) ----- *)
Definition amap (V : Type) := list (N * V).

Fixpoint mget {V} (k : N) (m : amap V) : option V :=
  match m with
  | [] => None
  | (k', v) :: r => if k =? k' then Some v else mget k r
  end.

Fixpoint mset {V} (k : N) (v : V) (m : amap V) : amap V :=
  match m with
  | [] => [(k, v)]
  | (k', v') :: r =>
      if k <? k' then (k, v) :: (k', v') :: r
      else if k =? k' then (k, v) :: r
      else (k', v') :: mset k v r
  end.

Fixpoint mdel {V} (k : N) (m : amap V) : amap V :=
  match m with
  | [] => []
  | (k', v) :: r => if k =? k' then mdel k r else (k', v) :: mdel k r
  end.

Definition memN (x : N) (l : list N) : bool := existsb (N.eqb x) l.

(* slices.Index + slices.Delete: the first occurrence only *)
Fixpoint remove_first (x : N) (l : list N) : list N :=
  match l with
  | [] => []
  | y :: r => if x =? y then r else y :: remove_first x r
  end.

Definition is_some {A} (o : option A) : bool := match o with Some _ => true | None => false end.
Definition optN_is (o : option N) (h : N) : bool := match o with Some x => x =? h | None => false end.

(* Helpers for C43 (model/KeyCrypt.v): how google.golang.org/protobuf's table-driven unmarshal
   (internal/impl/decode.go, unmarshalPointerEager) walks the fields of a message, on top of lib/Proto.v;
   unicode/utf8.Valid; and progress lemmas (every field consumes at least one byte). *)
From Coq Require Import List NArith Bool Lia.
Import ListNotations.
From NV Require Import lib.Bytes lib.Proto.
Open Scope N_scope.

Notation "'let?' p ':=' c 'in' k" := (match c with Some p => k | None => None end)
  (at level 200, p pattern, c at level 100, k at level 200, only parsing).

Definition kc_max_valid_number : N := 536870911.   (* protowire.MaxValidNumber = 1<<29 - 1 *)

(* the tag at the head of every field: number in 1 .. 2^29-1; an end-group tag outside a group is an error *)
Definition kc_tag_dec (b : list N) : option (N * N * list N) :=
  let? (v, r) := varint_dec b in
  let num := v / 8 in
  if (1 <=? num) && (num <=? kc_max_valid_number) && negb (v mod 8 =? 4) then Some (num, v mod 8, r) else None.

(* a field the message does not know, or a known number with another wire type: protowire.ConsumeFieldValue *)
Definition kc_unknown {St} (st : St) (num typ : N) (b : list N) : option (St * list N) :=
  let? r := skip_field_pw num typ b in Some (st, r).
Definition kc_bytes {St} (b : list N) (k : list N -> option St) : option (St * list N) :=
  let? (v, r) := bytes_dec b in let? st := k v in Some (st, r).
Definition kc_varint {St} (b : list N) (k : N -> St) : option (St * list N) :=
  let? (v, r) := varint_dec b in Some (k v, r).

(* unicode/utf8.Valid *)
Definition kc_cont (b : N) : bool := (128 <=? b) && (b <=? 191).
Fixpoint kc_utf8_valid (s : list N) : bool :=
  match s with
  | [] => true
  | b0 :: r =>
      if b0 <? 128 then kc_utf8_valid r
      else match r with
      | [] => false
      | b1 :: r1 =>
          if (194 <=? b0) && (b0 <=? 223) then kc_cont b1 && kc_utf8_valid r1
          else match r1 with
          | [] => false
          | b2 :: r2 =>
              if b0 =? 224 then (160 <=? b1) && (b1 <=? 191) && kc_cont b2 && kc_utf8_valid r2
              else if ((225 <=? b0) && (b0 <=? 236)) || (b0 =? 238) || (b0 =? 239) then kc_cont b1 && kc_cont b2 && kc_utf8_valid r2
              else if b0 =? 237 then (128 <=? b1) && (b1 <=? 159) && kc_cont b2 && kc_utf8_valid r2
              else match r2 with
              | [] => false
              | b3 :: r3 =>
                  if b0 =? 240 then (144 <=? b1) && (b1 <=? 191) && kc_cont b2 && kc_cont b3 && kc_utf8_valid r3
                  else if (241 <=? b0) && (b0 <=? 243) then kc_cont b1 && kc_cont b2 && kc_cont b3 && kc_utf8_valid r3
                  else if b0 =? 244 then (128 <=? b1) && (b1 <=? 143) && kc_cont b2 && kc_cont b3 && kc_utf8_valid r3
                  else false
              end
          end
      end
  end.

(* ---- progress ------------------------------------------------------------------------------------- *)

Lemma kc_varint_dec_shorter b v r : varint_dec b = Some (v, r) -> (length r < length b)%nat.
Proof.
  intros E. destruct (varint_dec_progress _ _ _ E) as [(p & Hb & Hp) _]. subst b. rewrite app_length. lia.
Qed.

Lemma kc_bytes_dec_shorter b v r : bytes_dec b = Some (v, r) -> (length r < length b)%nat.
Proof.
  intros E. destruct (bytes_dec_progress _ _ _ E) as (p & Hb & Hp). subst b. rewrite !app_length. lia.
Qed.

Lemma kc_tag_dec_progress b num typ r : kc_tag_dec b = Some (num, typ, r) -> (length r < length b)%nat.
Proof.
  unfold kc_tag_dec. destruct (varint_dec b) as [[v r']|] eqn:E; [|discriminate].
  destruct ((1 <=? v / 8) && (v / 8 <=? kc_max_valid_number) && negb (v mod 8 =? 4)); [|discriminate].
  intros H. inversion H; subst. exact (kc_varint_dec_shorter _ _ _ E).
Qed.

Lemma kc_unknown_shorter {St} (st st' : St) num typ b r : kc_unknown st num typ b = Some (st', r) -> (length r <= length b)%nat.
Proof.
  unfold kc_unknown. destruct (skip_field_pw num typ b) as [r'|] eqn:E; [|discriminate].
  intros H. inversion H; subst. exact (skip_field_pw_shorter _ _ _ _ E).
Qed.

Lemma kc_bytes_shorter {St} b (k : list N -> option St) st r : kc_bytes b k = Some (st, r) -> (length r <= length b)%nat.
Proof.
  unfold kc_bytes. destruct (bytes_dec b) as [[v r']|] eqn:E; [|discriminate].
  destruct (k v); [|discriminate]. intros H. inversion H; subst.
  pose proof (kc_bytes_dec_shorter _ _ _ E). lia.
Qed.

Lemma kc_varint_shorter {St} b (k : N -> St) st r : kc_varint b k = Some (st, r) -> (length r <= length b)%nat.
Proof.
  unfold kc_varint. destruct (varint_dec b) as [[v r']|] eqn:E; [|discriminate].
  intros H. inversion H; subst. pose proof (kc_varint_dec_shorter _ _ _ E). lia.
Qed.

(* ---- the fields an honest encoder writes are read back -------------------------------------------- *)

Lemma kc_tag_dec_enc num typ rest : 1 <= num -> num <= kc_max_valid_number -> typ < 8 -> typ <> 4 ->
  kc_tag_dec (tag_enc num typ ++ rest) = Some (num, typ, rest).
Proof.
  intros H1 H2 H3 H4. unfold kc_tag_dec, tag_enc, kc_max_valid_number in *.
  rewrite varint_dec_enc by (unfold two64; lia).
  rewrite tag_div, tag_mod by assumption.
  replace (1 <=? num) with true by (symmetry; apply N.leb_le; lia).
  replace (num <=? 536870911) with true by (symmetry; apply N.leb_le; lia).
  replace (typ =? 4) with false by (symmetry; apply N.eqb_neq; assumption). reflexivity.
Qed.

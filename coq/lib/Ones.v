(* Ones: RFC 1071 one's-complement (Internet checksum) arithmetic over byte lists ([list N], bytes < 256).

   Overview (names are stable; new lemmas are only ever added):

     sum16 l            sum of the big-endian 16-bit words of l, an odd tail byte padded with a zero LOW byte
     sum16le l          the same with little-endian words (odd tail byte is the low byte)
     fold16 x           canonical end-around-carry fold: 0 for x = 0, otherwise the representative of
                        x modulo 65535 in [1, 65535]
     fold_step x        one `(x & 0xffff) + (x >> 16)` step;  fold_loop fuel x  = `for x>>16 != 0 { step }`
     fold32_step x      one `(x & 0xffffffff) + (x >> 32)` step
     reduce64 x         the four-stage 64 -> 16 fold of gvisor's reduce() / the AVX2 routine
     swap16 v           byte swap of a 16-bit value
     cpl16 v            ^v on uint16 (65535 - v)
     osum l init        fold16 (init + sum16 l): what checksum.Checksum(l, init) returns (NOT complemented)
     csum16 l init      cpl16 (osum l init): the value stored in a checksum field
     valid_csum l       fold16 (sum16 l) = 65535   (valid_csumb: boolean form)
     eac M a b          end-around-carry add on an accumulator of modulus M (ADD; ADC $0)
     fold_cpl32 sum     ^uint16(two fold steps of a uint32 sum)   (foldComplement)
     fold_loop_cpl sum  ^uint16(fold loop of a uint32 sum)        (ipv4HdrChecksum, tcpipChecksum)
     udp_fix c          UDP: a computed 0 is transmitted as 0xffff

   Main lemmas: fold16_mod, fold16_0_iff, fold16_le, fold16_unique, fold16_eq_iff, fold16_add_*,
   fold_step_fold16, fold_step2_32, fold_loop_32, fold_loop_64, reduce64_fold16,
   sum16_app (even length), sum16_app_odd, sum16_cons, sum16le_mod (byte order), swap16_fold16_256,
   swap16_fold16, csum_insert_valid, valid_csum_field_iff, fold16_update (RFC 1624), eac_* . *)
From Coq Require Import List NArith ZArith Lia Bool ZifyN ZifyNat ZifyBool.
Import ListNotations.
From NV Require Import lib.Bytes.
Open Scope N_scope.
Local Ltac Zify.zify_post_hook ::= Z.div_mod_to_equations.

(* ---------------------------------------------------------------------------------------------- *)
(** * Definitions *)

Fixpoint sum16 (l : list N) : N :=
  match l with
  | [] => 0
  | [a] => a * 256
  | a :: b :: r => a * 256 + b + sum16 r
  end.

Fixpoint sum16le (l : list N) : N :=
  match l with
  | [] => 0
  | [a] => a
  | a :: b :: r => a + b * 256 + sum16le r
  end.

Definition fold16 (x : N) : N := if x =? 0 then 0 else (x - 1) mod 65535 + 1.

Definition fold_step (x : N) : N := x mod 65536 + x / 65536.
Definition fold32_step (x : N) : N := x mod 4294967296 + x / 4294967296.

(* `for sum>>16 != 0 { sum = (sum & 0xffff) + (sum >> 16) }` *)
Fixpoint fold_loop (fuel : nat) (x : N) : N :=
  match fuel with
  | O => x
  | S f => if x / 65536 =? 0 then x else fold_loop f (fold_step x)
  end.

(* gvisor reduce(acc uint64) uint16, and the identical `fold:` block of checksum_amd64.s:
     acc   = (acc >> 32) + (acc & 0xffff_ffff)
     acc32 = uint32(acc>>32 + acc)
     acc32 = (acc32 >> 16) + (acc32 & 0xffff)
     return uint16(acc32>>16 + acc32)                                                             *)
Definition reduce64 (acc : N) : N :=
  let a1 := fold32_step acc in
  let a2 := w32 (a1 / 4294967296 + a1) in
  let a3 := fold_step a2 in
  w16 (a3 / 65536 + a3).

Definition swap16 (v : N) : N := (v mod 256) * 256 + (v / 256) mod 256.
Definition cpl16 (v : N) : N := 65535 - v.

Definition osum (l : list N) (init : N) : N := fold16 (init + sum16 l).
Definition csum16 (l : list N) (init : N) : N := cpl16 (osum l init).

Definition valid_csum (region : list N) : Prop := fold16 (sum16 region) = 65535.
Definition valid_csumb (region : list N) : bool := fold16 (sum16 region) =? 65535.

(* a 16-bit value as two big-endian bytes *)
Definition be16_bytes (v : N) : list N := [(v / 256) mod 256; v mod 256].

(* end-around-carry add on an accumulator of modulus M (M = 2^32 or 2^64): ADD then ADC $0 *)
Definition eac (M a b : N) : N := if a + b <? M then a + b else a + b - M + 1.

(* ---------------------------------------------------------------------------------------------- *)
(** * fold16 *)

Lemma fold16_0 : fold16 0 = 0.
Proof. reflexivity. Qed.

Lemma fold16_le x : fold16 x <= 65535.
Proof. unfold fold16. destruct (N.eqb_spec x 0); lia. Qed.

Lemma fold16_lt x : fold16 x < 65536.
Proof. pose proof (fold16_le x). lia. Qed.

Lemma fold16_0_iff x : fold16 x = 0 <-> x = 0.
Proof. unfold fold16. destruct (N.eqb_spec x 0); lia. Qed.

Lemma fold16_pos x : x <> 0 -> 1 <= fold16 x.
Proof. intros H. pose proof (fold16_0_iff x). lia. Qed.

Lemma fold16_mod x : fold16 x mod 65535 = x mod 65535.
Proof. unfold fold16. destruct (N.eqb_spec x 0); [subst; reflexivity|lia]. Qed.

Lemma fold16_small x : x <= 65535 -> fold16 x = x.
Proof. intros H. unfold fold16. destruct (N.eqb_spec x 0); lia. Qed.

(* fold16 x is THE value r <= 65535 congruent to x that is zero exactly when x is *)
Lemma fold16_unique x r :
  r <= 65535 -> r mod 65535 = x mod 65535 -> (r = 0 <-> x = 0) -> r = fold16 x.
Proof. intros Hr Hm Hz. unfold fold16. destruct (N.eqb_spec x 0); lia. Qed.

Lemma fold16_eq_iff a b :
  fold16 a = fold16 b <-> (a mod 65535 = b mod 65535 /\ (a = 0 <-> b = 0)).
Proof.
  split.
  - intros E. split.
    + rewrite <- (fold16_mod a), <- (fold16_mod b), E. reflexivity.
    + rewrite <- (fold16_0_iff a), <- (fold16_0_iff b), E. tauto.
  - intros [Hm Hz]. apply fold16_unique.
    + apply fold16_le.
    + rewrite fold16_mod. exact Hm.
    + rewrite fold16_0_iff. exact Hz.
Qed.

Lemma fold16_idem x : fold16 (fold16 x) = fold16 x.
Proof. apply fold16_small, fold16_le. Qed.

Lemma fold16_add_l a b : fold16 (fold16 a + b) = fold16 (a + b).
Proof.
  apply fold16_eq_iff. split.
  - pose proof (fold16_mod a). lia.
  - pose proof (fold16_0_iff a). lia.
Qed.

Lemma fold16_add_r a b : fold16 (a + fold16 b) = fold16 (a + b).
Proof. rewrite (N.add_comm a), fold16_add_l. f_equal. lia. Qed.

Lemma fold16_add a b : fold16 (fold16 a + fold16 b) = fold16 (a + b).
Proof. rewrite fold16_add_l, fold16_add_r. reflexivity. Qed.

(* a non-zero multiple of 65535 folds to 0xffff *)
Lemma fold16_ffff_iff x : fold16 x = 65535 <-> (x <> 0 /\ x mod 65535 = 0).
Proof. unfold fold16. destruct (N.eqb_spec x 0); lia. Qed.

Lemma fold16_65535 : fold16 65535 = 65535.
Proof. reflexivity. Qed.

(* congruent non-zero sums fold alike *)
Lemma fold16_cong a b : a mod 65535 = b mod 65535 -> a <> 0 -> b <> 0 -> fold16 a = fold16 b.
Proof. intros. apply fold16_eq_iff. split; [assumption|lia]. Qed.

(* 2^16 = 1 (mod 65535): the high half may be added to the low half *)
Lemma fold16_split k a b : fold16 (a + 65536 * b) = fold16 (a + b) /\ fold16 (a + 65535 * k + b) mod 65535 = (a + b) mod 65535.
Proof.
  split.
  - apply fold16_eq_iff. split; lia.
  - rewrite fold16_mod. lia.
Qed.

(* ---------------------------------------------------------------------------------------------- *)
(** * the iterative folds used by real code *)

Lemma fold_step_bits x : N.land x 65535 + N.shiftr x 16 = fold_step x.
Proof.
  unfold fold_step. change 65535 with (N.ones 16). rewrite N.land_ones, N.shiftr_div_pow2. reflexivity.
Qed.

Lemma fold32_step_bits x : N.land x 4294967295 + N.shiftr x 32 = fold32_step x.
Proof.
  unfold fold32_step. change 4294967295 with (N.ones 32). rewrite N.land_ones, N.shiftr_div_pow2. reflexivity.
Qed.

Lemma fold_step_fold16 x : fold16 (fold_step x) = fold16 x.
Proof. unfold fold_step. apply fold16_eq_iff. split; lia. Qed.

Lemma fold32_step_fold16 x : fold16 (fold32_step x) = fold16 x.
Proof. unfold fold32_step. apply fold16_eq_iff. split; lia. Qed.

Lemma fold_step_le x : fold_step x <= x.
Proof. unfold fold_step. lia. Qed.

Lemma fold_step_bound x B : x < 65536 * B -> fold_step x <= 65535 + (B - 1).
Proof. unfold fold_step. lia. Qed.

(* the unconditional two-step fold of a uint32 accumulator (foldComplement) *)
Lemma fold_step2_32 x : x < 4294967296 -> fold_step (fold_step x) = fold16 x.
Proof.
  intros H. apply fold16_unique.
  - unfold fold_step. lia.
  - rewrite <- (fold16_mod x), <- (fold_step_fold16 x), <- (fold_step_fold16 (fold_step x)), fold16_mod.
    reflexivity.
  - unfold fold_step. lia.
Qed.

Lemma fold_step2_32_lt x : x < 4294967296 -> fold_step (fold_step x) < 65536.
Proof. intros H. rewrite fold_step2_32 by assumption. apply fold16_lt. Qed.

Lemma fold_loop_fold16 fuel : forall x, fold16 (fold_loop fuel x) = fold16 x.
Proof.
  induction fuel as [|f IH]; intros x; cbn [fold_loop]; [reflexivity|].
  destruct (N.eqb_spec (x / 65536) 0); [reflexivity|]. rewrite IH. apply fold_step_fold16.
Qed.

Lemma fold_loop_small fuel x : x < 65536 -> fold_loop fuel x = x.
Proof.
  intros H. destruct fuel; cbn [fold_loop]; [reflexivity|].
  destruct (N.eqb_spec (x / 65536) 0); [reflexivity|lia].
Qed.

(* whenever the loop has run to completion its value is the canonical fold *)
Lemma fold_loop_done fuel x : fold_loop fuel x < 65536 -> fold_loop fuel x = fold16 x.
Proof.
  intros H. rewrite <- (fold_loop_fold16 fuel x). symmetry. apply fold16_small. lia.
Qed.

Lemma fold_loop_32 fuel x : (2 <= fuel)%nat -> x < 4294967296 -> fold_loop fuel x = fold16 x.
Proof.
  intros Hf Hx. apply fold_loop_done.
  destruct fuel as [|[|f]]; [lia|lia|]. cbn [fold_loop].
  destruct (N.eqb_spec (x / 65536) 0); [lia|].
  destruct (N.eqb_spec (fold_step x / 65536) 0); [unfold fold_step in *; lia|].
  rewrite fold_loop_small; unfold fold_step in *; lia.
Qed.

Lemma fold_loop_64 fuel x : (4 <= fuel)%nat -> x < 18446744073709551616 -> fold_loop fuel x = fold16 x.
Proof.
  intros Hf Hx. apply fold_loop_done.
  destruct fuel as [|[|[|[|f]]]]; try lia. cbn [fold_loop].
  destruct (N.eqb_spec (x / 65536) 0); [lia|].
  set (x1 := fold_step x). assert (H1 : x1 <= 65535 + 281474976710655) by (unfold x1, fold_step; lia).
  destruct (N.eqb_spec (x1 / 65536) 0); [lia|].
  set (x2 := fold_step x1). assert (H2 : x2 <= 65534 + 4294967296) by (unfold x2, fold_step; lia).
  destruct (N.eqb_spec (x2 / 65536) 0); [lia|].
  set (x3 := fold_step x2). assert (H3 : x3 <= 65534 + 65536) by (unfold x3, fold_step; lia).
  destruct (N.eqb_spec (x3 / 65536) 0); [lia|].
  rewrite fold_loop_small; unfold fold_step; lia.
Qed.

(* the four-stage 64 -> 16 bit fold is exact: stage bounds 2^33-2, 2^32-1, 2^17-2, 2^16-1 *)
Lemma reduce64_stage1 x : x < 18446744073709551616 -> fold32_step x <= 8589934590.
Proof. unfold fold32_step. lia. Qed.

Lemma reduce64_fold16 x : x < 18446744073709551616 -> reduce64 x = fold16 x.
Proof.
  intros Hx. unfold reduce64.
  pose proof (reduce64_stage1 x Hx) as B1.
  pose proof (fold32_step_fold16 x) as E1.
  set (a1 := fold32_step x) in *.
  set (a2 := w32 (a1 / 4294967296 + a1)).
  assert (B2 : a2 <= 4294967295) by (unfold a2, w32; lia).
  assert (E2 : fold16 a2 = fold16 a1).
  { apply fold16_eq_iff. unfold a2, w32. split; lia. }
  pose proof (fold_step_fold16 a2) as E3.
  set (a3 := fold_step a2) in *.
  assert (B3 : a3 <= 131070) by (unfold a3, fold_step; lia).
  apply fold16_unique.
  - unfold w16. lia.
  - rewrite <- (fold16_mod x), <- E1, <- E2, <- E3, fold16_mod. unfold w16. lia.
  - rewrite <- (fold16_0_iff x), <- E1, <- E2, <- E3, fold16_0_iff. unfold w16. lia.
Qed.

(* ---------------------------------------------------------------------------------------------- *)
(** * end-around-carry accumulators *)

Lemma eac_lt M a b : a < M -> b < M -> eac M a b < M.
Proof. intros Ha Hb. unfold eac. destruct (N.ltb_spec (a + b) M); lia. Qed.

(* ADD; ADC $0 written with wrap-around: the form an instruction-level model produces *)
Lemma eac_wrap M a b : M <> 0 -> a < M -> b < M -> (a + b) mod M + (a + b) / M = eac M a b.
Proof.
  intros HM Ha Hb. unfold eac. destruct (N.ltb_spec (a + b) M) as [H|H].
  - rewrite N.mod_small, N.div_small by assumption. lia.
  - assert (E : (a + b) / M = 1).
    { symmetry. apply (N.div_unique (a + b) M 1 (a + b - M)); lia. }
    pose proof (N.div_mod (a + b) M HM) as D. rewrite E in *. lia.
Qed.

Lemma eac_0_iff M a b : a < M -> b < M -> (eac M a b = 0 <-> a = 0 /\ b = 0).
Proof. intros Ha Hb. unfold eac. destruct (N.ltb_spec (a + b) M); lia. Qed.

(* 65535 divides M - 1 for M = 2^32 and M = 2^64, so an end-around-carry add is a congruence *)
Lemma eac_mod M k a b : M = 65535 * k + 1 -> eac M a b mod 65535 = (a + b) mod 65535.
Proof.
  intros HM. unfold eac. destruct (N.ltb_spec (a + b) M) as [H|H]; [reflexivity|]. subst M.
  replace (a + b) with ((a + b - (65535 * k + 1) + 1) + k * 65535) at 2 by lia.
  rewrite N.mod_add by discriminate. reflexivity.
Qed.

Lemma eac32_mod a b : eac 4294967296 a b mod 65535 = (a + b) mod 65535.
Proof. apply (eac_mod _ 65537). reflexivity. Qed.

Lemma eac64_mod a b : eac 18446744073709551616 a b mod 65535 = (a + b) mod 65535.
Proof. apply (eac_mod _ 281479271743489). reflexivity. Qed.

Lemma eac_fold16 M k a b : M = 65535 * k + 1 -> a < M -> b < M -> fold16 (eac M a b) = fold16 (a + b).
Proof.
  intros HM Ha Hb. apply fold16_eq_iff. split.
  - apply (eac_mod M k); assumption.
  - pose proof (eac_0_iff M a b Ha Hb). lia.
Qed.

Lemma eac32_fold16 a b : a < 4294967296 -> b < 4294967296 -> fold16 (eac 4294967296 a b) = fold16 (a + b).
Proof. apply (eac_fold16 _ 65537). reflexivity. Qed.

Lemma eac64_fold16 a b :
  a < 18446744073709551616 -> b < 18446744073709551616 -> fold16 (eac 18446744073709551616 a b) = fold16 (a + b).
Proof. apply (eac_fold16 _ 281479271743489). reflexivity. Qed.

(* ---------------------------------------------------------------------------------------------- *)
(** * sum16: structure *)

Lemma list_ind2 {A : Type} (P : list A -> Prop) :
  P [] -> (forall a, P [a]) -> (forall a b l, P l -> P (a :: b :: l)) -> forall l, P l.
Proof.
  intros H0 H1 H2. fix IH 1. intros [|a [|b l]]; [exact H0|apply H1|apply H2, IH].
Qed.

Lemma sum16_nil : sum16 [] = 0.
Proof. reflexivity. Qed.

Lemma sum16_pair a b r : sum16 (a :: b :: r) = a * 256 + b + sum16 r.
Proof. reflexivity. Qed.

Lemma sum16le_pair a b r : sum16le (a :: b :: r) = a + b * 256 + sum16le r.
Proof. reflexivity. Qed.

(* one byte shifts the word phase: big-endian sum of x :: l is 256 x + little-endian sum of l *)
Lemma sum16_cons_both l : forall x, sum16 (x :: l) = x * 256 + sum16le l /\ sum16le (x :: l) = x + sum16 l.
Proof.
  induction l as [| a | a b l IH] using list_ind2; intros x.
  - cbn [sum16 sum16le]. lia.
  - cbn [sum16 sum16le]. lia.
  - destruct (IH b) as [E1 E2].
    split.
    + rewrite sum16_pair, E1, sum16le_pair. lia.
    + rewrite sum16le_pair, E2, sum16_pair. lia.
Qed.

Lemma sum16_cons x l : sum16 (x :: l) = x * 256 + sum16le l.
Proof. apply sum16_cons_both. Qed.

Lemma sum16le_cons x l : sum16le (x :: l) = x + sum16 l.
Proof. apply sum16_cons_both. Qed.

Definition even_len {A} (l : list A) : Prop := Nat.even (length l) = true.

Lemma even_len_cons2 {A} (a b : A) l : even_len (a :: b :: l) <-> even_len l.
Proof. unfold even_len. cbn [length Nat.even]. tauto. Qed.

(* additivity at even offsets *)
Lemma sum16_app a : forall b, Nat.even (length a) = true -> sum16 (a ++ b) = sum16 a + sum16 b.
Proof.
  induction a as [| x | x y a IH] using list_ind2; intros b H.
  - reflexivity.
  - discriminate.
  - cbn [app]. rewrite !sum16_pair. rewrite IH by exact H. lia.
Qed.

Lemma sum16le_app a : forall b, Nat.even (length a) = true -> sum16le (a ++ b) = sum16le a + sum16le b.
Proof.
  induction a as [| x | x y a IH] using list_ind2; intros b H.
  - reflexivity.
  - discriminate.
  - cbn [app]. rewrite !sum16le_pair. rewrite IH by exact H. lia.
Qed.

(* at odd offsets the second part is summed with the opposite byte order *)
Lemma sum16_app_odd a : forall b, Nat.even (length a) = false -> sum16 (a ++ b) = sum16 a + sum16le b.
Proof.
  induction a as [| x | x y a IH] using list_ind2; intros b H.
  - discriminate.
  - cbn [app]. rewrite sum16_cons. cbn [sum16]. lia.
  - cbn [app]. rewrite !sum16_pair. rewrite IH by exact H. lia.
Qed.

Lemma sum16le_app_odd a : forall b, Nat.even (length a) = false -> sum16le (a ++ b) = sum16le a + sum16 b.
Proof.
  induction a as [| x | x y a IH] using list_ind2; intros b H.
  - discriminate.
  - cbn [app]. rewrite sum16le_cons. cbn [sum16le]. lia.
  - cbn [app]. rewrite !sum16le_pair. rewrite IH by exact H. lia.
Qed.

Lemma sum16_split n l : Nat.even n = true -> sum16 l = sum16 (firstn n l) + sum16 (skipn n l).
Proof.
  intros Hn. rewrite <- (firstn_skipn n l) at 1.
  destruct (Nat.le_gt_cases n (length l)) as [Hle|Hgt].
  - apply sum16_app. rewrite firstn_length_le by assumption. exact Hn.
  - rewrite skipn_all2 by lia. rewrite app_nil_r. cbn [sum16]. lia.
Qed.

Lemma sum16le_split n l : Nat.even n = true -> sum16le l = sum16le (firstn n l) + sum16le (skipn n l).
Proof.
  intros Hn. rewrite <- (firstn_skipn n l) at 1.
  destruct (Nat.le_gt_cases n (length l)) as [Hle|Hgt].
  - apply sum16le_app. rewrite firstn_length_le by assumption. exact Hn.
  - rewrite skipn_all2 by lia. rewrite app_nil_r. cbn [sum16le]. lia.
Qed.

Lemma sum16_be16_bytes v : v < 65536 -> sum16 (be16_bytes v) = v.
Proof. intros H. unfold be16_bytes. cbn [sum16]. lia. Qed.

Lemma be16_bytes_ok v : bytes_ok (be16_bytes v) = true.
Proof.
  unfold be16_bytes, bytes_ok, byte_ok. cbn [forallb]. rewrite !andb_true_iff. repeat split; try apply N.ltb_lt; lia.
Qed.

(* zero-ness *)
Lemma sum16_0_iff l : sum16 l = 0 <-> Forall (fun b => b = 0) l.
Proof.
  induction l as [| a | a b l IH] using list_ind2.
  - split; [constructor|reflexivity].
  - cbn [sum16]. split.
    + intros H. constructor; [lia|constructor].
    + intros H. inversion H; subst. reflexivity.
  - rewrite sum16_pair. split.
    + intros H. constructor; [lia|]. constructor; [lia|]. apply IH. lia.
    + intros H. inversion H as [|? ? Ha H']; subst. inversion H' as [|? ? Hb H'']; subst.
      apply IH in H''. lia.
Qed.

Lemma sum16le_0_iff l : sum16le l = 0 <-> Forall (fun b => b = 0) l.
Proof.
  destruct l as [|x l]; [split; [constructor|reflexivity]|].
  rewrite sum16le_cons. split.
  - intros H. constructor; [lia|]. apply sum16_0_iff. lia.
  - intros H. inversion H as [|? ? Hx Hl]; subst. apply sum16_0_iff in Hl. lia.
Qed.

Lemma sum16_sum16le_0 l : sum16 l = 0 <-> sum16le l = 0.
Proof. rewrite sum16_0_iff, sum16le_0_iff. tauto. Qed.

Lemma sum16_repeat0 n : sum16 (repeat 0 n) = 0.
Proof. apply sum16_0_iff. induction n; cbn [repeat]; constructor; auto. Qed.

(* size: each word is at most 0xffff *)
Lemma sum16_bound l : bytes_ok l = true -> sum16 l <= 65535 * N.of_nat (Nat.div2 (S (length l))).
Proof.
  induction l as [| a | a b l IH] using list_ind2; intros H.
  - cbn. lia.
  - cbn [bytes_ok forallb] in H. rewrite andb_true_r in H. unfold byte_ok in H. apply N.ltb_lt in H.
    cbn [sum16 length Nat.div2]. lia.
  - cbn [bytes_ok forallb] in H. apply andb_true_iff in H as [Ha H]. apply andb_true_iff in H as [Hb H].
    unfold byte_ok in Ha, Hb. apply N.ltb_lt in Ha. apply N.ltb_lt in Hb.
    specialize (IH H). rewrite sum16_pair. cbn [length]. cbn [length Nat.div2] in *. lia.
Qed.

Lemma sum16_bound_len l : bytes_ok l = true -> sum16 l <= 65535 * ((N.of_nat (length l) + 1) / 2).
Proof.
  intros H. pose proof (sum16_bound l H) as B.
  assert (E : N.of_nat (Nat.div2 (S (length l))) = (N.of_nat (length l) + 1) / 2).
  { rewrite Nat.div2_div. lia. }
  rewrite E in B. exact B.
Qed.

Lemma sum16le_bound_len l : bytes_ok l = true -> sum16le l <= 65535 * ((N.of_nat (length l) + 1) / 2).
Proof.
  induction l as [| a | a b l IH] using list_ind2; intros H.
  - cbn. lia.
  - cbn [bytes_ok forallb] in H. rewrite andb_true_r in H. unfold byte_ok in H. apply N.ltb_lt in H.
    cbn [sum16le length]. lia.
  - cbn [bytes_ok forallb] in H. apply andb_true_iff in H as [Ha H]. apply andb_true_iff in H as [Hb H].
    unfold byte_ok in Ha, Hb. apply N.ltb_lt in Ha. apply N.ltb_lt in Hb.
    specialize (IH H). rewrite sum16le_pair. cbn [length]. lia.
Qed.

(* ---------------------------------------------------------------------------------------------- *)
(** * byte-order independence (RFC 1071 section 2(B)) *)

(* sum of little-endian words = 256 * sum of big-endian words (mod 65535) *)
Lemma sum16le_mod l : sum16le l mod 65535 = (256 * sum16 l) mod 65535.
Proof.
  induction l as [| a | a b l IH] using list_ind2.
  - reflexivity.
  - cbn [sum16 sum16le]. lia.
  - rewrite sum16_pair, sum16le_pair. lia.
Qed.

Lemma sum16_mod_le l : sum16 l mod 65535 = (256 * sum16le l) mod 65535.
Proof. pose proof (sum16le_mod l). lia. Qed.

Lemma swap16_le v : swap16 v <= 65535.
Proof. unfold swap16. lia. Qed.

Lemma swap16_lt v : swap16 v < 65536.
Proof. unfold swap16. lia. Qed.

Lemma swap16_invol v : v < 65536 -> swap16 (swap16 v) = v.
Proof. intros H. unfold swap16. lia. Qed.

Lemma swap16_mod v : v < 65536 -> swap16 v mod 65535 = (256 * v) mod 65535.
Proof. intros H. unfold swap16. lia. Qed.

Lemma swap16_0_iff v : v < 65536 -> (swap16 v = 0 <-> v = 0).
Proof. intros H. unfold swap16. lia. Qed.

Lemma swap16_bytes a b : a < 256 -> b < 256 -> swap16 (a * 256 + b) = b * 256 + a.
Proof. intros Ha Hb. unfold swap16. lia. Qed.

(* XCHGB AH, AL on a 16-bit register *)
Lemma swap16_bits v : v < 65536 -> N.lor (N.shiftl (N.land v 255) 8) (N.shiftr v 8) = swap16 v.
Proof.
  intros H. unfold swap16.
  change 255 with (N.ones 8). rewrite N.land_ones, N.shiftr_div_pow2, N.shiftl_mul_pow2.
  change (2 ^ 8) with 256.
  rewrite (N.mod_small (v / 256) 256) by lia.
  assert (Hd : N.land (v mod 256 * 256) (v / 256) = 0).
  { apply N.bits_inj_0. intros n. rewrite N.land_spec.
    destruct (N.ltb_spec n 8) as [Hn|Hn].
    - change 256 with (2 ^ 8). rewrite N.mul_pow2_bits_low by assumption. reflexivity.
    - replace (N.testbit (v / 256) n) with false; [apply andb_false_r|].
      symmetry. apply N.bits_above_log2.
      destruct (N.eq_dec (v / 256) 0) as [E|E]; [rewrite E; cbn; lia|].
      apply N.log2_lt_pow2; [lia|]. apply N.lt_le_trans with (2 ^ 8); [cbn; lia|].
      apply N.pow_le_mono_r; lia. }
  rewrite <- N.lxor_lor by exact Hd. rewrite <- N.add_nocarry_lxor by exact Hd. reflexivity.
Qed.

(* the general transfer lemma: summing in the other byte order, folding, then swapping *)
Lemma swap16_fold16 X Y :
  X mod 65535 = (256 * Y) mod 65535 -> (X = 0 <-> Y = 0) -> swap16 (fold16 X) = fold16 Y.
Proof.
  intros Hm Hz. pose proof (fold16_lt X) as HX. apply fold16_unique.
  - apply swap16_le.
  - rewrite swap16_mod by exact HX. pose proof (fold16_mod X). lia.
  - rewrite swap16_0_iff by exact HX. rewrite fold16_0_iff. exact Hz.
Qed.

Lemma swap16_fold16_256 S : swap16 (fold16 (256 * S)) = fold16 S.
Proof. apply swap16_fold16; [reflexivity|lia]. Qed.

Lemma swap16_fold16_sum16le l : swap16 (fold16 (sum16le l)) = fold16 (sum16 l).
Proof. apply swap16_fold16; [apply sum16le_mod|]. symmetry. apply sum16_sum16le_0. Qed.

Lemma fold16_swap16 v : v < 65536 -> fold16 (swap16 v) = swap16 v.
Proof. intros H. apply fold16_small, swap16_le. Qed.

(* ---------------------------------------------------------------------------------------------- *)
(** * complement, checksum fields *)

Lemma cpl16_le v : cpl16 v <= 65535.
Proof. unfold cpl16. lia. Qed.

Lemma cpl16_invol v : v <= 65535 -> cpl16 (cpl16 v) = v.
Proof. unfold cpl16. lia. Qed.

(* ^v on uint16 as xor *)
Lemma cpl16_bits v : v < 65536 -> N.lxor v 65535 = cpl16 v.
Proof.
  intros H. unfold cpl16. symmetry. apply N.add_sub_eq_l. rewrite N.add_comm.
  assert (Hd : N.land (N.lxor v 65535) v = 0).
  { apply N.bits_inj_0. intros n. rewrite N.land_spec, N.lxor_spec.
    destruct (N.testbit v n) eqn:E; [|apply andb_false_r].
    destruct (N.ltb_spec n 16) as [Hn|Hn].
    - change 65535 with (N.ones 16). rewrite N.ones_spec_low by lia. reflexivity.
    - assert (N.testbit v n = false); [|congruence].
      apply N.bits_above_log2. destruct (N.eq_dec v 0) as [E0|E0]; [subst; cbn in E; discriminate|].
      apply N.log2_lt_pow2; [lia|]. apply N.lt_le_trans with (2 ^ 16); [cbn; lia|].
      apply N.pow_le_mono_r; lia. }
  rewrite N.add_nocarry_lxor by exact Hd.
  rewrite N.lxor_comm, <- N.lxor_assoc, N.lxor_nilpotent, N.lxor_0_l. reflexivity.
Qed.

Lemma osum_le l init : osum l init <= 65535.
Proof. apply fold16_le. Qed.

Lemma csum16_le l init : csum16 l init <= 65535.
Proof. apply cpl16_le. Qed.

Lemma valid_csumb_iff l : valid_csumb l = true <-> valid_csum l.
Proof. unfold valid_csumb, valid_csum. apply N.eqb_eq. Qed.

(* adding the complement of the folded sum gives a valid total *)
Lemma fold16_add_cpl S : fold16 (S + cpl16 (fold16 S)) = 65535.
Proof.
  apply fold16_ffff_iff. unfold cpl16. pose proof (fold16_le S). pose proof (fold16_mod S).
  pose proof (fold16_0_iff S). split; lia.
Qed.

(* which stored values make a region with running sum S0 (field zeroed) valid *)
Lemma valid_csum_field_iff S0 c :
  c <= 65535 ->
  (fold16 (S0 + c) = 65535 <-> (c = cpl16 (fold16 S0) \/ (c = 65535 /\ fold16 S0 = 65535))).
Proof.
  intros Hc. rewrite fold16_ffff_iff. unfold cpl16.
  pose proof (fold16_le S0). pose proof (fold16_mod S0). pose proof (fold16_0_iff S0).
  pose proof (fold16_ffff_iff S0). split; lia.
Qed.

(* inserting the complement of the folded sum into a zeroed, even-offset field makes the region valid *)
Lemma csum_insert_valid pre post init :
  Nat.even (length pre) = true ->
  let c := csum16 (pre ++ [0; 0] ++ post) init in
  fold16 (init + sum16 (pre ++ be16_bytes c ++ post)) = 65535.
Proof.
  intros He c. unfold c, csum16, osum.
  rewrite !sum16_app by (try exact He; reflexivity).
  set (S := init + (sum16 pre + (sum16 [0; 0] + sum16 post))).
  rewrite sum16_be16_bytes by (pose proof (cpl16_le (fold16 S)); lia).
  change (sum16 [0; 0]) with 0 in S.
  replace (init + (sum16 pre + (cpl16 (fold16 S) + sum16 post))) with (S + cpl16 (fold16 S)) by (unfold S; lia).
  apply fold16_add_cpl.
Qed.

Lemma csum_insert_valid0 pre post :
  Nat.even (length pre) = true ->
  valid_csum (pre ++ be16_bytes (csum16 (pre ++ [0; 0] ++ post) 0) ++ post).
Proof. intros He. unfold valid_csum. apply (csum_insert_valid pre post 0 He). Qed.

(* replacing a 16-bit field at an even offset *)
Lemma sum16_replace16 pre post a b a' b' :
  Nat.even (length pre) = true ->
  sum16 (pre ++ [a'; b'] ++ post) + (a * 256 + b) = sum16 (pre ++ [a; b] ++ post) + (a' * 256 + b').
Proof.
  intros He. rewrite !sum16_app by (try exact He; reflexivity). cbn [sum16]. lia.
Qed.

(* ---------------------------------------------------------------------------------------------- *)
(** * incremental update (RFC 1624): a 16-bit word m inside a region of sum S is replaced by m' *)

Lemma fold16_update_mod S m m' :
  m <= 65535 -> m <= S -> (S - m + m') mod 65535 = (fold16 S + cpl16 m + m') mod 65535.
Proof. intros Hm HS. unfold cpl16. pose proof (fold16_mod S). lia. Qed.

(* equal as values unless the new data sums to zero (RFC 1624's +0 / -0 case: then the incremental
   form yields 0xffff where a recomputation yields 0) *)
Lemma fold16_update S m m' :
  m <= 65535 -> m <= S -> S - m + m' <> 0 -> fold16 (S - m + m') = fold16 (fold16 S + cpl16 m + m').
Proof.
  intros Hm HS Hnz. apply fold16_eq_iff. split.
  - apply fold16_update_mod; assumption.
  - unfold cpl16. pose proof (fold16_0_iff S). pose proof (fold16_le S). lia.
Qed.

Lemma fold16_update_zero S m :
  m <= 65535 -> m <= S -> S - m = 0 -> fold16 (fold16 S + cpl16 m + 0) = 65535.
Proof.
  intros Hm HS Hz. assert (S = m) by lia. subst S. rewrite (fold16_small m) by exact Hm.
  unfold cpl16. replace (m + (65535 - m) + 0) with 65535 by lia. reflexivity.
Qed.

(* RFC 1624 eqn. 3 on stored checksums: HC' = ~(~HC + ~m + m') *)
Lemma csum_update_rfc1624 S m m' HC :
  m <= 65535 -> m <= S -> S - m + m' <> 0 -> HC = cpl16 (fold16 S) ->
  cpl16 (fold16 (S - m + m')) = cpl16 (fold16 (cpl16 HC + cpl16 m + m')).
Proof.
  intros Hm HS Hnz ->. rewrite cpl16_invol by apply fold16_le. f_equal. apply fold16_update; assumption.
Qed.

(* validity is preserved by the incremental update of the stored checksum *)
Lemma valid_update S m m' :
  m <= 65535 -> m <= S -> fold16 S = 65535 -> S - m + m' <> 0 -> m' mod 65535 = m mod 65535 ->
  fold16 (S - m + m') = 65535.
Proof.
  intros Hm HS HV Hnz Hc. apply fold16_ffff_iff. apply fold16_ffff_iff in HV. lia.
Qed.

(* ---------------------------------------------------------------------------------------------- *)
(** * the fold-and-complement helpers of real code *)

(* foldComplement(sum uint32): two unconditional fold steps, then ^uint16(sum) *)
Definition fold_cpl32 (sum : N) : N := cpl16 (w16 (fold_step (fold_step sum))).

Lemma fold_cpl32_spec sum : sum < 4294967296 -> fold_cpl32 sum = cpl16 (fold16 sum).
Proof.
  intros H. unfold fold_cpl32. rewrite fold_step2_32 by exact H.
  unfold w16. rewrite N.mod_small by apply fold16_lt. reflexivity.
Qed.

(* `for sum>>16 != 0 { fold }; return ^uint16(sum)` on a uint32 accumulator *)
Definition fold_loop_cpl (sum : N) : N := cpl16 (w16 (fold_loop 2 sum)).

Lemma fold_loop_cpl_spec sum : sum < 4294967296 -> fold_loop_cpl sum = cpl16 (fold16 sum).
Proof.
  intros H. unfold fold_loop_cpl. rewrite fold_loop_32 by (try exact H; auto).
  unfold w16. rewrite N.mod_small by apply fold16_lt. reflexivity.
Qed.

(* a uint32 accumulator holds the exact sum of fewer than 65537 words *)
Lemma sum16_lt32 l : bytes_ok l = true -> N.of_nat (length l) <= 131072 -> sum16 l < 4294967296.
Proof. intros Hok Hl. pose proof (sum16_bound_len l Hok). lia. Qed.

(* RFC 768: a computed checksum of zero is transmitted as all ones; the region stays valid *)
Definition udp_fix (c : N) : N := if c =? 0 then 65535 else c.

Lemma udp_fix_valid S0 : fold16 (S0 + udp_fix (cpl16 (fold16 S0))) = 65535.
Proof.
  apply valid_csum_field_iff.
  - unfold udp_fix. destruct (N.eqb_spec (cpl16 (fold16 S0)) 0); [lia|apply cpl16_le].
  - unfold udp_fix. destruct (N.eqb_spec (cpl16 (fold16 S0)) 0) as [E|E]; [|left; reflexivity].
    right. split; [reflexivity|]. unfold cpl16 in E. pose proof (fold16_le S0). lia.
Qed.

Lemma udp_fix_nonzero c : udp_fix c <> 0.
Proof. unfold udp_fix. destruct (N.eqb_spec c 0); lia. Qed.

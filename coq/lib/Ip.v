(* Ip: overlay addresses and prefixes, and the prefix-set / longest-prefix-match semantics by which
   gaissmai/bart tables (bart.Lite, bart.Table[V]) are MODELLED (trusted: bart implements exactly this;
   it is exercised only through nebula's own API in the correspondences).

   addr   = (is4, value)    netip.Addr without zone; is4 = Addr.Is4(); an IPv4-mapped IPv6 address is an
                            IPv6 address (is4 = false), exactly as netip and bart treat it.
   prefix = (addr, bits)    netip.Prefix; valid iff bits <= 32 / 128. An invalid prefix contains nothing
                            (bart ignores inserts of invalid prefixes). *)
From Coq Require Import List NArith Bool Lia.
Import ListNotations.
Open Scope N_scope.

Definition addr := (bool * N)%type.
Definition prefix := (addr * N)%type.

Definition alen (is4 : bool) : N := if is4 then 32 else 128.

Definition addr_eqb (a b : addr) : bool := Bool.eqb (fst a) (fst b) && (snd a =? snd b).
Definition pfx_eqb (p q : prefix) : bool := addr_eqb (fst p) (fst q) && (snd p =? snd q).

(* netip.PrefixFrom(a, a.BitLen()) *)
Definition full (a : addr) : prefix := (a, alen (fst a)).

(* Prefix.Masked(): host bits cleared *)
Definition masked (p : prefix) : prefix :=
  let '((f, v), b) := p in ((f, N.shiftl (N.shiftr v (alen f - b)) (alen f - b)), b).

(* Prefix.Contains(a) *)
Definition contains (p : prefix) (a : addr) : bool :=
  let '((f, v), b) := p in
  Bool.eqb f (fst a) && (b <=? alen f) && (N.shiftr v (alen f - b) =? N.shiftr (snd a) (alen f - b)).

(* bart.Lite as a list of prefixes: Insert = cons of the masked prefix, Contains = some prefix contains *)
Definition lite := list prefix.
Definition lite_insert (p : prefix) (s : lite) : lite := masked p :: s.
Definition any_contains (s : lite) (a : addr) : bool := existsb (fun p => contains p a) s.

(* Generic association maps (Go maps with comparable keys; also the carrier of bart.Table below).
   aset replaces the value of an existing key in place, or appends the pair. *)
Section AMap.
  Context {K V : Type} (eqb : K -> K -> bool).
  Fixpoint aget (k : K) (m : list (K * V)) : option V :=
    match m with
    | [] => None
    | (k', v) :: r => if eqb k k' then Some v else aget k r
    end.
  Fixpoint aset (k : K) (v : V) (m : list (K * V)) : list (K * V) :=
    match m with
    | [] => [(k, v)]
    | (k', v') :: r => if eqb k k' then (k', v) :: r else (k', v') :: aset k v r
    end.
End AMap.

(* bart.Table[V] as an association list keyed by the masked prefix.
   Insert replaces the value of an equal key; Get is exact match; Supernets(full a) = all entries whose
   prefix contains a; Lookup = value of the most specific containing prefix. *)
Section Table.
  Context {V : Type}.
  Definition tbl := list (prefix * V).

  Definition tbl_get (p : prefix) (t : tbl) : option V := aget pfx_eqb (masked p) t.
  Definition tbl_insert (p : prefix) (v : V) (t : tbl) : tbl := aset pfx_eqb (masked p) v t.

  Definition tbl_supernets (a : addr) (t : tbl) : list V :=
    map snd (filter (fun kv => contains (fst kv) a) t).

  (* longest prefix match: keep the candidate with strictly more bits *)
  Fixpoint lpm_acc (t : tbl) (a : addr) (best : option (N * V)) : option (N * V) :=
    match t with
    | [] => best
    | (p, v) :: r =>
        let best' :=
          if contains p a then
            match best with
            | None => Some (snd p, v)
            | Some (b, _) => if b <? snd p then Some (snd p, v) else best
            end
          else best in
        lpm_acc r a best'
    end.
  Definition lpm (t : tbl) (a : addr) : option V := option_map snd (lpm_acc t a None).
End Table.

(* ---------------------------------------------------------------------------------------------- *)
(* Lemmas *)

Lemma addr_eqb_eq a b : addr_eqb a b = true <-> a = b.
Proof.
  destruct a as [f v], b as [g w]; unfold addr_eqb; simpl. rewrite andb_true_iff, N.eqb_eq.
  split.
  - intros [H1 H2]. apply eqb_prop in H1. now subst.
  - intros H; inversion H; subst. split; [apply eqb_reflx|reflexivity].
Qed.

Lemma pfx_eqb_eq p q : pfx_eqb p q = true <-> p = q.
Proof.
  destruct p as [a b], q as [c d]; unfold pfx_eqb; simpl. rewrite andb_true_iff, N.eqb_eq, addr_eqb_eq.
  split; [intros [-> ->]; reflexivity|intros H; inversion H; auto].
Qed.

Lemma pfx_eqb_refl p : pfx_eqb p p = true.
Proof. now apply pfx_eqb_eq. Qed.

Lemma pfx_eqb_sym p q : pfx_eqb p q = pfx_eqb q p.
Proof.
  destruct (pfx_eqb p q) eqn:E.
  - apply pfx_eqb_eq in E; subst. now rewrite pfx_eqb_refl.
  - destruct (pfx_eqb q p) eqn:E'; [|reflexivity]. apply pfx_eqb_eq in E'; subst. now rewrite pfx_eqb_refl in E.
Qed.

Lemma shr_shl_shr v k : N.shiftr (N.shiftl (N.shiftr v k) k) k = N.shiftr v k.
Proof. rewrite N.shiftr_shiftl_l by lia. now rewrite N.sub_diag, N.shiftl_0_r. Qed.

(* membership does not depend on the host bits of the prefix: inserting p or p.Masked() is the same *)
Lemma contains_masked p a : contains (masked p) a = contains p a.
Proof. destruct p as [[f v] b]; simpl. now rewrite shr_shl_shr. Qed.

Lemma masked_idem p : masked (masked p) = masked p.
Proof. destruct p as [[f v] b]; simpl. now rewrite shr_shl_shr. Qed.

Lemma masked_full a : masked (full a) = full a.
Proof.
  destruct a as [f v]; unfold full, masked; simpl. rewrite N.sub_diag, N.shiftr_0_r, N.shiftl_0_r. reflexivity.
Qed.

(* a full-length prefix contains exactly its own address *)
Lemma contains_full a b : contains (full a) b = true <-> a = b.
Proof.
  destruct a as [f v], b as [g w]; unfold full, contains; simpl.
  rewrite N.sub_diag, !N.shiftr_0_r, N.leb_refl, andb_true_r, andb_true_iff, N.eqb_eq.
  split.
  - intros [H1 H2]. apply eqb_prop in H1. now subst.
  - intros H; inversion H; subst. split; [apply eqb_reflx|reflexivity].
Qed.

Lemma any_contains_In s a : any_contains s a = true <-> exists p, In p s /\ contains p a = true.
Proof. unfold any_contains. apply existsb_exists. Qed.

Lemma any_contains_insert p s a : any_contains (lite_insert p s) a = contains p a || any_contains s a.
Proof. unfold lite_insert; simpl. now rewrite contains_masked. Qed.

Section AMapLemmas.
  Context {K V : Type} (eqb : K -> K -> bool).
  Hypothesis eqb_eq : forall a b, eqb a b = true <-> a = b.

  Lemma eqb_refl_ k : eqb k k = true.
  Proof. now apply eqb_eq. Qed.

  Lemma eqb_sym_ a b : eqb a b = eqb b a.
  Proof.
    destruct (eqb a b) eqn:E.
    - apply eqb_eq in E; subst. now rewrite eqb_refl_.
    - destruct (eqb b a) eqn:E'; [|reflexivity]. apply eqb_eq in E'; subst. now rewrite eqb_refl_ in E.
  Qed.

  Lemma aget_aset k k' (v : V) m :
    aget eqb k' (aset eqb k v m) = if eqb k k' then Some v else aget eqb k' m.
  Proof.
    induction m as [|[k0 v0] r IH]; simpl.
    - now rewrite (eqb_sym_ k' k).
    - destruct (eqb k k0) eqn:E0; simpl.
      + apply eqb_eq in E0; subst k0. rewrite (eqb_sym_ k' k). now destruct (eqb k k').
      + destruct (eqb k' k0) eqn:E1; [|apply IH].
        apply eqb_eq in E1; subst k0. now rewrite E0.
  Qed.

  Lemma aset_In k (v : V) k' v' m :
    In (k', v') (aset eqb k v m) -> (k' = k /\ v' = v) \/ In (k', v') m.
  Proof.
    induction m as [|[k0 v0] r IH]; simpl.
    - intros [H|[]]. inversion H; auto.
    - destruct (eqb k k0) eqn:E; simpl.
      + apply eqb_eq in E; subst k0. intros [H|H]; [inversion H; auto|auto].
      + intros [H|H]; [auto|]. destruct (IH H); auto.
  Qed.

  (* the "monotone-or" step for layers that are searched with existsb (bart Supernets): if the new value
     satisfies P exactly when the old one did or x holds, the search gains exactly x *)
  Lemma existsb_aset (P : K -> V -> bool) k v m x :
    P k v = match aget eqb k m with Some v0 => P k v0 | None => false end || x ->
    existsb (fun kv => P (fst kv) (snd kv)) (aset eqb k v m) =
    existsb (fun kv => P (fst kv) (snd kv)) m || x.
  Proof.
    induction m as [|[k0 v0] r IH]; simpl; intros H.
    - rewrite H. now rewrite orb_false_r.
    - destruct (eqb k k0) eqn:E; simpl.
      + apply eqb_eq in E; subst k0. rewrite H.
        destruct (P k v0), x, (existsb (fun kv => P (fst kv) (snd kv)) r); reflexivity.
      + rewrite (IH H). now rewrite orb_assoc.
  Qed.
End AMapLemmas.

Section TableLemmas.
  Context {V : Type}.
  Implicit Types t : @tbl V.

  Lemma lpm_acc_sound t a : forall best r,
    lpm_acc t a best = Some r ->
    best = Some r \/ exists p, In (p, snd r) t /\ contains p a = true.
  Proof.
    induction t as [|[p v] t IH]; simpl; intros best r H; [auto|].
    apply IH in H as [H|[q [Hq Hc]]]; [|right; exists q; auto].
    destruct (contains p a) eqn:C; [|auto].
    destruct best as [[b w]|].
    - destruct (b <? snd p); [|auto]. inversion H; subst; simpl. right; exists p; auto.
    - inversion H; subst; simpl. right; exists p; auto.
  Qed.

  (* the value returned by Lookup belongs to some stored prefix that contains the address *)
  Lemma lpm_sound t a v : lpm t a = Some v -> exists p, In (p, v) t /\ contains p a = true.
  Proof.
    unfold lpm. destruct (lpm_acc t a None) as [[b w]|] eqn:E; simpl; [|discriminate].
    intros H; inversion H; subst. apply lpm_acc_sound in E as [E|E]; [discriminate|exact E].
  Qed.

  Lemma lpm_acc_none t a : forall best, lpm_acc t a best = None ->
    best = None /\ forall p v, In (p, v) t -> contains p a = false.
  Proof.
    induction t as [|[p v] t IH]; simpl; intros best H; [split; [auto|intros ? ? []]|].
    apply IH in H as [H1 H2]. destruct (contains p a) eqn:C.
    - destruct best as [[b w]|]; [destruct (b <? snd p)|]; discriminate.
    - split; [auto|]. intros q w [E|E]; [inversion E; subst; auto|eauto].
  Qed.

  (* Lookup fails only if no stored prefix contains the address *)
  Lemma lpm_none t a : lpm t a = None -> forall p v, In (p, v) t -> contains p a = false.
  Proof.
    unfold lpm. destruct (lpm_acc t a None) eqn:E; simpl; [discriminate|]. intros _.
    now apply lpm_acc_none in E as [_ E].
  Qed.
End TableLemmas.

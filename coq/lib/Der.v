(* Der: the subset of ASN.1 DER that golang.org/x/crypto/cryptobyte emits and accepts for nebula's v2
   certificates (cert/cert_v2.go, cert/asn1.go) and for P-256 signatures (cert/p256/p256.go), over bytes
   ([list N], every element < 256).

   What is mirrored
     Builder.AddASN1(tag, f)          [emit_tlv]   one-byte tag, definite length in the minimal form: short form below
                                                   128, else 0x81..0x84 followed by 1..4 big-endian length bytes.
                                                   (The Builder fails for contents longer than 0xfffffffe bytes; emit_tlv
                                                   is exact below that and every lemma states the bound it needs.)
     String.readASN1                  [read_tlv]   len < 2 fails; tag&0x1f = 0x1f (multi-byte tag) fails; long form: 0x80,
                                                   more than 4 length bytes, a length < 128, a leading zero length byte and
                                                   header+length overflowing uint32 all fail; the content must be present.
     ReadASN1 / ReadASN1Element       [read_asn1] / [read_element]: read_tlv, then the tag must be the expected one.
     ReadOptionalASN1                 [read_optional]: PeekASN1Tag (first byte = tag) decides; absent -> input untouched.
     AddASN1Int64WithTag              [int64_enc]  minimal two's complement (the `for i := v; i >= 0x80 || i < -0x80; i >>= 8`
                                                   loop).
     ReadASN1Int64WithTag             [int64_dec]  checkASN1Integer (non-empty, no redundant leading 0x00/0xff) + at most 8
                                                   bytes + sign extension.
     readASN1Bytes (ReadASN1Integer into []byte) [uint_dec_bytes], addASN1IntBytes (p256.go) [uint_content].

   Theorems: parse (emit x ++ rest) = Some (x, rest); a successful read splits the input as header ++ content ++ rest
   ("consumes exactly the TLV"); the header is the canonical one (a TLV has exactly one accepted encoding);
   reading is insensitive to what follows the TLV. Determinism is by construction (the readers are functions). *)
From Coq Require Import List NArith ZArith Lia Bool.
From Coq Require Import ZifyN ZifyNat ZifyBool.
Import ListNotations.
From NV Require Import lib.Bytes lib.Proto.
Open Scope N_scope.
Local Ltac Zify.zify_post_hook ::= Z.div_mod_to_equations.

(* universal tags used here *)
Definition tag_integer : N := 2.
Definition tag_octet_string : N := 4.
Definition tag_utf8string : N := 12.
Definition tag_sequence : N := 48.          (* 0x30 *)
Definition ctx (n : N) : N := 128 + n.       (* context-specific, primitive *)
Definition ctx_cons (n : N) : N := 160 + n.  (* context-specific, constructed *)

(* ------------------------------------------------------------------------------------------------ *)
(* Length and TLV                                                                                     *)
(* ------------------------------------------------------------------------------------------------ *)

(* Builder.flushChild: number of length bytes by magnitude *)
Definition len_enc (n : N) : list N :=
  if n <? 128 then [n]
  else if n <? 256 then [129; n]
  else if n <? 65536 then 130 :: be_enc 2 n
  else if n <? 16777216 then 131 :: be_enc 3 n
  else 132 :: be_enc 4 n.

Definition hdr_enc (tag : N) (n : N) : list N := tag :: len_enc n.

Definition emit_tlv (tag : N) (content : list N) : list N :=
  hdr_enc tag (N.of_nat (length content)) ++ content.

(* the largest content for which the uint32 arithmetic of readASN1 does not overflow and the Builder does not fail *)
Definition max_content : N := 4294967289.   (* 2^32 - 7 *)

(* String.readASN1: (tag, header bytes, content, rest) *)
Definition read_tlv (s : list N) : option (N * list N * list N * list N) :=
  match s with
  | tag :: lb :: r =>
      if tag mod 32 =? 31 then None
      else if lb <? 128 then
        match take_bytes lb r with
        | Some (c, rest) => Some (tag, [tag; lb], c, rest)
        | None => None
        end
      else
        let ll := lb - 128 in
        if (ll =? 0) || (4 <? ll) then None
        else match take_bytes ll r with
             | None => None
             | Some (lbs, r2) =>
                 let len := be_dec lbs in
                 if len <? 128 then None
                 else if len / 256 ^ (ll - 1) =? 0 then None
                 else if 4294967296 <=? 2 + ll + len then None
                 else match take_bytes len r2 with
                      | Some (c, rest) => Some (tag, tag :: lb :: lbs, c, rest)
                      | None => None
                      end
             end
  | _ => None
  end.

(* ReadASN1(out, tag): content and rest *)
Definition read_asn1 (tag : N) (s : list N) : option (list N * list N) :=
  match read_tlv s with
  | Some (t, _, c, rest) => if t =? tag then Some (c, rest) else None
  | None => None
  end.

(* ReadASN1Element(out, tag): the whole element (header and content) and rest *)
Definition read_element (tag : N) (s : list N) : option (list N * list N) :=
  match read_tlv s with
  | Some (t, h, c, rest) => if t =? tag then Some (h ++ c, rest) else None
  | None => None
  end.

(* PeekASN1Tag *)
Definition peek_tag (tag : N) (s : list N) : bool :=
  match s with t :: _ => t =? tag | [] => false end.

(* ReadOptionalASN1(out, &present, tag): (Some content | None when absent, rest) *)
Definition read_optional (tag : N) (s : list N) : option (option (list N) * list N) :=
  if peek_tag tag s then
    match read_asn1 tag s with
    | Some (c, rest) => Some (Some c, rest)
    | None => None
    end
  else Some (None, s).

(* `for !sub.Empty() { item }`: every item consumes at least its two header bytes, fuel = length is enough *)
Section ReadAll.
  Context {A : Type}.
  Variable item : list N -> option (A * list N).
  Fixpoint read_all_fuel (k : nat) (s : list N) : option (list A) :=
    match s with
    | [] => Some []
    | _ :: _ =>
        match k with
        | O => None
        | S k' =>
            match item s with
            | None => None
            | Some (x, rest) =>
                match read_all_fuel k' rest with
                | Some xs => Some (x :: xs)
                | None => None
                end
            end
        end
    end.
  Definition read_all (s : list N) : option (list A) := read_all_fuel (length s) s.
End ReadAll.

(* ------------------------------------------------------------------------------------------------ *)
(* INTEGER                                                                                            *)
(* ------------------------------------------------------------------------------------------------ *)

(* addASN1Signed: length := 1; for i := v; i >= 0x80 || i < -0x80; i >>= 8 { length++ }  (int64: at most 7 rounds) *)
Fixpoint int_len (fuel : nat) (i : Z) : nat :=
  match fuel with
  | O => 1
  | S f => if ((128 <=? i) || (i <? -128))%Z then S (int_len f (i / 256)%Z) else 1%nat
  end.

(* the bytes v >> ((length-1-k)*8) & 0xff: the two's complement of v on [n] bytes *)
Definition twos (n : nat) (v : Z) : list N := be_enc n (Z.to_N (v mod 256 ^ Z.of_nat n)%Z).

Definition int64_enc (v : Z) : list N := twos (int_len 7 v) v.

(* checkASN1Integer *)
Definition check_integer (bs : list N) : bool :=
  match bs with
  | [] => false
  | [_] => true
  | b0 :: b1 :: _ => negb (((b0 =? 0) && (b1 <? 128)) || ((b0 =? 255) && (128 <=? b1)))
  end.

(* asn1Signed: at most 8 bytes, sign extension *)
Definition int64_dec (bs : list N) : option Z :=
  if check_integer bs && (length bs <=? 8)%nat then
    let u := Z.of_N (be_dec bs) in
    match bs with
    | b0 :: _ => if 128 <=? b0 then Some (u - 256 ^ Z.of_nat (length bs))%Z else Some u
    | [] => None
    end
  else None.

Definition int64_ok (v : Z) : bool := ((-9223372036854775808 <=? v) && (v <=? 9223372036854775807))%Z.

(* readASN1Bytes: content of a non-negative INTEGER with its redundant leading zero removed *)
Fixpoint strip1 (bs : list N) : list N :=      (* for len(bytes) > 1 && bytes[0] == 0 { bytes = bytes[1:] } *)
  match bs with
  | 0 :: ((_ :: _) as r) => strip1 r
  | _ => bs
  end.

Definition uint_dec_bytes (bs : list N) : option (list N) :=
  if check_integer bs then
    match bs with
    | b0 :: _ => if 128 <=? b0 then None else Some (strip1 bs)
    | [] => None
    end
  else None.

(* addASN1IntBytes: strip every leading zero; nothing left is an error; a 0 byte goes in front of a set top bit *)
Fixpoint strip0 (bs : list N) : list N :=
  match bs with
  | 0 :: r => strip0 r
  | _ => bs
  end.

Definition uint_content (bs : list N) : option (list N) :=
  match strip0 bs with
  | [] => None
  | b0 :: r => if 128 <=? b0 then Some (0 :: b0 :: r) else Some (b0 :: r)
  end.

(* ================================================================================================ *)
(* Lemmas                                                                                             *)
(* ================================================================================================ *)

Lemma len_enc_nonempty n : len_enc n <> [].
Proof. unfold len_enc. repeat destruct (_ <? _); discriminate. Qed.

Lemma len_enc_length n : (1 <= length (len_enc n) <= 5)%nat.
Proof. unfold len_enc. repeat destruct (_ <? _); cbn; lia. Qed.

Lemma emit_tlv_length tag c : (length c + 2 <= length (emit_tlv tag c) <= length c + 6)%nat.
Proof.
  unfold emit_tlv, hdr_enc. rewrite app_length. cbn [length].
  pose proof (len_enc_length (N.of_nat (length c))). lia.
Qed.

Lemma emit_tlv_nonempty tag c : emit_tlv tag c <> [].
Proof. unfold emit_tlv, hdr_enc. discriminate. Qed.

Lemma emit_tlv_head tag c : exists r, emit_tlv tag c = tag :: r.
Proof. unfold emit_tlv, hdr_enc. eexists. reflexivity. Qed.

Lemma be_dec_2 a b : be_dec [a; b] = a * 256 + b.
Proof. reflexivity. Qed.

Lemma read_tlv_long tag ll lbs c rest :
  tag mod 32 <> 31 -> 1 <= ll <= 4 -> N.of_nat (length lbs) = ll -> be_dec lbs = N.of_nat (length c) ->
  128 <= be_dec lbs -> be_dec lbs / 256 ^ (ll - 1) <> 0 -> 2 + ll + be_dec lbs < 4294967296 ->
  read_tlv (tag :: (128 + ll) :: lbs ++ c ++ rest) = Some (tag, tag :: (128 + ll) :: lbs, c, rest).
Proof.
  intros Ht Hll Hlen Hv H128 Hlead Hov. unfold read_tlv.
  apply N.eqb_neq in Ht. rewrite Ht.
  replace (128 + ll <? 128) with false by (symmetry; apply N.ltb_ge; lia).
  replace (128 + ll - 128) with ll by lia. cbv zeta.
  replace ((ll =? 0) || (4 <? ll)) with false
    by (symmetry; apply orb_false_iff; split; [apply N.eqb_neq|apply N.ltb_ge]; lia).
  rewrite <- Hlen at 1. rewrite take_bytes_app.
  replace (be_dec lbs <? 128) with false by (symmetry; apply N.ltb_ge; lia).
  replace (be_dec lbs / 256 ^ (ll - 1) =? 0) with false by (symmetry; now apply N.eqb_neq).
  replace (4294967296 <=? 2 + ll + be_dec lbs) with false by (symmetry; apply N.leb_gt; lia).
  rewrite Hv, take_bytes_app. reflexivity.
Qed.

(* the header of a TLV is read back, the content delivered, the rest untouched *)
Theorem read_tlv_emit tag c rest : tag mod 32 <> 31 -> N.of_nat (length c) <= max_content ->
  read_tlv (emit_tlv tag c ++ rest) = Some (tag, hdr_enc tag (N.of_nat (length c)), c, rest).
Proof.
  intros Ht Hl. unfold max_content in Hl.
  unfold emit_tlv, hdr_enc, len_enc. set (n := N.of_nat (length c)) in *.
  destruct (n <? 128) eqn:E1.
  { cbn [app read_tlv]. apply N.eqb_neq in Ht. rewrite Ht, E1. unfold n. rewrite take_bytes_app. reflexivity. }
  apply N.ltb_ge in E1.
  destruct (n <? 256) eqn:E2.
  { apply N.ltb_lt in E2. rewrite <- app_assoc.
    change (([tag; 129; n] ++ c ++ rest)) with (tag :: (128 + 1) :: [n] ++ c ++ rest).
    change [tag; 129; n] with (tag :: (128 + 1) :: [n]).
    assert (Hd : be_dec [n] = n) by (unfold be_dec; cbn; lia).
    apply read_tlv_long; cbn [length]; rewrite ?Hd; try (fold n; lia).
    change (256 ^ (1 - 1)) with 1. rewrite N.div_1_r. lia. }
  apply N.ltb_ge in E2.
  destruct (n <? 65536) eqn:E3.
  { apply N.ltb_lt in E3. rewrite <- app_assoc. cbn [app]. change 130 with (128 + 2).
    assert (Hd : be_dec (be_enc 2 n) = n) by (apply be_dec_enc; cbn; lia).
    apply read_tlv_long; rewrite ?be_enc_length, ?Hd; try (fold n; lia).
    change (256 ^ (2 - 1)) with 256. lia. }
  apply N.ltb_ge in E3.
  destruct (n <? 16777216) eqn:E4.
  { apply N.ltb_lt in E4. rewrite <- app_assoc. cbn [app]. change 131 with (128 + 3).
    assert (Hd : be_dec (be_enc 3 n) = n) by (apply be_dec_enc; cbn; lia).
    apply read_tlv_long; rewrite ?be_enc_length, ?Hd; try (fold n; lia).
    change (256 ^ (3 - 1)) with 65536. lia. }
  apply N.ltb_ge in E4.
  { rewrite <- app_assoc. cbn [app]. change 132 with (128 + 4).
    assert (Hd : be_dec (be_enc 4 n) = n) by (apply be_dec_enc; cbn; lia).
    apply read_tlv_long; rewrite ?be_enc_length, ?Hd; try (fold n; lia).
    change (256 ^ (4 - 1)) with 16777216. lia. }
Qed.

(* a successful read consumes exactly header ++ content and the header has at least two bytes *)
Theorem read_tlv_split s tag h c rest : read_tlv s = Some (tag, h, c, rest) ->
  s = h ++ c ++ rest /\ (2 <= length h <= 6)%nat /\ (exists h', h = tag :: h') /\ tag mod 32 <> 31.
Proof.
  unfold read_tlv. destruct s as [|t [|lb r]]; try discriminate.
  destruct (t mod 32 =? 31) eqn:Et; [discriminate|]. apply N.eqb_neq in Et.
  destruct (lb <? 128).
  - destruct (take_bytes lb r) as [[c0 rest0]|] eqn:E; [|discriminate].
    intros H; inversion H; subst. apply take_bytes_spec in E as [E _]. subst r.
    repeat split; cbn; try lia; eauto.
  - destruct ((lb - 128 =? 0) || (4 <? lb - 128)) eqn:Ell; [discriminate|].
    destruct (take_bytes (lb - 128) r) as [[lbs r2]|] eqn:E; [|discriminate].
    destruct (be_dec lbs <? 128); [discriminate|].
    destruct (be_dec lbs / 256 ^ (lb - 128 - 1) =? 0); [discriminate|].
    destruct (4294967296 <=? 2 + (lb - 128) + be_dec lbs); [discriminate|].
    destruct (take_bytes (be_dec lbs) r2) as [[c0 rest0]|] eqn:E2; [|discriminate].
    intros H; inversion H; subst.
    apply take_bytes_spec in E as [E EL]. apply take_bytes_spec in E2 as [E2 _]. subst r r2.
    apply orb_false_iff in Ell as [L1 L2]. apply N.eqb_neq in L1. apply N.ltb_ge in L2.
    repeat split; cbn [length app]; try lia; eauto.
Qed.

(* the content length is what the header says, and the header is the only one cryptobyte accepts for it *)
Theorem read_tlv_canonical s tag h c rest : bytes_ok s = true -> read_tlv s = Some (tag, h, c, rest) ->
  h = hdr_enc tag (N.of_nat (length c)) /\ N.of_nat (length c) <= max_content.
Proof.
  intros Hok. unfold read_tlv. destruct s as [|t [|lb r]]; try discriminate.
  destruct (t mod 32 =? 31); [discriminate|].
  cbn [bytes_ok forallb] in Hok. apply andb_prop in Hok as [_ Hok]. apply andb_prop in Hok as [Hlb Hok].
  unfold byte_ok in Hlb. apply N.ltb_lt in Hlb.
  destruct (lb <? 128) eqn:E1.
  - destruct (take_bytes lb r) as [[c0 rest0]|] eqn:E; [|discriminate].
    intros H; inversion H; subst. apply take_bytes_spec in E as [_ E].
    unfold hdr_enc, len_enc, max_content. rewrite E, E1. apply N.ltb_lt in E1. split; [reflexivity|lia].
  - destruct ((lb - 128 =? 0) || (4 <? lb - 128)) eqn:Ell; [discriminate|].
    destruct (take_bytes (lb - 128) r) as [[lbs r2]|] eqn:E; [|discriminate].
    destruct (be_dec lbs <? 128) eqn:G1; [discriminate|].
    destruct (be_dec lbs / 256 ^ (lb - 128 - 1) =? 0) eqn:G2; [discriminate|].
    destruct (4294967296 <=? 2 + (lb - 128) + be_dec lbs) eqn:G3; [discriminate|].
    destruct (take_bytes (be_dec lbs) r2) as [[c0 rest0]|] eqn:E2; [|discriminate].
    intros H; inversion H; subst.
    apply take_bytes_spec in E as [E EL]. apply take_bytes_spec in E2 as [_ E2].
    apply orb_false_iff in Ell as [L1 L2]. apply N.eqb_neq in L1. apply N.ltb_ge in L2.
    apply N.ltb_ge in E1, G1. apply N.eqb_neq in G2. apply N.leb_gt in G3.
    assert (Hlbs : bytes_ok lbs = true).
    { subst r. unfold bytes_ok in *. rewrite forallb_app in Hok. now apply andb_prop in Hok as [-> _]. }
    pose proof (be_enc_dec lbs Hlbs) as Hcanon.
    pose proof (be_dec_bound lbs Hlbs) as Hbound.
    set (v := be_dec lbs) in *. rewrite E2. unfold hdr_enc, len_enc, max_content.
    assert (Hcases : lb - 128 = 1 \/ lb - 128 = 2 \/ lb - 128 = 3 \/ lb - 128 = 4) by lia.
    destruct Hcases as [K|[K|[K|K]]]; rewrite K in *;
      assert (HL : length lbs = N.to_nat (lb - 128)) by lia; rewrite K in HL; rewrite HL in *;
      (split; [|cbn in Hbound; lia]).
    + change (256 ^ (1 - 1)) with 1 in G2. change (256 ^ N.of_nat (N.to_nat 1)) with 256 in Hbound.
      replace (v <? 128) with false by (symmetry; apply N.ltb_ge; lia).
      replace (v <? 256) with true by (symmetry; apply N.ltb_lt; lia).
      replace lb with 129 by lia.
      destruct lbs as [|x [|? ?]]; try discriminate. cbn in Hcanon. unfold v. cbn.
      reflexivity.
    + change (256 ^ (2 - 1)) with 256 in G2. change (256 ^ N.of_nat (N.to_nat 2)) with 65536 in Hbound.
      replace (v <? 128) with false by (symmetry; apply N.ltb_ge; lia).
      replace (v <? 256) with false by (symmetry; apply N.ltb_ge; lia).
      replace (v <? 65536) with true by (symmetry; apply N.ltb_lt; lia).
      replace lb with 130 by lia. change (N.to_nat 2) with 2%nat in Hcanon. now rewrite Hcanon.
    + change (256 ^ (3 - 1)) with 65536 in G2. change (256 ^ N.of_nat (N.to_nat 3)) with 16777216 in Hbound.
      replace (v <? 128) with false by (symmetry; apply N.ltb_ge; lia).
      replace (v <? 256) with false by (symmetry; apply N.ltb_ge; lia).
      replace (v <? 65536) with false by (symmetry; apply N.ltb_ge; lia).
      replace (v <? 16777216) with true by (symmetry; apply N.ltb_lt; lia).
      replace lb with 131 by lia. change (N.to_nat 3) with 3%nat in Hcanon. now rewrite Hcanon.
    + change (256 ^ (4 - 1)) with 16777216 in G2.
      replace (v <? 128) with false by (symmetry; apply N.ltb_ge; lia).
      replace (v <? 256) with false by (symmetry; apply N.ltb_ge; lia).
      replace (v <? 65536) with false by (symmetry; apply N.ltb_ge; lia).
      replace (v <? 16777216) with false by (symmetry; apply N.ltb_ge; lia).
      replace lb with 132 by lia. change (N.to_nat 4) with 4%nat in Hcanon. now rewrite Hcanon.
Qed.

(* hence: what was consumed is exactly the canonical encoding of (tag, content) *)
Corollary read_tlv_is_emit s tag h c rest : bytes_ok s = true -> read_tlv s = Some (tag, h, c, rest) ->
  s = emit_tlv tag c ++ rest.
Proof.
  intros Hok H. pose proof (read_tlv_canonical _ _ _ _ _ Hok H) as [Hh _].
  apply read_tlv_split in H as [Hs _]. unfold emit_tlv. rewrite <- Hh. now rewrite <- app_assoc.
Qed.

(* reading looks at the TLV only *)
Theorem read_tlv_ext s tag h c rest x : read_tlv s = Some (tag, h, c, rest) ->
  read_tlv (s ++ x) = Some (tag, h, c, rest ++ x).
Proof.
  unfold read_tlv. destruct s as [|t [|lb r]]; try discriminate. cbn [app].
  destruct (t mod 32 =? 31); [discriminate|].
  destruct (lb <? 128).
  - destruct (take_bytes lb r) as [[c0 rest0]|] eqn:E; [|discriminate].
    intros H; inversion H; subst. now rewrite (take_bytes_ext _ _ _ _ x E).
  - destruct ((lb - 128 =? 0) || (4 <? lb - 128)); [discriminate|].
    destruct (take_bytes (lb - 128) r) as [[lbs r2]|] eqn:E; [|discriminate].
    rewrite (take_bytes_ext _ _ _ _ x E).
    destruct (be_dec lbs <? 128); [discriminate|].
    destruct (be_dec lbs / 256 ^ (lb - 128 - 1) =? 0); [discriminate|].
    destruct (4294967296 <=? 2 + (lb - 128) + be_dec lbs); [discriminate|].
    destruct (take_bytes (be_dec lbs) r2) as [[c0 rest0]|] eqn:E2; [|discriminate].
    intros H; inversion H; subst. now rewrite (take_bytes_ext _ _ _ _ x E2).
Qed.

(* two byte strings that both start with a complete TLV and are equal have the same TLV and the same tail *)
Corollary read_tlv_prefix_inj a1 t1 a2 t2 g1 h1 c1 g2 h2 c2 :
  read_tlv a1 = Some (g1, h1, c1, []) -> read_tlv a2 = Some (g2, h2, c2, []) ->
  a1 ++ t1 = a2 ++ t2 -> a1 = a2 /\ t1 = t2.
Proof.
  intros R1 R2 E.
  pose proof (read_tlv_ext _ _ _ _ _ t1 R1) as X1. pose proof (read_tlv_ext _ _ _ _ _ t2 R2) as X2.
  rewrite E in X1. rewrite X1 in X2. cbn [app] in X2. injection X2 as Eg Eh Ec Et. subst g2 h2 c2 t2.
  apply read_tlv_split in R1 as [-> _]. apply read_tlv_split in R2 as [-> _]. split; reflexivity.
Qed.

Lemma read_tlv_shorter s tag h c rest : read_tlv s = Some (tag, h, c, rest) -> (length rest + 2 <= length s)%nat.
Proof.
  intros H. apply read_tlv_split in H as (-> & L & _). rewrite !app_length. lia.
Qed.

(* ---- read_asn1 / read_element / read_optional ---- *)

Lemma read_asn1_emit tag c rest : tag mod 32 <> 31 -> N.of_nat (length c) <= max_content ->
  read_asn1 tag (emit_tlv tag c ++ rest) = Some (c, rest).
Proof. intros Ht Hl. unfold read_asn1. rewrite read_tlv_emit by assumption. now rewrite N.eqb_refl. Qed.

Lemma read_element_emit tag c rest : tag mod 32 <> 31 -> N.of_nat (length c) <= max_content ->
  read_element tag (emit_tlv tag c ++ rest) = Some (emit_tlv tag c, rest).
Proof. intros Ht Hl. unfold read_element. rewrite read_tlv_emit by assumption. now rewrite N.eqb_refl. Qed.

Lemma read_asn1_shorter tag s c rest : read_asn1 tag s = Some (c, rest) -> (length rest + 2 <= length s)%nat.
Proof.
  unfold read_asn1. destruct (read_tlv s) as [[[[t h] c0] r0]|] eqn:E; [|discriminate].
  destruct (t =? tag); [|discriminate]. intros H; inversion H; subst. eapply read_tlv_shorter; eassumption.
Qed.

Lemma read_optional_present tag c rest : tag mod 32 <> 31 -> N.of_nat (length c) <= max_content ->
  read_optional tag (emit_tlv tag c ++ rest) = Some (Some c, rest).
Proof.
  intros Ht Hl. unfold read_optional.
  destruct (emit_tlv_head tag c) as [r Hr]. rewrite Hr at 1. cbn [app peek_tag]. rewrite N.eqb_refl.
  now rewrite read_asn1_emit.
Qed.

Lemma read_optional_absent tag s : peek_tag tag s = false -> read_optional tag s = Some (None, s).
Proof. intros H. unfold read_optional. now rewrite H. Qed.

Lemma peek_tag_emit tag t c rest : peek_tag tag (emit_tlv t c ++ rest) = (t =? tag).
Proof. destruct (emit_tlv_head t c) as [r ->]. reflexivity. Qed.

Lemma read_optional_shorter tag s o rest : read_optional tag s = Some (o, rest) -> (length rest <= length s)%nat.
Proof.
  unfold read_optional. destruct (peek_tag tag s).
  - destruct (read_asn1 tag s) as [[c r]|] eqn:E; [|discriminate]. intros H; inversion H; subst.
    apply read_asn1_shorter in E. lia.
  - intros H; inversion H; subst. lia.
Qed.

(* ---- read_all ---- *)

Section ReadAllLemmas.
  Context {A : Type}.
  Variable item : list N -> option (A * list N).
  Hypothesis item_progress : forall s x rest, item s = Some (x, rest) -> (length rest < length s)%nat.

  Lemma read_all_fuel_enough k1 : forall k2 s, (length s <= k1)%nat -> (length s <= k2)%nat ->
    read_all_fuel item k1 s = read_all_fuel item k2 s.
  Proof.
    induction k1 as [|k1 IH]; intros k2 s L1 L2.
    - destruct s; [|cbn in L1; lia]. destruct k2; reflexivity.
    - destruct s as [|b s']; [destruct k2; reflexivity|].
      destruct k2 as [|k2]; [cbn in L2; lia|]. cbn [read_all_fuel].
      destruct (item (b :: s')) as [[x rest]|] eqn:E; [|reflexivity].
      apply item_progress in E. cbn [length] in *. rewrite (IH k2 rest) by lia. reflexivity.
  Qed.

  Lemma read_all_nil : read_all item [] = Some [].
  Proof. reflexivity. Qed.

  Lemma read_all_step s : s <> [] ->
    read_all item s = match item s with
                      | None => None
                      | Some (x, rest) => match read_all item rest with Some xs => Some (x :: xs) | None => None end
                      end.
  Proof.
    intros Hs. destruct s as [|b s']; [contradiction|]. unfold read_all at 1. cbn [length read_all_fuel].
    destruct (item (b :: s')) as [[x rest]|] eqn:E; [|reflexivity].
    apply item_progress in E. cbn [length] in E. unfold read_all.
    rewrite (read_all_fuel_enough (length s') (length rest) rest) by lia. reflexivity.
  Qed.
End ReadAllLemmas.

(* ---- INTEGER ---- *)

Lemma int_len_range v : int64_ok v = true -> (1 <= int_len 7 v <= 8)%nat.
Proof.
  intros _. cbn [int_len]. repeat (destruct (_ || _)); lia.
Qed.

Lemma twos_length n v : length (twos n v) = n.
Proof. apply be_enc_length. Qed.

Lemma int64_enc_length v : (1 <= length (int64_enc v) <= 8)%nat.
Proof.
  unfold int64_enc. rewrite twos_length. cbn [int_len]. repeat (destruct (_ || _)); lia.
Qed.

Lemma int64_enc_bytes_ok v : bytes_ok (int64_enc v) = true.
Proof. apply be_enc_bytes_ok. Qed.

Lemma be_dec_twos n v : be_dec (twos n v) = Z.to_N (v mod 256 ^ Z.of_nat n)%Z.
Proof.
  unfold twos. apply be_dec_enc.
  assert (H : (0 <= v mod 256 ^ Z.of_nat n < 256 ^ Z.of_nat n)%Z) by (apply Z.mod_pos_bound; lia).
  assert (E : 256 ^ N.of_nat n = Z.to_N (256 ^ Z.of_nat n)%Z).
  { rewrite Z2N.inj_pow by lia. f_equal. lia. }
  rewrite E. lia.
Qed.

Local Ltac norm_consts :=
  change (N.of_nat 0) with 0; change (N.of_nat 1) with 1; change (N.of_nat 2) with 2;
  change (N.of_nat 3) with 3; change (N.of_nat 4) with 4; change (N.of_nat 5) with 5;
  change (N.of_nat 6) with 6; change (N.of_nat 7) with 7;
  change (256 ^ 0) with 1; change (256 ^ 1) with 256; change (256 ^ 2) with 65536;
  change (256 ^ 3) with 16777216; change (256 ^ 4) with 4294967296; change (256 ^ 5) with 1099511627776;
  change (256 ^ 6) with 281474976710656; change (256 ^ 7) with 72057594037927936;
  change (Z.of_nat 1) with 1%Z; change (Z.of_nat 2) with 2%Z; change (Z.of_nat 3) with 3%Z;
  change (Z.of_nat 4) with 4%Z; change (Z.of_nat 5) with 5%Z; change (Z.of_nat 6) with 6%Z;
  change (Z.of_nat 7) with 7%Z; change (Z.of_nat 8) with 8%Z;
  change (256 ^ 1)%Z with 256%Z; change (256 ^ 2)%Z with 65536%Z; change (256 ^ 3)%Z with 16777216%Z;
  change (256 ^ 4)%Z with 4294967296%Z; change (256 ^ 5)%Z with 1099511627776%Z;
  change (256 ^ 6)%Z with 281474976710656%Z; change (256 ^ 7)%Z with 72057594037927936%Z;
  change (256 ^ 8)%Z with 18446744073709551616%Z.

Local Ltac fix_consts :=
  repeat match goal with
  | H : context [(128 * 256 ^ ?e)%Z] |- _ =>
      let c := eval vm_compute in (128 * 256 ^ e)%Z in change (128 * 256 ^ e)%Z with c in H
  end.
Local Ltac fix_consts_goal :=
  repeat match goal with
  | |- context [(128 * 256 ^ ?e)%Z] =>
      let c := eval vm_compute in (128 * 256 ^ e)%Z in change (128 * 256 ^ e)%Z with c
  end.

(* [n] bytes hold v, and n is minimal: the decoder returns v *)
Lemma int64_dec_twos n v : (1 <= n <= 8)%nat ->
  (- (128 * 256 ^ (Z.of_nat n - 1)) <= v < 128 * 256 ^ (Z.of_nat n - 1))%Z ->
  (n = 1%nat \/ ~ (- (128 * 256 ^ (Z.of_nat n - 2)) <= v < 128 * 256 ^ (Z.of_nat n - 2))%Z) ->
  int64_dec (twos n v) = Some v.
Proof.
  intros Hn Hr Hmin. unfold int64_dec. cbv zeta. rewrite be_dec_twos, twos_length.
  assert (Hc : (n = 1 \/ n = 2 \/ n = 3 \/ n = 4 \/ n = 5 \/ n = 6 \/ n = 7 \/ n = 8)%nat) by lia.
  destruct Hc as [->|[->|[->|[->|[->|[->|[->| ->]]]]]]];
    (destruct Hmin as [Hmin|Hmin]; [try discriminate Hmin|]);
    unfold twos; cbn [be_enc check_integer Nat.leb andb]; norm_consts;
    fix_consts.
  all: set (u := Z.to_N (v mod _)%Z).
  all: try match goal with
       | |- context [negb ((?a =? 0) && (?b <? 128) || (?a =? 255) && (128 <=? ?b))] =>
           destruct (a =? 0) eqn:E0; destruct (b <? 128) eqn:E1; destruct (a =? 255) eqn:E2; destruct (128 <=? b) eqn:E3;
           cbn [negb andb orb]
       end.
  all: try match goal with
       | |- context [128 <=? ?a] => destruct (128 <=? a) eqn:E4
       end.
  all: try (f_equal; subst u; lia).
  all: try (exfalso; subst u; lia).
Qed.

Theorem int64_dec_enc v : int64_ok v = true -> int64_dec (int64_enc v) = Some v.
Proof.
  unfold int64_ok. intros Hv. apply andb_prop in Hv as [Hlo Hhi].
  apply Z.leb_le in Hlo, Hhi.
  unfold int64_enc. cbn [int_len].
  repeat match goal with
  | |- context [((128 <=? ?i) || (?i <? -128))%Z] =>
      let E := fresh "E" in destruct ((128 <=? i) || (i <? -128))%Z eqn:E;
      [apply orb_true_iff in E; rewrite Z.leb_le, Z.ltb_lt in E
      |apply orb_false_iff in E; rewrite Z.leb_gt, Z.ltb_ge in E]
  end.
  all: apply int64_dec_twos; [lia| |]; norm_consts;
       fix_consts_goal; try lia.
  all: try (left; reflexivity).
  all: try (right; lia).
Qed.

(* ---- more about read_tlv: the element alone, and bytes stay bytes ---- *)

Lemma take_bytes_exact n v r : take_bytes n (v ++ r) = Some (v, r) -> take_bytes n v = Some (v, []).
Proof.
  intros H. apply take_bytes_spec in H as [_ HL]. rewrite <- HL.
  rewrite <- (app_nil_r v) at 2. apply take_bytes_app.
Qed.

(* what was read is, on its own, read the same way and completely *)
Theorem read_tlv_trim s tag h c rest : read_tlv s = Some (tag, h, c, rest) -> read_tlv (h ++ c) = Some (tag, h, c, []).
Proof.
  unfold read_tlv. destruct s as [|t [|lb r]]; try discriminate.
  destruct (t mod 32 =? 31) eqn:Et; [discriminate|].
  destruct (lb <? 128) eqn:El.
  - destruct (take_bytes lb r) as [[c0 rest0]|] eqn:E; [|discriminate].
    intros H; inversion H; subst. cbn [app]. rewrite Et, El.
    pose proof (take_bytes_spec _ _ _ _ E) as [-> _]. now rewrite (take_bytes_exact _ _ _ E).
  - destruct ((lb - 128 =? 0) || (4 <? lb - 128)) eqn:Ell; [discriminate|].
    destruct (take_bytes (lb - 128) r) as [[lbs r2]|] eqn:E; [|discriminate].
    destruct (be_dec lbs <? 128) eqn:G1; [discriminate|].
    destruct (be_dec lbs / 256 ^ (lb - 128 - 1) =? 0) eqn:G2; [discriminate|].
    destruct (4294967296 <=? 2 + (lb - 128) + be_dec lbs) eqn:G3; [discriminate|].
    destruct (take_bytes (be_dec lbs) r2) as [[c0 rest0]|] eqn:E2; [|discriminate].
    intros H; inversion H; subst. cbn [app]. rewrite Et, El, Ell.
    pose proof (take_bytes_spec _ _ _ _ E) as [-> HL1].
    pose proof (take_bytes_spec _ _ _ _ E2) as [-> HL2].
    rewrite <- HL1 at 1. rewrite take_bytes_app. rewrite G1, G2, G3.
    now rewrite (take_bytes_exact _ _ _ E2).
Qed.

Lemma read_tlv_bytes_ok s tag h c rest : bytes_ok s = true -> read_tlv s = Some (tag, h, c, rest) ->
  bytes_ok h = true /\ bytes_ok c = true /\ bytes_ok rest = true.
Proof.
  intros Hok H. apply read_tlv_split in H as (-> & _). rewrite !bytes_ok_app in Hok.
  apply andb_prop in Hok as [A B]. apply andb_prop in B as [B C]. auto.
Qed.

Lemma read_asn1_bytes_ok tag s c rest : bytes_ok s = true -> read_asn1 tag s = Some (c, rest) ->
  bytes_ok c = true /\ bytes_ok rest = true.
Proof.
  unfold read_asn1. intros Hok. destruct (read_tlv s) as [[[[t h] c0] r0]|] eqn:E; [|discriminate].
  destruct (t =? tag); [|discriminate]. intros H; inversion H; subst.
  now apply (read_tlv_bytes_ok _ _ _ _ _ Hok) in E as (_ & A & B).
Qed.

(* ReadASN1 accepts exactly one encoding of (tag, content) *)
Lemma read_asn1_is_emit tag s c rest : bytes_ok s = true -> read_asn1 tag s = Some (c, rest) ->
  s = emit_tlv tag c ++ rest.
Proof.
  unfold read_asn1. intros Hok. destruct (read_tlv s) as [[[[t h] c0] r0]|] eqn:E; [|discriminate].
  destruct (t =? tag) eqn:Et; [|discriminate]. intros H; inversion H; subst. apply N.eqb_eq in Et. subst.
  eapply read_tlv_is_emit; eassumption.
Qed.

(* ---- unsigned INTEGER contents ---- *)

Lemma strip0_no_lead bs : match strip0 bs with 0 :: _ => False | _ => True end.
Proof. induction bs as [|b r IH]; [exact I|]. cbn [strip0]. destruct b; [exact IH|exact I]. Qed.

Lemma strip0_be_dec bs : be_dec (strip0 bs) = be_dec bs.
Proof.
  induction bs as [|b r IH]; [reflexivity|]. cbn [strip0]. destruct b as [|p]; [|reflexivity].
  rewrite IH. unfold be_dec. cbn [be_dec_acc]. reflexivity.
Qed.

(* a list without leading zero is left alone *)
Lemma strip0_id b r : b <> 0 -> strip0 (b :: r) = b :: r.
Proof. intros H. cbn [strip0]. destruct b; [contradiction|reflexivity]. Qed.

Lemma strip1_id b r : b <> 0 -> strip1 (b :: r) = b :: r.
Proof. intros H. cbn [strip1]. destruct b; [contradiction|reflexivity]. Qed.

(* the content readASN1Bytes accepts is the content addASN1IntBytes writes for what it returned (unless that is zero) *)
Theorem uint_content_dec c v : bytes_ok c = true -> uint_dec_bytes c = Some v -> be_dec v <> 0 ->
  uint_content v = Some c /\ (exists b r, v = b :: r /\ b <> 0).
Proof.
  unfold uint_dec_bytes. intros Hok. destruct (check_integer c) eqn:Hc; [|discriminate].
  destruct c as [|b0 r]; [discriminate|]. destruct (128 <=? b0) eqn:E0; [discriminate|].
  intros H; inversion H; subst; clear H. intros Hnz. apply N.leb_gt in E0.
  destruct b0 as [|p].
  - (* leading zero: either the value is zero or the next byte has its top bit set *)
    destruct r as [|b1 r'].
    + exfalso. apply Hnz. reflexivity.
    + cbn [check_integer] in Hc. change (0 =? 0) with true in Hc. change (0 =? 255) with false in Hc.
      cbn [andb orb] in Hc. rewrite orb_false_r in Hc. apply negb_true_iff in Hc. apply N.ltb_ge in Hc.
      assert (Hb1 : b1 <> 0) by lia.
      change (strip1 (0 :: b1 :: r')) with (strip1 (b1 :: r')). rewrite (strip1_id _ _ Hb1).
      unfold uint_content. rewrite (strip0_id _ _ Hb1).
      replace (128 <=? b1) with true by (symmetry; apply N.leb_le; lia).
      split; [reflexivity|eauto].
  - assert (Hb : N.pos p <> 0) by discriminate.
    rewrite ?(strip1_id _ _ Hb). unfold uint_content. rewrite (strip0_id _ _ Hb).
    replace (128 <=? N.pos p) with false by (symmetry; apply N.leb_gt; lia).
    split; [reflexivity|eauto].
Qed.

(* and what addASN1IntBytes writes is read back as the stripped magnitude *)
Theorem uint_dec_content v c : bytes_ok v = true -> uint_content v = Some c ->
  uint_dec_bytes c = Some (strip0 v) /\ (exists b r, strip0 v = b :: r /\ b <> 0).
Proof.
  unfold uint_content. intros Hok. pose proof (strip0_no_lead v) as Hn.
  assert (Hok' : bytes_ok (strip0 v) = true).
  { clear Hn. induction v as [|b r IH]; [reflexivity|]. cbn [strip0]. cbn [bytes_ok forallb] in Hok.
    apply andb_prop in Hok as [A B]. destruct b; [now apply IH|]. cbn [bytes_ok forallb]. now rewrite A, B. }
  destruct (strip0 v) as [|b0 r] eqn:Es; [discriminate|].
  assert (Hb0 : b0 <> 0) by (destruct b0; [contradiction|discriminate]).
  cbn [bytes_ok forallb] in Hok'. apply andb_prop in Hok' as [Hb _]. unfold byte_ok in Hb. apply N.ltb_lt in Hb.
  destruct (128 <=? b0) eqn:E0; intros H; inversion H; subst; clear H.
  - apply N.leb_le in E0. unfold uint_dec_bytes. cbn [check_integer].
    change (0 =? 0) with true. change (0 =? 255) with false.
    replace (b0 <? 128) with false by (symmetry; apply N.ltb_ge; lia). cbn [andb orb negb].
    change (128 <=? 0) with false. cbv iota.
    change (strip1 (0 :: b0 :: r)) with (strip1 (b0 :: r)). rewrite (strip1_id _ _ Hb0). split; [reflexivity|eauto].
  - apply N.leb_gt in E0. unfold uint_dec_bytes.
    assert (Hc : check_integer (b0 :: r) = true).
    { destruct r as [|b1 r']; [reflexivity|]. cbn [check_integer].
      replace (b0 =? 0) with false by (symmetry; now apply N.eqb_neq).
      replace (b0 =? 255) with false by (symmetry; apply N.eqb_neq; lia). reflexivity. }
    rewrite Hc. replace (128 <=? b0) with false by (symmetry; apply N.leb_gt; lia).
    rewrite (strip1_id _ _ Hb0). split; [reflexivity|eauto].
Qed.

(* Arithmetic and bit-vector helper lemmas for the replay window (C11/C12): exactness of the
   uint64 operations inside their range, masks as bit ranges, circular ranges modulo L. *)
From Coq Require Import List NArith Lia Bool.
Import ListNotations.
From NV Require Import lib.Bytes.
Open Scope N_scope.

Ltac bdes :=
  repeat match goal with
  | |- context [?a <? ?b] => destruct (N.ltb_spec a b)
  | |- context [?a <=? ?b] => destruct (N.leb_spec a b)
  | |- context [?a =? ?b] => destruct (N.eqb_spec a b)
  end.

Lemma mod_lt_2 a L : 0 < L -> a < 2 * L -> a mod L = if a <? L then a else a - L.
Proof.
  intros HL Ha. destruct (N.ltb_spec a L) as [H|H].
  - now apply N.mod_small.
  - replace a with ((a - L) + 1 * L) at 1 by lia.
    rewrite N.mod_add by lia. apply N.mod_small. lia.
Qed.

(* circular range: position p lies among the c positions s, s+1, ... (mod L) *)
Definition in_circ (L s c p : N) : bool := (p + L - s) mod L <? c.

Lemma in_circ_zero L s p : in_circ L s 0 p = false.
Proof. unfold in_circ. apply N.ltb_ge. apply N.le_0_l. Qed.

Lemma in_circ_full L s c p : 0 < L -> L <= c -> in_circ L s c p = true.
Proof.
  intros HL Hc. unfold in_circ. apply N.ltb_lt.
  pose proof (N.mod_lt (p + L - s) L). lia.
Qed.

(* extending a circular range by the linear range [pos, pos+n), pos being its current end *)
Lemma in_circ_extend L s d n p :
  0 < L -> s < L -> p < L -> d + n <= L -> (s + d) mod L + n <= L ->
  in_circ L s (d + n) p =
  in_circ L s d p || (((s + d) mod L <=? p) && (p <? (s + d) mod L + n)).
Proof.
  intros HL Hs Hp Hd Hpos. unfold in_circ in *.
  rewrite (mod_lt_2 (p + L - s) L) by lia.
  rewrite (mod_lt_2 (s + d) L) in * by lia.
  destruct (N.ltb_spec (p + L - s) L); destruct (N.ltb_spec (s + d) L);
    bdes; simpl; try reflexivity; try lia.
Qed.

Lemma mod_circ_dist L j c0 :
  0 < L -> c0 <= j + L -> (j mod L + L - c0 mod L) mod L = (j + L - c0) mod L.
Proof.
  intros HL H.
  pose proof (N.div_mod j L ltac:(lia)) as Ej.
  pose proof (N.div_mod c0 L ltac:(lia)) as Ec.
  pose proof (N.mod_lt j L ltac:(lia)). pose proof (N.mod_lt c0 L ltac:(lia)).
  rewrite <- (N.mod_add (j + L - c0) (c0 / L) L) by lia.
  rewrite <- (N.mod_add (j mod L + L - c0 mod L) (j / L) L) by lia.
  f_equal.
  generalize dependent (j / L). generalize dependent (c0 / L).
  generalize dependent (j mod L). generalize dependent (c0 mod L). intros. nia.
Qed.

Lemma mod_neq_close L i j : 0 < L -> j < i -> i < j + L -> i mod L <> j mod L.
Proof.
  intros HL H1 H2 E.
  pose proof (N.div_mod i L ltac:(lia)) as Ei.
  pose proof (N.div_mod j L ltac:(lia)) as Ej.
  rewrite E in Ei.
  assert (i - j = L * (i / L) - L * (j / L)) by lia.
  assert (j / L < i / L) by nia.
  assert (L * (j / L) + L <= L * (i / L)) by nia.
  lia.
Qed.

(* ---- uint64 operations inside their range ---- *)
Local Notation two64 := 18446744073709551616 (only parsing).

Lemma w64_small x : x < two64 -> w64 x = x.
Proof. intros H. unfold w64. apply N.mod_small. exact H. Qed.

Lemma w64_lt x : w64 x < two64.
Proof. unfold w64. apply N.mod_lt. discriminate. Qed.

Lemma pow2_lt_two64 s : s < 64 -> 2 ^ s < two64.
Proof. intros H. change two64 with (2 ^ 64). apply N.pow_lt_mono_r; lia. Qed.

Lemma land_low_mask i k : N.land i (2 ^ k - 1) = i mod 2 ^ k.
Proof. rewrite N.sub_1_r, <- N.ones_equiv. apply N.land_ones. Qed.

Lemma shiftr_6 p : N.shiftr p 6 = p / 64.
Proof. rewrite N.shiftr_div_pow2. reflexivity. Qed.

Lemma land_63 p : N.land p 63 = p mod 64.
Proof. change 63 with (N.ones 6). rewrite N.land_ones. reflexivity. Qed.

(* testing one bit: w & (1 << s) != 0 *)
Lemma land_pow2_testbit w s : negb (N.land w (2 ^ s) =? 0) = N.testbit w s.
Proof.
  destruct (N.testbit w s) eqn:E.
  - apply negb_true_iff, N.eqb_neq. intros H.
    assert (N.testbit (N.land w (2 ^ s)) s = true).
    { rewrite N.land_spec, E, N.pow2_bits_true. reflexivity. }
    rewrite H, N.bits_0 in H0. discriminate.
  - apply negb_false_iff, N.eqb_eq. apply N.bits_inj_0. intros m.
    rewrite N.land_spec, N.pow2_bits_eqb.
    destruct (N.eqb_spec s m); [subst; rewrite E; reflexivity|apply andb_false_r].
Qed.

Lemma testbit_range_mask n b k :
  N.testbit (N.shiftl (N.ones n) b) k = (b <=? k) && (k <? b + n).
Proof.
  destruct (N.leb_spec b k) as [H|H]; simpl.
  - rewrite N.shiftl_spec_high' by exact H.
    destruct (N.ltb_spec k (b + n)).
    + apply N.ones_spec_low. lia.
    + apply N.ones_spec_high. lia.
  - apply N.shiftl_spec_low. exact H.
Qed.

Lemma ones_lt_pow2 n : N.ones n < 2 ^ n.
Proof. rewrite N.ones_equiv. pose proof (N.pow_nonzero 2 n). lia. Qed.

Lemma shiftl_ones_lt n b : N.shiftl (N.ones n) b < 2 ^ (n + b).
Proof.
  rewrite N.shiftl_mul_pow2, N.pow_add_r.
  pose proof (ones_lt_pow2 n). pose proof (N.pow_nonzero 2 b). nia.
Qed.

(* Proto: the protobuf wire format over bytes ([list N], every element < 256), as spoken by
   - google.golang.org/protobuf/encoding/protowire  (hand-written codecs: handshake/payload.go), and
   - the code protoc-gen-gogofaster generates (nebula.pb.go: NebulaMeta, NebulaControl, ...; inline varint loops,
     skipNebula).
   The two decoder families differ on malformed input; both are modelled and the differences are lemmas here.

   Names in this file are an interface for other components (cert v1 codec, lighthouse): do not rename.

   Varints (what the real decoders do):
     protowire.ConsumeVarint     at most 10 bytes; the 10th byte must be 0 or 1 (else "overflow"); a continuation
                                 bit on the 10th byte is "overflow" too; running out of input is "truncated".
                                 Non-minimal encodings (e.g. 80 00 = 0, 81 80 80 00 = 1) are ACCEPTED.
       = [varint_dec]            the 7-bit groups are summed without wrap-around and the sum must be < 2^64.
     generated gogo loop         `for shift := 0; ; shift += 7 { if shift >= 64 {overflow}; if eof {EOF}; v |= (b&0x7f)<<shift; ...}`
                                 at most 10 bytes as well, but the 10th byte may be anything < 0x80: its bits 1..6 are
                                 shifted out silently. Non-minimal encodings accepted.
       = [varint_dec_gogo]       the same sum, reduced mod 2^64.
     Both reject the empty input and any input whose first 10 bytes all carry the continuation bit. *)
From Coq Require Import List NArith ZArith Lia Bool.
From Coq Require Import ZifyN ZifyNat ZifyBool.
Import ListNotations.
From NV Require Import lib.Bytes.
Open Scope N_scope.
Local Ltac Zify.zify_post_hook ::= Z.div_mod_to_equations.

Definition two64 : N := 18446744073709551616.
Definition max_field_number : N := 2147483647.  (* math.MaxInt32: what ConsumeTag / the generated code accept *)

(* ------------------------------------------------------------------------------------------------ *)
(* Varint                                                                                             *)
(* ------------------------------------------------------------------------------------------------ *)

Fixpoint varint_enc_fuel (k : nat) (x : N) : list N :=
  match k with
  | O => []
  | S k' => if x <? 128 then [x] else (x mod 128 + 128) :: varint_enc_fuel k' (x / 128)
  end.

(* number of bytes of the minimal encoding: 1 + floor(log2 x / 7) *)
Definition varint_size (x : N) : nat := S (N.to_nat (N.log2 x / 7)).

(* protowire.AppendVarint / encodeVarintNebula: minimal little-endian base-128 *)
Definition varint_enc (x : N) : list N := varint_enc_fuel (varint_size x) x.

(* at most k bytes; value = sum of (b_i mod 128) * 2^(shift + 7 i), no wrap-around *)
Fixpoint varint_raw (k : nat) (shift acc : N) (b : list N) : option (N * list N) :=
  match k, b with
  | S k', x :: r =>
      let acc' := acc + (x mod 128) * 2 ^ shift in
      if x <? 128 then Some (acc', r) else varint_raw k' (shift + 7) acc' r
  | _, _ => None
  end.

(* protowire.ConsumeVarint *)
Definition varint_dec (b : list N) : option (N * list N) :=
  match varint_raw 10 0 0 b with
  | Some (v, r) => if v <? two64 then Some (v, r) else None
  | None => None
  end.

(* the inline loop of generated gogo code reading into a uint64 *)
Definition varint_dec_gogo (b : list N) : option (N * list N) :=
  match varint_raw 10 0 0 b with
  | Some (v, r) => Some (v mod two64, r)
  | None => None
  end.

(* ------------------------------------------------------------------------------------------------ *)
(* Tags                                                                                               *)
(* ------------------------------------------------------------------------------------------------ *)

(* wire types *)
Definition wt_varint : N := 0.
Definition wt_fixed64 : N := 1.
Definition wt_bytes : N := 2.
Definition wt_sgroup : N := 3.
Definition wt_egroup : N := 4.
Definition wt_fixed32 : N := 5.

(* protowire.AppendTag: varint (num << 3 | typ) *)
Definition tag_enc (num typ : N) : list N := varint_enc (num * 8 + typ).

(* protowire.ConsumeTag: field number must be in 1 .. MaxInt32 (NOT only up to 2^29-1); the wire type is the
   low three bits, any value 0..7 at this stage. Result ((num, typ), rest). *)
Definition tag_dec (b : list N) : option (N * N * list N) :=
  match varint_dec b with
  | Some (v, r) =>
      let num := v / 8 in
      if (1 <=? num) && (num <=? max_field_number) then Some (num, v mod 8, r) else None
  | None => None
  end.

(* prologue of every generated Unmarshal loop: fieldNum := int32(wire >> 3) (wraps: bits >= 32 of wire>>3 are lost),
   wireType 4 -> error, fieldNum <= 0 -> error *)
Definition tag_dec_gogo (b : list N) : option (N * N * list N) :=
  match varint_dec_gogo b with
  | Some (w, r) =>
      let num := (w / 8) mod 4294967296 in
      let typ := w mod 8 in
      if typ =? 4 then None
      else if (1 <=? num) && (num <=? max_field_number) then Some (num, typ, r) else None
  | None => None
  end.

(* ------------------------------------------------------------------------------------------------ *)
(* Length-delimited and fixed-width values                                                            *)
(* ------------------------------------------------------------------------------------------------ *)

Definition take_bytes (n : N) (b : list N) : option (list N * list N) :=
  if n <=? N.of_nat (length b) then Some (firstn (N.to_nat n) b, skipn (N.to_nat n) b) else None.

(* protowire.AppendBytes *)
Definition bytes_enc (v : list N) : list N := varint_enc (N.of_nat (length v)) ++ v.

(* protowire.ConsumeBytes: length varint, then that many bytes must be present *)
Definition bytes_dec (b : list N) : option (list N * list N) :=
  match varint_dec b with
  | Some (n, r) => take_bytes n r
  | None => None
  end.

(* generated code: `l |= int(b&0x7F) << shift`, l < 0 -> error, iNdEx + l < 0 -> error, iNdEx + l > len -> EOF.
   A Go slice is shorter than 2^63 bytes, so these three tests together are `l mod 2^64 <= remaining`. *)
Definition bytes_dec_gogo (b : list N) : option (list N * list N) :=
  match varint_dec_gogo b with
  | Some (n, r) => take_bytes n r
  | None => None
  end.

Definition fixed32_enc (x : N) : list N := le_enc 4 x.
Definition fixed64_enc (x : N) : list N := le_enc 8 x.
Definition fixed32_dec (b : list N) : option (N * list N) :=
  match take_bytes 4 b with Some (v, r) => Some (le_dec v, r) | None => None end.
Definition fixed64_dec (b : list N) : option (N * list N) :=
  match take_bytes 8 b with Some (v, r) => Some (le_dec v, r) | None => None end.

(* whole fields *)
Definition field_varint (num x : N) : list N := tag_enc num wt_varint ++ varint_enc x.
Definition field_bytes (num : N) (v : list N) : list N := tag_enc num wt_bytes ++ bytes_enc v.
Definition field_fixed32 (num x : N) : list N := tag_enc num wt_fixed32 ++ fixed32_enc x.
Definition field_fixed64 (num x : N) : list N := tag_enc num wt_fixed64 ++ fixed64_enc x.

(* ------------------------------------------------------------------------------------------------ *)
(* Skipping unknown fields                                                                            *)
(* ------------------------------------------------------------------------------------------------ *)

(* the value of a field of wire type [typ], groups and reserved wire types rejected; returns the rest *)
Definition skip_field (typ : N) (b : list N) : option (list N) :=
  match typ with
  | 0 => option_map snd (varint_dec b)
  | 1 => option_map snd (take_bytes 8 b)
  | 2 => option_map snd (bytes_dec b)
  | 5 => option_map snd (take_bytes 4 b)
  | _ => None
  end.

(* protowire.ConsumeFieldValue(num, typ, b): as [skip_field], plus groups: a start-group consumes fields up to the
   end-group tag, whose field number must equal [num]; nesting limited by DefaultRecursionLimit = 10000
   (`depth < 0` fails, so 10001 nested levels pass). Every tag inside a group goes through ConsumeTag. *)
Fixpoint group_loop_pw (skipv : nat -> N -> N -> list N -> option (list N)) (num : N) (k : nat) (b : list N)
  : option (list N) :=
  match k with
  | O => None
  | S k' =>
      match tag_dec b with
      | None => None
      | Some (num2, typ2, b1) =>
          if typ2 =? 4 then (if num2 =? num then Some b1 else None)
          else match skipv k' num2 typ2 b1 with
               | None => None
               | Some b2 => group_loop_pw skipv num k' b2
               end
      end
  end.

(* [d] = nesting levels still allowed, [k] = fuel for the group loops, any k >= length b (every field consumes
   at least its tag byte; see skip_value_pw_fuel: the fuel never decides the result) *)
Fixpoint skip_value_pw (d : nat) (k : nat) (num typ : N) (b : list N) : option (list N) :=
  if typ =? 3 then
    match d with
    | O => None
    | S d' => group_loop_pw (skip_value_pw d') num k b
    end
  else skip_field typ b.

Definition pw_recursion_levels : nat := N.to_nat 10001.
Definition skip_field_pw (num typ : N) (b : list N) : option (list N) :=
  skip_value_pw pw_recursion_levels (length b) num typ b.

(* skipNebula (generated): starts AT THE TAG. One item of its loop: new depth and rest. The tag's field number is
   not looked at (0 is fine), end-group tags are not matched against start-group tags, nesting is unbounded. *)
Definition skip_item_gogo (depth : N) (b : list N) : option (N * list N) :=
  match varint_dec_gogo b with
  | None => None
  | Some (w, b1) =>
      match w mod 8 with
      | 0 => match varint_dec_gogo b1 with Some (_, b2) => Some (depth, b2) | None => None end
      | 1 => match take_bytes 8 b1 with Some (_, b2) => Some (depth, b2) | None => None end
      | 2 => match bytes_dec_gogo b1 with Some (_, b2) => Some (depth, b2) | None => None end
      | 3 => Some (depth + 1, b1)
      | 4 => if depth =? 0 then None else Some (depth - 1, b1)
      | 5 => match take_bytes 4 b1 with Some (_, b2) => Some (depth, b2) | None => None end
      | _ => None
      end
  end.

Fixpoint skip_loop_gogo (k : nat) (depth : N) (b : list N) : option (list N) :=
  match k with
  | O => None
  | S k' =>
      match skip_item_gogo depth b with
      | None => None
      | Some (d', b') => if d' =? 0 then Some b' else skip_loop_gogo k' d' b'
      end
  end.

(* rest after one complete (possibly nested) field *)
Definition skip_gogo (b : list N) : option (list N) := skip_loop_gogo (length b) 0 b.

(* ------------------------------------------------------------------------------------------------ *)
(* Message loops: `for len(b) > 0 { tag; value }` with a step that consumes at least one byte           *)
(* ------------------------------------------------------------------------------------------------ *)

Section MsgLoop.
  Context {St : Type}.
  Variable step : St -> list N -> option (St * list N).

  Fixpoint msg_loop (k : nat) (st : St) (b : list N) : option St :=
    match b with
    | [] => Some st
    | _ :: _ =>
        match k with
        | O => None
        | S k' =>
            match step st b with
            | None => None
            | Some (st', b') => msg_loop k' st' b'
            end
        end
    end.

  (* fuel = number of bytes: enough, because every step consumes at least one (see [msg_loop_fuel]) *)
  Definition msg_run (st : St) (b : list N) : option St := msg_loop (length b) st b.
End MsgLoop.

(* packed repeated varints: the whole of [b] is a sequence of varints *)
Definition packed_dec (dec : list N -> option (N * list N)) (b : list N) : option (list N) :=
  msg_run (fun acc b => match dec b with Some (v, r) => Some (acc ++ [v], r) | None => None end) [] b.
Definition packed_enc (xs : list N) : list N := flat_map varint_enc xs.

(* ================================================================================================ *)
(* Lemmas                                                                                             *)
(* ================================================================================================ *)

Lemma pow128_succ k : 128 ^ N.of_nat (S k) = 128 * 128 ^ N.of_nat k.
Proof. replace (N.of_nat (S k)) with (N.succ (N.of_nat k)) by lia. apply N.pow_succ_r'. Qed.

Lemma varint_size_bound x : x < 128 ^ N.of_nat (varint_size x).
Proof.
  unfold varint_size. set (q := N.log2 x / 7).
  replace (N.of_nat (S (N.to_nat q))) with (q + 1) by lia.
  destruct (N.eq_dec x 0) as [->|Hx].
  - apply N.lt_le_trans with 1; [lia|]. apply N.lt_le_incl. apply N.pow_gt_1; lia.
  - assert (H : x < 2 ^ N.succ (N.log2 x)) by (apply N.log2_spec; lia).
    replace 128 with (2 ^ 7) by reflexivity. rewrite <- N.pow_mul_r.
    eapply N.lt_le_trans; [exact H|]. apply N.pow_le_mono_r; [lia|].
    pose proof (N.div_mod (N.log2 x) 7 ltac:(lia)) as E.
    pose proof (N.mod_lt (N.log2 x) 7 ltac:(lia)) as L. fold q in E. lia.
Qed.

Lemma varint_size_le10 x : x < two64 -> (1 <= varint_size x <= 10)%nat.
Proof.
  intros H. unfold varint_size. split; [lia|].
  destruct (N.eq_dec x 0) as [->|Hx]; [cbn; lia|].
  assert (L : N.log2 x < 64) by (apply N.log2_lt_pow2; [lia|exact H]).
  assert (N.log2 x / 7 <= 9).
  { apply N.lt_succ_r. apply N.div_lt_upper_bound; lia. }
  lia.
Qed.

Lemma varint_enc_fuel_length_le k : forall x, (length (varint_enc_fuel k x) <= k)%nat.
Proof.
  induction k as [|k IH]; intros x; cbn [varint_enc_fuel]; [cbn; lia|].
  destruct (x <? 128); cbn [length]; [lia|]. specialize (IH (x / 128)). lia.
Qed.

Lemma varint_enc_fuel_nonempty k x : (length (varint_enc_fuel (S k) x) >= 1)%nat.
Proof. cbn [varint_enc_fuel]. destruct (x <? 128); cbn [length]; lia. Qed.

Lemma varint_enc_length x : x < two64 -> (1 <= length (varint_enc x) <= 10)%nat.
Proof.
  intros H. unfold varint_enc. pose proof (varint_size_le10 x H) as [_ L].
  pose proof (varint_enc_fuel_length_le (varint_size x) x).
  unfold varint_size in *. pose proof (varint_enc_fuel_nonempty (N.to_nat (N.log2 x / 7)) x). lia.
Qed.

Lemma varint_enc_nonempty x : varint_enc x <> [].
Proof.
  unfold varint_enc, varint_size. cbn [varint_enc_fuel]. destruct (x <? 128); discriminate.
Qed.

Lemma varint_enc_fuel_bytes_ok k : forall x, bytes_ok (varint_enc_fuel k x) = true.
Proof.
  induction k as [|k IH]; intros x; cbn [varint_enc_fuel]; [reflexivity|].
  destruct (x <? 128) eqn:E.
  - apply N.ltb_lt in E. cbn. unfold byte_ok. rewrite andb_true_r. apply N.ltb_lt. lia.
  - cbn [bytes_ok forallb]. fold (bytes_ok (varint_enc_fuel k (x / 128))). rewrite IH, andb_true_r.
    unfold byte_ok. apply N.ltb_lt. pose proof (N.mod_lt x 128 ltac:(lia)). lia.
Qed.

Lemma varint_enc_bytes_ok x : bytes_ok (varint_enc x) = true.
Proof. apply varint_enc_fuel_bytes_ok. Qed.

(* the raw decoder inverts the encoder, whatever follows *)
Lemma varint_enc_fuel_S k x :
  varint_enc_fuel (S k) x = if x <? 128 then [x] else (x mod 128 + 128) :: varint_enc_fuel k (x / 128).
Proof. reflexivity. Qed.

Lemma varint_raw_cons k shift acc x r :
  varint_raw (S k) shift acc (x :: r) =
  if x <? 128 then Some (acc + (x mod 128) * 2 ^ shift, r)
  else varint_raw k (shift + 7) (acc + (x mod 128) * 2 ^ shift) r.
Proof. reflexivity. Qed.

Lemma varint_raw_enc_fuel f : forall x k shift acc rest,
  x < 128 ^ N.of_nat (S f) -> (S f <= k)%nat ->
  varint_raw k shift acc (varint_enc_fuel (S f) x ++ rest) = Some (acc + x * 2 ^ shift, rest).
Proof.
  induction f as [|f IH]; intros x k shift acc rest Hx Hk;
    (destruct k as [|k]; [lia|]); rewrite varint_enc_fuel_S.
  - assert (x < 128) by (cbn in Hx; lia).
    destruct (x <? 128) eqn:E; [|apply N.ltb_ge in E; lia].
    cbn [app]. rewrite varint_raw_cons, E. rewrite N.mod_small by assumption. reflexivity.
  - destruct (x <? 128) eqn:E.
    + cbn [app]. rewrite varint_raw_cons, E. apply N.ltb_lt in E.
      rewrite N.mod_small by assumption. reflexivity.
    + apply N.ltb_ge in E. rewrite <- app_comm_cons, varint_raw_cons.
      destruct (x mod 128 + 128 <? 128) eqn:E2; [apply N.ltb_lt in E2; lia|].
      rewrite IH.
      * f_equal. f_equal.
        replace ((x mod 128 + 128) mod 128) with (x mod 128) by lia.
        rewrite N.pow_add_r. change (2 ^ 7) with 128.
        pose proof (N.div_mod x 128 ltac:(lia)) as D. nia.
      * rewrite pow128_succ in Hx. apply N.div_lt_upper_bound; lia.
      * lia.
Qed.

Lemma varint_raw_enc x rest : x < two64 ->
  varint_raw 10 0 0 (varint_enc x ++ rest) = Some (x, rest).
Proof.
  intros H. unfold varint_enc. pose proof (varint_size_le10 x H) as [_ L].
  pose proof (varint_size_bound x) as B. unfold varint_size in *.
  rewrite varint_raw_enc_fuel; [|exact B|exact L]. f_equal. f_equal. cbn. lia.
Qed.

(* THE round trip: decoding an encoding followed by anything returns the value and exactly the rest *)
Theorem varint_dec_enc x rest : x < two64 -> varint_dec (varint_enc x ++ rest) = Some (x, rest).
Proof.
  intros H. unfold varint_dec. rewrite varint_raw_enc by assumption.
  destruct (x <? two64) eqn:E; [reflexivity|apply N.ltb_ge in E; lia].
Qed.

Theorem varint_dec_gogo_enc x rest : x < two64 -> varint_dec_gogo (varint_enc x ++ rest) = Some (x, rest).
Proof.
  intros H. unfold varint_dec_gogo. rewrite varint_raw_enc by assumption.
  rewrite N.mod_small by assumption. reflexivity.
Qed.

(* progress: a successful raw decode consumed a non-empty prefix of at most k bytes *)
Lemma varint_raw_progress k : forall shift acc b v r,
  varint_raw k shift acc b = Some (v, r) ->
  exists p, b = p ++ r /\ (1 <= length p <= k)%nat.
Proof.
  induction k as [|k IH]; intros shift acc b v r H; [destruct b; discriminate|].
  destruct b as [|x b]; [discriminate|]. cbn [varint_raw] in H.
  destruct (x <? 128).
  - inversion H; subst. exists [x]. split; [reflexivity|cbn; lia].
  - apply IH in H as (p & -> & L). exists (x :: p). split; [reflexivity|cbn [length]; lia].
Qed.

Theorem varint_dec_progress b v r : varint_dec b = Some (v, r) ->
  (exists p, b = p ++ r /\ (1 <= length p <= 10)%nat) /\ v < two64.
Proof.
  unfold varint_dec. destruct (varint_raw 10 0 0 b) as [[v' r']|] eqn:E; [|discriminate].
  destruct (v' <? two64) eqn:L; [|discriminate]. intros H; inversion H; subst.
  split; [eapply varint_raw_progress; eassumption|now apply N.ltb_lt].
Qed.

Theorem varint_dec_gogo_progress b v r : varint_dec_gogo b = Some (v, r) ->
  (exists p, b = p ++ r /\ (1 <= length p <= 10)%nat) /\ v < two64.
Proof.
  unfold varint_dec_gogo. destruct (varint_raw 10 0 0 b) as [[v' r']|] eqn:E; [|discriminate].
  intros H; inversion H; subst.
  split; [eapply varint_raw_progress; eassumption|apply N.mod_lt; discriminate].
Qed.

Corollary varint_dec_shorter b v r : varint_dec b = Some (v, r) -> (length r < length b)%nat.
Proof. intros H. apply varint_dec_progress in H as [(p & -> & L) _]. rewrite app_length. lia. Qed.

Corollary varint_dec_gogo_shorter b v r : varint_dec_gogo b = Some (v, r) -> (length r < length b)%nat.
Proof. intros H. apply varint_dec_gogo_progress in H as [(p & -> & L) _]. rewrite app_length. lia. Qed.

(* truncation: input that ends while the continuation bit is still set is rejected *)
Lemma varint_raw_truncated k : forall shift acc b,
  (forall x, In x b -> 128 <= x) -> varint_raw k shift acc b = None.
Proof.
  induction k as [|k IH]; intros shift acc b H; [destruct b; reflexivity|].
  destruct b as [|x b]; [reflexivity|]. cbn [varint_raw].
  assert (128 <= x) by (apply H; now left).
  destruct (x <? 128) eqn:E; [apply N.ltb_lt in E; lia|].
  apply IH. intros y Hy. apply H. now right.
Qed.

Theorem varint_dec_truncated b : (forall x, In x b -> 128 <= x) ->
  varint_dec b = None /\ varint_dec_gogo b = None.
Proof. intros H. unfold varint_dec, varint_dec_gogo. rewrite varint_raw_truncated by assumption. auto. Qed.

Lemma varint_dec_nil : varint_dec [] = None. Proof. reflexivity. Qed.
Lemma varint_dec_gogo_nil : varint_dec_gogo [] = None. Proof. reflexivity. Qed.

(* every proper prefix of an encoding has the continuation bit on all its bytes *)
Lemma varint_enc_fuel_prefix_cont k : forall x n y,
  (n < length (varint_enc_fuel k x))%nat -> In y (firstn n (varint_enc_fuel k x)) -> 128 <= y.
Proof.
  induction k as [|k IH]; intros x n y Hn Hy; [cbn in Hn; lia|].
  cbn [varint_enc_fuel] in *. destruct (x <? 128).
  - cbn [length] in Hn. assert (n = 0%nat) by lia. subst. cbn in Hy. contradiction.
  - destruct n as [|n]; [cbn in Hy; contradiction|]. cbn [firstn length] in *.
    destruct Hy as [<-|Hy]; [lia|]. eapply IH; [|exact Hy]. lia.
Qed.

Theorem varint_dec_enc_truncated x n : (n < length (varint_enc x))%nat ->
  varint_dec (firstn n (varint_enc x)) = None /\ varint_dec_gogo (firstn n (varint_enc x)) = None.
Proof.
  intros H. apply varint_dec_truncated. intros y Hy. unfold varint_enc in *.
  eapply varint_enc_fuel_prefix_cont; eassumption.
Qed.

(* more input after an accepted varint changes nothing *)
Lemma varint_raw_ext k : forall shift acc b v r t,
  varint_raw k shift acc b = Some (v, r) -> varint_raw k shift acc (b ++ t) = Some (v, r ++ t).
Proof.
  induction k as [|k IH]; intros shift acc b v r t H; [destruct b; discriminate|].
  destruct b as [|x b]; [discriminate|]. cbn [app varint_raw] in *.
  destruct (x <? 128); [inversion H; subst; reflexivity|now apply IH].
Qed.

Lemma varint_dec_ext b v r t : varint_dec b = Some (v, r) -> varint_dec (b ++ t) = Some (v, r ++ t).
Proof.
  unfold varint_dec. destruct (varint_raw 10 0 0 b) as [[v' r']|] eqn:E; [|discriminate].
  rewrite (varint_raw_ext _ _ _ _ _ _ t E). destruct (v' <? two64); [|discriminate].
  intros H; inversion H; subst; reflexivity.
Qed.

Lemma varint_dec_gogo_ext b v r t :
  varint_dec_gogo b = Some (v, r) -> varint_dec_gogo (b ++ t) = Some (v, r ++ t).
Proof.
  unfold varint_dec_gogo. destruct (varint_raw 10 0 0 b) as [[v' r']|] eqn:E; [|discriminate].
  rewrite (varint_raw_ext _ _ _ _ _ _ t E). intros H; inversion H; subst; reflexivity.
Qed.

(* protowire is the stricter of the two varint decoders, and they agree whenever protowire accepts *)
Theorem varint_dec_implies_gogo b v r : varint_dec b = Some (v, r) -> varint_dec_gogo b = Some (v, r).
Proof.
  unfold varint_dec, varint_dec_gogo. destruct (varint_raw 10 0 0 b) as [[v' r']|]; [|discriminate].
  destruct (v' <? two64) eqn:L; [|discriminate]. apply N.ltb_lt in L.
  intros H; inversion H; subst. rewrite N.mod_small by assumption. reflexivity.
Qed.

(* the only disagreement: a 10-byte varint whose 7-bit groups sum to 2^64 or more (10th byte in 2..127):
   protowire says overflow, the generated loop drops the high bits *)
Theorem varint_dec_disagree b v r :
  varint_dec_gogo b = Some (v, r) -> varint_dec b = None ->
  exists raw, varint_raw 10 0 0 b = Some (raw, r) /\ two64 <= raw /\ v = raw mod two64.
Proof.
  unfold varint_dec, varint_dec_gogo. destruct (varint_raw 10 0 0 b) as [[v' r']|]; [|discriminate].
  intros H; inversion H; subst. destruct (v' <? two64) eqn:L; [discriminate|]. apply N.ltb_ge in L.
  intros _. exists v'. auto.
Qed.

Example varint_overlong_10th_byte :
  let b := [255; 255; 255; 255; 255; 255; 255; 255; 255; 2] in
  varint_dec b = None /\ varint_dec_gogo b = Some (9223372036854775807, []).
Proof. vm_compute. split; reflexivity. Qed.

Example varint_nonminimal_accepted :
  varint_dec [128; 0] = Some (0, []) /\ varint_dec [129; 128; 128; 0] = Some (1, []) /\
  varint_dec_gogo [128; 0] = Some (0, []) /\
  varint_dec [128; 128; 128; 128; 128; 128; 128; 128; 128; 0] = Some (0, []) /\
  varint_dec [128; 128; 128; 128; 128; 128; 128; 128; 128; 128; 0] = None /\
  varint_dec_gogo [128; 128; 128; 128; 128; 128; 128; 128; 128; 128; 0] = None.
Proof. vm_compute. repeat split; reflexivity. Qed.

Example varint_max : varint_enc (two64 - 1) = [255; 255; 255; 255; 255; 255; 255; 255; 255; 1].
Proof. vm_compute. reflexivity. Qed.

(* ---- tags ---- *)

Lemma tag_value_bound num typ : num <= max_field_number -> typ < 8 -> num * 8 + typ < two64.
Proof. unfold max_field_number, two64. lia. Qed.

Lemma tag_div num typ : typ < 8 -> (num * 8 + typ) / 8 = num.
Proof. intros H. rewrite N.div_add_l by lia. rewrite N.div_small by assumption. lia. Qed.

Lemma tag_mod num typ : typ < 8 -> (num * 8 + typ) mod 8 = typ.
Proof. intros H. rewrite N.add_comm, N.mod_add by lia. now apply N.mod_small. Qed.

Theorem tag_dec_enc num typ rest : 1 <= num -> num <= max_field_number -> typ < 8 ->
  tag_dec (tag_enc num typ ++ rest) = Some (num, typ, rest).
Proof.
  intros H1 H2 Ht. unfold tag_dec, tag_enc.
  rewrite varint_dec_enc by (now apply tag_value_bound).
  rewrite tag_div, tag_mod by assumption.
  destruct (1 <=? num) eqn:A; [|apply N.leb_gt in A; lia].
  destruct (num <=? max_field_number) eqn:B; [|apply N.leb_gt in B; lia]. reflexivity.
Qed.

Theorem tag_dec_gogo_enc num typ rest : 1 <= num -> num <= max_field_number -> typ < 8 -> typ <> 4 ->
  tag_dec_gogo (tag_enc num typ ++ rest) = Some (num, typ, rest).
Proof.
  intros H1 H2 Ht H4. unfold tag_dec_gogo, tag_enc.
  rewrite varint_dec_gogo_enc by (now apply tag_value_bound).
  rewrite tag_div, tag_mod by assumption.
  rewrite (N.mod_small num) by (unfold max_field_number in H2; lia).
  destruct (typ =? 4) eqn:E; [apply N.eqb_eq in E; contradiction|].
  destruct (1 <=? num) eqn:A; [|apply N.leb_gt in A; lia].
  destruct (num <=? max_field_number) eqn:B; [|apply N.leb_gt in B; lia]. reflexivity.
Qed.

Theorem tag_dec_progress b num typ r : tag_dec b = Some (num, typ, r) ->
  (exists p, b = p ++ r /\ (1 <= length p <= 10)%nat) /\ 1 <= num <= max_field_number /\ typ < 8.
Proof.
  unfold tag_dec. destruct (varint_dec b) as [[v r']|] eqn:E; [|discriminate].
  destruct ((1 <=? v / 8) && (v / 8 <=? max_field_number)) eqn:C; [|discriminate].
  intros H; inversion H; subst. apply andb_true_iff in C as [A B].
  apply N.leb_le in A. apply N.leb_le in B. apply varint_dec_progress in E as [P _].
  repeat split; try assumption. apply N.mod_lt; discriminate.
Qed.

Theorem tag_dec_gogo_progress b num typ r : tag_dec_gogo b = Some (num, typ, r) ->
  (exists p, b = p ++ r /\ (1 <= length p <= 10)%nat) /\ 1 <= num <= max_field_number /\ typ < 8 /\ typ <> 4.
Proof.
  unfold tag_dec_gogo. destruct (varint_dec_gogo b) as [[v r']|] eqn:E; [|discriminate].
  destruct (v mod 8 =? 4) eqn:T; [discriminate|].
  destruct ((1 <=? (v / 8) mod 4294967296) && ((v / 8) mod 4294967296 <=? max_field_number)) eqn:C; [|discriminate].
  intros H; inversion H; subst. apply andb_true_iff in C as [A B].
  apply N.leb_le in A. apply N.leb_le in B. apply varint_dec_gogo_progress in E as [P _].
  apply N.eqb_neq in T.
  repeat split; try assumption. apply N.mod_lt; discriminate.
Qed.

Corollary tag_dec_shorter b num typ r : tag_dec b = Some (num, typ, r) -> (length r < length b)%nat.
Proof. intros H. apply tag_dec_progress in H as [(p & -> & L) _]. rewrite app_length. lia. Qed.

Corollary tag_dec_gogo_shorter b num typ r : tag_dec_gogo b = Some (num, typ, r) -> (length r < length b)%nat.
Proof. intros H. apply tag_dec_gogo_progress in H as [(p & -> & L) _]. rewrite app_length. lia. Qed.

(* whenever protowire accepts a tag that is not an end-group, the generated prologue reads the same tag *)
Theorem tag_dec_implies_gogo b num typ r : tag_dec b = Some (num, typ, r) -> typ <> 4 ->
  tag_dec_gogo b = Some (num, typ, r).
Proof.
  unfold tag_dec, tag_dec_gogo. destruct (varint_dec b) as [[v r']|] eqn:E; [|discriminate].
  rewrite (varint_dec_implies_gogo _ _ _ E).
  destruct ((1 <=? v / 8) && (v / 8 <=? max_field_number)) eqn:C; [|discriminate].
  intros H; inversion H; subst. intros T. apply N.eqb_neq in T. rewrite T.
  pose proof C as C'. apply andb_true_iff in C' as [A B]. apply N.leb_le in B.
  rewrite N.mod_small by (unfold max_field_number in B; lia). rewrite C. reflexivity.
Qed.

Lemma tag_dec_ext b num typ r t : tag_dec b = Some (num, typ, r) -> tag_dec (b ++ t) = Some (num, typ, r ++ t).
Proof.
  unfold tag_dec. destruct (varint_dec b) as [[v r']|] eqn:E; [|discriminate].
  rewrite (varint_dec_ext _ _ _ t E). destruct (_ && _); [|discriminate].
  intros H; inversion H; subst; reflexivity.
Qed.

(* field numbers of 2^31 and above: protowire refuses, the generated code wraps to int32 *)
Example tag_fieldnum_wrap :
  let b := varint_enc ((4294967296 + 5) * 8 + 0) in
  tag_dec b = None /\ tag_dec_gogo b = Some (5, 0, []).
Proof. vm_compute. split; reflexivity. Qed.

(* ---- bytes ---- *)

Lemma take_bytes_app v rest : take_bytes (N.of_nat (length v)) (v ++ rest) = Some (v, rest).
Proof.
  unfold take_bytes. rewrite app_length.
  destruct (N.of_nat (length v) <=? N.of_nat (length v + length rest)) eqn:E; [|apply N.leb_gt in E; lia].
  rewrite Nat2N.id. rewrite firstn_app, skipn_app, Nat.sub_diag, firstn_all, skipn_all. cbn.
  now rewrite app_nil_r.
Qed.

Lemma take_bytes_spec n b v r : take_bytes n b = Some (v, r) -> b = v ++ r /\ N.of_nat (length v) = n.
Proof.
  unfold take_bytes. destruct (n <=? N.of_nat (length b)) eqn:E; [|discriminate]. apply N.leb_le in E.
  intros H; inversion H; subst. split; [symmetry; apply firstn_skipn|].
  rewrite firstn_length. lia.
Qed.

Lemma take_bytes_overrun n b : N.of_nat (length b) < n -> take_bytes n b = None.
Proof. intros H. unfold take_bytes. destruct (n <=? N.of_nat (length b)) eqn:E; [apply N.leb_le in E; lia|reflexivity]. Qed.

Lemma take_bytes_ext n b v r t : take_bytes n b = Some (v, r) -> take_bytes n (b ++ t) = Some (v, r ++ t).
Proof.
  intros H. apply take_bytes_spec in H as [-> <-]. rewrite <- app_assoc. apply take_bytes_app.
Qed.

Theorem bytes_dec_enc v rest : N.of_nat (length v) < two64 ->
  bytes_dec (bytes_enc v ++ rest) = Some (v, rest).
Proof.
  intros H. unfold bytes_dec, bytes_enc. rewrite <- app_assoc, varint_dec_enc by assumption.
  apply take_bytes_app.
Qed.

Theorem bytes_dec_gogo_enc v rest : N.of_nat (length v) < two64 ->
  bytes_dec_gogo (bytes_enc v ++ rest) = Some (v, rest).
Proof.
  intros H. unfold bytes_dec_gogo, bytes_enc. rewrite <- app_assoc, varint_dec_gogo_enc by assumption.
  apply take_bytes_app.
Qed.

Theorem bytes_dec_progress b v r : bytes_dec b = Some (v, r) ->
  exists p, b = p ++ v ++ r /\ (1 <= length p <= 10)%nat.
Proof.
  unfold bytes_dec. destruct (varint_dec b) as [[n r']|] eqn:E; [|discriminate].
  intros H. apply take_bytes_spec in H as [-> _]. apply varint_dec_progress in E as [(p & -> & L) _].
  exists p. auto.
Qed.

Theorem bytes_dec_gogo_progress b v r : bytes_dec_gogo b = Some (v, r) ->
  exists p, b = p ++ v ++ r /\ (1 <= length p <= 10)%nat.
Proof.
  unfold bytes_dec_gogo. destruct (varint_dec_gogo b) as [[n r']|] eqn:E; [|discriminate].
  intros H. apply take_bytes_spec in H as [-> _]. apply varint_dec_gogo_progress in E as [(p & -> & L) _].
  exists p. auto.
Qed.

Corollary bytes_dec_shorter b v r : bytes_dec b = Some (v, r) -> (length r < length b)%nat.
Proof. intros H. apply bytes_dec_progress in H as (p & -> & L). rewrite !app_length. lia. Qed.

Corollary bytes_dec_gogo_shorter b v r : bytes_dec_gogo b = Some (v, r) -> (length r < length b)%nat.
Proof. intros H. apply bytes_dec_gogo_progress in H as (p & -> & L). rewrite !app_length. lia. Qed.

(* a declared length running past the end of the input is rejected *)
Theorem bytes_dec_overrun n body : n < two64 -> N.of_nat (length body) < n ->
  bytes_dec (varint_enc n ++ body) = None /\ bytes_dec_gogo (varint_enc n ++ body) = None.
Proof.
  intros H L. unfold bytes_dec, bytes_dec_gogo.
  rewrite varint_dec_enc, varint_dec_gogo_enc by assumption. split; now apply take_bytes_overrun.
Qed.

Theorem bytes_dec_implies_gogo b v r : bytes_dec b = Some (v, r) -> bytes_dec_gogo b = Some (v, r).
Proof.
  unfold bytes_dec, bytes_dec_gogo. destruct (varint_dec b) as [[n r']|] eqn:E; [|discriminate].
  now rewrite (varint_dec_implies_gogo _ _ _ E).
Qed.

Lemma bytes_dec_ext b v r t : bytes_dec b = Some (v, r) -> bytes_dec (b ++ t) = Some (v, r ++ t).
Proof.
  unfold bytes_dec. destruct (varint_dec b) as [[n r']|] eqn:E; [|discriminate].
  rewrite (varint_dec_ext _ _ _ t E). apply take_bytes_ext.
Qed.

Lemma bytes_enc_bytes_ok v : bytes_ok v = true -> bytes_ok (bytes_enc v) = true.
Proof. intros H. unfold bytes_enc. now rewrite bytes_ok_app, varint_enc_bytes_ok, H. Qed.

(* ---- skipping ---- *)

Lemma skip_field_shorter typ b r : skip_field typ b = Some r -> (length r <= length b)%nat.
Proof.
  unfold skip_field.
  destruct typ as [|[[[|[]|]|[[]|[]|]|]|[[]|[]|]|]]; try discriminate.
  - destruct (varint_dec b) as [[v r']|] eqn:E; [|discriminate]. cbn. intros H; inversion H; subst.
    apply varint_dec_shorter in E. lia.
  - destruct (take_bytes 4 b) as [[v r']|] eqn:E; [|discriminate]. cbn. intros H; inversion H; subst.
    apply take_bytes_spec in E as [-> _]. rewrite app_length. lia.
  - destruct (bytes_dec b) as [[v r']|] eqn:E; [|discriminate]. cbn. intros H; inversion H; subst.
    apply bytes_dec_shorter in E. lia.
  - destruct (take_bytes 8 b) as [[v r']|] eqn:E; [|discriminate]. cbn. intros H; inversion H; subst.
    apply take_bytes_spec in E as [-> _]. rewrite app_length. lia.
Qed.

Lemma skip_field_varint x rest : x < two64 -> skip_field 0 (varint_enc x ++ rest) = Some rest.
Proof. intros H. cbn [skip_field]. now rewrite varint_dec_enc. Qed.

Lemma skip_field_bytes v rest : N.of_nat (length v) < two64 -> skip_field 2 (bytes_enc v ++ rest) = Some rest.
Proof. intros H. cbn [skip_field]. now rewrite bytes_dec_enc. Qed.

Lemma skip_field_fixed64 v rest : length v = 8%nat -> skip_field 1 (v ++ rest) = Some rest.
Proof. intros H. cbn [skip_field]. change 8 with (N.of_nat 8). rewrite <- H, take_bytes_app. reflexivity. Qed.

Lemma skip_field_fixed32 v rest : length v = 4%nat -> skip_field 5 (v ++ rest) = Some rest.
Proof. intros H. cbn [skip_field]. change 4 with (N.of_nat 4). rewrite <- H, take_bytes_app. reflexivity. Qed.

Lemma skip_field_groups_rejected b : skip_field 3 b = None /\ skip_field 4 b = None /\ skip_field 6 b = None /\ skip_field 7 b = None.
Proof. repeat split; reflexivity. Qed.

Lemma skip_value_pw_nongroup d k num typ b : typ <> 3 -> skip_value_pw d k num typ b = skip_field typ b.
Proof.
  intros H. destruct d; cbn [skip_value_pw]; (destruct (typ =? 3) eqn:E; [apply N.eqb_eq in E; contradiction|reflexivity]).
Qed.

Lemma skip_field_pw_nongroup num typ b : typ <> 3 -> skip_field_pw num typ b = skip_field typ b.
Proof. apply skip_value_pw_nongroup. Qed.

Lemma group_loop_pw_shorter skipv num
  (Hs : forall k n t b r, skipv k n t b = Some r -> (length r <= length b)%nat) k :
  forall b r, group_loop_pw skipv num k b = Some r -> (length r < length b)%nat.
Proof.
  induction k as [|k IH]; intros b r H; [discriminate|]. cbn [group_loop_pw] in H.
  destruct (tag_dec b) as [[[n2 t2] b1]|] eqn:T; [|discriminate].
  apply tag_dec_shorter in T.
  destruct (t2 =? 4).
  - destruct (n2 =? num); [|discriminate]. inversion H; subst. assumption.
  - destruct (skipv k n2 t2 b1) as [b2|] eqn:Sk; [|discriminate]. apply Hs in Sk. apply IH in H. lia.
Qed.

Lemma skip_value_pw_shorter d : forall k num typ b r,
  skip_value_pw d k num typ b = Some r -> (length r <= length b)%nat.
Proof.
  induction d as [|d IH]; intros k num typ b r H; cbn [skip_value_pw] in H; destruct (typ =? 3).
  - discriminate.
  - eapply skip_field_shorter; eassumption.
  - apply group_loop_pw_shorter in H; [lia|exact IH].
  - eapply skip_field_shorter; eassumption.
Qed.

Lemma skip_field_pw_shorter num typ b r : skip_field_pw num typ b = Some r -> (length r <= length b)%nat.
Proof. apply skip_value_pw_shorter. Qed.

(* the fuel (number of bytes) is never what stops the group loops *)
Lemma group_loop_pw_fuel2 skipv num
  (Hs : forall k n t b r, skipv k n t b = Some r -> (length r <= length b)%nat)
  (Hf : forall k1 k2 n t b, (length b <= k1)%nat -> (length b <= k2)%nat -> skipv k1 n t b = skipv k2 n t b) k1 :
  forall k2 b, (length b <= k1)%nat -> (length b <= k2)%nat ->
  group_loop_pw skipv num k1 b = group_loop_pw skipv num k2 b.
Proof.
  induction k1 as [|k1 IH]; intros k2 b L1 L2.
  - destruct b; [|cbn in L1; lia]. destruct k2; reflexivity.
  - destruct k2 as [|k2]; [destruct b; [reflexivity|cbn in L2; lia]|].
    cbn [group_loop_pw].
    destruct (tag_dec b) as [[[n2 t2] b1]|] eqn:T; [|reflexivity].
    apply tag_dec_shorter in T. destruct (t2 =? 4); [reflexivity|].
    rewrite (Hf k1 k2 n2 t2 b1) by lia.
    destruct (skipv k2 n2 t2 b1) as [b2|] eqn:Sk; [|reflexivity]. apply Hs in Sk.
    apply IH; lia.
Qed.

Lemma skip_value_pw_fuel d : forall k1 k2 num typ b, (length b <= k1)%nat -> (length b <= k2)%nat ->
  skip_value_pw d k1 num typ b = skip_value_pw d k2 num typ b.
Proof.
  induction d as [|d IH]; intros k1 k2 num typ b L1 L2; cbn [skip_value_pw]; destruct (typ =? 3); try reflexivity.
  apply group_loop_pw_fuel2; [apply skip_value_pw_shorter|exact IH|exact L1|exact L2].
Qed.

(* fuel-free unfolding of a group body: fields up to the matching end-group tag *)
Definition group_run_pw (d : nat) (num : N) (b : list N) : option (list N) :=
  group_loop_pw (skip_value_pw d) num (length b) b.

Lemma group_run_pw_unfold d num b :
  group_run_pw d num b =
  match tag_dec b with
  | None => None
  | Some (num2, typ2, b1) =>
      if typ2 =? 4 then (if num2 =? num then Some b1 else None)
      else match skip_value_pw d (length b1) num2 typ2 b1 with
           | None => None
           | Some b2 => group_run_pw d num b2
           end
  end.
Proof.
  unfold group_run_pw. destruct b as [|x b'].
  - reflexivity.
  - set (b := x :: b'). change (length b) with (S (length b')). cbn [group_loop_pw].
    destruct (tag_dec b) as [[[n2 t2] b1]|] eqn:T; [|reflexivity].
    apply tag_dec_shorter in T. change (length b) with (S (length b')) in T.
    destruct (t2 =? 4); [reflexivity|].
    rewrite (skip_value_pw_fuel d (length b') (length b1)) by lia.
    destruct (skip_value_pw d (length b1) n2 t2 b1) as [b2|] eqn:Sk; [|reflexivity].
    apply skip_value_pw_shorter in Sk.
    apply group_loop_pw_fuel2; [apply skip_value_pw_shorter|apply skip_value_pw_fuel|lia|lia].
Qed.

Lemma skip_value_pw_group d k num b : (length b <= k)%nat ->
  skip_value_pw (S d) k num 3 b = group_run_pw d num b.
Proof.
  intros L. cbn [skip_value_pw]. change (3 =? 3) with true. cbv iota. unfold group_run_pw.
  apply group_loop_pw_fuel2; [apply skip_value_pw_shorter|apply skip_value_pw_fuel|exact L|lia].
Qed.

Lemma pw_recursion_levels_S : pw_recursion_levels = S (N.to_nat 10000).
Proof. unfold pw_recursion_levels. change 10001 with (N.succ 10000). apply N2Nat.inj_succ. Qed.

Example skip_field_pw_group :
  (* field 9 start-group { field 1 varint 5; field 2 group { } } end-group 9, then 7 *)
  skip_field_pw 9 3 (tag_enc 1 0 ++ [5] ++ tag_enc 2 3 ++ tag_enc 2 4 ++ tag_enc 9 4 ++ [7]) = Some [7] /\
  (* mismatching end-group number *)
  skip_field_pw 9 3 (tag_enc 8 4 ++ [7]) = None /\
  (* unterminated group *)
  skip_field_pw 9 3 (tag_enc 1 0 ++ [5]) = None.
Proof. vm_compute. repeat split; reflexivity. Qed.

(* ---- skipNebula ---- *)

Lemma skip_item_gogo_shorter depth b d' r : skip_item_gogo depth b = Some (d', r) -> (length r < length b)%nat.
Proof.
  unfold skip_item_gogo. destruct (varint_dec_gogo b) as [[w b1]|] eqn:E; [|discriminate].
  apply varint_dec_gogo_shorter in E.
  destruct (w mod 8) as [|[[[|[]|]|[[]|[]|]|]|[[]|[]|]|]]; try discriminate.
  - destruct (varint_dec_gogo b1) as [[v b2]|] eqn:V; [|discriminate]. intros H; inversion H; subst.
    apply varint_dec_gogo_shorter in V. lia.
  - destruct (take_bytes 4 b1) as [[v b2]|] eqn:V; [|discriminate]. intros H; inversion H; subst.
    apply take_bytes_spec in V as [-> _]. rewrite app_length in E. lia.
  - intros H; inversion H; subst. assumption.
  - destruct (depth =? 0); [discriminate|]. intros H; inversion H; subst. assumption.
  - destruct (bytes_dec_gogo b1) as [[v b2]|] eqn:V; [|discriminate]. intros H; inversion H; subst.
    apply bytes_dec_gogo_shorter in V. lia.
  - destruct (take_bytes 8 b1) as [[v b2]|] eqn:V; [|discriminate]. intros H; inversion H; subst.
    apply take_bytes_spec in V as [-> _]. rewrite app_length in E. lia.
Qed.

Lemma skip_loop_gogo_shorter k : forall depth b r, skip_loop_gogo k depth b = Some r -> (length r < length b)%nat.
Proof.
  induction k as [|k IH]; intros depth b r H; [discriminate|]. cbn [skip_loop_gogo] in H.
  destruct (skip_item_gogo depth b) as [[d' b']|] eqn:E; [|discriminate].
  apply skip_item_gogo_shorter in E. destruct (d' =? 0); [inversion H; subst; assumption|].
  apply IH in H. lia.
Qed.

Lemma skip_gogo_shorter b r : skip_gogo b = Some r -> (length r < length b)%nat.
Proof. apply skip_loop_gogo_shorter. Qed.

Lemma skip_loop_gogo_fuel2 k1 : forall k2 depth b, (length b <= k1)%nat -> (length b <= k2)%nat ->
  skip_loop_gogo k1 depth b = skip_loop_gogo k2 depth b.
Proof.
  induction k1 as [|k1 IH]; intros k2 depth b L1 L2.
  - destruct b; [|cbn in L1; lia]. destruct k2; reflexivity.
  - destruct k2 as [|k2]; [destruct b; [reflexivity|cbn in L2; lia]|].
    cbn [skip_loop_gogo].
    destruct (skip_item_gogo depth b) as [[d' b2]|] eqn:E; [|reflexivity].
    apply skip_item_gogo_shorter in E. destruct (d' =? 0); [reflexivity|].
    apply IH; lia.
Qed.

Lemma skip_loop_gogo_fuel k depth b : (length b <= k)%nat ->
  skip_loop_gogo k depth b = skip_loop_gogo (length b) depth b.
Proof. intros L. apply skip_loop_gogo_fuel2; [exact L|lia]. Qed.

(* fuel-free unfolding of skipNebula's loop *)
Definition skip_run_gogo (depth : N) (b : list N) : option (list N) := skip_loop_gogo (length b) depth b.

Lemma skip_run_gogo_unfold depth b :
  skip_run_gogo depth b =
  match skip_item_gogo depth b with
  | None => None
  | Some (d', b') => if d' =? 0 then Some b' else skip_run_gogo d' b'
  end.
Proof.
  unfold skip_run_gogo. destruct b as [|x b'].
  - reflexivity.
  - set (b := x :: b'). change (length b) with (S (length b')). cbn [skip_loop_gogo].
    destruct (skip_item_gogo depth b) as [[d' b2]|] eqn:E; [|reflexivity].
    apply skip_item_gogo_shorter in E. destruct (d' =? 0); [reflexivity|].
    apply skip_loop_gogo_fuel. change (length b) with (S (length b')) in E. lia.
Qed.

Lemma skip_gogo_varint num x rest : num * 8 < two64 -> x < two64 ->
  skip_gogo (field_varint num x ++ rest) = Some rest.
Proof.
  intros Hn Hx. change (skip_gogo ?b) with (skip_run_gogo 0 b). rewrite skip_run_gogo_unfold.
  unfold skip_item_gogo, field_varint, tag_enc, wt_varint. rewrite <- app_assoc.
  rewrite varint_dec_gogo_enc by lia. rewrite N.add_0_r, N.mod_mul by lia.
  rewrite varint_dec_gogo_enc by assumption. reflexivity.
Qed.

Example skip_gogo_groups :
  (* unmatched end-group numbers and field number 0 inside a group are fine for skipNebula, not for protowire *)
  skip_gogo (tag_enc 9 3 ++ [0; 5] ++ tag_enc 8 4 ++ [7]) = Some [7] /\
  skip_field_pw 9 3 ([0; 5] ++ tag_enc 8 4 ++ [7]) = None /\
  skip_field_pw 9 3 (tag_enc 8 4 ++ [7]) = None.
Proof. vm_compute. repeat split; reflexivity. Qed.

(* ---- message loops ---- *)

Section MsgLoopLemmas.
  Context {St : Type}.
  Variable step : St -> list N -> option (St * list N).
  Hypothesis step_progress : forall st b st' b', step st b = Some (st', b') -> (length b' < length b)%nat.

  Lemma msg_loop_fuel2 k1 : forall k2 st b, (length b <= k1)%nat -> (length b <= k2)%nat ->
    msg_loop step k1 st b = msg_loop step k2 st b.
  Proof.
    induction k1 as [|k1 IH]; intros k2 st b L1 L2.
    - destruct b; [|cbn in L1; lia]. destruct k2; reflexivity.
    - destruct b as [|x b']; [destruct k2; reflexivity|].
      destruct k2 as [|k2]; [cbn in L2; lia|].
      cbn [msg_loop].
      destruct (step st (x :: b')) as [[st' b2]|] eqn:E; [|reflexivity].
      apply step_progress in E. cbn [length] in *. apply IH; lia.
  Qed.

  Lemma msg_loop_fuel k st b : (length b <= k)%nat -> msg_loop step k st b = msg_run step st b.
  Proof. intros L. unfold msg_run. apply msg_loop_fuel2; [exact L|lia]. Qed.

  Lemma msg_run_nil st : msg_run step st [] = Some st.
  Proof. reflexivity. Qed.

  (* fuel-free unfolding *)
  Lemma msg_run_step st b : b <> [] ->
    msg_run step st b = match step st b with None => None | Some (st', b') => msg_run step st' b' end.
  Proof.
    intros Hb. destruct b as [|x b']; [contradiction|]. set (b := x :: b').
    unfold msg_run at 1. change (length b) with (S (length b')).
    change (msg_loop step (S (length b')) st b) with
      (match step st b with None => None | Some (st', b2) => msg_loop step (length b') st' b2 end).
    destruct (step st b) as [[st' b2]|] eqn:E; [|reflexivity].
    apply step_progress in E. change (length b) with (S (length b')) in E.
    apply msg_loop_fuel. lia.
  Qed.

  (* a step that succeeds on [field ++ rest] leaving [rest] *)
  Lemma msg_run_field st st' field rest : field <> [] ->
    step st (field ++ rest) = Some (st', rest) -> msg_run step st (field ++ rest) = msg_run step st' rest.
  Proof.
    intros Hf E. rewrite msg_run_step; [now rewrite E|]. destruct field; [contradiction|discriminate].
  Qed.

  Lemma msg_run_step_none st b : b <> [] -> step st b = None -> msg_run step st b = None.
  Proof. intros Hb E. rewrite msg_run_step by assumption. now rewrite E. Qed.
End MsgLoopLemmas.

(* simulation between two message loops over the same bytes *)
Section MsgLoopSim.
  Context {S1 S2 : Type}.
  Variable step1 : S1 -> list N -> option (S1 * list N).
  Variable step2 : S2 -> list N -> option (S2 * list N).
  Variable R : S1 -> S2 -> Prop.
  Hypothesis sim : forall s1 s2 b s1' b', R s1 s2 -> step1 s1 b = Some (s1', b') ->
    exists s2', step2 s2 b = Some (s2', b') /\ R s1' s2'.

  Lemma msg_loop_sim k : forall s1 s2 b r1, R s1 s2 -> msg_loop step1 k s1 b = Some r1 ->
    exists r2, msg_loop step2 k s2 b = Some r2 /\ R r1 r2.
  Proof.
    induction k as [|k IH]; intros s1 s2 b r1 HR H.
    - destruct b; [|discriminate]. inversion H; subst. exists s2. auto.
    - destruct b as [|x b']; [inversion H; subst; exists s2; auto|].
      cbn [msg_loop] in *. destruct (step1 s1 (x :: b')) as [[s1' b2]|] eqn:E; [|discriminate].
      destruct (sim _ _ _ _ _ HR E) as (s2' & E2 & HR'). rewrite E2. eapply IH; eassumption.
  Qed.

  Lemma msg_run_sim s1 s2 b r1 : R s1 s2 -> msg_run step1 s1 b = Some r1 ->
    exists r2, msg_run step2 s2 b = Some r2 /\ R r1 r2.
  Proof. apply msg_loop_sim. Qed.
End MsgLoopSim.

(* Types shared by the generated PKI reload tables (gen/Tab_PkiReload.v), the model and the proofs of C42:
   the abstract features PKI.reloadCerts / newCertStateFromConfig / newCertState and PKI.reloadCAPool read, the
   outcome of a (re)load in property-level terms, boolean equalities and exhaustive quantification over the
   finite feature space. *)
From Coq Require Import List Bool.
Import ListNotations.

(* What one certificate (re)load reads. "old" = the CertState in use (both false: the initial load), "new" = the
   files named by pki.cert / pki.key. A comparison that does not apply to the shape counts as equal (true). *)
Record prow := mkP {
  f_o1 : bool;       (* the state in use has a v1 certificate *)
  f_o2 : bool;       (* ... a v2 certificate *)
  f_n1 : bool;       (* the new files hold a v1 certificate *)
  f_n2 : bool;       (* ... a v2 certificate *)
  f_lerr : bool;     (* the new files do not load (unreadable, malformed, expired, a CA certificate, duplicate version,
                        bad initiating_version, no certificate at all) *)
  f_kmatch : bool;   (* the new private key pairs with every new certificate (curve and public key) *)
  f_npair : bool;    (* new v1 and v2 carry the same public key, curve and first network *)
  f_v1eq : bool;     (* old v1 networks = new v1 networks *)
  f_v2eq : bool;     (* old v2 networks = new v2 networks *)
  f_xeq : bool;      (* cross-version: v1-only -> v2-only: old v1 networks = new v2 networks;
                        v2 dropped: old v2 networks = new v1 networks *)
  f_ceq : bool       (* every new certificate has the curve of the state in use *)
}.

(* PKeep: the previous state object is still in use and unchanged (initial load: start-up refused);
   PNew: the state in use is exactly the one the new files describe; POther: anything else *)
Inductive pout := PKeep | PNew | POther.

(* what a CA bundle reload reads: the bundle cannot be read / parsed; it holds an unexpired authority; an expired one *)
Record carow := mkCaRow { a_unread : bool; a_valid : bool; a_expired : bool }.

Definition pout_eqb (a b : pout) : bool :=
  match a, b with PKeep, PKeep | PNew, PNew | POther, POther => true | _, _ => false end.

Definition prow_eqb (a b : prow) : bool :=
  eqb (f_o1 a) (f_o1 b) && eqb (f_o2 a) (f_o2 b) && eqb (f_n1 a) (f_n1 b) && eqb (f_n2 a) (f_n2 b) &&
  eqb (f_lerr a) (f_lerr b) && eqb (f_kmatch a) (f_kmatch b) && eqb (f_npair a) (f_npair b) &&
  eqb (f_v1eq a) (f_v1eq b) && eqb (f_v2eq a) (f_v2eq b) && eqb (f_xeq a) (f_xeq b) && eqb (f_ceq a) (f_ceq b).

Definition carow_eqb (a b : carow) : bool :=
  eqb (a_unread a) (a_unread b) && eqb (a_valid a) (a_valid b) && eqb (a_expired a) (a_expired b).

Fixpoint passoc {K V : Type} (keq : K -> K -> bool) (k : K) (l : list (K * V)) : option V :=
  match l with
  | [] => None
  | (k', v) :: r => if keq k k' then Some v else passoc keq k r
  end.

Definition p_is_some {A} (o : option A) : bool := match o with Some _ => true | None => false end.

(* exhaustive quantification, as a boolean *)
Definition pball (f : bool -> bool) : bool := f false && f true.

Definition prows_all (P : prow -> bool) : bool :=
  pball (fun b1 => pball (fun b2 => pball (fun b3 => pball (fun b4 => pball (fun b5 => pball (fun b6 =>
  pball (fun b7 => pball (fun b8 => pball (fun b9 => pball (fun b10 => pball (fun b11 =>
    P (mkP b1 b2 b3 b4 b5 b6 b7 b8 b9 b10 b11)))))))))))).

Definition carows_all (P : carow -> bool) : bool :=
  pball (fun a => pball (fun b => pball (fun c => P (mkCaRow a b c)))).

Lemma pball_spec f : pball f = true -> forall b, f b = true.
Proof. unfold pball. intros H b. apply andb_prop in H. destruct H, b; assumption. Qed.

Ltac pball_step H b :=
  let H' := fresh "H" in pose proof (pball_spec _ H b) as H'; cbv beta in H'; clear H; rename H' into H.

Lemma prows_all_spec P : prows_all P = true -> forall r, P r = true.
Proof.
  unfold prows_all. intros H [b1 b2 b3 b4 b5 b6 b7 b8 b9 b10 b11].
  pball_step H b1. pball_step H b2. pball_step H b3. pball_step H b4. pball_step H b5. pball_step H b6.
  pball_step H b7. pball_step H b8. pball_step H b9. pball_step H b10. pball_step H b11. exact H.
Qed.

Lemma carows_all_spec P : carows_all P = true -> forall r, P r = true.
Proof.
  unfold carows_all. intros H [a b c]. pball_step H a. pball_step H b. pball_step H c. exact H.
Qed.

Lemma prow_eqb_eq a b : prow_eqb a b = true <-> a = b.
Proof.
  destruct a, b; unfold prow_eqb; cbn [f_o1 f_o2 f_n1 f_n2 f_lerr f_kmatch f_npair f_v1eq f_v2eq f_xeq f_ceq].
  rewrite !andb_true_iff, !eqb_true_iff. split.
  - intros H. decompose [and] H. congruence.
  - intros H. inversion H. repeat split.
Qed.

Lemma carow_eqb_eq a b : carow_eqb a b = true <-> a = b.
Proof.
  destruct a, b; unfold carow_eqb; cbn [a_unread a_valid a_expired].
  rewrite !andb_true_iff, !eqb_true_iff. split.
  - intros H. decompose [and] H. congruence.
  - intros H. inversion H. repeat split.
Qed.

Lemma pout_eqb_eq a b : pout_eqb a b = true <-> a = b.
Proof. destruct a, b; simpl; split; intros H; try reflexivity; discriminate. Qed.

Lemma passoc_in {K V} (keq : K -> K -> bool) (Hk : forall a b, keq a b = true <-> a = b) k (l : list (K * V)) v :
  passoc keq k l = Some v -> In (k, v) l.
Proof.
  induction l as [|[k' v'] l IH]; simpl; [discriminate|].
  destruct (keq k k') eqn:E.
  - intros H. inversion H; subst. apply Hk in E. subst. now left.
  - intros H. right. now apply IH.
Qed.

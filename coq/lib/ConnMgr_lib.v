(* Types shared by the generated connection-manager tables (gen/Tab_ConnMgr.v), the model and the proofs:
   the abstract features makeTrafficDecision / shouldSwapPrimary / tryRehandshake read, what they do in
   property-level terms, boolean equalities, and exhaustive quantification over the finite feature spaces. *)
From Coq Require Import List Bool.
Import ListNotations.

(* status of the peer's certificate against the current CA pool at the time of the check *)
Inductive certst := CNone       (* no peer certificate recorded for the tunnel *)
                  | COk
                  | CBlock      (* fingerprint on the blocklist (whether or not otherwise valid) *)
                  | CInvalid.   (* expired, not yet valid, authority expired or no longer in the pool *)

Inductive decision := DNothing | DDelete | DClose | DSwap | DMigrate | DRehs | DProbe.
Inductive timer := TNone | TCheck | TPending.    (* which interval the tunnel was re-armed with *)
Inductive punch := PNone | POne | PAll.          (* POne: SendPunch; PAll: only under punchy.target_all_remotes *)
Inductive hs := HNone | HStart | HStartPeerVersion.

(* what one periodic check reads *)
Record row := mkRow {
  r_cert : certst;
  r_dinv : bool;      (* pki.disconnect_invalid *)
  r_exh : bool;       (* message counter >= RejectAfterMessages *)
  r_primary : bool;   (* HostMap.Hosts[first overlay address] is this tunnel *)
  r_in : bool;        (* inbound traffic flagged since the previous check *)
  r_out : bool;       (* outbound traffic flagged since the previous check *)
  r_pd : bool;        (* pendingDeletion *)
  r_dropi : bool;     (* tunnels.drop_inactive *)
  r_idle : bool;      (* now - lastUsed >= tunnels.inactivity_timeout *)
  r_swap : bool       (* shouldSwapPrimary *)
}.

(* what the check did *)
Record res := mkRes {
  d_dec : decision;
  d_pd : bool;        (* pendingDeletion afterwards *)
  d_timer : timer;
  d_punch : punch;
  d_removed : bool;   (* gone from the hostmap after doTrafficCheck *)
  d_notify : bool;    (* a CloseTunnel packet went to the peer *)
  d_probe : bool;     (* a Test request went to the peer *)
  d_touch : bool;     (* lastUsed := now *)
  d_clear : bool;     (* the in/out flags were consumed *)
  d_primary : bool    (* primary afterwards *)
}.

(* shouldSwapPrimary reads: peer's overlay address >= ours; counter >= RehandshakeAfterMessages; one of our
   certificates of the tunnel's version is loaded; it has the signature of the one the tunnel uses *)
Record swrow := mkSw { s_ge : bool; s_rk : bool; s_lc : bool; s_se : bool }.

(* tryRehandshake reads: own certificate of the tunnel's version loaded; peer's certificate version is higher
   and we hold one of that version; same signature; tunnel's version < pki initiating version; counter >=
   RehandshakeAfterMessages *)
Record rhrow := mkRh { h_lc : bool; h_up : bool; h_se : bool; h_bi : bool; h_rk : bool }.

Definition cert_eqb (a b : certst) : bool :=
  match a, b with CNone, CNone | COk, COk | CBlock, CBlock | CInvalid, CInvalid => true | _, _ => false end.
Definition dec_eqb (a b : decision) : bool :=
  match a, b with
  | DNothing, DNothing | DDelete, DDelete | DClose, DClose | DSwap, DSwap | DMigrate, DMigrate | DRehs, DRehs | DProbe, DProbe => true
  | _, _ => false end.
Definition timer_eqb (a b : timer) : bool :=
  match a, b with TNone, TNone | TCheck, TCheck | TPending, TPending => true | _, _ => false end.
Definition punch_eqb (a b : punch) : bool :=
  match a, b with PNone, PNone | POne, POne | PAll, PAll => true | _, _ => false end.
Definition hs_eqb (a b : hs) : bool :=
  match a, b with HNone, HNone | HStart, HStart | HStartPeerVersion, HStartPeerVersion => true | _, _ => false end.

Definition row_eqb (a b : row) : bool :=
  cert_eqb (r_cert a) (r_cert b) && eqb (r_dinv a) (r_dinv b) && eqb (r_exh a) (r_exh b) && eqb (r_primary a) (r_primary b) &&
  eqb (r_in a) (r_in b) && eqb (r_out a) (r_out b) && eqb (r_pd a) (r_pd b) && eqb (r_dropi a) (r_dropi b) &&
  eqb (r_idle a) (r_idle b) && eqb (r_swap a) (r_swap b).
Definition res_eqb (a b : res) : bool :=
  dec_eqb (d_dec a) (d_dec b) && eqb (d_pd a) (d_pd b) && timer_eqb (d_timer a) (d_timer b) && punch_eqb (d_punch a) (d_punch b) &&
  eqb (d_removed a) (d_removed b) && eqb (d_notify a) (d_notify b) && eqb (d_probe a) (d_probe b) && eqb (d_touch a) (d_touch b) &&
  eqb (d_clear a) (d_clear b) && eqb (d_primary a) (d_primary b).
Definition sw_eqb (a b : swrow) : bool :=
  eqb (s_ge a) (s_ge b) && eqb (s_rk a) (s_rk b) && eqb (s_lc a) (s_lc b) && eqb (s_se a) (s_se b).
Definition rh_eqb (a b : rhrow) : bool :=
  eqb (h_lc a) (h_lc b) && eqb (h_up a) (h_up b) && eqb (h_se a) (h_se b) && eqb (h_bi a) (h_bi b) && eqb (h_rk a) (h_rk b).

Fixpoint assoc {K V : Type} (keq : K -> K -> bool) (k : K) (l : list (K * V)) : option V :=
  match l with
  | [] => None
  | (k', v) :: r => if keq k k' then Some v else assoc keq k r
  end.

(* exhaustive quantification, as a boolean *)
Definition ball (f : bool -> bool) : bool := f false && f true.
Definition call (f : certst -> bool) : bool := f CNone && f COk && f CBlock && f CInvalid.

Definition rows_all (P : row -> bool) : bool :=
  call (fun c => ball (fun b1 => ball (fun b2 => ball (fun b3 => ball (fun b4 => ball (fun b5 =>
  ball (fun b6 => ball (fun b7 => ball (fun b8 => ball (fun b9 =>
    P (mkRow c b1 b2 b3 b4 b5 b6 b7 b8 b9)
  )))))))))).
Definition sw_all (P : swrow -> bool) : bool :=
  ball (fun a => ball (fun b => ball (fun c => ball (fun d => P (mkSw a b c d))))).
Definition rh_all (P : rhrow -> bool) : bool :=
  ball (fun a => ball (fun b => ball (fun c => ball (fun d => ball (fun e => P (mkRh a b c d e)))))).

Lemma ball_spec f : ball f = true -> forall b, f b = true.
Proof. unfold ball. intros H b. apply andb_prop in H. destruct H, b; assumption. Qed.

Lemma call_spec f : call f = true -> forall c, f c = true.
Proof.
  unfold call. intros H c. apply andb_prop in H. destruct H as [H H4].
  apply andb_prop in H. destruct H as [H H3]. apply andb_prop in H. destruct H as [H1 H2].
  destruct c; assumption.
Qed.

Ltac ball_step H b := let H' := fresh "H" in pose proof (ball_spec _ H b) as H'; cbv beta in H'; clear H; rename H' into H.

Lemma rows_all_spec P : rows_all P = true -> forall r, P r = true.
Proof.
  unfold rows_all. intros H [c b1 b2 b3 b4 b5 b6 b7 b8 b9].
  pose proof (call_spec _ H c) as H0; cbv beta in H0; clear H.
  ball_step H0 b1. ball_step H0 b2. ball_step H0 b3. ball_step H0 b4. ball_step H0 b5.
  ball_step H0 b6. ball_step H0 b7. ball_step H0 b8. ball_step H0 b9. exact H0.
Qed.

Lemma sw_all_spec P : sw_all P = true -> forall r, P r = true.
Proof.
  unfold sw_all. intros H [a b c d]. ball_step H a. ball_step H b. ball_step H c. ball_step H d. exact H.
Qed.

Lemma rh_all_spec P : rh_all P = true -> forall r, P r = true.
Proof.
  unfold rh_all. intros H [a b c d e]. ball_step H a. ball_step H b. ball_step H c. ball_step H d. ball_step H e. exact H.
Qed.

Lemma cert_eqb_eq a b : cert_eqb a b = true <-> a = b.
Proof. destruct a, b; simpl; split; intros H; try reflexivity; discriminate. Qed.
Lemma dec_eqb_eq a b : dec_eqb a b = true <-> a = b.
Proof. destruct a, b; simpl; split; intros H; try reflexivity; discriminate. Qed.
Lemma timer_eqb_eq a b : timer_eqb a b = true <-> a = b.
Proof. destruct a, b; simpl; split; intros H; try reflexivity; discriminate. Qed.
Lemma hs_eqb_eq a b : hs_eqb a b = true <-> a = b.
Proof. destruct a, b; simpl; split; intros H; try reflexivity; discriminate. Qed.

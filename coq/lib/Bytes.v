(* Bytes: bytes are N values below 256; big/little-endian fixed-width codecs with round trips. *)
From Coq Require Import List NArith Lia Bool.
Import ListNotations.
Open Scope N_scope.

Definition byte_ok (b : N) : bool := b <? 256.
Definition bytes_ok (l : list N) : bool := forallb byte_ok l.

(* k-byte big-endian encoding of x mod 256^k *)
Fixpoint be_enc (k : nat) (x : N) : list N :=
  match k with
  | O => []
  | S k' => ((x / 256 ^ N.of_nat k') mod 256) :: be_enc k' x
  end.

Fixpoint be_dec_acc (l : list N) (acc : N) : N :=
  match l with
  | [] => acc
  | b :: r => be_dec_acc r (acc * 256 + b)
  end.
Definition be_dec (l : list N) : N := be_dec_acc l 0.

Definition le_enc (k : nat) (x : N) : list N := rev (be_enc k x).
Definition le_dec (l : list N) : N := be_dec (rev l).

Definition w8 (x : N) := x mod 256.
Definition w16 (x : N) := x mod 65536.
Definition w32 (x : N) := x mod 4294967296.
Definition w64 (x : N) := x mod 18446744073709551616.

Lemma be_enc_length k x : length (be_enc k x) = k.
Proof. induction k as [|k IH]; simpl; [reflexivity|now rewrite IH]. Qed.

Lemma be_enc_bytes_ok k x : bytes_ok (be_enc k x) = true.
Proof.
  induction k as [|k IH]; simpl; [reflexivity|].
  rewrite IH, andb_true_r. unfold byte_ok. apply N.ltb_lt. apply N.mod_lt. discriminate.
Qed.

Lemma be_dec_acc_enc k : forall x acc,
  be_dec_acc (be_enc k x) acc = acc * 256 ^ N.of_nat k + x mod 256 ^ N.of_nat k.
Proof.
  induction k as [|k IH]; intros x acc.
  - simpl. rewrite N.mod_1_r. lia.
  - cbn [be_enc be_dec_acc]. rewrite IH.
    replace (N.of_nat (S k)) with (N.succ (N.of_nat k)) by lia.
    rewrite N.pow_succ_r'.
    set (p := 256 ^ N.of_nat k).
    assert (Hp : p <> 0) by (apply N.pow_nonzero; discriminate).
    rewrite (N.mul_comm 256 p).
    rewrite (N.mod_mul_r x p 256) by (auto; discriminate).
    lia.
Qed.

Lemma be_dec_enc k x : x < 256 ^ N.of_nat k -> be_dec (be_enc k x) = x.
Proof.
  intros H. unfold be_dec. rewrite be_dec_acc_enc. rewrite N.mod_small by assumption. lia.
Qed.

Lemma be_dec_enc_mod k x : be_dec (be_enc k x) = x mod 256 ^ N.of_nat k.
Proof. unfold be_dec. rewrite be_dec_acc_enc. lia. Qed.

Lemma le_dec_enc k x : x < 256 ^ N.of_nat k -> le_dec (le_enc k x) = x.
Proof. intros H. unfold le_dec, le_enc. rewrite rev_involutive. now apply be_dec_enc. Qed.

Lemma be_dec_acc_app l1 : forall l2 acc,
  be_dec_acc (l1 ++ l2) acc = be_dec_acc l2 (be_dec_acc l1 acc).
Proof. induction l1 as [|a l1 IH]; intros; simpl; [reflexivity|apply IH]. Qed.

Lemma be_dec_acc_bound l : forall acc,
  bytes_ok l = true -> be_dec_acc l acc < (acc + 1) * 256 ^ N.of_nat (length l).
Proof.
  induction l as [|b l IH]; intros acc H.
  - simpl. lia.
  - cbn [bytes_ok forallb] in H. apply andb_true_iff in H as [Hb Hl].
    unfold byte_ok in Hb. apply N.ltb_lt in Hb.
    cbn [be_dec_acc length]. specialize (IH (acc * 256 + b) Hl).
    replace (N.of_nat (S (length l))) with (N.succ (N.of_nat (length l))) by lia.
    rewrite N.pow_succ_r'.
    eapply N.lt_le_trans; [exact IH|].
    set (p := 256 ^ N.of_nat (length l)). nia.
Qed.

Lemma be_dec_bound l : bytes_ok l = true -> be_dec l < 256 ^ N.of_nat (length l).
Proof. intros H. unfold be_dec. pose proof (be_dec_acc_bound l 0 H). lia. Qed.

Lemma be_dec_acc_split l : forall acc,
  be_dec_acc l acc = acc * 256 ^ N.of_nat (length l) + be_dec_acc l 0.
Proof.
  induction l as [|c l IH]; intros acc.
  - simpl. lia.
  - cbn [be_dec_acc length]. rewrite (IH (acc * 256 + c)), (IH (0 * 256 + c)).
    replace (N.of_nat (S (length l))) with (N.succ (N.of_nat (length l))) by lia.
    rewrite N.pow_succ_r'. lia.
Qed.

(* decode then encode: the other direction of the round trip *)
Lemma be_enc_dec_acc l : forall acc,
  bytes_ok l = true ->
  be_enc (length l) (be_dec_acc l acc) = l.
Proof.
  induction l as [|b l IH]; intros acc H; [reflexivity|].
  cbn [bytes_ok forallb] in H. apply andb_true_iff in H as [Hb Hl].
  unfold byte_ok in Hb. apply N.ltb_lt in Hb.
  cbn [length be_enc be_dec_acc]. f_equal.
  - (* top byte *)
    pose proof (be_dec_acc_bound l 0 Hl) as Hlt.
    pose proof (be_dec_acc_split l (acc * 256 + b)) as E.
    rewrite E. set (p := 256 ^ N.of_nat (length l)) in *.
    assert (Hp : p <> 0) by (apply N.pow_nonzero; discriminate).
    rewrite N.div_add_l by assumption.
    rewrite (N.div_small (be_dec_acc l 0) p) by lia.
    rewrite N.add_0_r.
    rewrite N.add_comm, N.mod_add by discriminate.
    apply N.mod_small; assumption.
  - apply IH; assumption.
Qed.

Lemma be_enc_dec l : bytes_ok l = true -> be_enc (length l) (be_dec l) = l.
Proof. intros H. apply be_enc_dec_acc; assumption. Qed.

(* slicing helpers *)
Definition slice (l : list N) (off len : nat) : list N := firstn len (skipn off l).

Lemma bytes_ok_app l1 l2 : bytes_ok (l1 ++ l2) = bytes_ok l1 && bytes_ok l2.
Proof. unfold bytes_ok. apply forallb_app. Qed.

Lemma bytes_ok_firstn n l : bytes_ok l = true -> bytes_ok (firstn n l) = true.
Proof.
  revert n; induction l as [|a l IH]; intros [|n] H; simpl in *; try reflexivity.
  apply andb_true_iff in H as [Ha Hl]. rewrite Ha. simpl. now apply IH.
Qed.

Lemma bytes_ok_skipn n l : bytes_ok l = true -> bytes_ok (skipn n l) = true.
Proof.
  revert n; induction l as [|a l IH]; intros [|n] H; simpl in *; try reflexivity; try assumption.
  apply andb_true_iff in H as [Ha Hl]. now apply IH.
Qed.

(* Corr: the generic driver of the correspondence check. A component supplies
   [check_case : case -> list N] returning the codes of the checks a case fails
   (1 = model output differs from the implementation's, 2 = the property's executable
   specification rejects the implementation's output, >= 3 component specific). *)
From Coq Require Import List NArith.
Import ListNotations.
Open Scope N_scope.

Fixpoint mismatches_from {A : Type} (chk : A -> list N) (i : N) (l : list A) : list (N * N) :=
  match l with
  | [] => []
  | c :: r => map (fun k => (i, k)) (chk c) ++ mismatches_from chk (N.succ i) r
  end.

Definition flag (code : N) (ok : bool) : list N := if ok then [] else [code].

Fixpoint list_eqb {A : Type} (eqb : A -> A -> bool) (l1 l2 : list A) : bool :=
  match l1, l2 with
  | [], [] => true
  | a :: r1, b :: r2 => eqb a b && list_eqb eqb r1 r2
  | _, _ => false
  end.

Definition option_eqb {A : Type} (eqb : A -> A -> bool) (o1 o2 : option A) : bool :=
  match o1, o2 with
  | None, None => true
  | Some a, Some b => eqb a b
  | _, _ => false
  end.

Definition nlist_eqb := list_eqb N.eqb.

Lemma list_eqb_eq {A} (eqb : A -> A -> bool) (H : forall a b, eqb a b = true <-> a = b) l1 l2 :
  list_eqb eqb l1 l2 = true <-> l1 = l2.
Proof.
  revert l2; induction l1 as [|a l1 IH]; intros [|b l2]; simpl; split; intros E; try reflexivity; try discriminate.
  - apply andb_prop in E as [E1 E2]. apply H in E1. apply IH in E2. now subst.
  - inversion E; subst. apply andb_true_intro. split; [now apply H|now apply IH].
Qed.

Lemma nlist_eqb_eq l1 l2 : nlist_eqb l1 l2 = true <-> l1 = l2.
Proof. apply list_eqb_eq. intros; apply N.eqb_eq. Qed.

(* Sym: a term algebra for symbolic cryptography (Dolev-Yao style), executable.

   Terms stand for byte strings.  Every constructor is a *free* function symbol: two terms are the same byte
   string iff they are the same term (the symbolic-model assumption: no collisions of the hash / HKDF / AEAD,
   DH outputs agree only by the commutativity that [dh] builds in, adversarial junk never happens to equal a
   cryptographic value).  [tlen] gives the byte length of a term so that the length checks of the code under
   model ("message shorter than DHLen", "shorter than DHLen + 16") can be mirrored exactly, and [take] cuts a
   wire message at a byte offset, whatever the offset is (truncation at EVERY k, cross-session splices).

   The only equation between terms is  dh a (Pub b) = dh b (Pub a)  (lemma [dh_comm]). *)
From Coq Require Import List NArith Lia Bool.
Import ListNotations.
Open Scope N_scope.

(* The cleartext handshake payload (handshake/payload.go Payload), symbolic: the certificate travels as the
   identifier of its handshake bytes (details without the public key + signature). *)
Record payload := mkPayload {
  p_has_cert : bool;     (* len(Cert) > 0 *)
  p_cert_body : N;       (* identifier of the certificate bytes *)
  p_cert_fmt : N;        (* format the bytes are in: 1 = v1 protobuf, 2 = v2 DER, anything else: unparsable *)
  p_cert_curve : N;      (* curve the parsed certificate reports *)
  p_cert_haskey : bool;  (* the bytes (wrongly) carry a public key: Recombine refuses *)
  p_init_idx : N;
  p_resp_idx : N;
  p_time : N;
  p_cert_ver : N;        (* Payload.CertVersion *)
  p_len : N              (* length in bytes of the marshalled payload *)
}.

Inductive term :=
| Empty                                   (* the empty byte string *)
| Priv (k : N)                            (* private key number k: never sent by an honest party *)
| Pub (k : N)                             (* the public key of private key k (DHLen bytes) *)
| Low (i : N)                             (* a DHLen-byte string every DH refuses: X25519 small-order point,
                                             off-curve / malformed P-256 point *)
| DH (a : N) (B : term)                   (* DH(priv a, B); built only through [dh] *)
| Name (curve cipher : N)                 (* the protocol name block InitializeSymmetric starts from *)
| H (t u : term)                          (* MixHash: HASH(t || u) *)
| Hkdf (ck ikm : term) (i : N)            (* i-th output block of HKDF(ck, ikm) *)
| Aead (k : term) (n : N) (ad p : term)   (* ENCRYPT(k, n, ad, p): ciphertext and tag *)
| Pay (p : payload)                       (* a well-formed marshalled handshake payload *)
| Junk (i len : N)                        (* adversarial bytes number i, len bytes long *)
| Cat (t u : term)                        (* concatenation; kept right-nested by [cat] *)
| Sub (t : term) (off len : N).           (* bytes [off, off+len) of the non-Cat term t, a strict part of it *)

(* ---- decidable equality (executable) --------------------------------------------------------- *)

Definition payload_eqb (a b : payload) : bool :=
  Bool.eqb (p_has_cert a) (p_has_cert b) && (p_cert_body a =? p_cert_body b) && (p_cert_fmt a =? p_cert_fmt b)
  && (p_cert_curve a =? p_cert_curve b) && Bool.eqb (p_cert_haskey a) (p_cert_haskey b)
  && (p_init_idx a =? p_init_idx b) && (p_resp_idx a =? p_resp_idx b) && (p_time a =? p_time b)
  && (p_cert_ver a =? p_cert_ver b) && (p_len a =? p_len b).

Fixpoint term_eqb (a b : term) : bool :=
  match a, b with
  | Empty, Empty => true
  | Priv x, Priv y => x =? y
  | Pub x, Pub y => x =? y
  | Low x, Low y => x =? y
  | DH x t, DH y u => (x =? y) && term_eqb t u
  | Name c1 c2, Name d1 d2 => (c1 =? d1) && (c2 =? d2)
  | H t1 t2, H u1 u2 => term_eqb t1 u1 && term_eqb t2 u2
  | Hkdf t1 t2 i, Hkdf u1 u2 j => term_eqb t1 u1 && term_eqb t2 u2 && (i =? j)
  | Aead k n ad p, Aead k' n' ad' p' => term_eqb k k' && (n =? n') && term_eqb ad ad' && term_eqb p p'
  | Pay p, Pay q => payload_eqb p q
  | Junk i l, Junk j m => (i =? j) && (l =? m)
  | Cat t1 t2, Cat u1 u2 => term_eqb t1 u1 && term_eqb t2 u2
  | Sub t o l, Sub u p m => term_eqb t u && (o =? p) && (l =? m)
  | _, _ => false
  end.

Lemma payload_eqb_eq a b : payload_eqb a b = true <-> a = b.
Proof.
  destruct a, b; unfold payload_eqb; cbn [p_has_cert p_cert_body p_cert_fmt p_cert_curve p_cert_haskey p_init_idx
    p_resp_idx p_time p_cert_ver p_len].
  rewrite !andb_true_iff, !N.eqb_eq, !Bool.eqb_true_iff. split.
  - intros [[[[[[[[[? ?] ?] ?] ?] ?] ?] ?] ?] ?]. subst. reflexivity.
  - intros E. inversion E. subst. repeat split; reflexivity.
Qed.

Lemma term_eqb_eq : forall a b, term_eqb a b = true <-> a = b.
Proof.
  induction a; destruct b; cbn [term_eqb]; try (split; [discriminate | intros E; discriminate E]);
    rewrite ?andb_true_iff, ?N.eqb_eq, ?IHa, ?IHa1, ?IHa2, ?IHa3, ?payload_eqb_eq.
  - split; reflexivity.
  - split; [intros ->; reflexivity | intros E; inversion E; reflexivity].
  - split; [intros ->; reflexivity | intros E; inversion E; reflexivity].
  - split; [intros ->; reflexivity | intros E; inversion E; reflexivity].
  - split; [intros [-> ->]; reflexivity | intros E; inversion E; split; reflexivity].
  - split; [intros [-> ->]; reflexivity | intros E; inversion E; split; reflexivity].
  - split; [intros [-> ->]; reflexivity | intros E; inversion E; split; reflexivity].
  - split; [intros [[-> ->] ->]; reflexivity | intros E; inversion E; repeat split; reflexivity].
  - split; [intros [[[-> ->] ->] ->]; reflexivity | intros E; inversion E; repeat split; reflexivity].
  - split; [intros ->; reflexivity | intros E; inversion E; reflexivity].
  - split; [intros [-> ->]; reflexivity | intros E; inversion E; split; reflexivity].
  - split; [intros [-> ->]; reflexivity | intros E; inversion E; split; reflexivity].
  - split; [intros [[-> ->] ->]; reflexivity | intros E; inversion E; repeat split; reflexivity].
Qed.

Lemma term_eqb_refl a : term_eqb a a = true.
Proof. now apply term_eqb_eq. Qed.

Lemma term_eqb_neq a b : term_eqb a b = false <-> a <> b.
Proof.
  split.
  - intros E Heq. apply term_eqb_eq in Heq. congruence.
  - intros Hne. destruct (term_eqb a b) eqn:E; [apply term_eqb_eq in E; contradiction | reflexivity].
Qed.

Lemma term_eq_dec (a b : term) : {a = b} + {a <> b}.
Proof.
  destruct (term_eqb a b) eqn:E; [left; now apply term_eqb_eq | right; now apply term_eqb_neq].
Qed.

(* ---- size: a term never equals one of its strict subterms ------------------------------------- *)

Fixpoint tsize (t : term) : nat :=
  match t with
  | DH _ B => S (tsize B)
  | H t u => S (tsize t + tsize u)
  | Hkdf t u _ => S (tsize t + tsize u)
  | Aead k _ ad p => S (tsize k + tsize ad + tsize p)
  | Cat t u => S (tsize t + tsize u)
  | Sub t _ _ => S (tsize t)
  | _ => 1%nat
  end.

Lemma tsize_neq a b : (tsize a < tsize b)%nat -> term_eqb a b = false.
Proof. intros Hlt. apply term_eqb_neq. intros ->. lia. Qed.

(* MixHash always moves the hash: the F5 repair's "did the transcript hash move" test is exact in the model *)
Lemma H_moves t u : term_eqb t (H t u) = false.
Proof. apply tsize_neq. cbn. lia. Qed.
Lemma H_moves2 t u v : term_eqb t (H (H t u) v) = false.
Proof. apply tsize_neq. cbn. lia. Qed.
Lemma H_moves3 t u v w : term_eqb t (H (H (H t u) v) w) = false.
Proof. apply tsize_neq. cbn. lia. Qed.

(* ---- Diffie-Hellman ---------------------------------------------------------------------------- *)

(* DH(priv a, B), normalised so that the two ways of computing a shared secret are the same term *)
Definition dh (a : N) (B : term) : term :=
  match B with
  | Pub b => if b <? a then DH b (Pub a) else DH a (Pub b)
  | _ => DH a B
  end.

Lemma dh_comm a b : dh a (Pub b) = dh b (Pub a).
Proof.
  unfold dh. destruct (b <? a) eqn:E1, (a <? b) eqn:E2; try reflexivity.
  - apply N.ltb_lt in E1. apply N.ltb_lt in E2. lia.
  - apply N.ltb_ge in E1. apply N.ltb_ge in E2. assert (a = b) by lia. subst. reflexivity.
Qed.

(* which DHLen-byte strings the curve's DH accepts as a public key.
   curve 0 = X25519: everything except the small-order points (curve25519.X25519 returns an error when the
   output is all zero).  curve 1 = P-256 (crypto/ecdh): only genuine public keys; arbitrary bytes (a flipped bit,
   a splice, junk) are not the uncompressed encoding of a point on the curve. *)
Definition dh_accepts (curve : N) (B : term) : bool :=
  match B with
  | Pub _ => true
  | Low _ => false
  | Empty => false
  | _ => curve =? 0
  end.

(* ---- lengths, concatenation, cutting ------------------------------------------------------------ *)

Definition dhlen (curve : N) : N := if curve =? 0 then 32 else 65.

Fixpoint tlen (dl : N) (t : term) : N :=
  match t with
  | Empty => 0
  | Priv _ => 32
  | Pub _ => dl
  | Low _ => dl
  | DH _ _ => 32
  | Name _ _ => 32
  | H _ _ => 32
  | Hkdf _ _ _ => 32
  | Aead _ _ _ p => tlen dl p + 16
  | Pay p => p_len p
  | Junk _ l => l
  | Cat a b => tlen dl a + tlen dl b
  | Sub _ _ l => l
  end.

(* concatenation, right-nested, Empty is the unit *)
Fixpoint cat (a c : term) : term :=
  match a with
  | Empty => c
  | Cat x y => Cat x (cat y c)
  | _ => match c with Empty => a | _ => Cat a c end
  end.

(* bytes [o, o+l) of the non-Cat term t *)
Definition sub (dl : N) (t : term) (o l : N) : term :=
  if l =? 0 then Empty
  else if (o =? 0) && (l =? tlen dl t) then t
  else match t with
       | Sub u o' _ => Sub u (o' + o) l
       | _ => Sub t o l
       end.

(* [take dl n t] = (first n bytes of t, the rest); callers make sure n <= tlen dl t *)
Fixpoint take (dl n : N) (t : term) : term * term :=
  match t with
  | Cat a b =>
      if n <=? tlen dl a
      then let (x, r) := take dl n a in (x, cat r b)
      else let (y, r) := take dl (n - tlen dl a) b in (cat a y, r)
  | _ => (sub dl t 0 n, sub dl t n (tlen dl t - n))
  end.

Lemma cat_empty_r a : cat a Empty = a.
Proof. induction a; cbn; try reflexivity. now rewrite IHa2. Qed.

Lemma tlen_cat dl a c : tlen dl (cat a c) = tlen dl a + tlen dl c.
Proof.
  induction a; cbn [cat tlen]; try (destruct c; cbn [tlen]; lia).
  rewrite IHa2. lia.
Qed.

(* an atom: a term that is neither Empty nor a Cat (one piece of a wire message) *)
Definition atom (t : term) : bool := match t with Empty | Cat _ _ => false | _ => true end.

Lemma cat_atom a c : atom a = true -> c <> Empty -> cat a c = Cat a c.
Proof. destruct a; cbn; try discriminate; intros _ Hc; destruct c; try reflexivity; contradiction. Qed.

Lemma sub_whole dl t : tlen dl t <> 0 -> sub dl t 0 (tlen dl t) = t.
Proof.
  intros Hn. unfold sub. apply N.eqb_neq in Hn. rewrite Hn. cbn. now rewrite N.eqb_refl.
Qed.

Lemma sub_zero dl t o : sub dl t o 0 = Empty.
Proof. reflexivity. Qed.

(* taking exactly the first piece of a message gives that piece and the rest *)
Lemma take_atom_whole dl a : atom a = true -> tlen dl a <> 0 -> take dl (tlen dl a) a = (a, Empty).
Proof.
  intros Ha Hn. destruct a; try discriminate; cbn [take]; rewrite sub_whole by assumption;
    rewrite N.sub_diag; reflexivity.
Qed.

Lemma take_first dl a c :
  atom a = true -> tlen dl a <> 0 -> c <> Empty -> take dl (tlen dl a) (cat a c) = (a, c).
Proof.
  intros Ha Hn Hc. rewrite cat_atom by assumption. cbn [take]. rewrite N.leb_refl.
  rewrite take_atom_whole by assumption. destruct c; reflexivity.
Qed.

(* ---- AEAD -------------------------------------------------------------------------------------- *)

(* DECRYPT(k, n, ad, c): succeeds exactly on the ciphertext made with the same key, nonce and associated data *)
Definition adec (k : term) (n : N) (ad c : term) : option term :=
  match c with
  | Aead k' n' ad' p => if term_eqb k k' && (n =? n') && term_eqb ad ad' then Some p else None
  | _ => None
  end.

Lemma adec_aead k n ad p : adec k n ad (Aead k n ad p) = Some p.
Proof. cbn. now rewrite !term_eqb_refl, N.eqb_refl. Qed.

Lemma adec_some k n ad c p : adec k n ad c = Some p -> c = Aead k n ad p.
Proof.
  destruct c; cbn; try discriminate.
  destruct (term_eqb k c1 && (n =? n0) && term_eqb ad c2) eqn:E; [|discriminate].
  intros [= ->]. apply andb_prop in E as [E E3]. apply andb_prop in E as [E1 E2].
  apply term_eqb_eq in E1. apply term_eqb_eq in E3. apply N.eqb_eq in E2. now subst.
Qed.

(* ---- what an adversary can build --------------------------------------------------------------- *)

(* Dolev-Yao deduction from a set of known terms: the adversary may use every constructor, owns the private
   keys listed in [K], but can neither invert H / Hkdf / DH nor open an Aead without deriving its key.
   (Used to state that the invariants of the handshake model hold in particular for every adversary script;
   they are proved for ALL message sequences, which is stronger.) *)
Inductive derives (K : list term) : term -> Prop :=
| d_known t : In t K -> derives K t
| d_empty : derives K Empty
| d_junk i l : derives K (Junk i l)
| d_low i : derives K (Low i)
| d_name c d : derives K (Name c d)
| d_pay p : derives K (Pay p)
| d_pub k : derives K (Priv k) -> derives K (Pub k)
| d_dh k B : derives K (Priv k) -> derives K B -> derives K (dh k B)
| d_h t u : derives K t -> derives K u -> derives K (H t u)
| d_hkdf t u i : derives K t -> derives K u -> derives K (Hkdf t u i)
| d_aead k n ad p : derives K k -> derives K ad -> derives K p -> derives K (Aead k n ad p)
| d_open k n ad p : derives K (Aead k n ad p) -> derives K k -> derives K p
| d_cat t u : derives K t -> derives K u -> derives K (cat t u)
| d_take1 dl n t : derives K t -> derives K (fst (take dl n t))
| d_take2 dl n t : derives K t -> derives K (snd (take dl n t)).

(* List lemmas used by proofs/Wheel_proofs.v: point update of a list of lists, concat, NoDup/Permutation. *)
From Coq Require Import List Arith Lia Permutation.
Import ListNotations.
From NV Require Import model.Wheel.

Lemma upd_nth_length {B} (f : B -> B) l : forall n, length (upd_nth n f l) = length l.
Proof. induction l as [|x r IH]; intros [|n]; simpl; auto. Qed.

Lemma nth_upd_nth_eq {B} (f : B -> B) d l : forall n, n < length l -> nth n (upd_nth n f l) d = f (nth n l d).
Proof. induction l as [|x r IH]; intros [|n] H; simpl in *; try lia; auto. apply IH; lia. Qed.

Lemma nth_upd_nth_neq {B} (f : B -> B) d l : forall n m, n <> m -> nth m (upd_nth n f l) d = nth m l d.
Proof.
  induction l as [|x r IH]; intros [|n] [|m] H; simpl; auto; try congruence.
Qed.

Lemma upd_nth_map {B C} (g : B -> C) (f : B -> B) (f' : C -> C) l :
  (forall x, g (f x) = f' (g x)) -> forall n, map g (upd_nth n f l) = upd_nth n f' (map g l).
Proof.
  intros H; induction l as [|x r IH]; intros [|n]; simpl; auto; now rewrite ?H, ?IH.
Qed.

(* appending to one inner list adds exactly that element to the concatenation *)
Lemma concat_upd_app {A} (v : A) l : forall n, n < length l ->
  Permutation (concat (upd_nth n (fun s => s ++ [v]) l)) (v :: concat l).
Proof.
  induction l as [|x r IH]; intros [|n] H; simpl in *; try lia.
  - rewrite <- app_assoc. simpl. apply Permutation_sym, Permutation_middle.
  - rewrite (IH n) by lia. apply Permutation_sym, Permutation_middle.
Qed.

(* emptying one inner list removes exactly its elements *)
Lemma concat_upd_clear {A} (l : list (list A)) : forall n, n < length l ->
  Permutation (concat l) (nth n l [] ++ concat (upd_nth n (fun _ => []) l)).
Proof.
  induction l as [|x r IH]; intros [|n] H; simpl in *; try lia.
  - reflexivity.
  - rewrite (IH n) at 1 by lia. rewrite !app_assoc. apply Permutation_app_tail, Permutation_app_comm.
Qed.

Lemma in_concat_nth {A} (x : A) (l : list (list A)) n : In x (nth n l []) -> In x (concat l).
Proof.
  revert n; induction l as [|y r IH]; intros [|n]; simpl; try tauto; intros H; apply in_or_app; eauto.
Qed.

Lemma concat_nil_nth {A} (l : list (list A)) : (forall n, n < length l -> nth n l [] = []) -> concat l = [].
Proof.
  induction l as [|y r IH]; simpl; intros H; auto.
  rewrite (H 0) by lia. simpl. apply IH. intros n Hn. apply (H (S n)). lia.
Qed.

Lemma NoDup_app_disjoint {A} (l1 l2 : list A) x : NoDup (l1 ++ l2) -> In x l1 -> In x l2 -> False.
Proof.
  induction l1 as [|a r IH]; simpl; intros ND H1 H2; auto.
  inversion ND as [|? ? Hn ND']; subst. destruct H1 as [->|H1].
  - apply Hn. apply in_or_app. auto.
  - eauto.
Qed.

Lemma NoDup_app_l {A} (l1 l2 : list A) : NoDup (l1 ++ l2) -> NoDup l1.
Proof.
  induction l1 as [|a r IH]; simpl; intros ND; [constructor|].
  inversion ND as [|? ? Hn ND']; subst. constructor; auto. intros H; apply Hn, in_or_app; auto.
Qed.

Lemma NoDup_app_r {A} (l1 l2 : list A) : NoDup (l1 ++ l2) -> NoDup l2.
Proof. induction l1 as [|a r IH]; simpl; intros ND; auto. inversion ND; auto. Qed.

(* Correspondence of model/Firewall.v with /repo/firewall.go: cases are produced by harness components
   `fwrules` (C16, check_c16) and `fwrules_addr` (C17, check_c17). *)
From Coq Require Import List NArith ZArith Bool.
Import ListNotations.
From NV Require Import lib.Corr lib.Ip model.Firewall.
Open Scope N_scope.

(* one Drop call and what the implementation did *)
Record probe := mkProbe {
  pb_reset : bool;            (* conntrack emptied before the call *)
  pb_peer : peer; pb_pkt : packet; pb_in : bool;
  pb_cached : bool;           (* the routine-local cache handed to Drop already held the tuple *)
  pb_before : bool;           (* tuple in Conntrack.Conns before the call *)
  pb_class : N;               (* 0 allow, 1 invalid remote, 2 peer rejected, 3 invalid local, 4 no rule, 5 panic, 6 other *)
  pb_after : bool }.          (* tuple in Conntrack.Conns after the call *)

(* rules in AddRule order: (incoming, arguments, AddRule returned nil) *)
Inductive case := CFw (cf : fwconf) (rules : list (bool * rule * bool)) (pl : pool) (probes : list probe).

Definition class_of (v : verdict) : N :=
  match v with VAllow => 0 | VInvalidRemote => 1 | VPeerRejected => 2 | VInvalidLocal => 3 | VNoRule => 4 | VPanic => 5 end.

Definition is_some {A} (o : option A) : bool := match o with Some _ => true | None => false end.

(* ---- the property's own predicates, evaluated on the implementation's verdict (code 2) ---- *)

(* C17: remote is a certified address of the peer inside my overlay networks, or inside a certified unsafe network *)
Definition remote_authentic (cf : fwconf) (pr : peer) (a : addr) : bool :=
  existsb (fun n => addr_eqb (fst n) a && any_contains (my_nets cf) (fst n)) (p_nets pr)
  || any_contains (p_unsafe pr) a.
(* C17: local is one of my certified addresses or inside one of my certified unsafe networks *)
Definition local_authentic (cf : fwconf) (a : addr) : bool :=
  existsb (fun n => addr_eqb (fst n) a) (my_nets cf) || any_contains (my_unsafe cf) a.

Definition dir_rules (rules : list (bool * rule * bool)) (incoming : bool) : list rule :=
  map (fun x => snd (fst x)) (filter (fun x => Bool.eqb (fst (fst x)) incoming && snd x) rules).

(* A port range wider than this is not built entry by entry inside Coq (1-65535 is 65535 map entries, the association
   list is quadratic): such rule sets are evaluated with the rule-list matcher, which proofs/Firewall_drop.v
   (drop_by_rules, new_firewall_some, add_rule_none) proves to give the same verdicts as the built tables. *)
Definition wide (r : rule) : bool := (1000 <? r_end r - r_start r)%Z.

(* run the probes through the model, threading the model's conntrack *)
Fixpoint run_probes (c16 : bool) (cf : fwconf) (rules : list (bool * rule * bool)) (m : matcher) (pl : pool)
         (cs : conns) (ps : list probe) : list N :=
  match ps with
  | [] => []
  | p :: rest =>
      let cs0 := if pb_reset p then [] else cs in
      let h := hostinfo_of (my_nets cf) (pb_peer p) in
      let pkt := pb_pkt p in
      let res := if pb_cached p then (drop_m m cf (pb_in p) pkt h (pb_peer p) pl true, cs0)
                 else drop_ct_m m 0 cf cs0 (pb_in p) pkt h (pb_peer p) pl in
      let allowed := pb_class p =? 0 in
      let matches := existsb (rule_matches cf (pb_in p) pkt (pb_peer p) pl) (dir_rules rules (pb_in p)) in
      let addr_ok := remote_authentic cf (pb_peer p) (pk_remote pkt) && local_authentic cf (pk_local pkt) in
      (* code 1: model vs implementation *)
      flag 1 (class_of (fst res) =? pb_class p)
      ++ flag 1 (Bool.eqb (is_some (aget pkt_eqb pkt cs0)) (pb_before p))
      ++ flag 1 (Bool.eqb (is_some (aget pkt_eqb pkt (snd res))) (pb_after p))
      (* code 2: the property on the implementation's verdict *)
      ++ (if c16 then
            (* untracked, address checks passed (verdict is allow or no-rule): allowed iff some rule matches *)
            (if negb (pb_before p) && negb (pb_cached p) && (allowed || (pb_class p =? 4))
             then flag 2 (Bool.eqb allowed matches) else [])
            (* allowed packets are tracked afterwards (a cache hit does not touch the map) *)
            ++ (if allowed && negb (pb_cached p) then flag 2 (pb_after p) else [])
            (* a matching rule and authentic addresses: allowed (the only refusal the code documents for an authentic
               remote is "peer rejected": a certified address outside my networks shadowing an unsafe network) *)
            ++ (if negb (pb_before p) && negb (pb_cached p) && matches && addr_ok
                then flag 2 (allowed || (pb_class p =? 2)) else [])
          else
            (* allowed, whatever the rules, conntrack and cache: both addresses authentic *)
            (if allowed then flag 2 (remote_authentic cf (pb_peer p) (pk_remote pkt))
                             ++ flag 2 (local_authentic cf (pk_local pkt)) else []))
      ++ run_probes c16 cf rules m pl (snd res) rest
  end.

Definition check_gen (c16 : bool) (c : case) : list N :=
  match c with
  | CFw cf rules pl probes =>
      (* AddRule's error result, rule by rule: model (code 1) and the validity rule (code 2) *)
      let inr := dir_rules rules true in
      let outr := dir_rules rules false in
      concat (map (fun x => flag 1 (Bool.eqb (if wide (snd (fst x)) then rule_valid (snd (fst x))
                                              else is_some (add_rule cf (snd (fst x)) empty_table)) (snd x))
                            ++ (if c16 then flag 2 (Bool.eqb (rule_valid (snd (fst x))) (snd x)) else [])) rules)
      ++ (if existsb wide (inr ++ outr) then
            (if forallb rule_valid inr && forallb rule_valid outr
             then run_probes c16 cf rules (rules_matcher cf inr outr) pl [] probes else [1])
          else match new_firewall cf inr outr with
               | None => [1]
               | Some fw => run_probes c16 cf rules (table_matcher fw) pl [] probes
               end)
  end.

Definition check_c16 := check_gen true.
Definition check_c17 := check_gen false.

(* ---------------------------------------------------------------------------------------------- *)
(* component fwreload (C17): certificate re-issues and config reloads through the real Interface.reloadFirewall *)

(* one step: the certified unsafe networks now, HasChanged("firewall") as the config machinery reported it, the
   configuration (default_local_cidr_any, inbound and outbound rules as the loader denotes them), whether the firewall
   object was replaced, and the Drop probes made afterwards. The first step is the initial build. *)
Record rstep := mkRStep {
  rs_unsafe : list prefix; rs_changed : bool; rs_dlca : bool; rs_in : list rule; rs_out : list rule;
  rs_rebuilt : bool; rs_probes : list probe }.
Inductive rcase := CReload (nets : list prefix) (start_version : N) (steps : list rstep).

(* probes against the current firewall, conntrack threaded (and returned: it survives reloads) *)
Fixpoint run_rprobes (cf : fwconf) (fw : firewall) (cs : conns) (ps : list probe) : list N * conns :=
  match ps with
  | [] => ([], cs)
  | p :: rest =>
      let h := hostinfo_of (my_nets cf) (pb_peer p) in
      let pkt := pb_pkt p in
      let res := drop_ct fw cs (pb_in p) pkt h (pb_peer p) [] in
      let allowed := pb_class p =? 0 in
      let remote_refused := (pb_class p =? 1) || (pb_class p =? 2) in
      let out :=
        (* code 1: model *)
        flag 1 (class_of (fst res) =? pb_class p)
        ++ flag 1 (Bool.eqb (is_some (aget pkt_eqb pkt cs)) (pb_before p))
        ++ flag 1 (Bool.eqb (is_some (aget pkt_eqb pkt (snd res))) (pb_after p))
        (* code 2: the local-address universe is the CURRENT certificate's: refused as invalid-local exactly when the
           node-side address is neither one of my addresses nor inside a currently certified unsafe network - tracked
           or not, either direction (unless the remote address was refused first) *)
        ++ (if remote_refused then [] else flag 2 (Bool.eqb (negb (local_authentic cf (pk_local pkt))) (pb_class p =? 3)))
        ++ (if allowed then flag 2 (remote_authentic cf (pb_peer p) (pk_remote pkt)) ++ flag 2 (local_authentic cf (pk_local pkt)) else []) in
      let '(r, cs') := run_rprobes cf fw (snd res) rest in
      (out ++ r, cs')
  end.

Fixpoint run_rsteps (nets : list prefix) (fw : firewall) (cs : conns) (steps : list rstep) : list N :=
  match steps with
  | [] => []
  | s :: rest =>
      let '(fw', cs1) := reload_firewall fw cs (rs_unsafe s) (rs_changed s) (rs_dlca s) (rs_in s) (rs_out s) in
      (* the current certificate *)
      let cf := mkConf nets (rs_unsafe s) (rs_dlca s) in
      let '(out, cs2) := run_rprobes cf fw' cs1 (rs_probes s) in
      flag 1 (Bool.eqb (reload_triggered fw (rs_unsafe s) (rs_changed s)) (rs_rebuilt s))
      ++ out ++ run_rsteps nets fw' cs2 rest
  end.

Definition check_reload (c : rcase) : list N :=
  match c with
  | CReload nets ver steps =>
      match steps with
      | [] => [1]
      | s0 :: rest =>
          match new_firewall (mkConf nets (rs_unsafe s0) (rs_dlca s0)) (rs_in s0) (rs_out s0) with
          | None => [1]
          | Some f0 =>
              let fw := mkFw (fw_conf f0) (fw_in f0) (fw_out f0) ver in
              let '(out, cs) := run_rprobes (fw_conf f0) fw [] (rs_probes s0) in
              out ++ run_rsteps nets fw cs rest
          end
      end
  end.

(* Correspondence of model/UdpSplit.v with /repo/udp (deliverSegments, parseRecvCmsg): cases are produced
   by harness `udpsplit` through the overlay shim go/overlay/udp/verif_udpsplit.go. *)
From Coq Require Import List NArith ZArith Bool.
Import ListNotations.
From NV Require Import lib.Bytes lib.Corr gen.Consts_UdpSplit model.UdpSplit.
Open Scope N_scope.

Inductive case :=
| CSplit (p : list N) (seg : Z) (pieces : list (list N)) (alias_ok panicked : bool)
    (* pieces = copies of the slices deliverSegments handed to its callback, in call order *)
| CCmsg (buf : list N) (gso : Z) (panicked : bool).
    (* gso = parseRecvCmsg's result on a control buffer holding exactly buf *)

Definition pieces_eqb := list_eqb nlist_eqb.

(* every element but the last satisfies f *)
Fixpoint all_but_last {A} (f : A -> bool) (l : list A) : bool :=
  match l with
  | [] => true
  | [_] => true
  | x :: r => f x && all_but_last f r
  end.

(* The property, executable: 0 < seg < |p|: the pieces concatenate to p, none is empty, all have length seg
   except the last which is not longer; otherwise: exactly one piece, p itself. *)
Definition split_spec_ok (p : list N) (seg : Z) (pieces : list (list N)) : bool :=
  if ((0 <? seg)%Z && (seg <? Z.of_nat (length p))%Z)%bool then
    nlist_eqb (concat pieces) p
    && forallb (fun x => (0 <? length x)%nat) pieces
    && all_but_last (fun x => (Z.of_nat (length x) =? seg)%Z) pieces
    && (Z.of_nat (length (last pieces [])) <=? seg)%Z
  else pieces_eqb pieces [p].

Definition check_case (c : case) : list N :=
  match c with
  | CSplit p seg pieces _ panicked =>
      flag 1 (option_eqb pieces_eqb (deliver_segments p seg) (Some pieces))
      ++ flag 2 (split_spec_ok p seg pieces && negb panicked)
  | CCmsg buf gso panicked =>
      match parse_recv_cmsg buf with
      | Some (g, oob) => flag 1 (g =? gso)%Z ++ flag 2 (negb oob && negb panicked)
      | None => [1; 2]
      end
  end.

(* Correspondence of model/UdpSplit.v with /repo/udp (deliverSegments, parseRecvCmsg): cases are produced
   by harness `udpsplit` through the overlay shim go/overlay/udp/verif_udpsplit.go. *)
From Coq Require Import List NArith ZArith Bool.
Import ListNotations.
From NV Require Import lib.Bytes lib.Corr gen.Consts_UdpSplit model.UdpSplit.
Open Scope N_scope.

(* byte strings are written as lower-case hex string literals (far cheaper for coqc to read than lists of numerals) *)
Definition hexval (a : Ascii.ascii) : N :=
  let n := Ascii.N_of_ascii a in if n <? 58 then n - 48 else n - 87.
Fixpoint unhex (s : String.string) : list N :=
  match s with
  | String.String a (String.String b r) => (16 * hexval a + hexval b) :: unhex r
  | _ => []
  end.

Inductive case :=
| CSplit (p : String.string) (seg : Z) (lens : list N) (content_ok panicked : bool)
    (* lens = lengths of the slices deliverSegments handed to its callback, in call order; content_ok = every
       slice was byte-for-byte payload[off:off+len] at the running offset off (checked by the shim) *)
| CCmsg (buf : String.string) (gso : Z) (panicked : bool)
    (* gso = parseRecvCmsg's result on a control buffer holding exactly buf *)
| CListen (units : list (N * N)) (sent : list (N * N)) (delivered : list (N * N)).
    (* system level, component `listenout`: the real StdConn.ListenOut on a loopback socket with UDP_GRO.
       units = what the sender did: (bytes, UDP_SEGMENT size or 0 for a plain datagram);
       sent = (length, hash) of every datagram that was on the wire, in order (a UDP_SEGMENT send of n bytes with
       size s is ceil(n/s) datagrams of s bytes, the last shorter); delivered = (length, hash) of every payload the
       ListenOut callback got, in order *)

(* the observed pieces, rebuilt from their lengths (meaningful when content_ok) *)
Fixpoint cut (p : list N) (lens : list N) : list (list N) :=
  match lens with
  | [] => []
  | l :: r => firstn (N.to_nat l) p :: cut (skipn (N.to_nat l) p) r
  end.

Definition pieces_eqb := list_eqb nlist_eqb.

(* every element but the last satisfies f *)
Fixpoint all_but_last {A} (f : A -> bool) (l : list A) : bool :=
  match l with
  | [] => true
  | [_] => true
  | x :: r => f x && all_but_last f r
  end.

(* The property, executable: 0 < seg < |p|: the pieces concatenate to p, none is empty, all have length seg
   except the last which is not longer; otherwise: exactly one piece, p itself. *)
Definition split_spec_ok (p : list N) (seg : Z) (pieces : list (list N)) : bool :=
  if ((0 <? seg)%Z && (seg <? Z.of_nat (length p))%Z)%bool then
    nlist_eqb (concat pieces) p
    && forallb (fun x => (0 <? length x)%nat) pieces
    && all_but_last (fun x => (Z.of_nat (length x) =? seg)%Z) pieces
    && (Z.of_nat (length (last pieces [])) <=? seg)%Z
  else pieces_eqb pieces [p].

Definition pair_eqb (a b : N * N) : bool := (fst a =? fst b) && (snd a =? snd b).

(* what the model delivers for one unit if the kernel hands it over as sent: a superdatagram with gso_size = seg,
   or a plain datagram without a size (only lengths matter, the content is left out) *)
Definition unit_lens (u : N * N) : list N :=
  match deliver_segments (repeat 0 (N.to_nat (fst u))) (Z.of_N (snd u)) with
  | Some pieces => map (fun x => N.of_nat (length x)) pieces
  | None => []
  end.

Definition check_case (c : case) : list N :=
  match c with
  | CListen units sent delivered =>
      (* the property at system level: every datagram that was sent is delivered whole, exactly once, in order,
         whatever an earlier datagram in the same receive slot carried *)
      flag 1 (nlist_eqb (flat_map unit_lens units) (map fst delivered))
      ++ flag 2 (list_eqb pair_eqb sent delivered)
  | CSplit ps seg lens content_ok panicked =>
      let p := unhex ps in
      let pieces := cut p lens in
      (* the lengths must be those of real slices of the payload; content_ok says the bytes were those slices *)
      let observed_ok := content_ok && negb panicked
                         && nlist_eqb (map (fun x => N.of_nat (length x)) pieces) lens in
      flag 1 (option_eqb pieces_eqb (deliver_segments p seg) (Some pieces) && observed_ok)
      ++ flag 2 (split_spec_ok p seg pieces && observed_ok)
  | CCmsg bs gso panicked =>
      let buf := unhex bs in
      match parse_recv_cmsg buf with
      | Some (g, oob) => flag 1 (g =? gso)%Z ++ flag 2 (negb oob && negb panicked)
      | None => [1; 2]
      end
  end.

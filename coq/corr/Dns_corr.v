(* Correspondence of model/Dns.v with /repo (dns_server.go; hostmap.go unlockedAddHostInfo).  Cases come from the
   harness component `dns`: one case is a history on one real dnsServer + HostMap.  Every step carries the operation,
   for a query what the implementation answered (also for the same query with its names re-cased), and
   dnsMap4 / dnsMap6 / selfHost after the operation.

   code 1: the model's answer or its record maps differ from the implementation's.
   code 2: the documented answer rule of the property (below, written from the property text) rejects the
           implementation's response. *)
From Coq Require Import List NArith Bool.
Import ListNotations.
From NV Require Import lib.Ip lib.Corr model.Dns.
Open Scope N_scope.

Inductive sop :=
| SOp (o : dop)
| SQuery (client : option addr) (via_handler : bool) (opcode : N) (qs : list question) (twin : list name)
         (rcode : N) (answers : list answer) (trcode : N) (tanswers : list answer).

(* [st_dump]: dnsMap4, dnsMap6, selfHost after the operation; None = identical to the previous dump *)
Record dstp := mkDstp { st_op : sop; st_dump : option (list (name * N) * list (name * N) * name) }.

(* names are written in the case files as (length, big-endian base-256 value) to keep the literals small *)
Fixpoint nm_bytes (len : nat) (v : N) (acc : name) : name :=
  match len with
  | O => acc
  | S k => nm_bytes k (v / 256) ((v mod 256) :: acc)
  end.
Definition nm (len v : N) : name := nm_bytes (N.to_nat len) v [].

(* component dnsnet: one observation of the node under test inside a network of real nodes, after a handshake ran:
   the tunnels established in its main hostmap (certificate name and certificate addresses of each), and for every
   name of the scenario the answer to an A and an AAAA query: (qtype, queried name, rcode, answered address values) *)
Record nstep := mkNs {
  ns_established : list (name * list addr);
  ns_answers : list (N * name * N * list N)
}.

Inductive case :=
| CDns (on : bool) (id : N) (cname : name) (addrs : list addr)
       (m4 m6 : list (name * N)) (self : name) (steps : list dstp)
| CNet (self : name) (self_addrs : list addr) (steps : list nstep).

Definition ans_eqb (a b : answer) : bool :=
  (fst (fst a) =? fst (fst b)) && name_eqb (snd (fst a)) (snd (fst b)) && (snd a =? snd b).

Definition map_eqb (a b : list (name * N)) : bool :=
  (N.of_nat (length a) =? N.of_nat (length b)) &&
  forallb (fun kv => match aget name_eqb (fst kv) b with Some v => v =? snd kv | None => false end) a.

Definition dump_eqb (s : dstate) (m4 m6 : list (name * N)) (self : name) : bool :=
  map_eqb (d_m4 s) m4 && map_eqb (d_m6 s) m6 && name_eqb (d_self s) self.

Definition rcode_nx : N := 3.
Definition rcode_of (nx : bool) : N := if nx then rcode_nx else 0.

(* ---- the documented answer rule, on the implementation's response ------------------------------------------ *)

(* certificates the responder may draw from: of completed handshakes, and my own (every generation) *)
Definition cert := (N * name * list addr)%type.

Definition is_loopback_doc (a : addr) : bool :=
  if fst a then (2130706432 <=? snd a) && (snd a <=? 2147483647)      (* 127.0.0.0/8 *)
  else snd a =? 1.                                                     (* ::1 *)

Definition known_name (m4 m6 : list (name * N)) (n : name) : bool :=
  existsb (fun kv => name_eqb (fst kv) (lower n)) (m4 ++ m6).

Definition is_nil_ans (l : list answer) : bool := match l with [] => true | _ => false end.

Definition spec_query (certs : list cert) (mine : cert) (m4 m6 : list (name * N))
           (client : option addr) (qs : list question) (rcode : N) (answers : list answer) : bool :=
  let privileged := match client with
                    | Some a => is_loopback_doc a || existsb (addr_eqb a) (snd mine)
                    | None => false
                    end in
  (* the questions are looked at in order; a certificate question from a client that may not ask it ends that *)
  let stopped := negb privileged && existsb (fun q => q_type q =? ty_TXT) qs in
  ((rcode =? 0) || (rcode =? rcode_nx)) &&
  forallb (fun a : answer =>
    let '(t, n, v) := a in
    (* it answers one of the questions, name compared case-insensitively *)
    existsb (fun q => (q_type q =? t) && name_eqb (lower (fqdn (q_name q))) (lower n)) qs &&
    (if (t =? ty_A) || (t =? ty_AAAA) then
       (* the name and the address come from one certificate: of a completed handshake, or my own *)
       existsb (fun c : cert =>
         name_eqb (lower (snd (fst c) ++ [dot])) (lower n) &&
         existsb (fun x : addr => Bool.eqb (fst x) (t =? ty_A) && (snd x =? v)) (snd c)) certs
     else if t =? ty_TXT then
       (* certificate details only to loopback clients or my own overlay addresses; the certificate is one of a
          completed handshake (or mine) and carries the address asked about *)
       privileged &&
       existsb (fun c : cert =>
         (fst (fst c) =? v) &&
         existsb (fun q => (q_type q =? ty_TXT) &&
                           match q_ip q with Some ip => existsb (addr_eqb ip) (snd c) | None => false end) qs) certs
     else false)) answers &&
  (* a known name without a record of the requested type: NOERROR and nothing; NXDOMAIN exactly when every question
     was looked at, none of the names is known and there is no answer *)
  Bool.eqb (rcode =? rcode_nx)
           (negb stopped && is_nil_ans answers && forallb (fun q => negb (known_name m4 m6 (q_name q))) qs).

(* the same query with re-cased names: same rcode, same records up to the case of the owner names *)
Definition spec_twin (rcode : N) (answers : list answer) (trcode : N) (tanswers : list answer) : bool :=
  (rcode =? trcode) &&
  list_eqb (fun a b : answer => (fst (fst a) =? fst (fst b)) && name_eqb (lower (snd (fst a))) (lower (snd (fst b))) && (snd a =? snd b))
           answers tanswers.

Definition recase (qs : list question) (twin : list name) : list question :=
  map (fun qn : question * name => (q_type (fst qn), snd qn, q_ip (fst qn))) (combine qs twin).

Definition model_answer (s : dstate) (client : option addr) (via : bool) (opcode : N) (qs : list question) : list answer * bool :=
  if via then handle_request s client opcode qs else parse_query s client qs.

Fixpoint walk (ms : dstate) (certs : list cert) (m4 m6 : list (name * N)) (self : name) (steps : list dstp) : list N :=
  match steps with
  | [] => []
  | st :: r =>
      let '(m4', m6', self') := match st_dump st with Some d => d | None => (m4, m6, self) end in
      match st_op st with
      | SOp o =>
          let ms' := dstep ms o in
          let certs' := match o with DAdd id n a | DCert id n a => (id, n, a) :: certs | DReload _ => certs end in
          flag 1 (dump_eqb ms' m4' m6' self') ++ walk ms' certs' m4' m6' self' r
      | SQuery client via opcode qs twin rcode answers trcode tanswers =>
          let '(ma, mnx) := model_answer ms client via opcode qs in
          let '(ta, tnx) := model_answer ms client via opcode (recase qs twin) in
          let eff := if via then (if opcode =? 0 then firstn 1 qs else []) else qs in
          flag 1 ((rcode =? rcode_of mnx) && list_eqb ans_eqb ma answers &&
                  (trcode =? rcode_of tnx) && list_eqb ans_eqb ta tanswers &&
                  dump_eqb ms m4' m6' self') ++
          flag 2 ((if via && negb (opcode =? 0) then (rcode =? 0) && is_nil_ans answers
                   else spec_query certs (d_my ms) m4 m6 client eff rcode answers) &&
                  spec_twin rcode answers trcode tanswers &&
                  map_eqb m4 m4' && map_eqb m6 m6') ++
          walk ms certs m4' m6' self' r
      end
  end.

Fixpoint dedup (l : list N) : list N :=
  match l with [] => [] | x :: r => if existsb (N.eqb x) r then dedup r else x :: dedup r end.

(* ---- dnsnet: the property on the implementation's observations alone ------------------------------------------
   Every address the responder answers for a name is an address listed in a certificate carrying that name (up to
   case) with which a tunnel was established in the main hostmap (a completed, authenticated handshake), or in my
   own certificate; of the family the record type says; NXDOMAIN comes without records.  In particular a name whose
   handshakes were all refused (wrong responder, untrusted CA, blocklisted, claiming my address) gets no answer, and
   an address that was only dialled - not certified - is never answered. *)
Definition net_answer_ok (certs : list (name * list addr)) (a : N * name * N * list N) : bool :=
  let '(qt, qn, rc, vals) := a in
  ((rc =? 0) || ((rc =? rcode_nx) && match vals with [] => true | _ => false end)) &&
  ((qt =? ty_A) || (qt =? ty_AAAA)) &&
  forallb (fun v =>
    existsb (fun c : name * list addr =>
      name_eqb (lower (fst c ++ [dot])) (lower qn) &&
      existsb (fun x : addr => Bool.eqb (fst x) (qt =? ty_A) && (snd x =? v)) (snd c)) certs) vals.

(* code 1 (model side, weak): a name with an established tunnel whose certificate has an address of the family is
   answered with something, as dns_add would have recorded *)
Definition net_complete (est : list (name * list addr)) (answers : list (N * name * N * list N)) : bool :=
  forallb (fun c : name * list addr =>
    forallb (fun a : N * name * N * list N =>
      let '(qt, qn, rc, vals) := a in
      negb (name_eqb (lower (fst c ++ [dot])) (lower qn)) ||
      negb (existsb (fun x : addr => Bool.eqb (fst x) (qt =? ty_A)) (snd c)) ||
      match vals with [] => false | _ => true end) answers) est.

Fixpoint net_walk (certs : list (name * list addr)) (steps : list nstep) : list N :=
  match steps with
  | [] => []
  | s :: r =>
      let certs' := ns_established s ++ certs in
      flag 2 (forallb (net_answer_ok certs') (ns_answers s)) ++
      flag 1 (net_complete (ns_established s) (ns_answers s)) ++
      net_walk certs' r
  end.

Definition check_case (c : case) : list N :=
  match c with
  | CDns on id cname addrs m4 m6 self steps =>
      let s0 := dinit on id cname addrs in
      dedup (flag 1 (dump_eqb s0 m4 m6 self) ++ walk s0 [(id, cname, addrs)] m4 m6 self steps)
  | CNet self self_addrs steps => dedup (net_walk [(self, self_addrs)] steps)
  end.

(* Correspondence of model/Header.v with /repo/header: cases are produced by harness `header`. *)
From Coq Require Import List NArith Bool.
Import ListNotations.
From NV Require Import lib.Bytes lib.Corr gen.Tab_Header model.Header.
Open Scope N_scope.

Inductive case :=
| CEnc (v t st ri c : N) (out : list N)
| CParse (b : list N) (res : option (N * N * N * N * N * N)) (tail_indep : bool)
| CValid (t s : N) (r : bool).

Definition hdr_tuple (h : hdr) := (h_ver h, h_typ h, h_sub h, h_res h, h_ri h, h_ctr h).
Definition tuple_eqb (a b : N * N * N * N * N * N) : bool :=
  let '(a1, a2, a3, a4, a5, a6) := a in let '(b1, b2, b3, b4, b5, b6) := b in
  (a1 =? b1) && (a2 =? b2) && (a3 =? b3) && (a4 =? b4) && (a5 =? b5) && (a6 =? b6).

(* These functions ARE the property (a functional characterisation), so a difference between the
   model and the implementation is a failing input of the property: code 2. *)
Definition check_case (c : case) : list N :=
  match c with
  | CEnc v t st ri c out => flag 2 (nlist_eqb (encode v t st ri c) out)
  | CParse b res ti =>
      flag 2 (option_eqb tuple_eqb (option_map hdr_tuple (parse b)) res) ++ flag 2 ti
  | CValid t s r =>
      (* the spec is the documented list, not the generated table, so a changed IsValidSubType shows up
         as a failing (type, subtype) input and not merely as a broken proof *)
      flag 2 (Bool.eqb (existsb (pair_eqb (t, s)) documented_pairs) r) ++ flag 1 (Bool.eqb (is_valid_subtype t s) r)
  end.

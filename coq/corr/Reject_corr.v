(* Correspondence of model/Reject.v with /repo/iputil CreateRejectPacket: cases are produced by harness `reject`.
   A case = the rejected packet, cap(out), the bytes CreateRejectPacket returned ([] for nil), whether it panicked. *)
From Coq Require Import List NArith Bool.
Import ListNotations.
From NV Require Import lib.Bytes lib.Corr model.IpParse model.Reject.
Open Scope N_scope.

Inductive case :=
| CReject (p : list N) (cap : N) (out : list N) (panicked : bool)
(* the callers: inside = true rejectInside, false rejectOutside; buflen = length of the reject / scratch buffer;
   ws = the replies written to the tun resp. handed to the tunnel cipher; sent = number of tun writes resp. underlay datagrams *)
| CCaller (inside : bool) (p : list N) (buflen : N) (ws : list (list N)) (sent : N) (panicked : bool).

Definition is_nil (l : list N) : bool := match l with [] => true | _ => false end.

(* code 1: the model of CreateRejectPacket differs from CreateRejectPacket.
   code 2: the property's executable specification rejects what CreateRejectPacket did:
     - it panicked;
     - it produced a reply that the independent validator [reply_ok] does not accept (header fields, lengths, swapped
       addresses / ports, RST sequence numbers, ICMP body, every checksum recomputed), or one larger than the buffer;
     - it produced a reply although the packet is a non-first fragment / an ICMP error / the buffer is too small. *)
Definition check_case (c : case) : list N :=
  match c with
  | CReject p cap out pan =>
      flag 1 (match create_reject p cap, pan with
              | Ok o, false => nlist_eqb o out
              | Panic, true => true
              | _, _ => false
              end) ++
      flag 2 (negb pan) ++
      flag 2 (is_nil out || (reply_ok p out && (blen out <=? cap))) ++
      flag 2 (negb (must_be_silent p cap) || is_nil out)
  | CCaller inside p buflen ws sent pan =>
      (* code 1: the model of rejectInside / rejectOutside differs from the code.
         code 2: a panic; more than one reply; a reply that does not pass the validator against the WHOLE rejected packet
         (RST numbers from the full segment length, quote of the original, checksums), exceeds the maximum, or answers
         a fragment / ICMP error; a reply recorded but not (or more than once) sent *)
      flag 1 (match (if inside then reject_inside p buflen else reject_outside p buflen), pan with
              | Ok m, false => list_eqb nlist_eqb m ws
              | Panic, true => true
              | _, _ => false
              end) ++
      flag 2 (negb pan) ++
      flag 2 (emitted_ok p (if inside then buflen else outside_cap buflen) ws) ++
      flag 2 (sent =? N.of_nat (length ws))
  end.

(* Correspondence of model/Reject.v with /repo/iputil CreateRejectPacket: cases are produced by harness `reject`.
   A case = the rejected packet, cap(out), the bytes CreateRejectPacket returned ([] for nil), whether it panicked. *)
From Coq Require Import List NArith Bool.
Import ListNotations.
From NV Require Import lib.Bytes lib.Corr model.IpParse model.Reject.
Open Scope N_scope.

Inductive case :=
| CReject (p : list N) (cap : N) (out : list N) (panicked : bool).

Definition is_nil (l : list N) : bool := match l with [] => true | _ => false end.

(* code 1: the model of CreateRejectPacket differs from CreateRejectPacket.
   code 2: the property's executable specification rejects what CreateRejectPacket did:
     - it panicked;
     - it produced a reply that the independent validator [reply_ok] does not accept (header fields, lengths, swapped
       addresses / ports, RST sequence numbers, ICMP body, every checksum recomputed), or one larger than the buffer;
     - it produced a reply although the packet is a non-first fragment / an ICMP error / the buffer is too small. *)
Definition check_case (c : case) : list N :=
  match c with
  | CReject p cap out pan =>
      flag 1 (match create_reject p cap, pan with
              | Ok o, false => nlist_eqb o out
              | Panic, true => true
              | _, _ => false
              end) ++
      flag 2 (negb pan) ++
      flag 2 (is_nil out || (reply_ok p out && (blen out <=? cap))) ++
      flag 2 (negb (must_be_silent p cap) || is_nil out)
  end.

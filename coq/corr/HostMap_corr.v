(* Correspondence of model/HostMap.v with /repo (hostmap.go, relay_manager.go AddRelay, the pending hostmap
   of handshake_manager.go).  Cases are produced by the harness components `hostmap` (C28) and
   `hostmap_idx` (C29): one case is a whole operation history; every step carries the operation, what the
   implementation returned, and the canonical dump of all of its maps after the operation.

   code 1: the model's outcome or state differs from the implementation's.
   code 2: the executable specification of the property rejects the implementation's dump. *)
From Coq Require Import List NArith Bool.
Import ListNotations.
From NV Require Import lib.Corr gen.Consts_HostMap model.HostMap.
Open Scope N_scope.

Record hstep := mkStep {
  s_op : op;
  s_out : outcome;                 (* observed on the implementation *)
  (* the implementation's dump after the operation, as the entries that changed since the previous dump
     ([None] = the key was deleted); the harness computes the changes from two complete dumps, and the
     complete dump at the end of the history is compared with the reconstruction *)
  s_dinfos : list (N * hinfo);
  s_dhosts : list (N * option N); s_dmore : list (N * option (list N)); s_didx : list (N * option N);
  s_dridx : list (N * option N); s_drel : list (N * option N); s_dpvpn : list (N * option N);
  s_dpidx : list (N * option N)
}.

Inductive case :=
| CHist (steps : list hstep) (final : state).

Definition apply_delta {V} (d : list (N * option V)) (m : amap V) : amap V :=
  fold_left (fun m e => match snd e with Some v => mset (fst e) v m | None => mdel (fst e) m end) d m.

Definition apply_infos (d : list (N * hinfo)) (m : amap hinfo) : amap hinfo :=
  fold_left (fun m e => mset (fst e) (snd e) m) d m.

Definition dump_of (prev : state) (st : hstep) : state :=
  mkSt (apply_infos (s_dinfos st) (infos prev)) (apply_delta (s_dhosts st) (hosts prev))
       (apply_delta (s_dmore st) (more prev)) (apply_delta (s_didx st) (idx prev))
       (apply_delta (s_dridx st) (ridx prev)) (apply_delta (s_drel st) (rel prev))
       (apply_delta (s_dpvpn st) (pvpn prev)) (apply_delta (s_dpidx st) (pidx prev)) [].

(* ---- C28: executable specification of one step, on the implementation's dumps [p] (before), [d] (after) *)

(* tunnels that stopped being live in this step *)
Definition newly_gone (p d : state) : list N :=
  filter (fun h => liveb p h && negb (liveb d h)) (keys (infos p)).

Definition spec28_step (o : op) (r : outcome) (p d : state) (gone : list N) : bool :=
  wfb d &&
  (* removed tunnels (now or earlier, deleted or evicted) are referenced by no map and are not live *)
  forallb (fun h => unreachableb d h && negb (liveb d h)) gone &&
  match o, r with
  | ODelete id, RBool f =>
      (* every reference is erased, and "no tunnel to the peer remains" is reported exactly when no other
         tunnel held any of its addresses *)
      unreachableb d id && Bool.eqb f (no_other_holderb p id)
  | OPromote id, RBool b =>
      (* only a live tunnel is promoted; a refused promotion changes nothing *)
      Bool.eqb b (liveb p id) && (b || state_eqb p d)
  | _, _ => true
  end.

(* ---- C29 ------------------------------------------------------------------------------------------ *)

Definition fresh_local (p : state) (i : N) : bool :=
  negb (i =? 0) && match held p i with None => true | Some _ => false end.

Definition spec29_step (o : op) (r : outcome) (p d : state) : bool :=
  idxb d && releaseb p d &&
  match o, r with
  | OAlloc _ _, RIdx (Some i) => fresh_local p i
  | OResp _ _ _ _, RResp 0 i => fresh_local p i
  | OAddRelay _ _ _, RIdx (Some i) =>
      negb (i =? 0) && match mget i (rel p) with None => true | Some _ => false end
  | _, _ => true
  end.

(* ---- walking a history ------------------------------------------------------------------------------ *)

Record wstate := mkW { w_model : state; w_prev : state; w_gone : list N }.

Definition w0 : wstate := mkW init init [].

Definition walk_step (which : N) (w : wstate) (st : hstep) : wstate * list N :=
  let (m', rm) := step (s_op st) (w_model w) in
  let p := w_prev w in
  let d := dump_of p st in
  let gone := w_gone w ++ newly_gone p d in
  let e1 := flag 1 (outcome_eqb rm (s_out st) && state_eqb m' d) in
  let e2 := flag 2 (if which =? 28 then spec28_step (s_op st) (s_out st) p d gone
                    else spec29_step (s_op st) (s_out st) p d) in
  (mkW m' d gone, e1 ++ e2).

Fixpoint walk (which : N) (w : wstate) (l : list hstep) (final : state) : list N :=
  match l with
  | [] => flag 1 (state_eqb (w_prev w) final)     (* the reconstructed dump is the implementation's dump *)
  | st :: r => let (w', e) := walk_step which w st in e ++ walk which w' r final
  end.

Definition dedup_codes (l : list N) : list N :=
  (if mem 1 l then [1] else []) ++ (if mem 2 l then [2] else []).

Definition check_with (which : N) (c : case) : list N :=
  match c with
  | CHist l f => dedup_codes (walk which w0 l f)
  end.

Definition check_case28 : case -> list N := check_with 28.
Definition check_case29 : case -> list N := check_with 29.

(* Correspondence of model/IpParse.v with /repo newPacket (outside.go): cases are produced by harness `ipparse`.
   A case = the packet bytes, the direction, and what the real newPacket did: Some classification / None (error),
   and whether it panicked (recovered by the harness). *)
From Coq Require Import List NArith Bool.
Import ListNotations.
From NV Require Import lib.Bytes lib.Corr model.IpParse.
Open Scope N_scope.

Definition obs := (list N * list N * N * N * N * bool * bool * N)%type.

Inductive case :=
| CParse (d : list N) (incoming : bool) (res : option obs) (panicked : bool).

Definition fp_of_obs (o : obs) : fpkt :=
  let '(l, r, lp, rp, proto, frag, fragany, hl) := o in mkFp l r lp rp proto frag fragany hl.

Definition fpkt_eqb (a b : fpkt) : bool :=
  nlist_eqb (fp_local a) (fp_local b) && nlist_eqb (fp_remote a) (fp_remote b) &&
  (fp_lport a =? fp_lport b) && (fp_rport a =? fp_rport b) && (fp_proto a =? fp_proto b) &&
  Bool.eqb (fp_frag a) (fp_frag b) && Bool.eqb (fp_fragany a) (fp_fragany b) && (fp_hdrlen a =? fp_hdrlen b).

(* code 1: the model of newPacket differs from newPacket.
   code 2: the property's executable specification rejects what newPacket did:
     - it panicked;
     - it accepted the packet with a classification other than the reference parser's (this includes accepting a
       packet the reference parser rejects: truncated / unresolvable chain);
     - it accepted an IPv6 packet and reported an extension header number as the protocol. *)
Definition check_case (c : case) : list N :=
  match c with
  | CParse d inc res pan =>
      flag 1 (match parse d inc, res, pan with
              | Ok fp, Some o, false => fpkt_eqb fp (fp_of_obs o)
              | Err _, None, false => true
              | Panic, None, true => true
              | _, _, _ => false
              end) ++
      flag 2 (negb pan) ++
      match res with
      | Some o =>
          let fp := fp_of_obs o in
          flag 2 (option_eqb fpkt_eqb (spec_parse d inc) (Some fp)) ++
          flag 2 (negb (is_v6 d && is_ext (fp_proto fp)))
      | None => []
      end
  end.

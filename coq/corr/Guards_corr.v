(* Correspondence for the write-discipline part of C34: the cases come from harness `guards`, which re-runs the
   translator (go/lockgraph/guards.go) on /repo and reports every write site it finds - one case per site - with the
   source position, the function and the must-held lock classes in the case description.
   Codes: 2 = the site breaks the hand-written rule of model/WriteDiscipline.v ([site_ok] evaluated on the site as the
              component observed it, not on the generated table): a store into a published object of an immutable type
              (Relay), or a write to a documented guarded container on some path on which its guard is not held in
              write mode - an unsynchronised write, i.e. a possible data race;
          1 = the site is not in gen/WriteSites.v, or the number of sites differs (the two runs of the translator
              disagree). *)
From Coq Require Import List NArith Bool.
Import ListNotations.
From NV Require Import lib.Corr gen.LockGraph gen.WriteSites model.WriteDiscipline.
Open Scope N_scope.

Definition raw := (N * N * N * bool * list N * list N)%type.

Inductive case :=
| CSite (t : raw)       (* one write site, as gen/WriteSites.v lists them *)
| CCount (n : N).       (* number of sites the component saw *)

Definition raw_eqb (a b : raw) : bool :=
  let '(i, k, o, f, w, r) := a in let '(i', k', o', f', w', r') := b in
  (i =? i') && (k =? k') && (o =? o') && Bool.eqb f f' && nlist_eqb w w' && nlist_eqb r r'.

Definition check_case (c : case) : list N :=
  match c with
  | CSite t => flag 2 (site_ok (site_of t)) ++ flag 1 (existsb (raw_eqb t) write_sites)
  | CCount n => flag 1 (n =? N.of_nat (length write_sites))
  end.

(* Correspondence of model/CertTamper.v (+ the decoders of model/CertCodec.v) with /repo/cert: cases are produced by
   harness `certtamper`. *)
From Coq Require Import List NArith ZArith Bool Uint63.
Import ListNotations.
From NV Require Import lib.Bytes lib.Corr lib.Proto lib.Der model.CertCodec model.CertTamper corr.CertCodec_corr.
Open Scope N_scope.

Definition ident_eqb (a b : anycert) : bool :=
  (version_of a =? version_of b) &&
  let x := inner a in let y := inner b in
  nlist_eqb (c_name x) (c_name y) && list_eqb pfx_same (c_nets x) (c_nets y) &&
  list_eqb pfx_same (c_unsafe x) (c_unsafe y) && list_eqb nlist_eqb (c_groups x) (c_groups y) &&
  Bool.eqb (c_isca x) (c_isca y) && (c_nb x =? c_nb y)%Z && (c_na x =? c_na y)%Z &&
  nlist_eqb (c_issuer x) (c_issuer y) && (c_curve x =? c_curve y) && nlist_eqb (c_pub x) (c_pub y).

(* signature class of a decoded certificate relative to the issued one: 0 = the issued signature, 1 = its twin,
   2 = anything else *)
Definition sig_class (orig d : anycert) : N :=
  if nlist_eqb (CertTamper.sig_of d) (CertTamper.sig_of orig) then 0
  else if option_eqb nlist_eqb (twin (CertTamper.sig_of orig)) (Some (CertTamper.sig_of d)) then 1 else 2.

Inductive case :=
(* p256.Swap(sig) *)
| CSwap (sig : list N) (res : option (list N))
(* a tampered encoding [b] of the certificate [orig], which a CA in a pool holding only that CA issued.
   form 0: b went through UnmarshalCertificateFromPEM under the banner of orig's version;
   form 1: b went through Recombine(version of orig, b, pk, curve).
   dec = what the entry point returned; accepted = CAPool.VerifyCertificate(now, dec) and then VerifyCachedCertificate
   succeeded on a FRESH pool (now inside both validity windows, empty blocklist); acc_leaf = the same on the one
   long-lived pool of this leaf, which has verified the genuine certificate and every earlier tampered encoding of it;
   acc_ca = the same on the CA's shared pool, right after genuine certificates of other leaves of that CA;
   blk_orig / blk_twin = with the fingerprint of orig / of orig carrying the twin
   signature on the blocklist VerifyCertificate and VerifyCachedCertificate both refuse dec (true also when there is
   nothing to check: accepted on no pool, or no twin because the curve is not P-256). *)
| CTamper (orig : anycert) (form : N) (pk : list N) (curve : N) (b : list N) (dec : option anycert)
          (accepted acc_leaf acc_ca blk_orig blk_twin : bool).

Definition model_decode (orig : anycert) (form : N) (pk : list N) (curve : N) (b : list N) : option anycert :=
  match form with
  | 0 => match orig with
         | V1 _ => option_map V1 (decode_v1 [] b)
         | V2 _ => option_map V2 (decode_v2 [] 0 b)
         end
  | _ => recombine (version_of orig) b (Some pk) curve
  end.

Definition check_case (c : case) : list N :=
  match c with
  | CSwap sig res => flag 1 (option_eqb nlist_eqb (twin sig) res)
  | CTamper orig form pk curve b dec accepted acc_leaf acc_ca blk_orig blk_twin =>
      flag 1 (option_eqb any_eqb (model_decode orig form pk curve b) dec) ++
      (* C02_history_independent on the implementation: the verdict does not depend on what the pool verified before *)
      flag 2 (Bool.eqb accepted acc_leaf && Bool.eqb accepted acc_ca) ++
      (if accepted || acc_leaf || acc_ca then
         match dec with
         | None => [2]
         | Some d =>
             (* the property on the implementation's verdict: accepted => identity unchanged and the signature is the
                issued one or its twin; and either fingerprint on the blocklist stops it *)
             flag 2 (ident_eqb d orig) ++ flag 2 (sig_class orig d <? 2) ++ flag 2 blk_orig ++ flag 2 blk_twin ++
             (* the signed bytes of what was accepted are the signed bytes of what was issued (model of tbs) *)
             flag 1 (nlist_eqb (tbs_of d) (tbs_of orig))
         end
       else [])
  end.

(* Correspondence of model/Noise.v + model/Machine.v with /repo/handshake (real handshake.Machine, real crypto).
   Cases are produced by harness components noise_c07 / noise_c06 / noise_c05 (go/cmd/harness/c_noise.go).

   A case is a set of machines (model configurations mirroring the real credentials, verifier, allocator) and an
   adversary script: Initiate calls and deliveries of packets that are assembled from pieces of the packets the
   machines produced (any byte range), junk, points the DH refuses, and re-marshalled cleartext payloads.  The model
   runs the same script symbolically; every step's outcome class (rejected-usable / rejected-failed / done with
   packet header, length and Result fields) is compared with the implementation's (code 1), and so is the key
   pairing observed by encrypting with one machine's EKey and decrypting with another's DKey.
   Code 2: the property specifications evaluated on the implementation's observations alone. *)
From Coq Require Import List NArith Bool.
Import ListNotations.
From NV Require Import lib.Corr lib.Sym model.Noise model.Machine.
Open Scope N_scope.

Record mspec := mkMS { ms_cfg : config; ms_ver : N; ms_init : bool }.

Inductive piece :=
| FOut (j : nat) (off len : N)       (* bytes [off, off+len) of the noise message machine j produced *)
| FLow (id : N)                      (* a DHLen-byte string the DH refuses *)
| FJunk (id len : N)                 (* len bytes that are nobody's *)
| FPay (p : payload).                (* a cleartext payload as the harness re-marshalled / re-parsed it *)

Inductive wire :=
| WShort                                            (* fewer than header.Len bytes *)
| WPkt (subtype ri ctr : N) (body : list piece).

Inductive action := AInit (i : nat) | ADeliver (i : nat) (w : wire).

(* Result as observed: remote cert bytes id, id of the static key holder whose public key the cert carries (0 =
   nobody's), cert key == hs.PeerStatic(), Result.RemoteCert is the object the verifier returned,
   RemoteIndex, LocalIndex, MessageIndex, Initiator, MyCert bytes id *)
Definition robs : Type := (N * N * bool * bool * N * N * N * bool * N)%type.

Record obs := mkObs {
  o_class : N;                              (* 0 rejected, Failed() false; 1 rejected, Failed() true; 2 no error;
                                               7 rejected by a machine inside the HandshakeManager (Failed() not visible) *)
  o_out : option (N * N * N * N);           (* produced packet: subtype, remote index, counter, noise message length *)
  o_res : option robs
}.

Inductive tag :=
| TNone
| TVerbatim (j : nat)                        (* exactly the packet machine j produced, nothing changed *)
| TBad                                       (* a manipulated packet delivered ahead of the genuine one *)
| TGenuine (peer : nat) (body key ridx lidx : N).   (* the genuine packet of machine peer; what a clean run completes with *)

Record ccase := mkCase {
  cc_ms : list mspec;
  cc_script : list (action * obs * tag);
  cc_keys : list (nat * nat * bool);         (* (i, j, ok): ciphertext made with machine i's EKey opens with j's DKey *)
  cc_honest : list (nat * nat)               (* (initiator, responder) pairs whose two messages went through unmodified *)
}.

(* ---- running the script on the model ------------------------------------------------------------- *)

Definition sub_range (dl : N) (t : term) (off len : N) : term :=
  if tlen dl t <? off + len then Junk 0 len else fst (take dl len (snd (take dl off t))).

Definition eval_piece (dl : N) (outs : list (option packet)) (f : piece) : term :=
  match f with
  | FOut j off len => match nth j outs None with Some p => sub_range dl (pk_body p) off len | None => Junk 0 len end
  | FLow id => Low id
  | FJunk id len => Junk id len
  | FPay p => Pay p
  end.

Definition eval_wire (dl : N) (outs : list (option packet)) (w : wire) : packet :=
  match w with
  | WShort => mkPkt true 0 0 0 Empty
  | WPkt st ri ctr body => mkPkt false st ri ctr (fold_right (fun f acc => cat (eval_piece dl outs f) acc) Empty body)
  end.

Definition mk_machine (s : mspec) : option machine := new_machine (ms_cfg s) (ms_ver s) (ms_init s).

Definition mach_dl (m : machine) : N := hs_dl (m_hs m).

Definition model_obs (r : machine * outcome) : obs :=
  let (m', o) := r in
  match o with
  | Reject => mkObs (if m_failed m' then 1 else 0) None None
  | Done out res =>
      mkObs 2
        (match out with
         | Some p => Some (pk_subtype p, pk_ri p, pk_ctr p, tlen (mach_dl m') (pk_body p))
         | None => None
         end)
        (match res with
         | Some r =>
             match r_remote_cert r with
             | Some (body, key) =>
                 Some (body, (match key with Pub k => k | _ => 0 end),
                       (match hs_rs (m_hs m') with Some rs => term_eqb key rs | None => false end), true,
                       r_remote_idx r, r_local_idx r, r_msgidx r, r_initiator r,
                       (match r_mycert r with Some b => b | None => 0 end))
             | None => Some (0, 0, false, false, r_remote_idx r, r_local_idx r, r_msgidx r, r_initiator r, 0)
             end
         | None => None
         end)
  end.

Definition robs_eqb (a b : robs) : bool :=
  let '(a1, a2, a3, a4, a5, a6, a7, a8, a9) := a in
  let '(b1, b2, b3, b4, b5, b6, b7, b8, b9) := b in
  (a1 =? b1) && (a2 =? b2) && Bool.eqb a3 b3 && Bool.eqb a4 b4 && (a5 =? b5) && (a6 =? b6) && (a7 =? b7)
  && Bool.eqb a8 b8 && (a9 =? b9).

Definition quad_eqb (a b : N * N * N * N) : bool :=
  let '(a1, a2, a3, a4) := a in let '(b1, b2, b3, b4) := b in (a1 =? b1) && (a2 =? b2) && (a3 =? b3) && (a4 =? b4).

Definition obs_eqb (a b : obs) : bool :=
  ((o_class a =? o_class b) || ((o_class b =? 7) && ((o_class a =? 0) || (o_class a =? 1)))) && option_eqb quad_eqb (o_out a) (o_out b) && option_eqb robs_eqb (o_res a) (o_res b).

Fixpoint set_nth {A} (l : list A) (i : nat) (x : A) : list A :=
  match l, i with
  | [], _ => []
  | _ :: r, O => x :: r
  | a :: r, S i' => a :: set_nth r i' x
  end.

(* one step: returns the updated machines / outputs and the model's observation (None: the script names a
   machine that does not exist - a defect of the harness, reported as code 3) *)
Definition run_action (ms : list (option machine)) (outs : list (option packet)) (a : action)
  : list (option machine) * list (option packet) * option obs :=
  let target := match a with AInit i => i | ADeliver i _ => i end in
  match nth target ms None with
  | None => (ms, outs, None)
  | Some m =>
      let r := match a with
               | AInit _ => initiate m
               | ADeliver _ w => process m (eval_wire (mach_dl m) outs w)
               end in
      let outs' := match snd r with Done (Some p) _ => set_nth outs target (Some p) | _ => outs end in
      (set_nth ms target (Some (fst r)), outs', Some (model_obs r))
  end.

Fixpoint run_script (ms : list (option machine)) (outs : list (option packet)) (sc : list (action * obs * tag))
  : list (option machine) * bool * bool :=          (* final machines, all observations equal, script well formed *)
  match sc with
  | [] => (ms, true, true)
  | (a, o, _) :: rest =>
      let '(ms', outs', mo) := run_action ms outs a in
      let '(fin, ok, wf) := run_script ms' outs' rest in
      match mo with
      | Some mo => (fin, obs_eqb mo o && ok, wf)
      | None => (fin, ok, false)
      end
  end.

Definition final_keys (ms : list (option machine)) (i : nat) : option term * option term :=
  match nth i ms None with
  | Some m => (r_ekey (m_res m), r_dkey (m_res m))
  | None => (None, None)
  end.

(* the model's prediction for "i's EKey opens with j's DKey" *)
Definition model_pairs (ms : list (option machine)) (i j : nat) : bool :=
  match fst (final_keys ms i), snd (final_keys ms j) with
  | Some e, Some d => term_eqb e d
  | _, _ => false
  end.

Definition model_check (c : ccase) : list N :=
  let ms0 := map mk_machine (cc_ms c) in
  let '(fin, ok, wf) := run_script ms0 (map (fun _ => None) ms0) (cc_script c) in
  flag 1 ok ++ flag 3 wf ++ flag 3 (forallb (fun m => match m with Some _ => true | None => false end) ms0)
  ++ flag 1 (forallb (fun k : nat * nat * bool => let '(i, j, b) := k in Bool.eqb (model_pairs fin i j) b) (cc_keys c)).

(* ---- the property specifications, on the implementation's observations only ------------------------ *)

Definition act_target (a : action) : nat := match a with AInit i => i | ADeliver i _ => i end.

(* per machine: 0 = nothing rejected yet or only rejected with Failed() false; 1 = some rejection set Failed();
   2 = something else happened (a manipulated packet was accepted): the property is silent *)
Definition upd_state (st : list N) (i : nat) (v : N) : list N := set_nth st i v.

Definition keys_true (c : ccase) (i j : nat) : bool :=
  existsb (fun k : nat * nat * bool => let '(a, b, ok) := k in Nat.eqb a i && Nat.eqb b j && ok) (cc_keys c).

Definition res_matches (o : obs) (body key ridx lidx : N) : bool :=
  match o_res o with
  | Some (b, k, ks, ver, ri, li, mi, _, _) => (b =? body) && (k =? key) && ks && ver && (ri =? ridx) && (li =? lidx) && (mi =? 2)
  | None => false
  end.

(* C07: after any rejection with Failed() == false the genuine message completes with the result of a clean run;
   after a rejection that set Failed() every later input is refused *)
Fixpoint spec_c07_scan (c : ccase) (sc : list (action * obs * tag)) (st : list N) : bool :=
  match sc with
  | [] => true
  | (a, o, t) :: rest =>
      let i := act_target a in
      let cur := nth i st 0 in
      match t with
      | TNone | TVerbatim _ =>
          (* any other step: a machine that reported failed must keep refusing *)
          (if cur =? 1 then (o_class o =? 1) else true) &&
          spec_c07_scan c rest (if (cur =? 0) && (o_class o =? 1) then upd_state st i 1 else st)
      | TBad =>
          (if cur =? 1 then (o_class o =? 1) else true) &&
          spec_c07_scan c rest
            (if cur =? 0 then (if o_class o =? 0 then st else upd_state st i (if o_class o =? 1 then 1 else 2)) else st)
      | TGenuine peer body key ridx lidx =>
          (if cur =? 0 then (o_class o =? 2) && res_matches o body key ridx lidx && keys_true c i peer && keys_true c peer i
           else if cur =? 1 then (o_class o =? 1) else true) &&
          spec_c07_scan c rest (if cur =? 1 then st else upd_state st i 2)
      end
  end.

Definition spec_c07 (c : ccase) : bool :=
  spec_c07_scan c (cc_script c) (map (fun _ => 0) (cc_ms c)).

(* the last completed Result a machine reported *)
Definition last_res (c : ccase) (i : nat) : option robs :=
  fold_left (fun acc (s : action * obs * tag) => let '(a, o, _) := s in
                          if Nat.eqb (act_target a) i then match o_res o with Some r => Some r | None => acc end else acc)
            (cc_script c) None.

(* C06: both sides of an unmodified exchange agree on keys (each sending key opens only with the other's receiving
   key), indexes, message count (2), and no local index is zero *)
Definition spec_c06 (c : ccase) : bool :=
  forallb (fun p : nat * nat =>
    let '(i, r) := p in
    match last_res c i, last_res c r with
    | Some (_, _, _, _, ri_i, li_i, mi_i, ini_i, _), Some (_, _, _, _, ri_r, li_r, mi_r, ini_r, _) =>
        (ri_i =? li_r) && (ri_r =? li_i) && (mi_i =? 2) && (mi_r =? 2) && negb (li_i =? 0) && negb (li_r =? 0)
        && ini_i && negb ini_r
        && keys_true c i r && keys_true c r i
        && forallb (fun k : nat * nat * bool => let '(a, b, ok) := k in
                             if ok then (Nat.eqb a i && Nat.eqb b r) || (Nat.eqb a r && Nat.eqb b i)
                                        || negb (Nat.eqb a i || Nat.eqb a r || Nat.eqb b i || Nat.eqb b r)
                             else true) (cc_keys c)
    | _, _ => false
    end) (cc_honest c).

Definition spriv_of (c : ccase) (j : nat) : N :=
  match nth_error (cc_ms c) j with Some s => c_spriv (ms_cfg s) | None => 0 end.

(* C05: whenever a machine completes, the reported certificate is one its verifier accepts for exactly the static
   key the peer presented in the Noise exchange, it is the verifier's own return value, and any machine whose
   receiving key opens this machine's traffic holds that static key's private half *)
Definition spec_c05 (c : ccase) : bool :=
  forallb (fun s : action * obs * tag =>
    let '(a, o, _) := s in
    match o_res o, nth_error (cc_ms c) (act_target a) with
    | Some (body, key, ks, ver, _, _, _, _, _), Some ms => ks && ver && accepted (ms_cfg ms) body (Pub key) && negb (key =? 0)
    | Some _, None => false
    | None, _ => true
    end) (cc_script c)
  && forallb (fun k : nat * nat * bool =>
       let '(i, j, ok) := k in
       if ok then match last_res c i with
                  | Some (_, key, _, _, _, _, _, _, _) => spriv_of c j =? key
                  | None => false
                  end
       else true) (cc_keys c).

(* C05 under its literal reading ("completes only if the peer proved it holds the static key"): a responder may
   complete only on a message 1 that an initiator machine of the script produced and that reached it unmodified.
   The implementation does not meet this (finding F27: message 1 of IX is unauthenticated); cases checked against
   this clause are emitted separately (C5Literal) so that the finding never hides another violation. *)
Definition is_initiator (c : ccase) (j : nat) : bool :=
  match nth_error (cc_ms c) j with Some s => ms_init s | None => false end.

Definition spec_c05_literal (c : ccase) : bool :=
  forallb (fun s : action * obs * tag =>
    let '(a, o, t) := s in
    match o_res o with
    | Some _ =>
        if is_initiator c (act_target a) then true
        else match t with
             | TVerbatim j => is_initiator c j
             | TGenuine j _ _ _ _ => is_initiator c j
             | _ => false
             end
    | None => true
    end) (cc_script c).

Inductive c05case :=
| C5Strict (c : ccase)      (* model comparison + what is proved: accepted certificate, key = static, keys bound *)
| C5Literal (c : ccase).    (* the literal reading only *)

Definition check_c07 (c : ccase) : list N := model_check c ++ flag 2 (spec_c07 c).
Definition check_c06 (c : ccase) : list N := model_check c ++ flag 2 (spec_c06 c).
Definition check_c05 (c : c05case) : list N :=
  match c with
  | C5Strict c => model_check c ++ flag 2 (spec_c05 c)
  | C5Literal c => flag 2 (spec_c05_literal c)
  end.

(* ==== manager-level cases (components noise_mgr06 / noise_mgr07): dumps of real HandshakeManager + HostMap ======== *)

(* one hostinfo of a main hostmap: peer overlay address number, local index, remote index, message counter, initiator *)
Record mtun := mkMTun { mt_peer : N; mt_local : N; mt_remote : N; mt_counter : N; mt_init : bool }.

(* C06 between two real nodes with scripted responder index candidates.
   deliveries: (kind, first candidate generateIndex drew, indexes in use at the responder, did it reply) with kind
   0 = message 1 (first transmission or retransmit) while the responder holds no tunnel of this handshake, 1 = duplicate
   of a message 1 the responder already completed on;
   tunI / tunR: the initiator's tunnels towards the responder / the responder's towards the initiator;
   opens: a data packet sealed on the tunnel with local index a, addressed to remote index b, reached the tunnel with
   local index c at the other node (0 = none) and opened there or not. *)
Inductive m06case :=
| M6 (deliveries : list (N * N * list N * bool)) (tunI tunR : list mtun)
     (opensIR opensRI : list (N * N * N * bool)).

Definition nmem (x : N) (l : list N) : bool := existsb (N.eqb x) l.

(* the documented rule: a drawn index that is already in use drops the attempt (no reply); the retransmit is a new try *)
Definition m06_model (c : m06case) : bool :=
  let '(M6 ds tunI _ _ _) := c in
  forallb (fun d : N * N * list N * bool =>
             let '(kind, cand, used, replied) := d in
             if kind =? 0 then Bool.eqb replied (negb (nmem cand used)) else replied) ds
  && Bool.eqb (existsb (fun d : N * N * list N * bool => let '(kind, cand, used, _) := d in (kind =? 0) && negb (nmem cand used)) ds)
              (negb (match tunI with [] => true | _ => false end)).

(* C06 as proved, on the dumps: two hostinfos that belong to the same handshake (the responder's remote index is the
   initiator's local index) agree on the other direction too, on the message count and on the roles; every tunnel of
   the initiator has such a partner; data sealed on a tunnel arrives at the partner tunnel and opens there *)
Definition m06_spec (c : m06case) : bool :=
  let '(M6 _ tunI tunR oIR oRI) := c in
  forallb (fun ti =>
    forallb (fun tr => if mt_remote tr =? mt_local ti
                       then (mt_remote ti =? mt_local tr) && (mt_counter ti =? mt_counter tr) && mt_init ti && negb (mt_init tr)
                            && negb (mt_local ti =? 0) && negb (mt_local tr =? 0)
                       else true) tunR
    && existsb (fun tr => mt_remote tr =? mt_local ti) tunR) tunI
  && forallb (fun o : N * N * N * bool =>
       let '(a, b, c', ok) := o in
       ok && (c' =? b) && existsb (fun tr => (mt_local tr =? c') && (mt_remote tr =? a)) tunR) oIR
  && forallb (fun o : N * N * N * bool =>
       let '(a, b, c', ok) := o in
       (* only tunnels of the responder that have a partner are expected to carry traffic *)
       if existsb (fun ti => (mt_local ti =? b) && (mt_remote ti =? a)) tunI
       then ok && (c' =? b)
       else true) oRI.

Definition check_m06 (c : m06case) : list N := flag 1 (m06_model c) ++ flag 2 (m06_spec c).

(* everything observable about a pending handshake *)
Record pdump := mkPD {
  pd_present : bool; pd_local : N; pd_remote : N; pd_relays : list N; pd_remotes : list N; pd_counter : N; pd_stored : N
}.

Definition pdump_eqb (a b : pdump) : bool :=
  Bool.eqb (pd_present a) (pd_present b) && (pd_local a =? pd_local b) && (pd_remote a =? pd_remote b)
  && nlist_eqb (pd_relays a) (pd_relays b) && nlist_eqb (pd_remotes a) (pd_remotes b)
  && (pd_counter a =? pd_counter b) && (pd_stored a =? pd_stored b).

(* C07 through a real HandshakeManager.
   M7Init: a pending initiator handshake; steps = (class of the rejected packet, dump before, dump after) for packets
   that came from a foreign underlay address / a foreign relay; then the genuine reply from the genuine address / relay.
   M7Resp: a responder node; steps = (class, (main indexes, pending indexes) before, after) for manipulated message 1s. *)
Inductive m07case :=
| M7Init (c : ccase) (steps : list (N * pdump * pdump)) (est : bool) (est_remote : N) (est_relays : list N)
         (exp_remote : N) (exp_relays : list N)
| M7Resp (c : ccase) (steps : list (N * (list N * list N) * (list N * list N))) (est : bool) (est_remote exp_remote : N).

Definition m07_spec (c : m07case) : bool :=
  match c with
  | M7Init _ steps est er erl xr xrl =>
      forallb (fun s : N * pdump * pdump =>
                 let '(cl, b, a) := s in
                 if cl =? 0 then pdump_eqb b a                     (* rejected, still usable: nothing at all changed *)
                 else if cl =? 1 then negb (pd_present a)          (* rejected, failed: the handshake is abandoned *)
                 else false) steps
      && (if existsb (fun s : N * pdump * pdump => let '(cl, _, _) := s in negb (cl =? 0)) steps
          then negb est
          else est && (er =? xr) && nlist_eqb erl xrl)
  | M7Resp _ steps est er xr =>
      forallb (fun s : N * (list N * list N) * (list N * list N) =>
                 let '(cl, b, a) := s in
                 (cl =? 2) || (nlist_eqb (fst b) (fst a) && nlist_eqb (snd b) (snd a))) steps
      && (if existsb (fun s : N * (list N * list N) * (list N * list N) => let '(cl, _, _) := s in cl =? 2) steps
          then true
          else est && (er =? xr))
  end.

Definition m07_script (c : m07case) : ccase := match c with M7Init s _ _ _ _ _ _ => s | M7Resp s _ _ _ _ => s end.

Definition check_m07 (c : m07case) : list N := check_c07 (m07_script c) ++ flag 2 (m07_spec c).

(* Correspondence of model/RemoteList.v with /repo/remote_list.go: cases are produced by harness `remotelist`.
   A case is a history of RemoteList operations on a fresh list; every RRebuild (= CopyAddrs) carries what the
   implementation returned (addresses, relay candidates). *)
From Coq Require Import List NArith Bool.
Import ListNotations.
From NV Require Import lib.Corr model.RemoteList.
Open Scope N_scope.

Definition obs := (list ap * list addr)%type.

(* vpn addresses of the list; the check callback rejects (vpn, address:port) pairs in [deny];
   the shouldAdd callback rejects an address when (v, address) is in [deny_dns] for one of the list's vpn addresses *)
Inductive case :=
| Case (vpn : list addr) (deny : list (addr * ap)) (deny_dns : list (addr * addr)) (ops : list (rop * option obs)).

Definition chk_of (deny : list (addr * ap)) (vpn : addr) (a : ap) : bool :=
  negb (existsb (fun d => addr_eqb (fst d) vpn && ap_eqb (snd d) a) deny).
Definition adm_of (deny_dns : list (addr * addr)) (vpns : list addr) (a : addr) : bool :=
  forallb (fun v => negb (existsb (fun d => addr_eqb (fst d) v && addr_eqb (snd d) a) deny_dns)) vpns.

Fixpoint sortedb {A} (lt : A -> A -> bool) (l : list A) : bool :=
  match l with
  | a :: ((b :: _) as r) => lt a b && sortedb lt r
  | _ => true
  end.
Fixpoint nodupb {A} (eqb : A -> A -> bool) (l : list A) : bool :=
  match l with
  | [] => true
  | a :: r => negb (existsb (eqb a) r) && nodupb eqb r
  end.
Definition subsetb {A} (eqb : A -> A -> bool) (l m : list A) : bool := forallb (fun x => existsb (eqb x) m) l.
Definition set_eqb {A} (eqb : A -> A -> bool) (l m : list A) : bool := subsetb eqb l m && subsetb eqb m l.

(* the property, evaluated on what the implementation returned:
   sorted by the documented order, duplicate free, and exactly (learned + reported + admitted resolved) - blocked *)
Definition spec_ok (pref : list prefix) (src : list ap) (rsrc : list addr) (o : obs) : bool :=
  let '(oa, orl) := o in
  sortedb (less pref) oa && nodupb ap_eqb oa && set_eqb ap_eqb oa src &&
  sortedb addr_ltb orl && nodupb addr_eqb orl && set_eqb addr_eqb orl rsrc.

Fixpoint run_ops (adm : list addr -> addr -> bool) (chk : addr -> ap -> bool) (s : rl) (ops : list (rop * option obs)) : list N :=
  match ops with
  | [] => []
  | (o, ob) :: r =>
      let s' := rstep adm chk s o in
      (match o, ob with
       | RRebuild pref, Some ob =>
           flag 1 (list_eqb ap_eqb (rl_addrs s') (fst ob) && list_eqb addr_eqb (rl_relays s') (snd ob)) ++
           flag 2 (spec_ok pref (sources adm s) (collect_relays (rl_cache s)) ob)
       | _, _ => []
       end) ++ run_ops adm chk s' r
  end.

Definition check_case (c : case) : list N :=
  match c with
  | Case vpn deny deny_dns ops => run_ops (adm_of deny_dns) (chk_of deny) (rl_new vpn) ops
  end.

(* Correspondence of model/AllowList.v with /repo/allow_list.go: cases are produced by harness `allowlist`.

   code 1 = the model's answer differs from the implementation's;
   code 2 = the property's executable specification (written here, independently of the model: "value of the
            most specific containing entry, else the family default; refused iff ...") rejects the
            implementation's answer, or the implementation's answers changed between rebuilds of the same map
            (Go visits the map in a different order each time). *)
From Coq Require Import List NArith Bool.
Import ListNotations.
From NV Require Import lib.Corr model.AllowList.
Open Scope N_scope.

Definition rentries := list (key * option bool).
(* interface-name pattern: kind 0 = literal, 1 = literal followed by ".*", 2 = does not compile *)
Definition pat := (N * list N)%type.

Inductive case :=
| CLocal (es : option rentries) (names : option (list (pat * option bool))) (refused stable : bool)
         (qs : list (addr * bool)) (qn : list (list N * bool))
| CRemote (g : option rentries) (rg : option (list (key * rentries))) (refused stable : bool)
          (qa : list (addr * addr * bool)) (qall : list (list addr * addr * bool)) (qu : list (addr * bool)).

(* ---- regexp oracle for the literal patterns the harness uses --------------------------------------- *)

Fixpoint is_prefix (p s : list N) : bool :=
  match p, s with
  | [], _ => true
  | a :: p', b :: s' => (a =? b) && is_prefix p' s'
  | _ :: _, [] => false
  end.

Definition pat_valid (p : pat) : bool := negb (fst p =? 2).
Definition pat_matches (p : pat) (nm : list N) : bool :=
  if fst p =? 0 then nlist_eqb (snd p) nm else if fst p =? 1 then is_prefix (snd p) nm else false.

(* ---- the model's answers ------------------------------------------------------------------------- *)

Definition opt_list (es : option rentries) : option (option table) :=
  match es with
  | None => Some None
  | Some res => match new_allow_list_raw res with None => None | Some t => Some (Some t) end
  end.

Definition model_names (names : option (list (pat * option bool))) : option (list (pat * bool)) :=
  match names with
  | None => Some []
  | Some rn => match all_vals rn with None => None | Some rs => new_name_rules pat_valid rs end
  end.

Fixpoint raw_ranges (rg : list (key * rentries)) : option (list (key * list (key * bool))) :=
  match rg with
  | [] => Some []
  | (k, res) :: r =>
      match all_vals res, raw_ranges r with
      | Some es, Some l => Some ((k, es) :: l)
      | _, _ => None
      end
  end.

Definition model_ranges (rg : option (list (key * rentries))) : option (option ranges) :=
  match rg with
  | None => Some None
  | Some l => match raw_ranges l with
              | None => None
              | Some rs => match new_remote_ranges rs with None => None | Some r => Some (Some r) end
              end
  end.

(* ---- the executable specification ---------------------------------------------------------------- *)

Definition is_noneb {A : Type} (o : option A) : bool := match o with None => true | Some _ => false end.

Definition key_bad (k : key) : bool :=
  negb (wf_prefix k) || (is_mapped (pfam k, paddr k) && (pbits k <? 96)).
(* an IPv4-mapped key of length n >= 96 is the IPv4 prefix of length n - 96 *)
Definition spec_norm (k : key) : prefix :=
  if is_mapped (pfam k, paddr k) then (V4, paddr k mod 2 ^ 32, pbits k - 96) else k.

Fixpoint spec_entries (res : rentries) : list (prefix * bool) :=
  match res with
  | [] => []
  | (k, Some v) :: r => (spec_norm k, v) :: spec_entries r
  | (_, None) :: r => spec_entries r
  end.

Definition fam_has (f : fam) (pr : prefix * bool -> bool) (l : list (prefix * bool)) : bool :=
  existsb (fun e => fam_eqb (pfam (fst e)) f && pr e) l.
Definition fam_mixed (f : fam) (l : list (prefix * bool)) : bool :=
  fam_has f (fun e => snd e) l && fam_has f (fun e => negb (snd e)) l && negb (fam_has f (fun e => pbits (fst e) =? 0) l).

Definition spec_refused (res : rentries) : bool :=
  existsb (fun e => is_noneb (snd e)) res || existsb (fun e => key_bad (fst e)) res ||
  fam_mixed V4 (spec_entries res) || fam_mixed V6 (spec_entries res).

Definition containing {V : Type} (l : list (prefix * V)) (x : addr) : list (prefix * V) :=
  filter (fun e => contains (fst e) x) l.
Definition maxbits {V : Type} (l : list (prefix * V)) : N :=
  fold_right (fun e m => N.max (pbits (fst e)) m) 0 l.
(* the most specific entries containing x (several only if one network is written more than once) *)
Definition best {V : Type} (l : list (prefix * V)) (x : addr) : list (prefix * V) :=
  let c := containing l x in filter (fun e => pbits (fst e) =? maxbits c) c.

Definition fam_values (f : fam) (l : list (prefix * bool)) : list bool :=
  map snd (filter (fun e => fam_eqb (pfam (fst e)) f) l).

(* is [ans] an answer the property permits for x? *)
Definition spec_answer (nes : list (prefix * bool)) (x : addr) (ans : bool) : bool :=
  let x' := unmap x in
  match best nes x' with
  | [] => match fam_values (fst x') nes with [] => ans | u :: _ => Bool.eqb ans (negb u) end
  | b => existsb (fun e => Bool.eqb (snd e) ans) b
  end.

(* the answer itself, for lists in which no network is written twice with different values *)
Definition spec_value (nes : list (prefix * bool)) (x : addr) : bool :=
  let x' := unmap x in
  match best nes x' with
  | [] => match fam_values (fst x') nes with [] => true | u :: _ => negb u end
  | e :: _ => snd e
  end.
Definition spec_value_opt (es : option rentries) (x : addr) : bool :=
  match es with None => true | Some res => spec_value (spec_entries res) x end.

Definition consistentb (nes : list (prefix * bool)) : bool :=
  forallb (fun e1 => forallb (fun e2 => negb (same_net (fst e1) (fst e2)) || Bool.eqb (snd e1) (snd e2)) nes) nes.

Definition spec_names_refused (rn : list (pat * option bool)) : bool :=
  existsb (fun e => is_noneb (snd e)) rn || existsb (fun e => negb (pat_valid (fst e))) rn ||
  (existsb (fun e => match snd e with Some true => true | _ => false end) rn &&
   existsb (fun e => match snd e with Some false => true | _ => false end) rn).

Definition spec_name (names : option (list (pat * option bool))) (nm : list N) (ans : bool) : bool :=
  match names with
  | None | Some [] => ans
  | Some rn =>
      match rn with
      | (_, Some u) :: _ => Bool.eqb ans (if existsb (fun e => pat_matches (fst e) nm) rn then u else negb u)
      | _ => false
      end
  end.

(* remote ranges: the inside list of a vpn address is that of the most specific range containing it *)
Definition spec_inside (rg : option (list (key * rentries))) (vpn : addr) : option rentries :=
  match rg with
  | None => None
  | Some l => match best (map (fun e => (spec_norm (fst e), snd e)) l) (unmap vpn) with
              | [] => None
              | e :: _ => Some (snd e)
              end
  end.
Definition spec_remote g rg (vpn udp : addr) : bool :=
  spec_value_opt (spec_inside rg vpn) udp && spec_value_opt g udp.
Definition spec_ranges_refused (l : list (key * rentries)) : bool :=
  existsb (fun e => key_bad (fst e) || spec_refused (snd e)) l.

Definition opt_refused {A : Type} (f : A -> bool) (o : option A) : bool :=
  match o with None => false | Some a => f a end.

(* ---- check ----------------------------------------------------------------------------------------- *)

Definition check_local es names refused stable (qs : list (addr * bool)) (qn : list (list N * bool)) : list N :=
  let mt := opt_list es in
  let mn := model_names names in
  let m_refused := is_noneb mt || is_noneb mn in
  let s_refused := opt_refused spec_refused es || opt_refused spec_names_refused names in
  flag 1 (Bool.eqb m_refused refused) ++ flag 2 (Bool.eqb s_refused refused) ++
  if refused then [] else
    let nes := match es with None => [] | Some res => spec_entries res end in
    let cons := consistentb nes in
    flag 2 (stable || negb cons) ++
    flat_map (fun q =>
      (match mt with
       | Some ot => if cons then flag 1 (Bool.eqb (allow_opt ot (fst q)) (snd q)) else []
       | None => [] end) ++
      flag 2 (match es with None => snd q | Some _ => spec_answer nes (fst q) (snd q) end)) qs ++
    flat_map (fun q =>
      (match mn with
       | Some rules => flag 1 (Bool.eqb (allow_name pat_matches rules (fst q)) (snd q))
       | None => [] end) ++
      flag 2 (spec_name names (fst q) (snd q))) qn.

Definition check_remote g rg refused stable (qa : list (addr * addr * bool))
    (qall : list (list addr * addr * bool)) (qu : list (addr * bool)) : list N :=
  let mg := opt_list g in
  let mr := model_ranges rg in
  let m_refused := is_noneb mg || is_noneb mr in
  let s_refused := opt_refused spec_refused g || opt_refused spec_ranges_refused rg in
  flag 1 (Bool.eqb m_refused refused) ++ flag 2 (Bool.eqb s_refused refused) ++
  if refused then [] else
    flag 2 stable ++
    (match mg, mr with
     | Some og, Some orr =>
         flat_map (fun q => flag 1 (Bool.eqb (remote_allow og orr (fst (fst q)) (snd (fst q))) (snd q))) qa ++
         flat_map (fun q => flag 1 (Bool.eqb (allow_all og orr (fst (fst q)) (snd (fst q))) (snd q))) qall ++
         flat_map (fun q => flag 1 (Bool.eqb (allow_unknown og (fst q)) (snd q))) qu
     | _, _ => []
     end) ++
    flat_map (fun q => flag 2 (Bool.eqb (spec_remote g rg (fst (fst q)) (snd (fst q))) (snd q))) qa ++
    flat_map (fun q => flag 2 (Bool.eqb
        (spec_value_opt g (snd (fst q)) && forallb (fun v => spec_value_opt (spec_inside rg v) (snd (fst q))) (fst (fst q)))
        (snd q))) qall ++
    flat_map (fun q => flag 2 (Bool.eqb (spec_value_opt g (fst q)) (snd q))) qu.

Definition check_case (c : case) : list N :=
  match c with
  | CLocal es names refused stable qs qn => check_local es names refused stable qs qn
  | CRemote g rg refused stable qa qall qu => check_remote g rg refused stable qa qall qu
  end.

(* Correspondence of model/Converge.v with two real nebula nodes: cases come from harness `convergenet`
   (schedules, code 1 / 2) and `converge` (the swap rule and the address order, code 1 / 2).
   Codes: 1 = the model's state after an event (pending entry, hostmap list with flags and counters, emitted
              packets, tun output) differs from what the real nodes showed;
          2 = the property's clauses, evaluated on the implementation's observations alone, fail:
              - a node swapped its primary although the peer's overlay address is smaller than its own, or both
                nodes have swapped;
              - an initiator-side tunnel (l, r) is held whose mirror (r, l) the peer never held;
              - a data packet, delivered for the first time while the receiver holds the other end of the tunnel
                it was sent on, did not come out of the tun (or something came out of a tun that is not that);
              - after the fair loss-free rounds the nodes do not hold exactly one tunnel each with swapped
                indexes and no pending handshake;
              - at a mark the harness sets after quiet, loss-free check intervals that followed a matched state
                (mark kind 1: some node holds no tunnel; kind 2: in addition the two primaries are not each other's
                ends), or a data packet emitted after a kind-2 mark is not delivered to the tun at its first
                delivery. *)
From Coq Require Import List NArith Bool.
Import ListNotations.
From NV Require Import lib.Corr model.Converge.
Open Scope N_scope.

(* pending: ready, index, attempts, cached packets;  tunnel: local, remote, flags (8 initiator, 4 in, 2 out,
   1 pendingDeletion), message counter *)
Definition nobs := (option (bool * N * N * N) * list (N * N * N * N))%type.
(* both nodes, emitted packets (code, header index, header counter), payload ids written to the acting node's tun *)
Definition obs := (nobs * nobs * list (N * N * N) * list N)%type.

Inductive case :=
| CSched (a b : addr) (retries : N) (settled : bool) (marks : list (N * N)) (steps : list (ev * obs))
      (* marks: (number of steps done, kind) *)
| CSwap (me peer : addr) (rekey nocert sigeq : bool) (r : bool)   (* the real shouldSwapPrimary *)
| CCmp (a b : addr) (r : N).                                      (* the real netip.Addr.Compare: 0 <, 1 =, 2 > *)

Definition b2n (b : bool) (w : N) : N := if b then w else 0.
Definition tun_obs (t : tun) : N * N * N * N :=
  (t_l t, t_r t, b2n (t_ini t) 8 + b2n (t_in t) 4 + b2n (t_out t) 2 + b2n (t_pd t) 1, t_ctr t).
Definition node_obs (ns : nst) : nobs :=
  (match n_pend ns with
   | Some p => Some (p_ready p, p_idx p, p_cnt p, N.of_nat (length (p_store p)))
   | None => None
   end, map tun_obs (n_tuns ns)).
Definition msg_obs (m : msg) : N * N * N :=
  match m with
  | MStage1 _ _ _ _ => (1, 0, 1)
  | MStage2 _ iidx _ _ _ _ => (2, iidx, 2)
  | MData _ hidx _ _ ctr (KData _) => (3, hidx, ctr)
  | MData _ hidx _ _ ctr KTestReq => (4, hidx, ctr)
  | MData _ hidx _ _ ctr KTestReply => (5, hidx, ctr)
  | MRecvErr _ idx => (6, idx, 0)
  end.

Definition n4_eqb (x y : N * N * N * N) : bool :=
  let '(a, b, c, d) := x in let '(a', b', c', d') := y in (a =? a') && (b =? b') && (c =? c') && (d =? d').
Definition n3_eqb (x y : N * N * N) : bool :=
  let '(a, b, c) := x in let '(a', b', c') := y in (a =? a') && (b =? b') && (c =? c').
Definition pend_eqb (x y : bool * N * N * N) : bool :=
  let '(a, b, c, d) := x in let '(a', b', c', d') := y in eqb a a' && (b =? b') && (c =? c') && (d =? d').
Definition nobs_eqb (x y : nobs) : bool :=
  option_eqb pend_eqb (fst x) (fst y) && list_eqb n4_eqb (snd x) (snd y).

(* ---- the clauses on the observations ------------------------------------------------------------------------ *)
Record track := mkTr {
  k_prev_a : nobs; k_prev_b : nobs;
  k_ever_a : list (N * N); k_ever_b : list (N * N);       (* (local, remote) ever held *)
  k_sw_a : bool; k_sw_b : bool;
  k_log : list (node * (N * N * N) * N);                  (* every emitted packet: sender, header, sender's local index *)
  k_deliv : list N;                                       (* positions delivered so far *)
  k_strict : option N                                     (* log length at a kind-2 mark: later data must arrive *)
}.
Definition pair_mem (p : N * N) (l : list (N * N)) : bool :=
  existsb (fun q => (fst q =? fst p) && (snd q =? snd p)) l.
Definition tuns_of (o : nobs) : list (N * N * N * N) := snd o.
Definition lr (t : N * N * N * N) : N * N := let '(l, r, _, _) := t in (l, r).
Definition is_ini (t : N * N * N * N) : bool := let '(_, _, f, _) := t in 8 <=? f.
Definition head_l (o : nobs) : option N := match tuns_of o with t :: _ => Some (fst (lr t)) | [] => None end.

Definition acting (tr : track) (e : ev) : node :=
  match e with
  | EStart n | EHsOut n _ | EData n _ | ECheck n _ _ => n
  | EDeliver k _ => match nth_error (k_log tr) (N.to_nat k) with Some (src, _, _) => other src | None => NA end
  end.

Definition spec_step (ca cb : addr) (tr : track) (e : ev) (o : obs) : track * bool :=
  let '(oa, ob, emit, tunout) := o in
  let act := acting tr e in
  let post n := match n with NA => oa | NB => ob end in
  let prev n := match n with NA => k_prev_a tr | NB => k_prev_b tr end in
  (* swap decisions: a check after which the checked tunnel heads the list although it did not before *)
  let swapped :=
    match e with
    | ECheck n lidx _ =>
        (match head_l (post n) with Some h => h =? lidx | None => false end) &&
        negb (match head_l (prev n) with Some h => h =? lidx | None => false end)
    | _ => false
    end in
  let sw_a := k_sw_a tr || (swapped && node_eqb act NA) in
  let sw_b := k_sw_b tr || (swapped && node_eqb act NB) in
  let me := match act with NA => ca | NB => cb end in
  let peer := match act with NA => cb | NB => ca end in
  let ok_swap := negb (swapped && match addr_cmp peer me with Lt => true | _ => false end) && negb (sw_a && sw_b) in
  (* mirrors *)
  let ever_a := map lr (tuns_of oa) ++ k_ever_a tr in
  let ever_b := map lr (tuns_of ob) ++ k_ever_b tr in
  let mirror_ok (mine : nobs) (ever_peer : list (N * N)) :=
    forallb (fun t => negb (is_ini t) || pair_mem (snd (lr t), fst (lr t)) ever_peer) (tuns_of mine) in
  let ok_mirror := mirror_ok oa ever_b && mirror_ok ob ever_a in
  (* traffic *)
  let ok_traffic :=
    match e with
    | EDeliver k _ =>
      match nth_error (k_log tr) (N.to_nat k) with
      | Some (src, (code, hidx, _), sl) =>
        let first := negb (existsb (N.eqb k) (k_deliv tr)) in
        let held := existsb (fun t => (fst (lr t) =? hidx) && (snd (lr t) =? sl)) (tuns_of (prev (other src))) in
        let strict := match k_strict tr with Some from => from <=? k | None => false end in
        if (code =? 3) && first && (held || strict) then (N.of_nat (length tunout) =? 1)
        else if code =? 3 then (N.of_nat (length tunout) <=? 1)
        else match tunout with [] => true | _ => false end
      | None => match tunout with [] => true | _ => false end
      end
    | _ => match tunout with [] => true | _ => false end
    end in
  (* bookkeeping: packets were sent on the tunnel whose remote index is the header index *)
  let sender_l (h : N * N * N) : N :=
    let '(code, hidx, _) := h in
    if (3 <=? code) && (code <=? 5) then
      match find (fun t => snd (lr t) =? hidx) (tuns_of (post act)) with Some t => fst (lr t) | None => 0 end
    else 0 in
  let log := k_log tr ++ map (fun h => (act, h, sender_l h)) emit in
  let deliv := match e with EDeliver k _ => k :: k_deliv tr | _ => k_deliv tr end in
  (mkTr oa ob ever_a ever_b sw_a sw_b log deliv (k_strict tr), ok_swap && ok_mirror && ok_traffic).

Definition final_ok (tr : track) : bool :=
  match k_prev_a tr, k_prev_b tr with
  | (None, [ta]), (None, [tb]) => (fst (lr ta) =? snd (lr tb)) && (snd (lr ta) =? fst (lr tb))
  | _, _ => false
  end.

Definition primaries_match (tr : track) : bool :=
  match tuns_of (k_prev_a tr), tuns_of (k_prev_b tr) with
  | ta :: _, tb :: _ => (fst (lr ta) =? snd (lr tb)) && (snd (lr ta) =? fst (lr tb))
  | _, _ => false
  end.
Definition both_hold (tr : track) : bool :=
  match tuns_of (k_prev_a tr), tuns_of (k_prev_b tr) with _ :: _, _ :: _ => true | _, _ => false end.

(* the marks due after [n] steps *)
Definition mark_step (marks : list (N * N)) (n : N) (tr : track) : track * bool :=
  fold_left (fun acc m =>
               let '(t, ok) := acc in
               if fst m =? n then
                 if snd m =? 2 then (mkTr (k_prev_a t) (k_prev_b t) (k_ever_a t) (k_ever_b t) (k_sw_a t) (k_sw_b t) (k_log t)
                                          (k_deliv t) (Some (N.of_nat (length (k_log t)))),
                                     ok && both_hold t && primaries_match t)
                 else (t, ok && both_hold t)
               else acc) marks (tr, true).

Fixpoint spec_run (ca cb : addr) (marks : list (N * N)) (n : N) (tr : track) (steps : list (ev * obs)) : track * bool :=
  match steps with
  | [] => (tr, true)
  | (e, o) :: r =>
    let '(tr1, ok) := spec_step ca cb tr e o in
    let '(tr2, okm) := mark_step marks (n + 1) tr1 in
    if ok && okm then spec_run ca cb marks (n + 1) tr2 r else (tr2, false)
  end.

(* ---- the model next to the observations ---------------------------------------------------------------------- *)
Fixpoint model_run (c : cfg) (s : st) (steps : list (ev * obs)) : bool :=
  match steps with
  | [] => true
  | (e, o) :: r =>
    let '(oa, ob, emit, tunout) := o in
    let '(s1, out) := step c s e in
    let new := skipn (length (s_net s)) (s_net s1) in
    nobs_eqb (node_obs (s_a s1)) oa && nobs_eqb (node_obs (s_b s1)) ob &&
    list_eqb n3_eqb (map msg_obs new) emit && nlist_eqb (map snd out) tunout &&
    model_run c s1 r
  end.

Definition cmp_code (c : comparison) : N := match c with Lt => 0 | Eq => 1 | Gt => 2 end.

Definition check_case (c : case) : list N :=
  match c with
  | CSched a b retries settled marks steps =>
    let empty : nobs := (None, []) in
    let '(tr, ok) := spec_run a b marks 0 (mkTr empty empty [] [] false false [] [] None) steps in
    flag 2 (ok && (negb settled || final_ok tr)) ++
    flag 1 (model_run (mkC a b retries) init steps)
  | CSwap me peer rk nc se r =>
    (* the clause: a swap decision requires peer >= me *)
    flag 2 (negb r || match addr_cmp peer me with Lt => false | _ => true end) ++
    flag 1 (eqb r (should_swap me peer (swap_elig rk nc se)))
  | CCmp a b r => flag 1 (r =? cmp_code (addr_cmp a b))
  end.

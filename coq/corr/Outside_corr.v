(* Correspondence of gen/Tab_Outside.v + model/Outside.v with /repo/outside.go: cases are produced by the harness
   components `outside` (fresh concretisations of table rows) and `outsidenet` (mutations, splices and replays of real
   traffic between real nodes). *)
From Coq Require Import List NArith Bool.
Import ListNotations.
From NV Require Import lib.Corr lib.Outside_lib gen.Tab_Outside model.Outside.
Open Scope N_scope.

Inductive case :=
| COne (r : row) (m : N)
  (* a real datagram with the features of r was handed to the real readOutsidePackets: it did m *)
| CShort (m : N)
  (* a datagram shorter than a header did m *)
| CBatch (pkts : list (N * row)) (marks : list (N * bool))
  (* one receive batch handed to the real Interface.listenOut (listener per datagram, flusher once). pkts: per datagram
     the tunnel its index names (0: none) and its features; marks: per tunnel of the receiver, whether the connection
     manager's inbound-traffic mark is set after the batch *)
| CNet (outer : row) (inner : option row) (roaming : bool) (m : N).
  (* a datagram derived from real traffic. outer: its features; inner: the features of the payload when the datagram
     is a relay packet on a terminal record; roaming: its source differs from the tunnel's current remote *)

Definition opt_eqb (a b : option N) : bool :=
  match a, b with Some x, Some y => x =? y | None, None => true | _, _ => false end.

(* the spec is evaluated on the packet that would be acted on: for an unwrapped payload, the payload *)
Definition net_spec (outer : row) (inner : option row) (m : N) : bool :=
  match inner with
  | Some i =>
      if authfresh outer && is_relay_pkt outer then
        (* the relay packet itself is authentic: what the payload did must be justified by the payload *)
        spec_ok (as_relayed i) (clear e_roam (clear e_live (clear e_win (clear e_fwd m)))) || spec_ok outer m
      else spec_ok outer m
  | None => spec_ok outer m
  end.

(* What the table predicts for traffic whose content the harness does not choose: the gating is compared exactly
   (a packet that is not authentic and fresh must do precisely what the table says: nothing, or a recv_error, or
   the recv_error teardown); for an authentic fresh packet the handler's effects depend on its content, so what it
   did must be among the table's effects and must include the liveness and window updates. *)
Definition net_model_ok (outer : row) (inner : option row) (roaming : bool) (m : N) : bool :=
  match read_nested outer inner with
  | None => false
  | Some t =>
      let t := if roaming then t else clear e_roam t in
      let inner_acts := match inner with Some i => authfresh i && has e_unwrap match read_fast outer with Some x => x | None => 0 end | None => false end in
      if authfresh outer && negb (is_hs outer) then
        subset m (N.lor t (mask_of [e_live])) && (has e_close t || Bool.eqb (has e_win m) (has e_win t))
        && (inner_acts || negb (is_relay_pkt outer) || Bool.eqb (has e_fwd m) (has e_fwd t))
      else if is_hs outer then subset m (mask_of [e_hs; e_live; e_close])
      else m =? t
  end.

(* a tunnel is marked alive by a batch iff the batch held a packet that authenticated under that tunnel's key *)
Definition batch_spec (pkts : list (N * row)) (marks : list (N * bool)) : bool :=
  forallb (fun tm => Bool.eqb (snd tm) (existsb (fun p => (fst p =? fst tm) && authfresh (snd p)) pkts)) marks.
(* the table: iff some packet of the batch naming the tunnel has the liveness effect *)
Definition batch_model (pkts : list (N * row)) (marks : list (N * bool)) : bool :=
  forallb (fun tm => Bool.eqb (snd tm)
     (existsb (fun p => (fst p =? fst tm) && match read_fast (snd p) with Some m => has e_live m | None => false end) pkts)) marks.

Definition check_case (c : case) : list N :=
  match c with
  | COne r m =>
      (* code 2: the documented rule (effect => authentic and fresh; only an authenticated close closes), NOT the table *)
      flag 2 (spec_ok r m) ++ flag 1 (opt_eqb (read_fast r) (Some m))
  | CShort m => flag 2 (m =? 0) ++ flag 1 (m =? tab_short)
  | CBatch pkts marks => flag 2 (batch_spec pkts marks) ++ flag 1 (batch_model pkts marks)
  | CNet outer inner roaming m =>
      flag 2 (net_spec outer inner m) ++ flag 1 (net_model_ok outer inner roaming m)
  end.

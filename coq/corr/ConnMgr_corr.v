(* Correspondence of model/ConnMgr.v with /repo/connection_manager.go: cases come from harness `connmgr`.
   Codes: 1 = the model (generated tables + hand-written state threading / primary order) differs from what the
          real code did;
          2 = the property's clauses, evaluated on the implementation's OWN state before the check and on what it
          did, reject it: a concrete failing check (the spec is model.ConnMgr.spec_ok / rehs_spec_ok, written from
          the statement, not the tables);
          3 = within the letter of the statement but not the exact teardown / re-handshake rule
          (removed iff one of the four reasons, notify iff closed and able to send, handshake iff the five
          conditions). *)
From Coq Require Import List NArith Bool.
Import ListNotations.
From NV Require Import lib.Corr lib.ConnMgr_lib gen.Tab_ConnMgr model.ConnMgr.
Open Scope N_scope.

(* what the implementation held for the tunnel just before a check *)
Record pre := mkPre { p_known : bool; p_primary : bool; p_in : bool; p_out : bool; p_pd : bool; p_last : option N }.
(* what the check did *)
Record ob := mkOb { b_removed : bool; b_notify : bool; b_probe : bool; b_pd : bool; b_timer : timer; b_primary : bool;
                    b_hs : hs; b_in : bool; b_out : bool }.

Inductive case :=
| CRow (r : row) (x : res)                       (* one abstract row on a fresh concrete situation *)
| CSwap (s : swrow) (b : bool)
| CRehs (h : rhrow) (y : hs)
| CHist (tunnels : list (N * N))                 (* tunnel id, peer id *)
        (order : list N)                         (* hostmap order, newest (primary) first *)
        (steps : list (N * event * pre * ob * N)).
        (* one check each: tunnel, environment (e_in / e_out = the traffic the harness really injected since the
           previous check), the implementation's fields before, what it did, and the TRUE idle time: now minus the
           instant the harness last injected traffic into this tunnel (its creation when never), kept by the
           harness itself and never read from HostInfo.lastUsed *)

Definition opt_res_eqb (o : option res) (x : res) : bool := match o with Some y => res_eqb y x | None => false end.
Definition optN_eqb (a b : option N) : bool := option_eqb N.eqb a b.
Definition started (y : hs) : bool := negb (hs_eqb y HNone).

Definition check_row (r : row) (x : res) : list N :=
  (* + a tunnel that received traffic and stays is not left marked for deletion *)
  flag 2 (spec_ok r (d_removed x) (d_notify x) && implb (r_in r && negb (d_removed x)) (negb (d_pd x))) ++
  flag 3 (eqb (d_removed x) (exact_removed r) && eqb (d_notify x) (exact_notify r)) ++
  flag 1 (opt_res_eqb (decide r) x).

Definition check_rehs (h : rhrow) (y : hs) : list N :=
  flag 2 (rehs_spec_ok h (started y)) ++
  flag 3 (eqb (started y) (rehs_cond h)) ++
  flag 1 (match rehs_decide h with Some y' => hs_eqb y y' | None => false end).

(* one check of a history; [w] is the model's world *)
Definition check_step (w : world) (s : N * event * pre * ob * N) : option world * list N :=
  let '(t, e, p, b, true_idle) := s in
  let now := w_clk w + e_dt e in
  (* the property on the implementation's own view *)
  let rI := mkRow (e_cert e) (e_dinv e) (is_exh (e_ctr e)) (p_primary p) (p_in p) (p_out p) (p_pd p) (e_dropi e)
                  (idle_ge (p_last p) now (e_timeout e)) false in
  let attempt := rehs_attempt rI && negb (b_removed b) in
  let ccI := cert_closes (e_cert e) (e_dinv e) in
  (* removed (or the peer told) for none of the other listed reasons: it is a close for inactivity *)
  let inactivity := (b_removed b && negb ccI && negb (is_exh (e_ctr e)) && negb (p_pd p && negb (p_in p))) ||
                    (b_notify b && negb ccI) in
  let spec :=
    if p_known p then
      flag 2 (spec_ok rI (b_removed b) (b_notify b) &&
              implb (p_in p && negb (b_removed b)) (negb (b_pd b)) &&
              (* against the true traffic history, not the implementation's lastUsed: closed for inactivity only
                 with drop_inactive on at this check and truly idle for the timeout in force at this check *)
              implb inactivity (e_dropi e && (e_timeout e <=? true_idle) && p_primary p) &&
              (* true inbound traffic since the previous check: not removed for lack of traffic *)
              implb (e_in e && negb ccI && negb (is_exh (e_ctr e))) (negb (b_removed b)) &&
              implb attempt (rehs_spec_ok (rh_of e) (started (b_hs b))) &&
              implb (b_probe b) (p_primary p && p_out p && negb (p_in p))) ++
      flag 3 (eqb (b_removed b) (exact_removed rI) && eqb (b_notify b) (exact_notify rI) &&
              eqb (started (b_hs b)) (attempt && rehs_cond (rh_of e)))
    else flag 2 (negb (b_removed b) && negb (b_notify b) && negb (b_probe b) && negb (started (b_hs b)))
  in
  match wstep w t e with
  | None => (None, 1 :: spec)
  | Some (w', pri, st, r, x, y) =>
    let st' := match st_of w' t with Some s' => s' | None => st end in
    (Some w',
     spec ++
     flag 1 (eqb (p_known p) (t_alive st) && eqb (p_primary p) pri && eqb (p_in p) (r_in r) && eqb (p_out p) (r_out r) &&
             eqb (p_pd p) (t_pd st) && optN_eqb (p_last p) (t_last st)) ++
     flag 1 (eqb (b_removed b) (d_removed x) && eqb (b_notify b) (d_notify x) && eqb (b_probe b) (d_probe x) &&
             eqb (b_pd b) (t_pd st') && timer_eqb (b_timer b) (d_timer x) && eqb (b_primary b) (primary_of w' t) &&
             hs_eqb (b_hs b) y && eqb (b_in b) (t_in st') && eqb (b_out b) (t_out st')))
  end.

Fixpoint check_steps (w : option world) (l : list (N * event * pre * ob * N)) : list N :=
  match l with
  | [] => []
  | s :: r =>
    match w with
    | None => [1]
    | Some w0 => let '(w', codes) := check_step w0 s in
                 match codes with [] => check_steps w' r | _ => codes end   (* stop at the first failing check *)
    end
  end.

Definition check_case (c : case) : list N :=
  match c with
  | CRow r x => check_row r x
  | CSwap s b => flag 1 (match swap_decide s with Some b' => eqb b b' | None => false end)
  | CRehs h y => check_rehs h y
  | CHist tunnels order steps =>
      check_steps (Some (mkW 0 tunnels order (map (fun tp => (fst tp, t_init)) tunnels))) steps
  end.

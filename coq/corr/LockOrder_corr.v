(* Correspondence for C34: the cases come from harness `lockorder`, which re-runs the lock-order translator on /repo,
   searches its graph for cycles and reports each one (after removing one edge of every cycle found so far).
   Codes: 2 = the listed lock classes form a cycle in the generated graph gen/LockGraph.v: classes that are acquired
              in conflicting orders somewhere in the code - a possible deadlock, with the places in the case description;
              or: the graph is still cyclic after one edge of every reported cycle has been removed (the search missed
              one);
          1 = the graph the component computed differs from gen/LockGraph.v (the two runs of the translator disagree). *)
From Coq Require Import List NArith Bool.
Import ListNotations.
From NV Require Import lib.Corr gen.LockGraph model.LockOrder.
Open Scope N_scope.

Inductive case :=
| CCycle (nodes : list N)                       (* a cycle: consecutive classes are edges, and last -> first *)
| CRest (cycles : list (list N)) (nedges : N).  (* every cycle reported, number of edges the component saw *)

Fixpoint consecutive (g : graph) (first : N) (l : list N) : bool :=
  match l with
  | [] => false
  | [x] => has_edge (x, first) g
  | x :: ((y :: _) as r) => has_edge (x, y) g && consecutive g first r
  end.
Definition cycle_in (g : graph) (nodes : list N) : bool :=
  match nodes with [] => false | x :: _ => consecutive g x nodes end.

Definition first_edge (nodes : list N) : list (N * N) :=
  match nodes with
  | x :: y :: _ => [(x, y)]
  | [x] => [(x, x)]
  | [] => []
  end.

Definition check_case (c : case) : list N :=
  match c with
  | CCycle nodes => flag 2 (negb (cycle_in lock_edges nodes))
  | CRest cycles n =>
      flag 2 (acyclicb (minus lock_edges (flat_map first_edge cycles))) ++
      flag 1 (n =? N.of_nat (length lock_edges))
  end.

(* Correspondence of model/RemotesAdmit.v with /repo (lighthouse.go, allow_list.go, outside.go, punchy.go,
   remote_list.go): cases are produced by harness `remotes_admit`.  A case is a configuration and a history of
   operations on a real LightHouse; every operation carries what the implementation showed. *)
From Coq Require Import List NArith Bool.
Import ListNotations.
From NV Require Import lib.Corr model.RemoteList model.RemotesAdmit corr.RemoteList_corr.
Open Scope N_scope.

Inductive case := Case (c : config) (ops : list (lop * lout)).

Definition count_eqb (x y : addr * (N * N * N)) : bool :=
  let '(a, (p, q, r)) := x in let '(b, (p', q', r')) := y in addr_eqb a b && (p =? p') && (q =? q') && (r =? r').

(* punches are written by timer goroutines: compare as multisets *)
Definition msort (l : list ap) : list ap := sort_by (less []) l.

Definition lout_eqb (m o : lout) : bool :=
  match m, o with
  | ONone, ONone => true
  | OPunch a, OPunch b => list_eqb ap_eqb (msort a) (msort b)
  | OBool a, OBool b => Bool.eqb a b
  | OList p a r n, OList p' a' r' n' =>
      Bool.eqb p p' && list_eqb ap_eqb a a' && list_eqb addr_eqb r r' && list_eqb count_eqb n n'
  | _, _ => false
  end.

(* ---- the property, evaluated on the implementation's observations ---- *)
(* usable for the peer known under [peers]: outside the node's own networks, allowed globally, and allowed by the
   inside allow list of one of the peer's overlay addresses *)
Definition usable (c : config) (peers : list addr) (x : ap) : bool :=
  let a := unmap_addr (ap_addr x) in   (* the host the address designates *)
  negb (in_my c a) && global_allow c a && existsb (fun v => inside_allow c v a) peers.

(* where the code asks every overlay address of the peer (AllowAll: roaming and handshake sources, static / resolver
   results): none of them may deny the address *)
Definition usable_all (c : config) (vpns : list addr) (x : ap) : bool :=
  let a := unmap_addr (ap_addr x) in
  negb (in_my c a) && global_allow c a && forallb (fun v => inside_allow c v a) vpns.

Definition configured (c : config) (vpn : addr) : list ap :=
  flat_map (fun e => if addr_eqb (fst e) vpn then filter (fun a => should_add c [vpn] (ap_addr a)) (static_addrs (snd e)) else []) (cfg_static c).

Definition spec_ok (c : config) (s : lh) (o : lop) (ob : lout) : bool :=
  match o, ob with
  | LPunch from old vpn _ _, OPunch dst =>
      match details old vpn with
      | Some d => forallb (usable c [d]) dst
      | None => match dst with [] => true | _ => false end
      end
  | LPunchAll vpns _, OPunch dst =>
      match first_known (lh_map s) vpns with
      | Some id => match lget (lh_lists s) id with
                   | Some (peers, r) => forallb (fun a => usable c (peers ++ vpns) a && negb (is_bad (rl_bad r) a)) dst
                   | None => false
                   end
      | None => match dst with [] => true | _ => false end   (* a list created just now is empty *)
      end
  | LCopy vpn _, OList present addrs relays counts =>
      match mget (lh_map s) vpn with
      | Some id =>
          match lget (lh_lists s) id with
          | Some (peers, r) =>
              present &&
              forallb (fun a => usable c peers a && negb (is_bad (rl_bad r) a)) addrs &&
              (* an address that only the resolver results (static_host_map) supply must be allowed for EVERY overlay
                 address the list is currently filtered for *)
              forallb (fun a => if existsb (ap_eqb a) (rl_dns r) && negb (existsb (ap_eqb a) (cache_addrs (rl_cache r)))
                                then usable_all c (rl_vpn r) a else true) addrs &&
              forallb (fun n => let '(_, (p, q, k)) := n in (p <=? 10) && (q <=? 10) && (k <=? 10)) counts &&
              (* a static host keeps its configured (admitted, not blocked) addresses *)
              forallb (fun a => is_bad (rl_bad r) a || existsb (ap_eqb a) addrs)
                      (configured c vpn)
          | None => false
          end
      | None => negb present && negb (is_static c vpn)
      end
  | LLearn vpns src, OBool took => if took then usable_all c vpns src else true
  | LHsCheck vpns src, OBool ok => if ok then usable_all c vpns src else true
  | _, _ => true
  end.

Fixpoint run_ops (c : config) (s : lh) (ops : list (lop * lout)) : list N :=
  match ops with
  | [] => []
  | (o, ob) :: r =>
      let '(s', mo) := lstep c s o in
      flag 1 (lout_eqb mo ob) ++ flag 2 (spec_ok c s o ob) ++ run_ops c s' r
  end.

Definition check_case (k : case) : list N :=
  match k with Case c ops => run_ops c (lh_init c) ops end.

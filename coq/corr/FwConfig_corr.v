(* Correspondence of model/FwConfig.v with /repo/firewall.go (parsePort, convertRule, AddFirewallRulesFromConfig):
   cases are produced by harness component `fwconfig`. *)
From Coq Require Import List NArith ZArith Bool String.
Import ListNotations.
From NV Require Import lib.Corr lib.Ip gen.Consts_Firewall model.Firewall model.FwConfig corr.Firewall_corr.
Open Scope N_scope.

Inductive case :=
(* parsePort(s): None = error *)
| CPort (s : str) (obs : option (Z * Z))
(* one firewall.inbound / firewall.outbound value (None = key absent) as the config loader produced it; the results of
   netip.ParsePrefix for the strings in it that parse; what the recorder saw (class 0 loaded / 1 error / 2 panic, and
   the AddRule calls); what a real Firewall with configuration cf did with the same text, and Drop probes on it *)
| CConf (inbound : bool) (tbl : option yaml) (ppt : list (str * prefix)) (rec_class : N) (rec_rules : list rule)
        (cf : fwconf) (fw_class : N) (pl : pool) (probes : list probe)
(* a whole firewall built by the real NewFirewallFromConfig: firewall.default_local_cidr_any (None = key absent), the
   inbound and outbound tables, the node's own certificate networks / unsafe networks; class 0 built / 1 error / 2 panic *)
| CFull (dflag : option bool) (in_tbl out_tbl : option yaml) (ppt : list (str * prefix)) (nets unsafe : list prefix)
        (fw_class : N) (probes : list probe).

Definition zz_eqb (a b : Z * Z) : bool := (fst a =? fst b)%Z && (snd a =? snd b)%Z.

Definition csel_eqb (a b : csel) : bool :=
  match a, b with
  | CNone, CNone | CAny, CAny | CBad, CBad => true
  | CPfx p, CPfx q => pfx_eqb p q
  | _, _ => false
  end.
Definition rule_eqb (a b : rule) : bool :=
  (r_proto a =? r_proto b) && (r_start a =? r_start b)%Z && (r_end a =? r_end b)%Z
  && list_eqb str_eqb (r_groups a) (r_groups b) && str_eqb (r_host a) (r_host b)
  && csel_eqb (r_cidr a) (r_cidr b) && csel_eqb (r_local a) (r_local b)
  && str_eqb (r_ca_name a) (r_ca_name b) && str_eqb (r_ca_sha a) (r_ca_sha b).

(* the documented guard, evaluated on the AddRule calls the implementation made: at least one non-empty selector among
   host / group(s) / cidr / local_cidr / ca_name / ca_sha *)
Definition has_selector (r : rule) : bool :=
  nonempty (r_host r) || nonempty (r_groups r)
  || negb (csel_eqb (r_cidr r) CNone) || negb (csel_eqb (r_local r) CNone)
  || nonempty (r_ca_name r) || nonempty (r_ca_sha r).

Definition is_ok {A} (r : res A) : bool := match r with ROk _ => true | _ => false end.

Definition check_case (c : case) : list N :=
  match c with
  | CPort s obs =>
      flag 1 (option_eqb zz_eqb (parse_port s) obs) ++ flag 2 (option_eqb zz_eqb (spec_port s) obs)
  | CConf inbound tbl ppt rec_class rec_rules cf fw_class pl probes =>
      let pp := fun s => aget str_eqb s ppt in
      let m := rules_from_config pp tbl in
      (* a panic is never an acceptable way of refusing a configuration *)
      flag 2 (negb (rec_class =? 2)) ++ flag 2 (negb (fw_class =? 2))
      (* loaded => every rule handed to AddRule has a selector (a rule without one would admit every host) *)
      ++ (if rec_class =? 0 then flag 2 (forallb has_selector rec_rules) else [])
      (* loaded or refused, as the text says ("loads only if ..." is the property, so a difference is also a failing input) *)
      ++ flag 1 (Bool.eqb (is_ok m) (rec_class =? 0)) ++ flag 2 (Bool.eqb (is_ok m) (rec_class =? 0))
      (* the rules that were loaded are the ones the text denotes: a functional characterisation, so a difference is a
         failing input *)
      ++ match m with
         | ROk rs => if rec_class =? 0 then flag 2 (list_eqb rule_eqb rs rec_rules) else []
         | _ => []
         end
      (* the real firewall: loads iff the text is accepted and AddRule accepts every rule *)
      ++ (let load_ok := match m with
                         | ROk rs => if existsb wide rs then forallb rule_valid rs   (* = is_ok load_config: C22_exact, C22_loads_when_valid *)
                                     else is_ok (load_config pp cf tbl empty_table)
                         | _ => is_ok (load_config pp cf tbl empty_table)
                         end in
          flag 1 (Bool.eqb load_ok (fw_class =? 0)) ++ flag 2 (Bool.eqb load_ok (fw_class =? 0)))
      (* and then admits exactly the packets the text describes *)
      ++ match m with
         | ROk rs =>
             if fw_class =? 0 then
               let rules := map (fun r => (inbound, r, true)) rs in
               let inr := dir_rules rules true in
               let outr := dir_rules rules false in
               if existsb wide rs then
                 (if forallb rule_valid rs then run_probes true cf rules (rules_matcher cf inr outr) pl [] probes else [1])
               else match new_firewall cf inr outr with
                    | None => [1]
                    | Some fw => run_probes true cf rules (table_matcher fw) pl [] probes
                    end
             else []
         | _ => []
         end
  | CFull dflag in_tbl out_tbl ppt nets unsafe fw_class probes =>
      let pp := fun s => aget str_eqb s ppt in
      (* the documented configuration: the flag, default false, applies to every rule of BOTH tables *)
      let cf := mkConf nets unsafe (match dflag with Some b => b | None => false end) in
      flag 2 (negb (fw_class =? 2))
      ++ match rules_from_config pp out_tbl, rules_from_config pp in_tbl with
         | ROk ro, ROk ri =>
             let ok := forallb rule_valid ri && forallb rule_valid ro in
             flag 1 (Bool.eqb ok (fw_class =? 0)) ++ flag 2 (Bool.eqb ok (fw_class =? 0))
             ++ (if ok && (fw_class =? 0) then
                   let rules := map (fun r => (true, r, true)) ri ++ map (fun r => (false, r, true)) ro in
                   (* code 1 inside run_probes: the model's tables (or, for wide ranges, the equivalent rule-list matcher);
                      code 2: rule_matches evaluated on (config, certificate, packet) against the implementation's verdict *)
                   if existsb wide (ri ++ ro) then run_probes true cf rules (rules_matcher cf ri ro) [] [] probes
                   else match new_firewall cf ri ro with
                        | None => [1]
                        | Some fw => run_probes true cf rules (table_matcher fw) [] [] probes
                        end
                 else [])
         | _, _ => flag 1 (negb (fw_class =? 0)) ++ flag 2 (negb (fw_class =? 0))
         end
  end.

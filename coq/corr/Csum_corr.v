(* Correspondence of model/Csum.v with /repo/overlay/checksum: cases are produced by harness `csum`.

   A case names a buffer (a literal, a slice of one of the random pools the shard file defines, or a slice of a
   patterned backing array that is regenerated here from the pattern rule), the 16-bit seed, and what the
   implementation returned: checksum.Checksum (public dispatcher), gvisor's Checksum (the dispatcher's fallback),
   and - when the CPU has it - the accelerated routine called directly.

   code 2: an observed value differs from the textbook RFC 1071 sum [Csum.textbook], computed with 16-bit
           one's-complement adds word by word (independent of fold16/sum16 and of the routine models);
   code 1: an observed value differs from the model of the routine that produced it. *)
From Coq Require Import List NArith Bool.
Import ListNotations.
From NV Require Import lib.Bytes lib.Corr lib.Ones model.Csum.
Open Scope N_scope.

(* ---- buffers ------------------------------------------------------------------------------------ *)

(* byte at absolute index i of a patterned backing array *)
Definition pat_byte (pat i : N) : N :=
  match pat with
  | 0 => 255                                  (* all 0xff *)
  | 1 => 0                                    (* all zero *)
  | 2 => if N.even i then 255 else 0          (* ff 00 ff 00 ... *)
  | 3 => 255 - i mod 256                      (* ff fe fd ... *)
  | 4 => if N.even i then 0 else 255          (* 00 ff 00 ff ... *)
  | 5 => i mod 256                            (* 00 01 02 ... *)
  | 6 => if i mod 4 <? 2 then 255 else 0      (* ff ff 00 00 ... *)
  | _ => if i mod 64 =? 63 then 254 else 255  (* ff .. ff fe : one hole per vector block *)
  end.

Fixpoint pat_buf (pat i : N) (len : nat) : list N :=
  match len with
  | O => []
  | S n => pat_byte pat i :: pat_buf pat (N.succ i) n
  end.

Inductive src :=
| SLit (buf : list N)
| SPat (pat off len : N)
| SPool (k off len : N).

Definition buf_of (pools : list (list N)) (s : src) : list N :=
  match s with
  | SLit b => b
  | SPat pat off len => pat_buf pat off (N.to_nat len)
  | SPool k off len => firstn (N.to_nat len) (skipn (N.to_nat off) (nth (N.to_nat k) pools []))
  end.

Definition src_len (s : src) : N :=
  match s with
  | SLit b => N.of_nat (length b)
  | SPat _ _ len => len
  | SPool _ _ len => len
  end.

(* s: buffer; init: seed; addr8: address of buf[0] modulo 8; obs: checksum.Checksum; obsg: gvisor Checksum;
   obsa: the accelerated routine called directly (None when the CPU lacks it); chk_gv: also run the gvisor model *)
Inductive case :=
| Case (s : src) (init addr8 obs obsg : N) (obsa : option N) (chk_gv : bool).

Definition check_case (pools : list (list N)) (c : case) : list N :=
  match c with
  | Case s init addr8 obs obsg obsa chk_gv =>
      let buf := buf_of pools s in
      let ref := textbook buf init in
      let m := asm_csum buf init in
      flag 3 (N.of_nat (length buf) =? src_len s) ++        (* the case itself is well formed *)
      flag 2 (obs =? ref) ++ flag 2 (obsg =? ref) ++
      match obsa with Some a => flag 2 (a =? ref) ++ flag 1 (a =? m) | None => [] end ++
      flag 1 (obs =? m) ++
      (if chk_gv then flag 1 (obsg =? gvisor_csum addr8 buf init) else [])
  end.

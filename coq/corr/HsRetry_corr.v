(* Correspondence of model/HsRetry.v with /repo/handshake_manager.go (+ timeout.go, inside.go sendMessageNow).
   Cases come from the harness component `hsretry`: one case is a history of operations on a real
   HandshakeManager driven with explicit NextOutboundHandshakeTimerTick(now) calls, a recording socket, a real
   outbound Firewall and real Noise completions; every step carries the operation, the packets that reached the
   socket (stage-0 transmissions by hostinfo and underlay address, released queue packets by tag) and the dump of
   the pending handshakes (hostinfo, counter, ready, queue) and of the owners of the pending index map.

   code 1: the model's outputs or state differ from the implementation's.
   code 2: the executable specification of C32 rejects the implementation's behaviour. *)
From Coq Require Import List ZArith NArith Bool.
Import ListNotations.
From NV Require Import lib.Corr gen.Consts_HsMgr model.Wheel model.HsRetry.
Open Scope Z_scope.

Record robs := mkRObs {
  q_op : rop;
  q_outs : list rout;          (* observed *)
  q_pend : amap pent;          (* observed after the operation (lastRemotes / remote list fields unused) *)
  q_idx : list N               (* owners of HandshakeManager.indexes, sorted *)
}.

Inductive case :=
| CRetry (cfg : rcfg) (steps : list robs).

Definition mem (x : N) (l : list N) : bool := existsb (N.eqb x) l.

Definition same_set (a b : list N) : bool :=
  Nat.eqb (length a) (length b) && forallb (fun x => mem x b) a && forallb (fun x => mem x a) b.

Definition routs_eqb := list_eqb rout_eqb.

(* ---- executable specification ---------------------------------------------------------------------- *)

Definition is_send_of (h : N) (o : rout) : bool := match o with RSend k _ => N.eqb k h | _ => false end.
Definition is_data (o : rout) : bool := match o with RData _ => true | _ => false end.
Definition data_tags (l : list rout) : list N :=
  flat_map (fun o => match o with RData t => [t] | _ => [] end) l.

Definition store_eqb := leqb pkt_eqb.

Definition spec32_step (cfg : rcfg) (o : rop) (outs : list rout) (p d : amap pent) (pi di : list N) : bool :=
  (* the queue never exceeds maxCachedPackets; the counter never exceeds retries *)
  forallb (fun e => (N.of_nat (length (p_store (snd e))) <=? maxCachedPackets)%N &&
                    (p_counter (snd e) <=? r_retries cfg)) d &&
  (* an index is registered exactly for the pending handshakes that built their stage 0 *)
  same_set di (map (fun e => p_id (snd e)) (filter (fun e => p_ready (snd e)) d)) &&
  (* a pending handshake disappears only by completion, restart, or in a timer tick (after all its attempts:
     [timing_step]) *)
  forallb (fun e =>
     match mget (fst e) d with
     | Some e' => if N.eqb (p_id e') (p_id (snd e)) then
                    (* the queue only grows at the end, by a cache operation *)
                    match o with
                    | RCache _ _ | RRespQ _ _ => true
                    | _ => store_eqb (p_store e') (p_store (snd e))
                    end
                  else match o with RWrong a _ | RWrongQ a _ _ => N.eqb a (fst e) | _ => false end
     | None =>
         match o with
         | RComplete a | RCompleteQ a _ => N.eqb a (fst e)
         | RTick _ => true     (* checked in [timing_step] for handshakes with a single timer entry *)
         | RTrigger a => N.eqb a (fst e) && (r_retries cfg <=? p_counter (snd e)) &&
                         negb (existsb (is_send_of (p_id (snd e))) outs)
         | _ => false
         end
     end) p &&
  (* the queue a packet accepted by cachePacket leaves behind *)
  let queued (e : pent) (k : pkt) : list pkt :=
    if (N.of_nat (length (p_store e)) <? maxCachedPackets)%N then p_store e ++ [k] else p_store e in
  match o with
  | RCache a k | RRespQ a k =>
      match mget a p, mget a d with
      | Some e, Some e' =>
          if (N.of_nat (length (p_store e)) <? maxCachedPackets)%N
          then store_eqb (p_store e') (p_store e ++ [k])
          else store_eqb (p_store e') (p_store e)            (* later packets are dropped *)
      | None, Some e' => store_eqb (p_store e') [k]
      | _, None => false
      end
  | RComplete a =>
      match mget a p with
      | Some e =>
          if p_ready e then
            (* each queued packet exactly once, in order, and only if the outbound firewall allows it *)
            list_eqb N.eqb (data_tags outs) (map k_tag (filter (fw_allows cfg) (p_store e))) &&
            match mget a d with None => true | Some _ => false end && negb (mem (p_id e) di)
          else true
      | None => true
      end
  | RWrong a v =>
      match mget a p with
      | Some e =>
          if p_ready e then
            match mget a d with
            | Some e' => negb (N.eqb (p_id e') (p_id e)) && store_eqb (p_store e') (p_store e) &&
                         (p_counter e' =? 0) && negb (mem (p_id e) di)
            | None => false
            end && negb (existsb is_data outs)
          else true
      | None => true
      end
  | RCompleteQ a k =>
      (* a packet queued between the receipt of the stage 2 and Complete: every packet cachePacket stored is sent
         exactly once, in order, if the firewall allows it *)
      match mget a p with
      | Some e =>
          if p_ready e then
            list_eqb N.eqb (data_tags outs) (map k_tag (filter (fw_allows cfg) (queued e k))) &&
            match mget a d with None => true | Some _ => false end && negb (mem (p_id e) di)
          else true
      | None => true
      end
  | RWrongQ a v k =>
      match mget a p with
      | Some e =>
          if p_ready e then
            match mget a d with
            | Some e' => negb (N.eqb (p_id e') (p_id e)) && store_eqb (p_store e') (queued e k) &&
                         (p_counter e' =? 0) && negb (mem (p_id e) di)
            | None => false
            end && negb (existsb is_data outs)
          else true
      | None => true
      end
  | _ => negb (existsb is_data outs)       (* queued packets leave only on completion *)
  end.

(* caller-level timing of a handshake whose address has a single wheel entry and was never lighthouse triggered:
   (address, (instant of the tick at or before which it was last armed, ticks it was armed with)).
   Armed with m ticks when the last tick instant was n: the next timer-driven call for the address comes in a tick
   with instant f > n + m * interval, and no tick strictly before f has an instant >= n + (m + 1) * interval. *)
Record tstate := mkT { t_last : option Z; t_seen : list N; t_clean : amap (Z * Z) }.

Definition counter_of (m : amap pent) (a : N) : option Z :=
  match mget a m with Some e => Some (p_counter e) | None => None end.

Definition timing_step (cfg : rcfg) (o : rop) (outs : list rout) (p d : amap pent) (t : tstate) : tstate * bool :=
  let I := r_interval cfg in
  match o with
  | RStart a _ | RCache a _ | RRespQ a _ =>
      match mget a p, mget a d, t_last t with
      | None, Some _, Some n =>
          if mem a (t_seen t) then (mkT (t_last t) (t_seen t) (mdel a (t_clean t)), true)
          else (mkT (t_last t) (a :: t_seen t) (mset a (n, 1) (t_clean t)), true)
      | None, Some _, None => (mkT (t_last t) (a :: t_seen t) (t_clean t), true)
      | _, _, _ => (t, true)
      end
  | RTrigger a => (mkT (t_last t) (t_seen t) (mdel a (t_clean t)), true)
  | RWrong a _ | RWrongQ a _ _ => (mkT (t_last t) (t_seen t) (mdel a (t_clean t)), true)
  | RComplete a | RCompleteQ a _ => (mkT (t_last t) (t_seen t) (mdel a (t_clean t)), true)
  | RSetRemotes _ _ => (t, true)
  | RTick now =>
      (* which clean addresses had a timer-driven call in this tick: their counter moved, or they timed out *)
      let res := map (fun e =>
         let a := fst e in let n := fst (snd e) in let m := snd (snd e) in
         let fired := match counter_of p a, counter_of d a with
                      | Some c, Some c' => negb (c =? c')
                      | Some _, None => true
                      | _, _ => false
                      end in
         if fired then
           (* not early; one more attempt and re-armed with the new counter, or - after exactly [retries] attempts -
              given up without sending anything *)
           ((n + m * I <? now) &&
            match mget a p, counter_of d a with
            | Some e, Some c' => (c' =? p_counter e + 1) && (p_counter e <? r_retries cfg)
            | Some e, None => (r_retries cfg <=? p_counter e) && negb (existsb (is_send_of (p_id e)) outs)
            | None, _ => true
            end,
            match counter_of d a with Some c' => Some (a, (now, c')) | None => None end)
         else
           (* not late: it must not be overdue *)
           ((now <? n + (m + 1) * I), Some (a, snd e))) (t_clean t) in
      (mkT (Some now) (t_seen t) (flat_map (fun r => match snd r with Some x => [x] | None => [] end) res),
       forallb fst res)
  end.

(* ---- walking a history ------------------------------------------------------------------------------ *)

Record wstate := mkW { w_model : rstate; w_pend : amap pent; w_idx : list N; w_t : tstate }.

Definition walk_step (cfg : rcfg) (w : wstate) (b : robs) : wstate * list N :=
  let (m', om) := rstep cfg (q_op b) (w_model w) in
  let e1 := flag 1 (routs_eqb om (q_outs b) && pend_eqb (pend m') (q_pend b) && same_set (ridx m') (q_idx b)) in
  let (t', tok) := timing_step cfg (q_op b) (q_outs b) (w_pend w) (q_pend b) (w_t w) in
  let e2 := flag 2 (spec32_step cfg (q_op b) (q_outs b) (w_pend w) (q_pend b) (w_idx w) (q_idx b) && tok) in
  (mkW m' (q_pend b) (q_idx b) t', e1 ++ e2).

Fixpoint walk (cfg : rcfg) (w : wstate) (l : list robs) : list N :=
  match l with
  | [] => []
  | b :: r => let (w', e) := walk_step cfg w b in e ++ walk cfg w' r
  end.

Definition dedup_codes (l : list N) : list N :=
  (if mem 1%N l then [1%N] else []) ++ (if mem 2%N l then [2%N] else []).

Definition check_case (c : case) : list N :=
  match c with
  | CRetry cfg l => dedup_codes (walk cfg (mkW (rinit cfg) [] [] (mkT None [] [])) l)
  end.

(* Correspondence of model/Nonce.v with /repo (connection_state.go, inside.go, noiseutil): cases are produced by the
   harness components `nonce` / `nonce_fips`, which drive the real send paths on one ConnectionState whose encrypt key
   is a recording wrapper around a real noiseutil cipher.
   code 1 = the model predicts something else than the implementation did;
   code 2 = the property itself (spec_accepted, sticky ceiling, ceiling enforced by the cipher) fails on what the
            implementation did - a concrete failing input. *)
From Coq Require Import List NArith ZArith Bool.
Import ListNotations.
From NV Require Import lib.Bytes lib.Corr gen.Consts_Nonce model.Nonce.
Open Scope N_scope.

(* A scripted run is a list of macro steps of the real code:
   MR t = thread t calls its next send path, which runs until it has handed a nonce to the cipher (where the harness
          parks it) or has returned;  ME t = the parked EncryptDanger call of thread t proceeds and the path returns. *)
Inductive mop := MR (t : N) | ME (t : N).

(* observed after a macro step: the nonce that reached the cipher wrapper (MR), whether the real cipher accepted it (ME),
   and messageCounter.Load() (None where another thread, released by this step, may already be running).
   In lock mode the harness also tries MR t while another thread is parked inside the critical section: the real thread
   blocks on writeLock (observed: nothing reaches the cipher, counter unchanged - the model's stutter); the thread goes on
   by itself once the lock is released, which the script records as a second MR t. *)
Definition mobs := (option N * bool * option N)%type.
(* one scripted step with its observation; one logged EncryptDanger call (flat constructors: cheap to elaborate) *)
(* counters are written as signed offsets from the case's starting counter c0 (short literals elaborate much faster) *)
Definition absN (c0 : N) (d : Z) : N := Z.to_N (Z.of_N c0 + d).
Inductive mstep := MS (op : mop) (arrived : option Z) (ok : bool) (counter : option Z).
Inductive lrec := LR (nonce : Z) (ok : bool).
Definition unstep (c0 : N) (m : mstep) : mop * mobs :=
  let '(MS op a ok c) := m in (op, (option_map (absN c0) a, ok, option_map (absN c0) c)).
Definition unrec (c0 : N) (r : lrec) : N * bool := let '(LR n ok) := r in (absN c0 n, ok).

Inductive case :=
| CMode (lock_needed cipher_checks_order : bool)
| CCipher (kind n : N) (ok : bool)
| CSeed (idx c0 : N)
| CNext (c0 c : N) (ok : bool) (after : N)
| CScript (lk : bool) (c0 : N) (progs : list (list N)) (steps : list mstep)
| CStress (lk : bool) (c0 sends : N) (records : list lrec) (final : Z) (panics : N)
| CStressBig (lk : bool) (dups out_of_range non_increasing late_ok panics : N).

Definition sceilR := RejectAfterMessages.
Definition eceilR := NoiseRejectAfterMessages.
Definition two64 : N := 18446744073709551616.

(* path codes of the harness: 0 sendInsideEncrypt, 1 sendNoMetrics, 2 prepareSendVia, 3 prepareSendVia short buffer *)
Definition path_of (k : N) : option path :=
  match k with 0 => Some Hot | 1 => Some Next | 2 => Some Next | 3 => Some NextAbort | _ => None end.

Fixpoint paths_of (l : list N) : option (list path) :=
  match l with
  | [] => Some []
  | k :: r => match path_of k, paths_of r with Some p, Some ps => Some (p :: ps) | _, _ => None end
  end.

Fixpoint progs_of (l : list (list N)) : option (list (list path)) :=
  match l with
  | [] => Some []
  | p :: r => match paths_of p, progs_of r with Some a, Some b => Some (a :: b) | _, _ => None end
  end.

(* run thread t until it is parked at the cipher or back between sends: at most enter, add, store, leave *)
Fixpoint run_thread (cf : cfg) (fuel : nat) (t : N) (s : state) (ev : list event) : state * list event :=
  match fuel with
  | O => (s, ev)
  | S f =>
      let '(s', e) := step cf t s in
      match ph (threads s' t) with
      | Idle | Reserved _ => (s', ev ++ e)
      | _ => run_thread cf f t s' (ev ++ e)
      end
  end.

Definition is_idle (p : phase) : bool := match p with Idle => true | _ => false end.
Definition is_reserved (p : phase) : bool := match p with Reserved _ => true | _ => false end.
Definition enc_ok (e : event) : bool := match e with EvEnc _ _ true => true | _ => false end.

Definition mobs_eqb (a b : mobs) : bool :=
  let '(a1, a2, a3) := a in let '(b1, b2, b3) := b in
  option_eqb N.eqb a1 b1 && Bool.eqb a2 b2 &&
  match a3, b3 with Some x, Some y => x =? y | _, _ => true end.

(* does the model predict every observation of the script? *)
Fixpoint sim (cf : cfg) (ops : list (mop * mobs)) (s : state) : bool :=
  match ops with
  | [] => true
  | (MR t, o) :: r =>
      is_idle (ph (threads s t)) &&
      (let '(s', _) := run_thread cf 4 t s [] in
       let arrived := match ph (threads s' t) with Reserved c => Some c | _ => None end in
       mobs_eqb (arrived, false, Some (ctr s')) o && sim cf r s')
  | (ME t, o) :: r =>
      is_reserved (ph (threads s t)) &&
      (let '(s', ev) := run_thread cf 4 t s [] in
       mobs_eqb (None, existsb enc_ok ev, Some (ctr s')) o && is_idle (ph (threads s' t)) && sim cf r s')
  end.

(* ---- the property on the implementation's own observations ---- *)
Fixpoint lookup (t : N) (l : list (N * (N * bool))) : option (N * bool) :=
  match l with [] => None | (k, v) :: r => if k =? t then Some v else lookup t r end.

Definition at_ceiling (c : option N) : bool := match c with Some x => eceilR <=? x | None => false end.
Definition still_at_ceiling (c : option N) : bool := match c with Some x => eceilR <=? x | None => true end.

(* walk the observations: pend maps a thread to (nonce parked at the cipher, was the ceiling already reached when that
   send started); hit = the counter has been seen at or above the ceiling; acc = accepted nonces, latest first.
   Returns (attributable, sticky_ok, accepted in order). *)
Fixpoint walk (ops : list (mop * mobs)) (pend : list (N * (N * bool))) (hit : bool) (acc : list N)
  : bool * bool * list N :=
  match ops with
  | [] => (true, true, rev acc)
  | (MR t, (arr, _, c)) :: r =>
      let pend' := match arr with Some n => (t, (n, hit)) :: pend | None => pend end in
      let '(a, st, l) := walk r pend' (hit || at_ceiling c) acc in
      (a, st && (negb hit || still_at_ceiling c), l)
  | (ME t, (_, ok, c)) :: r =>
      match lookup t pend with
      | None => (false, true, rev acc)
      | Some (n, late) =>
          let '(a, st, l) := walk r pend (hit || at_ceiling c) (if ok then n :: acc else acc) in
          (a, st && negb (ok && late) && (negb hit || still_at_ceiling c), l)
      end
  end.

Definition headroom_okb (c0 steps : N) : bool := N.max c0 sceilR + steps <? two64.

Fixpoint sticky_log (l : list (N * bool)) (refused_seen : bool) : bool :=
  match l with
  | [] => true
  | (_, ok) :: r => negb (ok && refused_seen) && sticky_log r (refused_seen || negb ok)
  end.

Definition check_case (c : case) : list N :=
  match c with
  | CMode lock_needed checks_order =>
      (* a cipher that refuses non-increasing nonces must come with the write lock *)
      flag 2 (negb checks_order || lock_needed)
  | CCipher _ n ok =>
      flag 2 (negb (ok && (eceilR <=? n))) ++ flag 1 (ok || (eceilR <=? n))
  | CSeed idx c0 => flag 1 (c0 =? seed idx)
  | CNext c0 c ok after =>
      let c' := w64 (c0 + 1) in
      let ok' := c' <? sceilR in
      flag 1 ((c =? c') && Bool.eqb ok ok' && (after =? (if ok' then c' else sceilR)))
  | CScript lkm c0 progs steps =>
      let ops := map (unstep c0) steps in
      match progs_of progs with
      | None => [1]
      | Some ps =>
          flag 1 (sim (real_cfg lkm) ops (init c0 ps)) ++
          (let '(attributable, sticky_ok, accepted) := walk ops [] (eceilR <=? c0) [] in
           flag 1 attributable ++
           (if headroom_okb c0 (4 * N.of_nat (length ops))
            then flag 2 (spec_accepted lkm eceilR c0 accepted && sticky_ok)
            else []))
      end
  | CStress lkm c0 sends records final panics =>
      let log := map (unrec c0) records in
      let accepted := map fst (filter snd log) in
      flag 2 (spec_accepted lkm eceilR c0 accepted) ++
      flag 2 (forallb (fun e => negb (snd e && (eceilR <=? fst e))) log) ++
      flag 1 (forallb (fun e => snd e || (eceilR <=? fst e)) log) ++
      flag 2 (negb lkm || (sticky_log log false && (panics =? 0))) ++
      flag 2 (forallb snd log || (eceilR <=? absN c0 final))
  | CStressBig lkm dups oor noninc late panics =>
      flag 2 ((dups =? 0) && (oor =? 0)) ++
      flag 2 (negb lkm || ((noninc =? 0) && (late =? 0) && (panics =? 0)))
  end.

(* Correspondence of model/WriteBatch.v with /repo/udp batchWriter.WriteBatch: cases are produced by harness
   `writebatch` through go/overlay/udp/verif_writebatch.go (a real batchWriter with a scripted sendFn that decodes
   every offered mmsghdr slot from its iovecs, sockaddr and control buffer). *)
From Coq Require Import List NArith ZArith Bool Arith.
Import ListNotations.
From NV Require Import lib.Bytes lib.Corr gen.Consts_WriteBatch model.WriteBatch.
Open Scope N_scope.

(* one offered slot as observed: for every iovec the batch index of the caller's buffer it covers exactly (same
   base pointer and length; 999999 = none), the UDP_SEGMENT size if the slot has control data, the destination id
   decoded from msg_name (999999 = not recognisable) *)
Record ientry := IE { ie_idx : list N; ie_seg : option N; ie_dst : N }.
(* one sendFn call on slots [start, start+n); updates = the slots of that range whose decoded content changed
   since they were last offered (every slot is decoded at every call) *)
Record icall := IC { ic_start : N; ic_n : N; ic_updates : list (N * ientry); ic_sent : Z; ic_errno : N }.
(* the same call with the offered slots spelled out *)
Record xcall := XC { ic_entries : list ientry; xc_sent : Z; xc_errno : N }.

Inductive case :=
| CBatch (cap : N) (gso : bool) (maxSegs : N) (pkts : list (N * N * bool)) (script : list (Z * N))
         (calls : list icall) (ret : N) (err : bool) (gso_after : bool) (panicked : bool)
(* the same, where maxSegs is what the real gsoMaxSegments returned for a kernel release (major, minor) and the fake
   kernel was the kernel of that release (EINVAL above its segment limit) *)
| CBatchRel (major minor : N) (cap : N) (gso : bool) (maxSegs : N) (pkts : list (N * N * bool)) (script : list (Z * N))
         (calls : list icall) (ret : N) (err : bool) (gso_after : bool) (panicked : bool)
(* the real gsoMaxSegments / parseRelease on a release string built from (major, minor) plus a suffix (wf = true),
   or on a malformed string (wf = false): what parseRelease returned and the limit *)
| CRelease (wf : bool) (major minor : N) (parsed_major parsed_minor : Z) (limit : Z).

Definition bad_entry : ientry := IE [] None 999999.
Fixpoint slot_get (slots : list (N * ientry)) (i : N) : ientry :=
  match slots with
  | [] => bad_entry
  | (j, e) :: r => if j =? i then e else slot_get r i
  end.
Fixpoint expand (slots : list (N * ientry)) (calls : list icall) : list xcall :=
  match calls with
  | [] => []
  | c :: r =>
      let slots' := rev_append (ic_updates c) slots in
      XC (map (fun i => slot_get slots' (ic_start c + N.of_nat i)) (seq 0 (N.to_nat (ic_n c)))) (ic_sent c) (ic_errno c)
      :: expand slots' r
  end.

(* the scripted kernel, exactly as the shim's sendFn: item k, count clamped to the entries offered;
   (0, ENOBUFS) once the script is used up *)
Definition orc_of_script (script : list (Z * N)) : oracle :=
  fun k n => match nth_error script k with
             | Some (s, e) => (Z.min s (Z.of_N n), e)
             | None => (0%Z, wb_enobufs)
             end.

Definition mk_pkts (l : list (N * N * bool)) : list pkt := map (fun t => let '(a, b, c) := t in mkPkt a b c) l.

(* ---- model output in the shape of the observation -------------------------------------------------- *)
Definition view_entry (e : entry) : ientry :=
  IE (map N.of_nat (indices e)) (if (2 <=? e_pkts e)%nat then Some (e_seg e) else None) (e_dst e).
Definition view_call (c : call) : xcall :=
  XC (map view_entry (c_offered c)) (c_sent c) (c_errno c).

Definition ientry_eqb (a b : ientry) : bool :=
  nlist_eqb (ie_idx a) (ie_idx b) && option_eqb N.eqb (ie_seg a) (ie_seg b) && (ie_dst a =? ie_dst b).
Definition xcall_eqb (a b : xcall) : bool :=
  list_eqb ientry_eqb (ic_entries a) (ic_entries b) && (xc_sent a =? xc_sent b)%Z && (xc_errno a =? xc_errno b).

(* ---- the property, executable, on observed calls ------------------------------------------------------ *)
Definition acc_entries (calls : list xcall) : list ientry :=
  flat_map (fun c => if (0 <? xc_sent c)%Z then firstn (Z.to_nat (xc_sent c)) (ic_entries c) else []) calls.
Definition sent_idx (calls : list xcall) : list N := flat_map ie_idx (acc_entries calls).

Fixpoint nodupb (l : list N) : bool :=
  match l with
  | [] => true
  | x :: r => negb (existsb (N.eqb x) r) && nodupb r
  end.

Definition dst_at (pkts : list pkt) (i : N) : option N := option_map p_dst (nth_error pkts (N.to_nat i)).

(* same-destination datagrams keep their order: whenever x is handed over before y and both go to the same
   destination, x comes before y in the batch *)
Fixpoint order_ok (pkts : list pkt) (l : list N) : bool :=
  match l with
  | [] => true
  | x :: r =>
      forallb (fun y => negb (option_eqb N.eqb (dst_at pkts x) (dst_at pkts y)) || (x <? y)) r && order_ok pkts r
  end.

Fixpoint all_but_last {A} (f : A -> bool) (l : list A) : bool :=
  match l with
  | [] => true
  | [_] => true
  | x :: r => f x && all_but_last f r
  end.

Definition sumN (l : list N) : N := fold_right N.add 0 l.

(* an offered slot is well formed: every iovec is exactly one of the caller's packets, all of one routable
   destination, which is the slot's address; several packets need a segment size; a segment size needs GSO and the
   run geometry: all segments equal to it except a shorter, non-empty last, within the segment and byte limits *)
Definition entry_ok (gso : bool) (maxSegs : N) (pkts : list pkt) (e : ientry) : bool :=
  let lens := map (fun i => match nth_error pkts (N.to_nat i) with Some p => p_len p | None => 0 end) (ie_idx e) in
  negb (match ie_idx e with [] => true | _ => false end)
  && forallb (fun i => match nth_error pkts (N.to_nat i) with
                       | Some p => (p_dst p =? ie_dst e) && p_ok p
                       | None => false
                       end) (ie_idx e)
  && match ie_seg e with
     | None => (length (ie_idx e) <=? 1)%nat
     | Some s =>
         gso
         && ((length (ie_idx e) <=? 1)%nat || (N.of_nat (length (ie_idx e)) <=? maxSegs))
         && (s <? 65536)
         && forallb (fun l => 0 <? l) lens
         && all_but_last (fun l => l =? s) lens
         && (last lens 0 <=? s)
         && (sumN lens <=? wb_max_gso_bytes)
     end.

Definition spec_ok (gso : bool) (maxSegs : N) (pkts : list pkt) (calls : list xcall) (ret : N) : bool :=
  nodupb (sent_idx calls)                                         (* handed to the kernel successfully at most once *)
  && (ret =? N.of_nat (length (sent_idx calls)))                  (* the count is what the kernel accepted *)
  && order_ok pkts (sent_idx calls)                               (* per-destination order *)
  && forallb (fun c => forallb (entry_ok gso maxSegs pkts) (ic_entries c)) calls.   (* run geometry, every offered slot *)

(* The documented rule (udp_linux_writebatch.go, gsoMaxSegments; linux/udp.h UDP_MAX_SEGMENTS): the kernel accepts
   64 segments per UDP_SEGMENT send before Linux 6.9 and 128 from 6.9 on - versions compare as pairs - and one of them
   is taken by the header accounting; an unparsable release gets the conservative value. *)
Definition lex_leb (a b : N * N) : bool := (fst a <? fst b) || ((fst a =? fst b) && (snd a <=? snd b)).
Definition udp_max_segments (major minor : N) : N := if lex_leb (6, 9) (major, minor) then 128 else 64.
Definition doc_segment_limit (wf : bool) (major minor : N) : N := if wf then udp_max_segments major minor - 1 else 63.

Definition check_batch (spec_segs : N) cap gso maxSegs pk script calls ret (err gso_after panicked : bool) : list N :=
  let pkts := mk_pkts pk in
  let r := write_batch_cap (N.to_nat cap) gso (N.to_nat maxSegs) pkts (orc_of_script script) in
  let out_ok := match r_out r with
                | Done n => (n =? ret) && negb err
                | NoProgress n => (n =? ret) && err
                | _ => false
                end in
  let xcalls := expand [] calls in
  flag 1 (list_eqb xcall_eqb (map view_call (r_calls r)) xcalls && out_ok
          && Bool.eqb (r_gso r) gso_after && negb panicked)
  ++ flag 2 (spec_ok gso spec_segs pkts xcalls ret).

Definition check_case (c : case) : list N :=
  match c with
  | CBatch cap gso maxSegs pk script calls ret err gso_after panicked =>
      check_batch maxSegs cap gso maxSegs pk script calls ret err gso_after panicked
  | CBatchRel major minor cap gso maxSegs pk script calls ret err gso_after panicked =>
      (* the segment limit of the property is the kernel's, not whatever the gate returned *)
      check_batch (doc_segment_limit true major minor) cap gso maxSegs pk script calls ret err gso_after panicked
  | CRelease wf major minor pmaj pmin limit =>
      flag 1 (Z.of_N (gso_max_segments pmaj pmin) =? limit)%Z
      ++ flag 2 ((Z.of_N (doc_segment_limit wf major minor) =? limit)%Z
                 && (negb wf || ((pmaj =? Z.of_N major)%Z && (pmin =? Z.of_N minor)%Z)))
  end.

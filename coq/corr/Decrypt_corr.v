(* Correspondence of model/Decrypt.v with ConnectionState.Decrypt / VerifyRelay: cases are produced
   by harness `decrypt`, which drives the real functions of a real ConnectionState (real AES-GCM
   receive key, NewBits(ReplayWindow)) from several goroutines. The cipher call is the only place
   where the harness can hold a goroutine (a wrapping CipherState that blocks in DecryptDanger), which
   is exactly the boundary between the two critical sections, so every interleaving of the three
   sections is scripted without a hook in /repo. *)
From Coq Require Import List NArith Bool.
Import ListNotations.
From NV Require Import lib.Bytes lib.Corr gen.Decrypt_consts model.Bits model.Decrypt.
Open Scope N_scope.

(* a receiver thread: (relayed?, counter, packet authentic?) *)
Definition tdesc := (bool * N * bool)%type.

Inductive case :=
(* scripted interleaving: sched lists thread numbers, one entry per section executed *)
| CSched (threads : list tdesc) (sched : list N) (results : list N) (final_cur : N) (final_words : list N)
(* free-running goroutines: only the results are known *)
| CStress (threads : list tdesc) (results : list N).

Definition mk_thread (d : tdesc) : thread :=
  let '(relay, c, a) := d in mkThread (if relay then Relay else Direct) c a PStart.

(* the property, on the implementation's results: result 0 (delivered) at most once per counter,
   and only for authentic packets *)
Fixpoint delivered_of (c : N) (ds : list tdesc) (rs : list N) : N :=
  match ds, rs with
  | (_, c', _) :: dr, r :: rr => (if (c' =? c) && (r =? 0) then 1 else 0) + delivered_of c dr rr
  | _, _ => 0
  end.

Fixpoint authentic_only (ds : list tdesc) (rs : list N) : bool :=
  match ds, rs with
  | (_, _, a) :: dr, r :: rr => (if r =? 0 then a else true) && authentic_only dr rr
  | [], [] => true
  | _, _ => false
  end.

Definition spec_ok (ds : list tdesc) (rs : list N) : bool :=
  forallb (fun d => let '(_, c, _) := d in delivered_of c ds rs <=? 1) ds && authentic_only ds rs.

Definition check_case (c : case) : list N :=
  match c with
  | CSched ds sched rs cur ws =>
      match new_bits decrypt_replay_window with
      | None => [3]
      | Some b0 =>
          let '(b, ths) := run_sched (b0, map mk_thread ds) (map N.to_nat sched) in
          flag 1 (nlist_eqb (map (fun t => result_code (t_pc t)) ths) rs && (b_cur b =? cur) && nlist_eqb (b_words b) ws)
          ++ flag 2 (spec_ok ds rs)
      end
  | CStress ds rs => flag 2 (spec_ok ds rs)
  end.

(* Correspondence of model/Lifecycle.v with the real Control / Interface and with running nodes: cases come from
   harness `lifecycle` (operation sequences on a real Control over recording device and sockets) and `lifecyclenet`
   (goroutine census and stop observations on real nodes on the e2e in-memory network).
   Codes: 1 = the model disagrees with the implementation: run state or closed resources after an operation, or the
              goroutines found running (by creation site) are not the activity set the table predicts for the nodes'
              phases and configurations - the table / state machine is wrong or the code changed;
          2 = the property's clauses fail on the implementation's own observations: after Stop (+ Wait) a goroutine of
              the node is still running, the context is not cancelled, a socket or the tun is still open, Stop or Wait
              took longer than the bound, the state is not Stopped, a second Stop changed something, a failed Start
              did not release, Wait did not return; or the LEDGER of everything the node ever opened (every udp listener
              handed to it by Main / its builder - with or without a reader - and every device queue) is not empty
              after Stop + Wait: a listener or queue opened and never closed. *)
From Coq Require Import List NArith Bool Arith.
Import ListNotations.
From NV Require Import lib.Corr model.Lifecycle.
Open Scope N_scope.

(* run state (1 ready, 2 started, 3 stopping, 4 stopped), context cancelled, sockets closed, tun closed, rebinds,
   close calls that reached the tun, Wait returned (only asked for after a stop), and the ledger: udp listeners ever
   opened that are still open, device queues handed out, reader goroutines observed running (listenOut) *)
Definition oobs := (N * bool * bool * bool * N * N * bool * N * N * N)%type.

Inductive case :=
| CCensus (nodes : list (cfg * N)) (obs : list (N * N)) (unknown : N)
| CStop (c : cfg) (phase_before : N) (state_after : N) (ctx udp tun : bool) (leftover unknown : N) (stop_ms wait_ms bound_ms : N)
        (second_stop_same : bool) (udp_opened udp_left : N)
| COps (c : cfg) (steps : list (op * oobs)).

Definition state_code (s : cstate) : N := match s with SReady => 1 | SStarted => 2 | SStopping => 3 | SStopped => 4 end.

Definition pair_eqb (a b : N * N) : bool := (fst a =? fst b) && (snd a =? snd b).

Fixpoint ops_check (s : lst) (steps : list (op * oobs)) : list N :=
  match steps with
  | [] => []
  | (o, (st, ctx, udp, tun, rb, tcloses, waited, udp_left, queues, readers)) :: r =>
    let s' := step s o in
    let spec :=
      (* Stopped means released, and only then; the tun is closed at most once *)
      implb (st =? 4) (ctx && udp && tun && waited && (udp_left =? 0)) &&
      implb (negb (st =? 4)) (negb udp && negb tun) &&
      (tcloses <=? 1) &&
      (* Stop always ends in Stopped when no other Stop is in flight; a failed Start ends in Stopped *)
      match o with
      | OStop => st =? 4
      | OStart false => (st =? 4) || negb (state_code (l_state s) =? 1)
      | _ => true
      end in
    let model :=
      (st =? state_code (l_state s')) && eqb ctx (has RCtx (l_closed s')) && eqb udp (has RUdp (l_closed s')) &&
      eqb tun (has RTun (l_closed s')) && (rb =? N.of_nat (l_rebinds s')) &&
      eqb waited (match l_state s' with SStopped => released s' | _ => false end) &&
      (udp_left =? N.of_nat (udp_open s')) &&
      (* once started: the device was asked for queues and the readers are the clamped number *)
      match l_state s' with
      | SStarted => (readers =? N.of_nat (k_routines (l_cfg s'))) && (queues =? N.of_nat (k_routines (l_cfg s')))
      | _ => true
      end in
    flag 2 spec ++ flag 1 model ++ match flag 2 spec ++ flag 1 model with [] => ops_check s' r | _ => [] end
  end.

Definition check_case (c : case) : list N :=
  match c with
  | CCensus nodes obs unknown =>
    flag 1 (list_eqb pair_eqb (census nodes) obs && (unknown =? 0))
  | CStop c ph st ctx udp tun leftover unknown stop_ms wait_ms bound sec uopened uleft =>
    let ops := (match ph with 1 => [OStart true] | 3 => [OStart false] | _ => [] end) ++ [OStop] in
    let s := run (ready c) ops in
    flag 2 ((st =? 4) && ctx && udp && tun && (leftover =? 0) && (unknown =? 0) && (stop_ms <=? bound) && (wait_ms <=? bound) && sec && (uleft =? 0)) ++
    flag 1 ((st =? state_code (l_state s)) && released s && (uopened =? N.of_nat (k_configured c)) && (uleft =? N.of_nat (udp_open s)))
  | COps c steps => ops_check (ready c) steps
  end.

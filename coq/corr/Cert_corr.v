(* Correspondence of model/Cert.v (verify, verify_cached, add_ca) with /repo/cert CAPool: cases are produced
   by harness `certverify`. *)
From Coq Require Import List NArith ZArith Bool.
Import ListNotations.
From NV Require Import lib.Corr model.Cert.
Open Scope N_scope.

Inductive case :=
(* VerifyCertificate(t, c) on pool P / blocklist bl with the real CheckSignature verdict sigok gave ok;
   again = a later trust state (P', bl', t', sigok') with the verdicts of VerifyCachedCertificate on the record
   returned the first time and of a fresh VerifyCertificate, plus the record's signerFingerprint,
   fingerprint2 and Fingerprint *)
| CVerify (P : pool) (bl : blocklist) (t : Z) (c : cert) (sigok ok : bool)
          (again : option (pool * blocklist * Z * bool * bool * bool * str * str * str))
(* AddCA called on each (certificate, real self-signature verdict) in turn from an empty pool, at wall time
   now: returned verdicts (0 ok, 1 not a CA, 2 not self-signed, 3 stored but expired) and the final map as
   (key, stored Fingerprint, recomputed Fingerprint(), IsCA) *)
(* ONE pool object P / bl used for a sequence of checks. Each step: mode (0 = VerifyCertificate, 1 =
   VerifyCachedCertificate on the record an earlier step returned for this certificate), instant, certificate,
   real CheckSignature verdict, verdict of the pool WITH its history, verdict of VerifyCertificate on a pool
   built afresh from the same CAs and blocklist, and (mode 1) the record's signerFingerprint / fingerprint2 /
   Fingerprint *)
| CHistory (P : pool) (bl : blocklist) (steps : list (N * Z * cert * bool * bool * bool * str * str * str))
| CAddCA (ops : list (cert * bool)) (now : Z) (verdicts : list N) (final : list (str * str * str * bool)).

Definition add_verdict (r : (pool * bool) + aerr) : N :=
  match r with
  | inl (_, false) => 0
  | inl (_, true) => 3
  | inr ANotCA => 1
  | inr ANotSelfSigned => 2
  end.

Fixpoint run_adds (ops : list (cert * bool)) (now : Z) (P : pool) : pool * list N :=
  match ops with
  | [] => (P, [])
  | (c, self) :: r =>
      let res := add_ca c self now P in
      let P' := match res with inl (P', _) => P' | inr _ => P end in
      let '(Pf, vs) := run_adds r now P' in (Pf, add_verdict res :: vs)
  end.

Definition incl_b {A} (eqb : A -> A -> bool) (l1 l2 : list A) : bool := forallb (fun a => existsb (eqb a) l2) l1.
Definition kv_eqb (a b : str * str) : bool := str_eqb (fst a) (fst b) && str_eqb (snd a) (snd b).

Definition check_case (c : case) : list N :=
  match c with
  | CVerify P bl t c sigok ok again =>
      let r := verify P bl t c sigok in
      flag 1 (Bool.eqb (is_ok r) ok) ++
      flag 2 (Bool.eqb (accept_spec P bl t c sigok) ok) ++        (* the documented rule on the real verdict *)
      match again with
      | None => []
      | Some (P', bl', t', sigok', okc, okf, csigner, cfp2, cfp) =>
          (* the record VerifyCertificate returned is the one the model builds *)
          match r with
          | Ok cc => flag 1 (str_eqb (cc_signer cc) csigner && str_eqb (cc_fp2 cc) cfp2 && str_eqb (cc_fp cc) cfp)
          | Err _ => []
          end ++
          (* the record as the documented behaviour has it: fingerprint2 is the fingerprint of the other S form,
             which the harness computes on its own (c_fp2 c), not what the code stored *)
          flag 1 (str_eqb cfp2 (c_fp2 c)) ++
          flag 1 (Bool.eqb (is_ok (verify_cached P' bl' t' (mkCached c cfp (c_fp2 c) csigner) sigok')) okc) ++
          flag 2 (Bool.eqb (accept_spec P' bl' t' c sigok') okc) ++  (* the rule (both forms!) on the cached verdict *)
          flag 1 (Bool.eqb (is_ok (verify P' bl' t' c sigok')) okf) ++
          flag 2 (Bool.eqb (accept_spec P' bl' t' c sigok') okf) ++
          flag 2 (Bool.eqb okc okf)                                 (* cached re-check = full check, on the code *)
      end
  | CHistory P bl steps =>
      flat_map (fun s =>
        let '(mode, t, c, sigok, okh, okf, csigner, cfp2, cfp) := s in
        let m := if mode =? 0 then is_ok (verify P bl t c sigok)
                 else is_ok (verify_cached P bl t (mkCached c cfp (c_fp2 c) csigner) sigok) in
        flag 1 (Bool.eqb m okh) ++
        flag 2 (Bool.eqb (accept_spec P bl t c sigok) okh) ++      (* the documented rule on the real verdict *)
        flag 2 (Bool.eqb okh okf))                                  (* history independence, on the code *)
      steps
  | CAddCA ops now verdicts final =>
      let '(P, vs) := run_adds ops now [] in
      let mine := map (fun kv => (fst kv, c_fp (snd kv))) P in
      let theirs := map (fun e => let '(k, f, _, _) := e in (k, f)) final in
      flag 1 (nlist_eqb vs verdicts) ++
      flag 1 (incl_b kv_eqb mine theirs && incl_b kv_eqb theirs mine && (N.of_nat (length mine) =? N.of_nat (length theirs))) ++
      (* WFpool on the real map: key = stored fingerprint = recomputed fingerprint, entry is a CA *)
      flag 2 (forallb (fun e => let '(k, f, re, isca) := e in str_eqb k f && str_eqb k re && isca) final)
  end.

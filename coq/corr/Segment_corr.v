(* Correspondence of model/Segment.v with /repo/overlay/tio/virtio (SegmentTCP, SegmentUDP, CheckValid, CorrectHdrLen)
   and /repo/overlay/tio (decodeRead, SegmentSuperpacket): cases are produced by harness `segment`, the pipeline
   cases through the overlay shim go/overlay/overlay/tio/verif_segment.go.

   A case carries a superpacket (headers as a hex literal; payload as a hex literal or as the generator rule that
   produced it, re-run here), the parameters (direct call) or the virtio_net_hdr (pipeline), and the
   implementation's result: None for a returned error, otherwise the segments handed to the callback (copied at
   callback time). Small cases carry every segment as a complete literal. To keep the volume coqc has to parse
   affordable, for larger cases the harness compares each segment's payload with the input bytes at the running
   offset and, when they are identical, prints the reference (offset, length) instead of the bytes; a payload that
   differs is always printed in full. Headers are always literals.

   code 1: the segments differ bytewise from [segment_tcp]/[segment_udp] (and, for small cases, from the in-place
           replay [segment_*_inplace]), or an error is returned where the model returns segments / vice versa;
   code 2: the input satisfies the property's hypotheses ([wf_tcpb]/[wf_udpb]) and the executable specification
           [spec_ok] rejects what the implementation yielded (or it refused / panicked). [spec_ok] does not use
           the model: it re-derives everything from the input and the observed bytes - payload concatenation and
           segment sizes, copied header bytes, lengths, IPv4 ID, sequence numbers, flag rules, and a fresh
           recomputation of the IPv4 header checksum and of the TCP/UDP checksum over pseudo-header ++ L4;
   code 3: the case literal itself is malformed (a payload reference outside the packet). *)
From Coq Require Import List NArith Bool Arith.
From Coq Require String Ascii.
Import ListNotations.
From NV Require Import lib.Bytes lib.Corr lib.Ones model.Segment.
Open Scope N_scope.

(* byte strings are lower-case hex string literals (much cheaper for coqc to read than lists of numerals) *)
Definition hexval (a : Ascii.ascii) : N :=
  let n := Ascii.N_of_ascii a in if n <? 58 then n - 48 else n - 87.
Fixpoint unhex (s : String.string) : list N :=
  match s with
  | String.String a (String.String b r) => (16 * hexval a + hexval b) :: unhex r
  | _ => []
  end.

(* payload of a generated superpacket: a literal, or a rule the harness and this file both implement *)
Inductive psrc :=
| PHex (s : String.string)
| PRep (b len : N)          (* len copies of byte b *)
| PLcg (seed len : N)       (* x' = (1664525 x + 1013904223) mod 2^32, byte = x' / 2^24 *)
| PMix (seed len : N).      (* the same generator; 0xff except where bits 20..23 of x' are zero: then byte = bits 8..15 *)

Definition lcg_next (x : N) : N := (1664525 * x + 1013904223) mod 4294967296.
Fixpoint lcg_bytes (mix : bool) (x : N) (n : nat) : list N :=
  match n with
  | O => []
  | S k => let x' := lcg_next x in
           (if mix then (if (x' / 1048576) mod 16 =? 0 then (x' / 256) mod 256 else 255) else x' / 16777216)
           :: lcg_bytes mix x' k
  end.
Definition payload_of (p : psrc) : list N :=
  match p with
  | PHex s => unhex s
  | PRep b len => repeat b (N.to_nat len)
  | PLcg seed len => lcg_bytes false seed (N.to_nat len)
  | PMix seed len => lcg_bytes true seed (N.to_nat len)
  end.

(* one observed segment: its first bytes as a literal, the rest either as a literal or - when the harness found it
   byte-for-byte equal to input[off : off+len] - as that reference *)
Inductive opay := OLit (s : String.string) | ORef (off len : N).
Inductive oseg := OSeg (hdr : String.string) (pay : opay).
Definition seg_of (pkt : list N) (o : oseg) : list N :=
  match o with
  | OSeg h (OLit s) => unhex h ++ unhex s
  | OSeg h (ORef off len) => unhex h ++ firstn (N.to_nat len) (skipn (N.to_nat off) pkt)
  end.
Definition oseg_ok (pkt : list N) (o : oseg) : bool :=
  match o with
  | OSeg _ (ORef off len) => (N.to_nat off + N.to_nat len <=? length pkt)%nat
  | _ => true
  end.

(* hdr = the leading bytes of the superpacket as a literal (all headers), pay = the rest *)
Inductive case :=
| CDirect (tcp : bool) (hdr : String.string) (pay : psrc) (hl cs g : N) (res : option (list oseg)) (panicked : bool)
| CPipe (vh : vhdr) (hdr : String.string) (pay : psrc) (res : option (list oseg)) (panicked : bool).

(* ---- the executable specification (the property, evaluated on the implementation's output) ---- *)

(* zero the fields segmentation rewrites; everything else must be a copy of the superpacket's header *)
Definition mask_hdr (tcp isV4 : bool) (cs : nat) (h : list N) : list N :=
  let h := if isV4 then wr (wr h 2 [0; 0; 0; 0]) 10 [0; 0] else wr h 4 [0; 0] in
  if tcp then wr (wr (wr h (cs + 4) [0; 0; 0; 0]) (cs + 13) [N.land (bat h (cs + 13)) 118]) (cs + 16) [0; 0]
  else wr h (cs + 4) [0; 0; 0; 0].

Definition testbitn (x : N) (b : N) : bool := N.testbit x b.

Definition spec_seg (tcp : bool) (pkt : list N) (hl cs g : nat) (n i off : nat) (seg : list N) : bool :=
  let isV4 := is_v4 pkt in
  let plen := (length seg - hl)%nat in
  let islast := (i =? n - 1)%nat in
  (hl <=? length seg)%nat &&
  (* payload: the next plen bytes of the superpacket's payload; at most g, exactly g unless last *)
  nlist_eqb (skipn hl seg) (firstn plen (skipn (hl + off) pkt)) &&
  (plen <=? g)%nat && (islast || (plen =? g)%nat) &&
  (* header: a copy apart from the rewritten fields (version/IHL, addresses, protocol, ports, ack, window, options ...) *)
  nlist_eqb (mask_hdr tcp isV4 cs (firstn hl seg)) (mask_hdr tcp isV4 cs (firstn hl pkt)) &&
  (* L3 *)
  (if isV4 then
     (rd16 seg 2 =? N.of_nat (length seg)) &&
     (rd16 seg 4 =? (rd16 pkt 4 + N.of_nat i) mod 65536) &&
     valid_csumb (firstn (ihl_of seg) seg)
   else rd16 seg 4 =? N.of_nat (length seg - 40)) &&
  (* L4 checksum over pseudo-header ++ L4 header ++ payload *)
  valid_csumb (pseudo_hdr isV4 seg (if tcp then 6 else 17) (N.of_nat (length seg - cs)) ++ skipn cs seg) &&
  (if tcp then
     let f := bat pkt (cs + 13) in let f' := bat seg (cs + 13) in
     (rd32 seg (cs + 4) =? (rd32 pkt (cs + 4) + N.of_nat off) mod 4294967296) &&
     Bool.eqb (testbitn f' 7) (testbitn f 7 && (i =? 0)%nat) &&
     Bool.eqb (testbitn f' 0) (testbitn f 0 && islast) &&
     Bool.eqb (testbitn f' 3) (testbitn f 3 && islast)
     (* the remaining flag bits are covered by mask_hdr *)
   else
     (rd16 seg (cs + 4) =? N.of_nat (length seg - cs)) && negb (rd16 seg (cs + 6) =? 0)).

Fixpoint spec_segs (tcp : bool) (pkt : list N) (hl cs g : nat) (n i off : nat) (segs : list (list N)) : bool :=
  match segs with
  | [] => (off =? length pkt - hl)%nat          (* the whole payload has been delivered *)
  | s :: r => spec_seg tcp pkt hl cs g n i off s &&
              (* only a header-only superpacket yields an empty segment *)
              ((0 <? length s - hl)%nat || (n =? 1)%nat) &&
              spec_segs tcp pkt hl cs g n (S i) (off + (length s - hl)) r
  end.

Definition spec_ok (tcp : bool) (pkt : list N) (hl cs g : nat) (segs : list (list N)) : bool :=
  (1 <=? length segs)%nat && spec_segs tcp pkt hl cs g (length segs) 0 0 segs.

(* ---- the check ---- *)

Definition segs_eqb := option_eqb (list_eqb nlist_eqb).

Definition obs_of (pkt : list N) (res : option (list oseg)) : option (list (list N)) * bool :=
  match res with
  | None => (None, true)
  | Some os => (Some (map (seg_of pkt) os), forallb (oseg_ok pkt) os)
  end.

(* the in-place replay costs (#segments x buffer length) per case: run it on the small cases only *)
Definition small (pkt : list N) (hl g : nat) : bool :=
  (g =? 0)%nat || (N.of_nat (length pkt) * N.of_nat (seg_count (length pkt - hl) g) <=? 60000).

Definition check_seg (tcp : bool) (pkt : list N) (hl cs g : nat) (obs : option (list (list N))) (panicked : bool) : list N :=
  let m := if tcp then segment_tcp pkt hl cs g else segment_udp pkt hl cs g in
  let wf := if tcp then wf_tcpb pkt hl cs g else wf_udpb pkt hl cs g in
  flag 1 (negb panicked && segs_eqb m obs) ++
  (if small pkt hl g
   then flag 1 (segs_eqb (if tcp then segment_tcp_inplace pkt hl cs g else segment_udp_inplace pkt hl cs g) obs)
   else []) ++
  (if wf then flag 2 (match obs with Some segs => negb panicked && spec_ok tcp pkt hl cs g segs | None => false end)
   else []).

Definition check_case (c : case) : list N :=
  match c with
  | CDirect tcp hs pay hl cs g res panicked =>
      let pkt := unhex hs ++ payload_of pay in
      let '(obs, okform) := obs_of pkt res in
      flag 3 okform ++ check_seg tcp pkt (N.to_nat hl) (N.to_nat cs) (N.to_nat g) obs panicked
  | CPipe vh hs pay res panicked =>
      let pkt := unhex hs ++ payload_of pay in
      let '(obs, okform) := obs_of pkt res in
      flag 3 okform ++
      match decode_read pkt vh with
      | DSuper tcp hl cs g =>
          if (g =? 0)%nat then flag 1 (negb panicked && segs_eqb (Some [pkt]) obs)
          else check_seg tcp pkt hl cs g obs panicked
      | d => flag 1 (negb panicked && segs_eqb (segment_super pkt d) obs)
      end
  end.

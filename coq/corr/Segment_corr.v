(* Correspondence of model/Segment.v with /repo/overlay/tio/virtio (SegmentTCP, SegmentUDP, CheckValid, CorrectHdrLen)
   and /repo/overlay/tio (decodeRead, SegmentSuperpacket): cases are produced by harness `segment`, the pipeline
   cases through the overlay shim go/overlay/overlay/tio/verif_segment.go.

   A case carries a superpacket as a complete byte literal, the parameters (direct call) or the virtio_net_hdr
   (pipeline), and the implementation's result: None for a returned error, otherwise every segment handed to the
   callback (copied at callback time) as a complete byte literal.

   code 1: the segments differ bytewise from [segment_tcp]/[segment_udp] (and, for small cases, from the in-place
           replay [segment_*_inplace]), or segments are yielded where the model returns an error, or a panic; an
           error returned for an input OUTSIDE the property's hypotheses is always accepted (stricter validation);
   code 2: the input satisfies the property's hypotheses ([wf_tcpb]/[wf_udpb]) and the executable specification
           [spec_ok] rejects what the implementation yielded (or it refused / panicked). [spec_ok] does not use
           the model: it re-derives everything from the input and the observed bytes - payload concatenation and
           segment sizes, copied header bytes, lengths, IPv4 ID, sequence numbers, flag rules, and a fresh
           recomputation of the IPv4 header checksum and of the TCP/UDP checksum over pseudo-header ++ L4;
   code 3: the case literal itself is malformed (a packed byte string shorter than its stated length). *)
From Coq Require Import List NArith Bool Arith.
From Coq Require Import Uint63.
Import ListNotations.
From NV Require Import lib.Bytes lib.Corr lib.Ones model.Segment.
Open Scope N_scope.

(* byte strings are printed packed, seven bytes (big-endian) per primitive 63-bit integer literal, with their length:
   coqc reads primitive integer literals natively, some thirty times faster than string or N literals *)
Definition packed := (N * list int)%type.

Definition b2N (b : int) : N :=
  let t (m : int) (v : N) := if PrimInt63.eqb (PrimInt63.land b m) 0%uint63 then 0 else v in
  t 128%uint63 128 + t 64%uint63 64 + t 32%uint63 32 + t 16%uint63 16 + t 8%uint63 8 + t 4%uint63 4 + t 2%uint63 2
  + t 1%uint63 1.
Definition byte_at_shift (x : int) (sh : int) : N := b2N (PrimInt63.land (PrimInt63.lsr x sh) 255%uint63).
Definition unpack7 (x : int) (r : list N) : list N :=
  byte_at_shift x 48%uint63 :: byte_at_shift x 40%uint63 :: byte_at_shift x 32%uint63 :: byte_at_shift x 24%uint63 ::
  byte_at_shift x 16%uint63 :: byte_at_shift x 8%uint63 :: byte_at_shift x 0%uint63 :: r.
Fixpoint unpack_all (l : list int) : list N :=
  match l with
  | [] => []
  | x :: r => unpack7 x (unpack_all r)
  end.
Definition unpack (p : packed) : list N := firstn (N.to_nat (fst p)) (unpack_all (snd p)).
Definition packed_ok (p : packed) : bool := (N.to_nat (fst p) <=? 7 * length (snd p))%nat.

(* res: None = an error was returned (or a panic, see panicked); Some segs = the slices handed to the callback *)
Inductive case :=
| CDirect (tcp : bool) (pkt : packed) (hl cs g : N) (res : option (list packed)) (panicked : bool)
| CPipe (vh : vhdr) (pkt : packed) (res : option (list packed)) (panicked : bool).

(* ---- the executable specification (the property, evaluated on the implementation's output) ---- *)

(* zero the fields segmentation rewrites; everything else must be a copy of the superpacket's header *)
Definition mask_hdr (tcp isV4 : bool) (cs : nat) (h : list N) : list N :=
  let h := if isV4 then wr (wr h 2 [0; 0; 0; 0]) 10 [0; 0] else wr h 4 [0; 0] in
  if tcp then wr (wr (wr h (cs + 4) [0; 0; 0; 0]) (cs + 13) [N.land (bat h (cs + 13)) 118]) (cs + 16) [0; 0]
  else wr h (cs + 4) [0; 0; 0; 0].

Definition testbitn (x : N) (b : N) : bool := N.testbit x b.

Definition spec_seg (tcp : bool) (pkt : list N) (hl cs g : nat) (n i off : nat) (seg : list N) : bool :=
  let isV4 := is_v4 pkt in
  let plen := (length seg - hl)%nat in
  let islast := (i =? n - 1)%nat in
  (hl <=? length seg)%nat &&
  (* payload: the next plen bytes of the superpacket's payload; at most g, exactly g unless last *)
  nlist_eqb (skipn hl seg) (firstn plen (skipn (hl + off) pkt)) &&
  (plen <=? g)%nat && (islast || (plen =? g)%nat) &&
  (* header: a copy apart from the rewritten fields (version/IHL, addresses, protocol, ports, ack, window, options ...) *)
  nlist_eqb (mask_hdr tcp isV4 cs (firstn hl seg)) (mask_hdr tcp isV4 cs (firstn hl pkt)) &&
  (* L3 *)
  (if isV4 then
     (rd16 seg 2 =? N.of_nat (length seg)) &&
     (rd16 seg 4 =? (rd16 pkt 4 + N.of_nat i) mod 65536) &&
     valid_csumb (firstn (ihl_of seg) seg)
   else rd16 seg 4 =? N.of_nat (length seg - 40)) &&
  (* L4 checksum over pseudo-header ++ L4 header ++ payload *)
  valid_csumb (pseudo_hdr isV4 seg (if tcp then 6 else 17) (N.of_nat (length seg - cs)) ++ skipn cs seg) &&
  (if tcp then
     let f := bat pkt (cs + 13) in let f' := bat seg (cs + 13) in
     (rd32 seg (cs + 4) =? (rd32 pkt (cs + 4) + N.of_nat off) mod 4294967296) &&
     Bool.eqb (testbitn f' 7) (testbitn f 7 && (i =? 0)%nat) &&
     Bool.eqb (testbitn f' 0) (testbitn f 0 && islast) &&
     Bool.eqb (testbitn f' 3) (testbitn f 3 && islast)
     (* the remaining flag bits are covered by mask_hdr *)
   else
     (rd16 seg (cs + 4) =? N.of_nat (length seg - cs)) && negb (rd16 seg (cs + 6) =? 0)).

Fixpoint spec_segs (tcp : bool) (pkt : list N) (hl cs g : nat) (n i off : nat) (segs : list (list N)) : bool :=
  match segs with
  | [] => (off =? length pkt - hl)%nat          (* the whole payload has been delivered *)
  | s :: r => spec_seg tcp pkt hl cs g n i off s &&
              (* only a header-only superpacket yields an empty segment *)
              ((0 <? length s - hl)%nat || (n =? 1)%nat) &&
              spec_segs tcp pkt hl cs g n (S i) (off + (length s - hl)) r
  end.

Definition spec_ok (tcp : bool) (pkt : list N) (hl cs g : nat) (segs : list (list N)) : bool :=
  (1 <=? length segs)%nat && spec_segs tcp pkt hl cs g (length segs) 0 0 segs.

(* ---- the check ---- *)

Definition segs_eqb := option_eqb (list_eqb nlist_eqb).

Definition obs_of (res : option (list packed)) : option (list (list N)) * bool :=
  match res with
  | None => (None, true)
  | Some os => (Some (map unpack os), forallb packed_ok os)
  end.

(* the in-place replay costs (#segments x buffer length) per case: run it on the small cases only *)
Definition small (pkt : list N) (hl g : nat) : bool :=
  (g =? 0)%nat || (N.of_nat (length pkt) * N.of_nat (seg_count (length pkt - hl) g) <=? 60000).

Definition is_none {A} (o : option A) : bool := match o with None => true | Some _ => false end.

Definition check_seg (tcp : bool) (pkt : list N) (hl cs g : nat) (obs : option (list (list N))) (panicked : bool) : list N :=
  let m := if tcp then segment_tcp pkt hl cs g else segment_udp pkt hl cs g in
  let wf := if tcp then wf_tcpb pkt hl cs g else wf_udpb pkt hl cs g in
  (* outside the property's hypotheses a returned error is always acceptable (a stricter validation is a harmless
     change); segments that are yielded must be the model's *)
  let tolerated := negb wf && is_none obs in
  flag 1 (negb panicked && (tolerated || segs_eqb m obs)) ++
  (if small pkt hl g && negb tolerated
   then flag 1 (segs_eqb (if tcp then segment_tcp_inplace pkt hl cs g else segment_udp_inplace pkt hl cs g) obs)
   else []) ++
  (if wf then flag 2 (match obs with Some segs => negb panicked && spec_ok tcp pkt hl cs g segs | None => false end)
   else []).

Definition check_case (c : case) : list N :=
  match c with
  | CDirect tcp pp hl cs g res panicked =>
      let pkt := unpack pp in
      let '(obs, okform) := obs_of res in
      flag 3 (okform && packed_ok pp) ++ check_seg tcp pkt (N.to_nat hl) (N.to_nat cs) (N.to_nat g) obs panicked
  | CPipe vh pp res panicked =>
      let pkt := unpack pp in
      let '(obs, okform) := obs_of res in
      flag 3 (okform && packed_ok pp) ++
      match decode_read pkt vh with
      | DSuper tcp hl cs g =>
          if (g =? 0)%nat then flag 1 (negb panicked && segs_eqb (Some [pkt]) obs)
          else check_seg tcp pkt hl cs g obs panicked
      | d => flag 1 (negb panicked && segs_eqb (segment_super pkt d) obs)
      end
  end.

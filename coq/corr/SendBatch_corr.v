(* Correspondence of model/SendBatch.v with /repo/overlay/batch SendBatch over the real batchWriter: cases are
   produced by harness `sendbatch` (Reserve / Commit / Flush histories; every committed datagram carries its id in
   its first 8 bytes and is recognised by that content in the iovecs the kernel would be given). *)
From Coq Require Import List NArith ZArith Bool Arith.
Import ListNotations.
From NV Require Import lib.Bytes lib.Corr gen.Consts_WriteBatch model.WriteBatch model.SendBatch corr.WriteBatch_corr.
Open Scope N_scope.

(* one Flush as observed: ids of the buffers WriteBatch was given (empty if it was not called), the sendFn calls
   (slot contents identified by datagram id), and what Flush returned *)
Record iflush := IFl { if_ids : list N; if_calls : list icall; if_ret : N; if_err : bool }.

Inductive case :=
| CHist (cap : N) (gso : bool) (maxSegs : N) (ops : list (option (N * N * bool)))   (* Some p = Commit p, None = Flush *)
        (script : list (Z * N)) (flushes : list iflush) (gso_after : bool) (panicked : bool).

Definition mk_ops (l : list (option (N * N * bool))) : list op :=
  map (fun o => match o with Some (a, b, c) => Commit (mkPkt a b c) | None => Flush end) l.

(* all committed datagrams, by id *)
Definition all_pkts (l : list (option (N * N * bool))) : list pkt :=
  flat_map (fun o => match o with Some (a, b, c) => [mkPkt a b c] | None => [] end) l.

(* ---- model output in the shape of the observation ---------------------------------------------------- *)
Definition view_entry_g (ids : list nat) (e : entry) : ientry :=
  IE (map (fun i => N.of_nat (nth i ids 0%nat)) (indices e))
     (if (2 <=? e_pkts e)%nat then Some (e_seg e) else None) (e_dst e).
Record xflush := XF { xf_ids : list N; xf_calls : list xcall; xf_ret : N; xf_err : bool }.
Definition view_flush (f : flush_rec) : option xflush :=
  let calls := map (fun c => XC (map (view_entry_g (f_ids f)) (c_offered c)) (c_sent c) (c_errno c)) (r_calls (f_res f)) in
  match r_out (f_res f) with
  | Done n => Some (XF (map N.of_nat (f_ids f)) calls n false)
  | NoProgress n => Some (XF (map N.of_nat (f_ids f)) calls n true)
  | _ => None
  end.
Definition obs_flush (f : iflush) : xflush := XF (if_ids f) (expand [] (if_calls f)) (if_ret f) (if_err f).
Definition xflush_eqb (a b : xflush) : bool :=
  nlist_eqb (xf_ids a) (xf_ids b) && list_eqb xcall_eqb (xf_calls a) (xf_calls b)
  && (xf_ret a =? xf_ret b) && Bool.eqb (xf_err a) (xf_err b).

(* ---- the property, executable, on the observed history ------------------------------------------------ *)
(* what each Flush must hand over: exactly the ids committed since the previous Flush, in commit order *)
Fixpoint expected_ids (next : N) (cur : list N) (ops : list (option (N * N * bool))) : list (list N) :=
  match ops with
  | [] => []
  | Some _ :: r => expected_ids (next + 1) (next :: cur) r
  | None :: r => rev cur :: expected_ids next [] r
  end.

Definition history_spec_ok (gso : bool) (maxSegs : N) (ops : list (option (N * N * bool))) (fl : list xflush) : bool :=
  let pkts := all_pkts ops in
  let calls := flat_map xf_calls fl in
  (* no datagram accepted twice over the whole history, total count, per-destination order, slot geometry *)
  spec_ok gso maxSegs pkts calls (fold_right N.add 0 (map xf_ret fl))
  (* every flush reports what the kernel accepted during that flush *)
  && forallb (fun f => xf_ret f =? N.of_nat (length (sent_idx (xf_calls f)))) fl
  (* every flush hands over exactly the datagrams committed since the previous flush *)
  && list_eqb nlist_eqb (map xf_ids fl) (expected_ids 0 [] ops).

Fixpoint all_some {A} (l : list (option A)) : option (list A) :=
  match l with
  | [] => Some []
  | Some x :: r => option_map (cons x) (all_some r)
  | None :: _ => None
  end.

Definition check_case (c : case) : list N :=
  match c with
  | CHist cap gso maxSegs ops script flushes gso_after panicked =>
      let fs := send_batch (N.to_nat cap) gso (N.to_nat maxSegs) (orc_of_script script) (mk_ops ops) in
      let obs := map obs_flush flushes in
      let gso_model := match rev fs with f :: _ => r_gso (f_res f) | [] => gso end in
      flag 1 (match all_some (map view_flush fs) with
              | Some m => list_eqb xflush_eqb m obs
              | None => false
              end && Bool.eqb gso_model gso_after && negb panicked)
      ++ flag 2 (history_spec_ok gso maxSegs ops obs)
  end.

(* Correspondence of model/CpuPick.v with /repo/cpupick: cases are produced by harness `cpupick`. *)
From Coq Require Import List NArith ZArith Bool.
Import ListNotations.
From NV Require Import lib.Bytes lib.Corr model.CpuPick.
Open Scope N_scope.

(* what the harness saw of one parseCPUList call: it returned (Some list / None = error), or it did not
   return within the time limit (the call runs in a goroutine of a throw-away worker process).
   The returned list is written as its maximal runs of consecutive values: (a, k) stands for a, a+1, ..., a+k
   (a literal of 8193 numbers takes Coq seconds to read). *)
Inductive parse_obs := PRet (r : option (list (N * N))) | PHung.

Definition expand_runs (runs : list (N * N)) : list N :=
  concat (map (fun r => count_up (fst r) (N.to_nat (snd r))) runs).

Inductive case :=
| CParse (s : list N) (obs : parse_obs)
| CMix (key out : N)
| CPick (allowed perf : list N) (routines : Z) (out : list N)
(* arrange on a topology given as the two Go maps (missing key = 0) and zeroCore; out = None: panic;
   stable: a second call on freshly built equal maps returned the same list *)
| CArr (cands : list N) (nodes cores : list (N * Z)) (zc routines : Z) (h : N) (out : option (list N)) (stable : bool)
(* perfCPUsFrom on a sysfs tree: the integer in cpuN/cpu_capacity and cpuN/cpufreq/cpuinfo_max_freq of the CPUs
   that have a readable one, the content of the P-core mask file *)
| CPerf (allowed : list N) (cap : list (N * Z)) (mask : option (list N)) (freq : list (N * Z))
        (cap_pct freq_pct : Z) (out : list N)
(* readTopologyFrom on a sysfs tree: nodeN directories in ReadDir order with their cpulist content, the
   (physical_package_id, core_id) of the CPUs with readable topology files; observed maps and zeroCore *)
| CTopo (entries : list (Z * option (list N))) (pc : list (N * (Z * Z))) (cpus : list N)
        (nodes cores : list (N * Z)) (zc : Z)
(* the real Default on this machine: allowed = util.AllowedCPUs, perf = perfCPUs(allowed), the maps =
   readTopology(pickCandidates(allowed, perf, routines)) *)
| CDefault (allowed perf : list N) (nodes cores : list (N * Z)) (zc routines : Z) (key : N)
           (out : option (list N)) (stable : bool).

Fixpoint assoc_opt {A : Type} (l : list (N * A)) (c : N) : option A :=
  match l with
  | [] => None
  | (k, v) :: r => if k =? c then Some v else assoc_opt r c
  end.

Definition obs_eqb (model : option (list N)) (obs : parse_obs) : bool :=
  match obs with
  | PRet r => option_eqb nlist_eqb model (option_map expand_runs r)
  | PHung => false                         (* every string is either accepted or refused: the parser returns *)
  end.

(* the clauses of the property, evaluated on a pin list the implementation produced *)
Definition pins_ok (t : topology) (cands : list N) (routines : Z) (out : list N) : bool :=
  subset_n out cands && (negb (nodup_n cands) || nodup_n out) && node_complete_b t cands routines out && zero_last_b t out.

Definition check_case (c : case) : list N :=
  match c with
  | CParse s obs =>
      flag 1 (obs_eqb (parse_cpu_list s) obs) ++
      (* the specification is the independent recogniser of the grammar, not the mirror of the code *)
      flag 2 (obs_eqb (recognise s) obs)
  | CMix key out => flag 1 (splitmix64 key =? out)
  | CPick allowed perf routines out =>
      flag 1 (nlist_eqb (pick_candidates allowed perf routines) out) ++
      flag 2 (negb (subset_n perf allowed) || subset_n out allowed)
  | CArr cands nodes cores zc routines h out stable =>
      let t := topo_of_lists nodes cores zc in
      match out with
      | None => [1; 2]
      | Some o => flag 1 (nlist_eqb (arrange cands t routines h) o) ++ flag 2 (pins_ok t cands routines o && stable)
      end
  | CPerf allowed cap mask freq cap_pct freq_pct out =>
      let src := mkPerfSrc (assoc_opt cap) mask (assoc_opt freq) cap_pct freq_pct in
      flag 1 (nlist_eqb (perf_cpus src allowed) out) ++
      flag 2 (subset_n out allowed && (negb (nodup_n allowed) || nodup_n out))
  | CTopo entries pc cpus nodes cores zc =>
      let t := read_topology entries (assoc_opt pc) cpus in
      flag 1 (forallb (fun c => (nodeOf t c =? assoc_z nodes c)%Z && (coreOf t c =? assoc_z cores c)%Z) cpus
              && (zeroCore t =? zc)%Z)
  | CDefault allowed perf nodes cores zc routines key out stable =>
      let t := topo_of_lists nodes cores zc in
      flag 1 (option_eqb nlist_eqb (default_pins allowed perf (fun _ => t) routines key) out) ++
      flag 2 (match out with
              | None => true
              | Some o => subset_n o allowed && (negb (nodup_n allowed) || nodup_n o) && zero_last_b t o
                          && (node_complete_b t allowed routines o || node_complete_b t perf routines o) && stable
              end)
  end.

(* Correspondence of model/KeyCrypt.v with /repo/cert/crypto.go and /repo/cert/pem.go: cases are produced by harness
   `keycrypt`.

   AES-256-GCM and Argon2id cannot be run inside Coq. The model's [decrypt] is evaluated in the IDEAL world the
   theorems of C43 assume: the key derivation is an injective function of (passphrase, salt, iterations, memory,
   parallelism) ([kdf_sym] writes them down), and the only ciphertext that opens is the one the real encryption
   produced, under the honest derived key and nonce ([dec_oracle]). What is compared with the real code is
   therefore everything around the cryptography: the protobuf layout, which bytes reach the key derivation and
   the cipher, every check, and their outcome on every mutation. *)
From Coq Require Import List NArith Bool.
Import ListNotations.
From NV Require Import lib.Bytes lib.Proto lib.Corr lib.KeyCrypt_lib gen.Consts_KeyCrypt model.KeyCrypt.
Open Scope N_scope.

(* one attempt to open: passphrase (None = the right one), banner (None = unchanged), "encoding/pem found a block",
   the block's bytes as an edit of the honest ones (offset, deleted, inserted), which fields differ according to the
   harness's own decoder (bit 0 banner, 1 algorithm, 2 version, 3 memory, 4 iterations, 5 parallelism, 6 salt,
   7 nonce, 8 ciphertext, 9 does not decode, 10 passphrase), and what DecryptAndUnmarshalSigningPrivateKey returned *)
Inductive trial :=
| T (pass' : option (list N)) (banner' : option (list N)) (pem_ok : bool) (off del : N) (ins : list N) (hit : N)
    (res : option (N * list N)).

Inductive case :=
| CUnmarshal (fn : N) (banner : list N) (len : N) (res : option (N * bool))
| CMarshal (fn curve : N) (res : option (list N * bool))
| CEnc (curve : N) (key pass : list N) (mem par it : N) (banner body : list N) (trials : list trial).

Definition kdf_sym (pass salt : list N) (it mem par : N) : list N :=
  N.of_nat (length pass) :: pass ++ N.of_nat (length salt) :: salt ++ [it; mem; par].

Definition dec_oracle (k0 n0 c0 m0 : list N) (k n c : list N) : option (list N) :=
  if beq k k0 && beq n n0 && beq c c0 then Some m0 else None.

Definition splice (body : list N) (off del : N) (ins : list N) : list N :=
  firstn (N.to_nat off) body ++ ins ++ skipn (N.to_nat off + N.to_nat del) body.

Definition res_eqb (a b : option (N * list N)) : bool :=
  option_eqb (fun x y => (fst x =? fst y) && beq (snd x) (snd y)) a b.

Definition bit (b : bool) (v : N) : N := if b then 0 else v.

(* which fields of (banner', body') differ from the honest container, by the MODEL's decoder *)
Definition hit_of (banner0 alg0 : list N) (a0 : argon) (blob0 : list N) (pem_ok : bool) (banner' body' : list N) : N :=
  if negb pem_ok then 512 else
  let hb := bit (beq banner' banner0) 1 in
  match parse_edata body' with
  | None => hb + 512
  | Some e =>
      match fields_of e with
      | None => hb + 512
      | Some (alg, a, blob) =>
          hb + bit (beq alg alg0) 2 + bit (a_version a =? a_version a0) 4 + bit (a_mem a =? a_mem a0) 8 +
          bit (a_it a =? a_it a0) 16 + bit (a_par a =? a_par a0) 32 + bit (beq (a_salt a) (a_salt a0)) 64 +
          (if Nat.leb (length blob) nonce_len then 512
           else bit (beq (firstn nonce_len blob) (firstn nonce_len blob0)) 128 +
                bit (beq (skipn nonce_len blob) (skipn nonce_len blob0)) 256)
      end
  end.

(* the property on the implementation's own verdict: it opens only if the passphrase is the right one and no field
   was altered (a banner is told apart by the key length it implies), and then returns exactly the key; and an
   unaltered container opens with the right passphrase *)
Definition spec_ok (curve : N) (key : list N) (hit : N) (res : option (N * list N)) : bool :=
  match res with
  | Some (cv', k') =>
      ((hit / 2) =? 0) && beq k' key && key_len_ok cv' k' &&
      implb (key_len_ok curve key) ((hit =? 0) && (cv' =? curve))
  | None => true
  end &&
  implb (hit =? 0) (res_eqb res (if key_len_ok curve key then Some (curve, key) else None)).

Definition check_trial (curve : N) (key pass banner body alg0 : list N) (a0 : argon) (blob0 : list N) (t : trial) : list N :=
  let '(T pass' banner' pem_ok off del ins hit res) := t in
  let p := match pass' with Some p => p | None => pass end in
  let bn := match banner' with Some b => b | None => banner end in
  let body' := if pem_ok then splice body off del ins else [] in
  let k0 := kdf_sym pass (a_salt a0) (a_it a0) (a_mem a0) (a_par a0) in
  let dec := dec_oracle k0 (firstn nonce_len blob0) (skipn nonce_len blob0) key in
  let model := if pem_ok then decrypt kdf_sym dec p (bn, body') else None in
  let mhit := hit_of banner alg0 a0 blob0 pem_ok bn body' + bit (beq p pass) 1024 in
  flag 1 (res_eqb model res) ++ flag 1 (mhit =? hit) ++ flag 2 (spec_ok curve key hit res).

Definition check_case (c : case) : list N :=
  match c with
  | CUnmarshal fn banner len res =>
      (* these functions are the property (a functional characterisation): a difference is a failing input *)
      flag 2 (option_eqb (fun x y => (fst x =? fst y) && Bool.eqb (snd x) (snd y))
                (match unmarshal_key fn (banner, repeat 0 (N.to_nat len)) with Some (_, cv) => Some (cv, true) | None => None end) res)
  | CMarshal fn curve res =>
      flag 2 (option_eqb (fun x y => beq (fst x) (fst y) && Bool.eqb (snd x) (snd y))
                (match marshal_banner fn curve with Some b => Some (b, true) | None => None end) res)
  | CEnc curve key pass mem par it banner body trials =>
      match parse_edata body with
      | None => [1]
      | Some e =>
          match fields_of e with
          | None => [1]
          | Some (alg0, a0, blob0) =>
              (* the layout the model writes is the layout the code wrote, with the salt and nonce it drew *)
              flag 1 (beq (encode_edata alg_name (mkArgon argon2_version mem par it (a_salt a0)) blob0) body &&
                      option_eqb beq (enc_banner curve) (Some banner) &&
                      (N.of_nat (length (a_salt a0)) =? generated_salt_len) &&
                      (N.of_nat (length blob0) =? gcm_nonce_len + N.of_nat (length key) + gcm_tag_len)) ++
              flat_map (check_trial curve key pass banner body alg0 a0 blob0) trials
          end
      end
  end.

(* Correspondence of model/HsMgr.v with /repo/handshake_manager.go + hostmap.go.  Cases come from the harness
   component `hsmgr`: one case is a whole history of handshake-manager operations run against the real
   HandshakeManager / HostMap (real Noise IX messages, real certificates); every step carries the operation,
   the packets the node put on the wire, and the canonical dump of all maps, of the per-tunnel data
   CheckAndComplete reads and of the blocked remotes of the pending handshakes.

   code 1: the model's outputs or state differ from the implementation's.
   code 2: the executable specification of the property (C09 or C10) rejects the implementation's behaviour. *)
From Coq Require Import List NArith Bool.
Import ListNotations.
From NV Require Import lib.Corr gen.Consts_HostMap model.HostMap model.HsMgr.
Open Scope N_scope.

Record hobs := mkObs {
  b_op : hop;
  b_outs : list out;               (* observed on the implementation *)
  (* the implementation's dump after the operation, as changes against the previous dump *)
  b_dinfos : list (N * hinfo);     (* hostinfos some map points to: new or changed *)
  b_dhosts : list (N * option N); b_dmore : list (N * option (list N)); b_didx : list (N * option N);
  b_dridx : list (N * option N); b_drel : list (N * option N); b_dpvpn : list (N * option N);
  b_dpidx : list (N * option N);
  b_dhxs : list (N * hx);          (* tunnels in Indexes: new or changed *)
  b_dblk : list (N * list N)       (* pending hostinfos: new or changed *)
}.

(* [CHsF]: [forged] lists the stage-1 payloads of the history that are altered copies (peer time rewritten) of an
   earlier genuine payload: the witness of known finding F27 *)
Inductive case :=
| CHs (cfg : config) (steps : list hobs) (final : HostMap.state)
| CHsF (cfg : config) (forged : list N) (steps : list hobs) (final : HostMap.state).

Definition apply_delta {V} (d : list (N * option V)) (m : amap V) : amap V :=
  fold_left (fun m e => match snd e with Some v => mset (fst e) v m | None => mdel (fst e) m end) d m.

Definition apply_sets {V} (d : list (N * V)) (m : amap V) : amap V :=
  fold_left (fun m e => mset (fst e) (snd e) m) d m.

(* a dump is an [hstate] whose [nxt] and [log] are unused *)
Definition dump_of (p : hstate) (b : hobs) : hstate :=
  let m := hm p in
  mkHS (mkSt (apply_sets (b_dinfos b) (infos m)) (apply_delta (b_dhosts b) (hosts m))
             (apply_delta (b_dmore b) (more m)) (apply_delta (b_didx b) (idx m))
             (apply_delta (b_dridx b) (ridx m)) (apply_delta (b_drel b) (rel m))
             (apply_delta (b_dpvpn b) (pvpn m)) (apply_delta (b_dpidx b) (pidx m)) [])
       (apply_sets (b_dhxs b) (hxs p)) (apply_sets (b_dblk b) (blk p)) 0 [].

Definition info_eqb (a b : option hinfo) : bool :=
  match a, b with Some x, Some y => hinfo_eqb x y | None, None => true | _, _ => false end.

(* model state [m] against dump [d]: all maps, the records of referenced hostinfos, the handshake data of the
   tunnels in Indexes, the blocked remotes of the pending hostinfos *)
Definition obs_eqb (m d : hstate) : bool :=
  maps_eqb (hm m) (hm d) &&
  forallb (fun h => info_eqb (mget h (infos (hm m))) (mget h (infos (hm d)))) (referenced (hm d)) &&
  forallb (fun h => hx_eqb (hx_of m h) (hx_of d h)) (map snd (idx (hm d))) &&
  forallb (fun h => nl_eqb (blk_of m h) (blk_of d h)) (map snd (pvpn (hm d))).

Definition outs_eqb := list_eqb out_eqb.

(* ---- executable specifications, evaluated on the implementation's dumps p (before) and d (after) ---- *)

Definition addrs_of (s : hstate) (h : N) : list N :=
  match mget h (infos (hm s)) with Some hi => hi_addrs hi | None => [] end.

Definition live_ids (s : hstate) : list N := map snd (idx (hm s)).

Definition is_stage2 (o : out) : bool := match o with OStage2 _ _ => true | _ => false end.
Definition is_test (o : out) : bool := match o with OTest _ _ => true | _ => false end.

(* the hostinfo records of the referenced hostinfos did not change *)
Definition infos_same (p d : hstate) : bool :=
  forallb (fun h => info_eqb (mget h (infos (hm p))) (mget h (infos (hm d)))) (referenced (hm d)).

Definition valid_stage1 (cfg : config) (cs cert : list N) : bool :=
  match cert with [] => false | _ :: _ => negb (has_self cfg cert) end &&
  match gen_index cs with Some _ => true | None => false end.

(* C10 *)
(* [born]: for every tunnel the responder created in this history, the peer-reported time of the stage 1 that
   created it - taken from the operation (the harness's input), not from what the implementation stored *)
Definition spec10_step (cfg : config) (forged : list N) (born : amap N) (o : hop) (outs : list out) (p d : hstate) : bool :=
  match o with
  | RespStage1 pkt cs ridx t cert v =>
      (* a tunnel created by this stage 1 stores exactly the peer-reported time, whatever its value (also beyond the
         responder's own clock) *)
      forallb (fun h => mem h (live_ids p) || ((x_time (hx_of d h) =? t) && negb (x_init (hx_of d h)))) (live_ids d) &&
      (* not newer than the peer-reported time of the handshake that created the primary this node holds as
         responder: no tunnel created, no map and no primary changed, no fresh stage 2 (only a resend of a tunnel
         already held) *)
      match cert with
      | a0 :: _ =>
          match mget a0 (hosts (hm p)) with
          | Some e =>
              match mget e born with
              | Some te =>
                  if valid_stage1 cfg cs cert && (t <=? te) then
                    maps_eqb (hm p) (hm d) && infos_same p d &&
                    forallb (fun o => match o with OStage2 x _ => mem x (live_ids p) | _ => true end) outs
                  else true
              | None => true
              end
          | None => true
          end
      | [] => true
      end &&
      (* the reading "a replayed - possibly altered - first message never replaces the primary": an altered copy of
         a captured stage 1 creates nothing and changes no map.  The code does not satisfy it (the first IX message is
         not authenticated when the responder acts on it): known finding F27 *)
      (if mem pkt forged then maps_eqb (hm p) (hm d) && infos_same p d else true) &&
      match cert with
      | [] => true
      | a0 :: _ =>
          if valid_stage1 cfg cs cert then
            (* replay of a stage 1 whose tunnel is still held for the first certificate address *)
            (if existsb (seen p pkt) (get_list (hm p) a0) then
               maps_eqb (hm p) (hm d) && infos_same p d &&
               match filter is_stage2 outs with
               | [OStage2 x w] => (w =? v) && mem x (get_list (hm p) a0) && seen p pkt x
               | _ => false
               end &&
               forallb (fun o => is_stage2 o || is_test o) outs
             else true) &&
            (* not newer than the primary this node accepted as responder *)
            (match mget a0 (hosts (hm p)) with
             | Some e =>
                 if negb (x_init (hx_of p e)) && (t <=? x_time (hx_of p e))
                 then maps_eqb (hm p) (hm d) && infos_same p d
                 else true
             | None => true
             end)
          else true
      end
  | _ => true
  end.

Definition subset (l1 l2 : list N) : bool := forallb (fun x => mem x l2) l1.

Definition pend_unref (d : hstate) (h : N) : bool :=
  negb (mem h (map snd (pvpn (hm d)))) && negb (mem h (map snd (pidx (hm d)))).

(* C09 *)
Definition spec09_step (cfg : config) (o : hop) (outs : list out) (p d : hstate) : bool :=
  (* Hosts[a] = h -> a is one of h's addresses and none of mine *)
  forallb (fun e => mem (fst e) (addrs_of d (snd e)) && negb (is_self cfg (fst e))) (hosts (hm d)) &&
  (* no established tunnel's recorded addresses contain one of mine, at any position *)
  forallb (fun h => negb (has_self cfg (addrs_of d h))) (live_ids d) &&
  (* a tunnel keeps the addresses of the certificate it was created with; a new tunnel comes from the
     handshake that completed in this step and carries exactly its certificate addresses *)
  forallb (fun h =>
     if mem h (live_ids p) then nl_eqb (addrs_of d h) (addrs_of p h)
     else
       match o with
       | RespStage1 pkt cs ridx t cert v =>
           nl_eqb (addrs_of d h) cert && negb (has_self cfg cert) &&
           negb (x_init (hx_of d h)) && (x_pkt0 (hx_of d h) =? pkt) && (x_time (hx_of d h) =? t)
       | InitComplete h' cert ridx t v =>
           (h =? h') && nl_eqb (addrs_of d h) cert && negb (has_self cfg cert) &&
           match addrs_of p h with a :: _ => mem a cert | [] => false end &&
           x_init (hx_of d h) && (x_time (hx_of d h) =? t)
       | _ => false
       end) (live_ids d) &&
  match o with
  | RespStage1 pkt cs ridx t cert v =>
      (* a certificate naming one of my addresses is refused *)
      if has_self cfg cert then maps_eqb (hm p) (hm d) && infos_same p d && outs_eqb outs [] else true
  | InitComplete h cert ridx t v =>
      if complete_guard h (hm p) then
        if has_self cfg cert then
          main_maps_eqb (hm p) (hm d) && pend_unref d h && outs_eqb outs []
        else
          match addrs_of p h with
          | a :: _ =>
              if mem a cert then true
              else
                (* wrong responder: nothing installed, sender blocked, handshake restarted *)
                main_maps_eqb (hm p) (hm d) && pend_unref d h &&
                match mget a (pvpn (hm d)) with
                | Some h' => negb (h' =? h) && mem v (blk_of d h') && subset (blk_of p h) (blk_of d h')
                | None => false
                end &&
                outs_eqb outs [OClose ridx v]
          | [] => true
          end
      else true
  | _ => true
  end.

(* ---- walking a history ------------------------------------------------------------------------------ *)

Record wstate := mkW { w_model : hstate; w_prev : hstate; w_born : amap N }.

(* tunnels that entered Indexes in a stage-1 step: remember the peer-reported time of that stage 1 *)
Definition born_step (o : hop) (p d : hstate) (born : amap N) : amap N :=
  match o with
  | RespStage1 _ _ _ t _ _ =>
      fold_left (fun m h => if mem h (live_ids p) then m else mset h t m) (live_ids d) born
  | _ => born
  end.

Definition walk_step (which : N) (cfg : config) (forged : list N) (w : wstate) (b : hobs) : wstate * list N :=
  let (m', om) := hstep cfg (b_op b) (w_model w) in
  let p := w_prev w in
  let d := dump_of p b in
  let e1 := flag 1 (outs_eqb om (b_outs b) && obs_eqb m' d) in
  let e2 := flag 2 (if which =? 9 then spec09_step cfg (b_op b) (b_outs b) p d
                    else spec10_step cfg forged (w_born w) (b_op b) (b_outs b) p d) in
  (mkW m' d (born_step (b_op b) p d (w_born w)), e1 ++ e2).

Fixpoint walk (which : N) (cfg : config) (forged : list N) (w : wstate) (l : list hobs) (final : HostMap.state) : list N :=
  match l with
  | [] => flag 1 (maps_eqb (hm (w_prev w)) final)     (* the reconstructed dump is the implementation's dump *)
  | b :: r => let (w', e) := walk_step which cfg forged w b in e ++ walk which cfg forged w' r final
  end.

Definition dedup_codes (l : list N) : list N :=
  (if mem 1 l then [1] else []) ++ (if mem 2 l then [2] else []).

Definition check_with (which : N) (c : case) : list N :=
  match c with
  | CHs cfg l f => dedup_codes (walk which cfg [] (mkW hinit hinit []) l f)
  | CHsF cfg forged l f => dedup_codes (walk which cfg forged (mkW hinit hinit []) l f)
  end.

Definition check_case09 : case -> list N := check_with 9.
Definition check_case10 : case -> list N := check_with 10.

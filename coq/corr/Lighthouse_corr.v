(* Correspondence of model/Lighthouse.v with /repo (lighthouse.go HandleRequest and handlers, remote_list.go
   cache setters).  Cases come from the harness component `lighthouse`: one case is a history of operations on
   one real LightHouse; every step carries the operation (a decoded message from a sender tunnel, or a completed
   handshake), the messages sent / punches scheduled that the harness recorded, and what changed in addrMap
   (computed by the harness from two complete dumps).

   code 1: the model's outputs or its addrMap differ from the implementation's.
   code 2: the documented rule of the property (written below from the property text, not from the generated
           table) rejects what the implementation did. *)
From Coq Require Import List NArith Bool.
Import ListNotations.
From NV Require Import lib.Ip lib.Corr gen.Tab_Lighthouse model.Lighthouse.
Open Scope N_scope.

Record hs := mkHs {
  h_op : hop;
  h_outs : list out;                (* observed on the implementation, in order *)
  h_dkeys : list (addr * N);        (* addrMap keys that are new (or map to another list) after the operation *)
  h_drecs : list (N * rlist);       (* RemoteLists that are new or changed, complete *)
  (* Some l: before this operation the configuration was reloaded (the real LightHouse.reload through the config
     reload callback) with lighthouse.hosts = l; the gate is judged against the configuration in force at delivery *)
  h_reload : option (list addr)
}.

Inductive case := CHist (c : cfg) (init : state) (steps : list hs).

(* ---- equality of observations ----------------------------------------------------------------------- *)

Definition pair_eqb {A B} (ea : A -> A -> bool) (eb : B -> B -> bool) (x y : A * B) : bool :=
  ea (fst x) (fst y) && eb (snd x) (snd y).
Definition nn_eqb := pair_eqb N.eqb N.eqb.
Definition nnn_eqb := pair_eqb nn_eqb N.eqb.

Definition msg_eqb (a b : lmsg) : bool :=
  (m_type a =? m_type b) && Bool.eqb (m_det a) (m_det b) && (m_old a =? m_old b) &&
  option_eqb nn_eqb (m_vpn a) (m_vpn b) && list_eqb nn_eqb (m_v4 a) (m_v4 b) && list_eqb nnn_eqb (m_v6 a) (m_v6 b) &&
  list_eqb N.eqb (m_orel a) (m_orel b) && list_eqb nn_eqb (m_rel a) (m_rel b).

Definition out_eqb (a b : out) : bool :=
  match a, b with
  | OSend d m, OSend d' m' => addr_eqb d d' && msg_eqb m m'
  | OPunch t v, OPunch t' v' => pair_eqb addr_eqb N.eqb t t' && addr_eqb v v'
  | ORespond v, ORespond v' => addr_eqb v v'
  | _, _ => false
  end.

Definition ce_eqb (a b : centry) : bool :=
  option_eqb nn_eqb (ce_l4 a) (ce_l4 b) && option_eqb nnn_eqb (ce_l6 a) (ce_l6 b) &&
  list_eqb nn_eqb (ce_v4 a) (ce_v4 b) && list_eqb nnn_eqb (ce_v6 a) (ce_v6 b) && list_eqb addr_eqb (ce_rel a) (ce_rel b).

(* maps are compared as maps: same size and every binding of one found in the other (keys are unique on both sides) *)
Definition amap_eqb {K V} (ek : K -> K -> bool) (ev : V -> V -> bool) (a b : list (K * V)) : bool :=
  (N.of_nat (length a) =? N.of_nat (length b)) &&
  forallb (fun kv => match aget ek (fst kv) b with Some v => ev (snd kv) v | None => false end) a.

Definition rl_eqb (a b : rlist) : bool :=
  list_eqb addr_eqb (rl_addrs a) (rl_addrs b) && amap_eqb addr_eqb ce_eqb (rl_cache a) (rl_cache b).

Definition state_eqb (a b : state) : bool :=
  amap_eqb addr_eqb N.eqb (s_amap a) (s_amap b) && amap_eqb N.eqb rl_eqb (s_recs a) (s_recs b) && (s_next a =? s_next b).

(* the implementation's state after a step: its previous state with the reported changes applied *)
Definition apply_delta (p : state) (s : hs) : state :=
  let recs := fold_left (fun m e => aset N.eqb (fst e) (snd e) m) (h_drecs s) (s_recs p) in
  mkSt (fold_left (fun m e => aset addr_eqb (fst e) (snd e) m) (h_dkeys s) (s_amap p)) recs (N.of_nat (length recs)).

(* ---- the documented rule, on the implementation's observations ------------------------------------------ *)

(* cache entries (list, owner) of [d] that are new or differ from [p] *)
Definition changed_entries (p d : state) : list (N * addr) :=
  flat_map (fun re : N * rlist =>
    let old := match rec_get (fst re) p with Some rl => rl_cache rl | None => [] end in
    flat_map (fun oe : addr * centry =>
      match aget addr_eqb (fst oe) old with
      | Some e => if ce_eqb e (snd oe) then [] else [(fst re, fst oe)]
      | None => [(fst re, fst oe)]
      end) (rl_cache (snd re))) (s_recs d).

Definition new_keys (p d : state) : list addr :=
  map fst (filter (fun kv => match amap_get (fst kv) p with Some _ => false | None => true end) (s_amap d)).

(* nothing that existed is lost or re-pointed: keys keep their list, lists keep their addresses and cache owners *)
Definition monotone (p d : state) : bool :=
  forallb (fun kv => match amap_get (fst kv) d with Some r => r =? snd kv | None => false end) (s_amap p) &&
  forallb (fun re : N * rlist =>
    match rec_get (fst re) d with
    | Some rl => list_eqb addr_eqb (rl_addrs (snd re)) (rl_addrs rl) &&
                 forallb (fun oe : addr * centry => match aget addr_eqb (fst oe) (rl_cache rl) with Some _ => true | None => false end)
                         (rl_cache (snd re))
    | None => false
    end) (s_recs p).

Definition unchanged (p d : state) : bool :=
  match changed_entries p d, new_keys p d with [], [] => N.of_nat (length (s_recs p)) =? N.of_nat (length (s_recs d)) | _, _ => false end.

Definition is_nil {A} (l : list A) : bool := match l with [] => true | _ => false end.

(* every changed entry is cache[fromVpnAddrs[0]] of the list that [key] maps to afterwards; new keys are among [keys];
   and (when no two certificates share an address, [wf]) every address mapped to that list is among [certified] *)
Definition writes_ok (wf : bool) (p d : state) (f : sender) (key : addr) (keys certified : list addr) : bool :=
  match amap_get key d with
  | None => false
  | Some rid =>
      forallb (fun ro : N * addr => (fst ro =? rid) && addr_eqb (snd ro) (fst f)) (changed_entries p d) &&
      forallb (fun a => mem a keys) (new_keys p d) &&
      (negb wf || is_nil (changed_entries p d) ||
       forallb (fun kv : addr * N => negb (snd kv =? rid) || mem (fst kv) certified) (s_amap d))
  end.

Definition spec_msg (c : cfg) (wf : bool) (p d : state) (f : sender) (pk : pkt) (outs : list out) : bool :=
  let ty := match pk with PMsg m => Some (m_type m) | PGarbage => None end in
  let is t := match ty with Some x => x =? t | None => false end in
  let cl := match pk with PMsg m => claimed m | PGarbage => None end in
  let slh := sender_lh c f in
  monotone p d &&
  (* stored information: a host update on a lighthouse, about the sender itself, under the sender's key;
     or a query reply from one of my lighthouses, under that lighthouse's key *)
  (unchanged p d ||
   (is t_host_update && c_am c &&
    match cl with Some a => mem a (all_from f) | None => true end &&
    writes_ok wf p d f (fst f) (all_from f) (all_from f)) ||
   (is t_host_query_reply && slh &&
    match cl with Some a => writes_ok false p d f a [a] [] | None => false end)) &&
  (* messages sent: only a lighthouse sends any; a query answer (and the punch request that goes with it) only for
     a query, an acknowledgement only for an update *)
  forallb (fun o =>
    match o with
    | OSend dst m =>
        c_am c &&
        (if m_type m =? t_host_query_reply then is t_host_query && addr_eqb dst (fst f)
         else if m_type m =? t_host_punch then is t_host_query && match cl with Some a => addr_eqb dst a | None => false end
         else if m_type m =? t_host_update_ack then is t_host_update && addr_eqb dst (fst f)
         else false)
    | OPunch _ v | ORespond v =>
        (* punches only on request of one of my lighthouses *)
        is t_host_punch && slh && match cl with Some a => addr_eqb v a | None => false end
    | OWeird _ => false
    end) outs &&
  (* a node that is not a lighthouse ignores host updates and queries, and everything not from its lighthouses *)
  (c_am c || (unchanged p d && is_nil outs) || (slh && (is t_host_query_reply || is t_host_punch))).

(* a completed handshake with [f] touches only f's own entry of f's list *)
Definition spec_learn (p d : state) (f : sender) (outs : list out) : bool :=
  monotone p d && is_nil outs && writes_ok false p d f (fst f) (all_from f) [].

(* no two senders of the history share an address unless they have the same addresses *)
Definition same_set (a b : list addr) : bool := forallb (fun x => mem x b) a && forallb (fun x => mem x a) b.
Definition disjoint (a b : list addr) : bool := forallb (fun x => negb (mem x b)) a.
Definition wf_senders (fs : list (list addr)) : bool :=
  forallb (fun a => forallb (fun b => same_set a b || disjoint a b) fs) fs.

(* the initial addrMap (static hosts): no two keys share a list; every list is known *)
Definition init_ok (st : state) : bool :=
  forallb (fun kv : addr * N =>
    match rec_get (snd kv) st with Some _ => true | None => false end &&
    forallb (fun kv' : addr * N => addr_eqb (fst kv) (fst kv') || negb (snd kv =? snd kv')) (s_amap st)) (s_amap st).

(* ---- content oracle ---------------------------------------------------------------------------------------
   What each injected operation CARRIED, recorded from the history itself (the messages are the fields of the
   bytes that were injected, decoded into a fresh struct): tunnel (first address), the overlay addresses the
   information is about, and the underlay addresses / relays it named.  Every underlay address and relay stored
   under owner o in the list of overlay address A must have been carried by a message of o's tunnel about A, and
   everything served in a query answer about A must have been carried by some recorded message about A. Nothing a
   message did not carry may appear (e.g. fields left over in the handler from an earlier message). *)
Record orec := mkOr {
  o_owner : addr; o_about : list addr;
  o_v4 : list (N * N); o_v6 : list (N * N * N); o_rel : list addr
}.

Definition oracle_of (o : hop) : list orec :=
  match o with
  | HMsg f (PMsg m) =>
      if m_type m =? t_host_update then [mkOr (fst f) (all_from f) (m_v4 m) (m_v6 m) (relays m)]
      else if m_type m =? t_host_query_reply then
        match claimed m with Some a => [mkOr (fst f) [a] (m_v4 m) (m_v6 m) (relays m)] | None => [] end
      else []
  | HMsg _ PGarbage => []
  | HLearn f ap =>
      if fst (fst ap) then [mkOr (fst f) (all_from f) [(snd (fst ap), snd ap)] [] []]
      else let '(hi, lo) := to_hl (fst ap) in [mkOr (fst f) (all_from f) [] [(hi, lo, snd ap)] []]
  end.

(* what the initial addrMap (static hosts) holds counts as carried *)
Definition oracle_init (st : state) : list orec :=
  flat_map (fun re : N * rlist =>
    map (fun oe : addr * centry =>
      mkOr (fst oe) (rl_addrs (snd re)) (opt_list (ce_l4 (snd oe)) ++ ce_v4 (snd oe))
           (opt_list (ce_l6 (snd oe)) ++ ce_v6 (snd oe)) (ce_rel (snd oe))) (rl_cache (snd re))) (s_recs st).

(* the record is about an address registered (in [st]) to list [rid] *)
Definition about_rid (st : state) (rid : N) (r : orec) : bool :=
  existsb (fun b => match amap_get b st with Some x => x =? rid | None => false end) (o_about r).

Definition carried (recs : list orec) (v4 : list (N * N)) (v6 : list (N * N * N)) (rel : list addr) : bool :=
  forallb (fun x => existsb (fun r => existsb (nn_eqb x) (o_v4 r)) recs) v4 &&
  forallb (fun x => existsb (fun r => existsb (nnn_eqb x) (o_v6 r)) recs) v6 &&
  forallb (fun x => existsb (fun r => mem x (o_rel r)) recs) rel.

(* every entry this step changed holds only what its owner's tunnel carried about that list *)
Definition content_ok (orc : list orec) (p d : state) : bool :=
  forallb (fun ro : N * addr =>
    match rec_get (fst ro) d with
    | None => false
    | Some rl =>
        match aget addr_eqb (snd ro) (rl_cache rl) with
        | None => false
        | Some e =>
            carried (filter (fun r => addr_eqb (o_owner r) (snd ro) && about_rid d (fst ro) r) orc)
                    (opt_list (ce_l4 e) ++ ce_v4 e) (opt_list (ce_l6 e) ++ ce_v6 e) (ce_rel e)
        end
    end) (changed_entries p d).

(* every address / relay in a message sent about address A (a query answer about A, a punch request about A) was
   carried by a recorded message about A *)
Definition served_ok (orc : list orec) (p : state) (outs : list out) : bool :=
  forallb (fun o =>
    match o with
    | OSend _ m =>
        if (m_type m =? t_host_query_reply) || (m_type m =? t_host_punch) then
          match claimed m with
          | None => false
          | Some a =>
              match amap_get a p with
              | None => false
              | Some rid => carried (filter (about_rid p rid) orc) (m_v4 m) (m_v6 m) (relays m)
              end
          end
        else is_nil (m_v4 m) && is_nil (m_v6 m) && is_nil (relays m)
    | _ => true
    end) outs.

Fixpoint walk (c : cfg) (wf : bool) (orc : list orec) (ms is_ : state) (steps : list hs) : list N :=
  match steps with
  | [] => []
  | s :: r =>
      let c := match h_reload s with Some l => mkCfg (c_am c) l (c_nets c) (c_v1 c) (c_respond c) | None => c end in
      let '(ms', mo) := hstep c ms (h_op s) in
      let d := apply_delta is_ s in
      let orc' := oracle_of (h_op s) ++ orc in
      flag 1 (list_eqb out_eqb mo (h_outs s) && state_eqb ms' d) ++
      flag 2 (match h_op s with
              | HMsg f pk => spec_msg c wf is_ d f pk (h_outs s)
              | HLearn f _ => spec_learn is_ d f (h_outs s)
              end && content_ok orc' is_ d && served_ok orc is_ (h_outs s)) ++
      walk c wf orc' ms' d r
  end.

Fixpoint dedup (l : list N) : list N :=
  match l with [] => [] | x :: r => if existsb (N.eqb x) r then dedup r else x :: dedup r end.

Definition check_case (cs : case) : list N :=
  match cs with
  | CHist c init steps =>
      let wf := wf_senders (map (fun s => all_from (op_sender (h_op s))) steps) && init_ok init in
      dedup (walk c wf (oracle_init init) init init steps)
  end.

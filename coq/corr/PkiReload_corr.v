(* Correspondence of model/PkiReload.v with /repo/pki.go: cases are produced by harness `pkireload`
   (a start-up followed by a history of reloads through one real PKI, with what the PKI holds after each). *)
From Coq Require Import List NArith Bool.
Import ListNotations.
From NV Require Import lib.Corr lib.ConnMgr_lib lib.PkiReload_lib gen.Tab_PkiReload model.PkiReload.
Open Scope N_scope.

(* what the harness read off the real PKI: the certificates in use and the key (PKI.getCertState), the overlay
   networks (CertState.myVpnNetworks), the trust store (PKI.GetCAPool: authorities, blocklisted peers), the verdict of
   CAPool.VerifyCachedCertificate on each peer (1 valid, 2 blocklisted, 3 refused otherwise), and whether every
   certificate / key / network / authority found there is one the harness handed in *)
Record obs := mkObs { ob_cs : cstate; ob_eff : list N; ob_pool : pool; ob_status : list N; ob_ok : bool }.

(* initial files, whether start-up succeeded, the peers (issuer, fingerprint), the state after start-up, and per
   reload: the new files, the new CA bundle, "a different CertState object is in use", "a different CAPool object
   is in use", the state afterwards *)
Inductive case :=
| CSeq (init : cand) (init_ca : cacand) (started : bool) (peers : list (N * N)) (o0 : obs)
       (steps : list (cand * cacand * bool * bool * obs)).

Definition st_code (c : certst) : N := match c with CNone => 0 | COk => 1 | CBlock => 2 | CInvalid => 3 end.

(* ---- code 1: the model against the implementation ------------------------------------------------- *)

Definition obs_matches (p : pki) (peers : list (N * N)) (o : obs) : bool :=
  ob_ok o && cstate_eqb (cs p) (ob_cs o) && nlist_eqb (st_nets (cs p)) (ob_eff o) && pool_eqb (ca p) (ob_pool o) &&
  nlist_eqb (map (fun pe => st_code (peer_status (ca p) pe)) peers) (ob_status o).

(* None = the situation is outside the generated tables *)
Fixpoint model_walk (p : pki) (peers : list (N * N)) (steps : list (cand * cacand * bool * bool * obs)) : option bool :=
  match steps with
  | [] => Some true
  | (c, a, csch, cach, o) :: r =>
      match step p (c, a) with
      | None => None
      | Some p' =>
          match model_walk p' peers r with
          | None => None
          | Some b => Some (b && obs_matches p' peers o && Bool.eqb csch (accepted (cs p) c) &&
                            Bool.eqb cach (ca_rule (ca_features a)))
          end
      end
  end.

(* ---- code 2: the property, evaluated on what the implementation did (no table, no model state) ------ *)

(* newly blocklisted or untrusted peers: the verdict the next connection-manager check will read *)
Fixpoint peers_ok (q : pool) (peers : list (N * N)) (st : list N) : bool :=
  match peers, st with
  | [], [] => true
  | pe :: pr, s :: sr =>
      implb (nmem (snd pe) (p_block q)) (s =? 2) && implb (negb (trusted q (fst pe))) (negb (s =? 1)) &&
      implb (negb (nmem (snd pe) (p_block q)) && trusted q (fst pe)) (s =? 1) && peers_ok q pr sr
  | _, _ => false
  end.

Definition obs_ok (peers : list (N * N)) (o : obs) : bool :=
  ob_ok o && inv_b (ob_cs o) && peers_ok (ob_pool o) peers (ob_status o).

(* documented: an unreadable bundle, or one whose authorities have all expired, keeps the previous trust store *)
Definition ca_must_keep (a : cacand) : bool :=
  negb (ca_kind a =? 0) ||
  (negb (existsb (fun x => negb (snd x)) (ca_cas a)) && existsb (fun x => snd x) (ca_cas a)).

(* the trust store a reload must leave in force, from the reload's OWN CA / blocklist inputs and the store before it:
   the new bundle with the new blocklist if it is readable (and not all expired), the previous store otherwise -
   whatever happened to the certificate half of the same reload *)
Definition expected_pool (prev : pool) (a : cacand) : pool := if ca_must_keep a then prev else pool_of a.

Definition step_ok (peers : list (N * N)) (o : obs) (a : cacand) (csch cach : bool) (o' : obs) : bool :=
  (* accepted: identity unchanged; refused: the previous certificates stay in use *)
  (if csch then id_step_b (ob_cs o) (ob_eff o) (ob_cs o') (ob_eff o')
   else cstate_eqb (ob_cs o) (ob_cs o') && nlist_eqb (ob_eff o) (ob_eff o')) &&
  (* the trust-store half is independent of the certificate half *)
  Bool.eqb cach (negb (ca_must_keep a)) &&
  pool_eqb (ob_pool o') (expected_pool (ob_pool o) a) &&
  (* ... and the peers' verdicts are the documented consequence of those inputs: blocklisted => rejected as
     blocklisted, issuer no longer an unexpired authority => rejected, otherwise still valid *)
  peers_ok (expected_pool (ob_pool o) a) peers (ob_status o') &&
  obs_ok peers o'.

Fixpoint spec_walk (peers : list (N * N)) (o : obs) (steps : list (cand * cacand * bool * bool * obs)) : bool :=
  match steps with
  | [] => true
  | (c, a, csch, cach, o') :: r => step_ok peers o a csch cach o' && spec_walk peers o' r
  end.

Definition check_case (c : case) : list N :=
  match c with
  | CSeq init ica started peers o0 steps =>
      (if started then flag 2 (obs_ok peers o0 && negb (ca_must_keep ica) && pool_eqb (ob_pool o0) (pool_of ica) &&
                               spec_walk peers o0 steps) else flag 2 (match steps with [] => true | _ => false end)) ++
      match start (init, ica) with
      | None => [3]
      | Some None => flag 1 (negb started)
      | Some (Some p0) =>
          flag 1 started ++
          (if started then
             flag 1 (obs_matches p0 peers o0) ++
             match model_walk p0 peers steps with None => [3] | Some b => flag 1 b end
           else [])
      end
  end.

(* Correspondence of model/Relay.v with /repo/relay_manager.go, hostmap.go, outside.go: cases come from harness
   `relay`.
   Codes: 1 = the model (generated tables + hand-written state threading, forward lookup, tunnel churn) differs from
          what the real code did;
          2 = the documented rules of C39, written from the property text and evaluated on the implementation's OWN
          dumps and forwards, reject what it did: a concrete failing row / history step. *)
From Coq Require Import List NArith Bool.
Import ListNotations.
From NV Require Import lib.Corr lib.Relay_lib gen.Tab_Relay model.Relay.
Open Scope N_scope.

(* a relay record as dumped: PeerAddr, LocalIndex, RemoteIndex, Type, State *)
Definition rec5 := (N * N * N * rtype * rstate)%type.
Definition q_peer5 (r : rec5) : N := let '(p, _, _, _, _) := r in p.
Definition q_idx5 (r : rec5) : N := let '(_, i, _, _, _) := r in i.
Definition q_rem5 (r : rec5) : N := let '(_, _, m, _, _) := r in m.
Definition q_ty5 (r : rec5) : rtype := let '(_, _, _, t, _) := r in t.
Definition q_st5 (r : rec5) : rstate := let '(_, _, _, _, s) := r in s.

Record dump := mkD {
  d_am : bool;
  d_tun : list (N * list rec5 * list N);   (* every tunnel ever inserted, by id: records by local index, RelayState.relays *)
  d_hosts : list (N * list N);             (* address -> unlockedGetHostList, by address *)
  d_index : list (N * N);                  (* HostMap.Indexes *)
  d_relays : list (N * N)                  (* HostMap.Relays *)
}.

Record obs := mkObs {
  ob_sends : list omsg;                    (* control messages on the wire, with the tunnel they were written to *)
  ob_hs : option N;                        (* handshake started to *)
  ob_dump : dump;                          (* state after the step *)
  ob_extra : list N;                       (* relay indexes probed besides the ones in use *)
  ob_hits : list (N * N * N * N * N);      (* (h, idx, t, r.LocalIndex, r.RemoteIndex): the lookups of handleOutsideRelayPacket
                                              forward a packet from tunnel h with relay index idx to t under record r *)
  ob_pkts : list (N * N * option N * N)    (* (idx, source tunnel, tunnel written to if it has an underlay address, index in the
                                              header): what readOutsidePackets did with a relay packet carrying idx *)
}.

Inductive rowcase := RQ (r : qrow) (a : act) | RX (r : xrow) (a : act).

Inductive case :=
| CRows (l : list rowcase)                                   (* abstract rows on fresh concrete situations *)
| CHist (me : list N) (am : bool) (steps : list (op * obs)). (* a history on one node *)

(* ---- equalities ---------------------------------------------------------------------------------- *)
Definition nn_eqb (a b : N * N) : bool := (fst a =? fst b) && (snd a =? snd b).
Definition optN_eqb := option_eqb N.eqb.
Definition rec5_eqb (a b : rec5) : bool :=
  (q_peer5 a =? q_peer5 b) && (q_idx5 a =? q_idx5 b) && (q_rem5 a =? q_rem5 b) && rtype_eqb (q_ty5 a) (q_ty5 b) &&
  rstate_eqb (q_st5 a) (q_st5 b).
Definition tun_eqb (a b : N * list rec5 * list N) : bool :=
  (fst (fst a) =? fst (fst b)) && list_eqb rec5_eqb (snd (fst a)) (snd (fst b)) && nlist_eqb (snd a) (snd b).
Definition hosts_eqb (a b : N * list N) : bool := (fst a =? fst b) && nlist_eqb (snd a) (snd b).
Definition dump_eqb (a b : dump) : bool :=
  eqb (d_am a) (d_am b) && list_eqb tun_eqb (d_tun a) (d_tun b) && list_eqb hosts_eqb (d_hosts a) (d_hosts b) &&
  list_eqb nn_eqb (d_index a) (d_index b) && list_eqb nn_eqb (d_relays a) (d_relays b).
Definition omsg_eqb (a b : omsg) : bool :=
  (o_to a =? o_to b) && (o_typ a =? o_typ b) && eqb (o_v1 a) (o_v1 b) && (o_from a =? o_from b) && (o_dst a =? o_dst b) &&
  (o_init a =? o_init b) && (o_resp a =? o_resp b).
Definition hit_eqb (a b : N * N * N * N * N) : bool :=
  let '(a1, a2, a3, a4, a5) := a in let '(b1, b2, b3, b4, b5) := b in
  (a1 =? b1) && (a2 =? b2) && (a3 =? b3) && (a4 =? b4) && (a5 =? b5).
Definition pkt_eqb (a b : N * N * option N * N) : bool :=
  let '(a1, a2, a3, a4) := a in let '(b1, b2, b3, b4) := b in
  (a1 =? b1) && (a2 =? b2) && optN_eqb a3 b3 && (a4 =? b4).

(* ---- the model's view ------------------------------------------------------------------------------- *)
Definition rec5_of (r : relay) : rec5 := (r_peer r, r_idx r, r_rem r, r_ty r, r_st r).
Definition dump_of (s : state) : dump :=
  mkD (s_am s) (map (fun e => (fst e, map rec5_of (t_recs (snd e)), t_via (snd e))) (s_tun s)) (s_hosts s) (s_index s) (s_relays s).

Fixpoint ins_sorted (x : N) (l : list N) : list N :=
  match l with
  | [] => [x]
  | y :: r => if x <? y then x :: y :: r else if x =? y then y :: r else y :: ins_sorted x r
  end.

(* the relay indexes worth probing: every record's local index, every key of Relays, the strangers *)
Definition idx_set (d : dump) (extra : list N) : list N :=
  fold_left (fun acc x => ins_sorted x acc)
            (flat_map (fun t => map q_idx5 (snd (fst t))) (d_tun d) ++ map fst (d_relays d) ++ extra) [].

Definition model_hits (s : state) (idxs : list N) : list (N * N * N * N * N) :=
  flat_map (fun e => flat_map (fun i => match forward s (fst e) i with
                                        | Some (t, r) => [(fst e, i, t, r_idx r, r_rem r)]
                                        | None => []
                                        end) idxs) (s_tun s).

Definition model_pkts (s : state) (idxs : list N) : list (N * N * option N * N) :=
  flat_map (fun i => match forward_pkt s i with
                     | Some (h, t, r) =>
                         [(i, h, match tun s t with Some tt' => if t_valid tt' then Some t else None | None => None end, r_rem r)]
                     | None => []
                     end) idxs.

(* ---- the documented rules on the implementation's observations ---------------------------------------- *)

Definition amem (x : N) (l : list N) : bool := existsb (N.eqb x) l.
Fixpoint alook {V} (k : N) (l : list (N * V)) : option V :=
  match l with [] => None | (k', v) :: r => if k =? k' then Some v else alook k r end.

Definition d_recs (d : dump) (h : N) : list rec5 :=
  match find (fun t => fst (fst t) =? h) (d_tun d) with Some t => snd (fst t) | None => [] end.
Definition d_rec_idx (d : dump) (h i : N) : option rec5 := find (fun r => q_idx5 r =? i) (d_recs d h).
Definition d_rec_addr (d : dump) (h a : N) : option rec5 := find (fun r => q_peer5 r =? a) (d_recs d h).
Definition d_list (d : dump) (a : N) : list N := match alook a (d_hosts d) with Some l => l | None => [] end.
Definition d_primary (d : dump) (a : N) : option N := hd_error (d_list d a).
Definition d_in_hosts (d : dump) (h : N) : bool := existsb (fun e => amem h (snd e)) (d_hosts d).

(* what the checker remembers along a history *)
Record ghost := mkG {
  g_addrs : list (N * (list N * bool));   (* tunnel -> certified addresses, has an underlay address *)
  g_born : list (N * N * bool);           (* (tunnel, local index, am_relay when the record appeared) *)
  g_dead : list N                         (* tunnels that have left the hostmap *)
}.

Definition g_addr (g : ghost) (h : N) : list N := match alook h (g_addrs g) with Some (l, _) => l | None => [] end.
Definition g_valid (g : ghost) (h : N) : bool := match alook h (g_addrs g) with Some (_, v) => v | None => false end.
Definition g_am (g : ghost) (h i : N) : bool :=
  existsb (fun e => let '(h', i', b) := e in (h' =? h) && (i' =? i) && b) (g_born g).

(* how a record of the previous dump may look now, for this kind of step *)
Definition step_trans_ok (o : op) (a b : rstate) : bool :=
  rstate_eqb a b ||
  match o with
  | OMsg _ _ _ => trans_ok message_transitions a b
  | ODel _ | OAdd _ _ _ _ _ => rstate_eqb b SDis            (* losing a tunnel (deleted, or retired by the per-address cap) *)
  | OStart _ _ _ => rstate_eqb a SDis && rstate_eqb b SReq
  | _ => false
  end.

(* every record of the previous dump is still there: same peer, type; state moved along a valid transition; the remote
   index changes only when the record is (re-)established by a message *)
Definition old_recs_ok (o : op) (prev new : dump) : bool :=
  forallb (fun t =>
    forallb (fun r =>
      match d_rec_idx new (fst (fst t)) (q_idx5 r) with
      | None => false
      | Some r' =>
          (q_peer5 r =? q_peer5 r') && rtype_eqb (q_ty5 r) (q_ty5 r') &&
          trans_ok allowed_transitions (q_st5 r) (q_st5 r') && step_trans_ok o (q_st5 r) (q_st5 r') &&
          ((q_rem5 r =? q_rem5 r') || match o with OMsg _ _ _ => rstate_eqb (q_st5 r') SEst | _ => false end)
      end) (snd (fst t))) (d_tun prev).

(* Whose records a control message may touch. A message received over tunnel mh changes the state / remote index of
   (A) the record of mh itself that a response names by its index, (B) as target, mh's own record for the source,
   (C) on a relay, the target leg: the record for the source on the primary tunnel of the requested target, which is put
       back to Requested and keeps its remote index, (D) the peer leg of a completed forwarding record of mh: the
       record for RelayToAddr on the primary tunnel of that record's peer, Established unless this node is still
       waiting for that peer's own answer, remote index kept - and of nothing else. In particular a record of another
       peer's tunnel is never completed (state and remote index) by an index named over mh, and a leg becomes
       Established only by a response received over the tunnel that owns it, or as (B) / (D). *)
Definition msg_scope_ok (me : list N) (o : op) (prev new : dump) : bool :=
  match o with
  | OMsg mh w _ =>
      forallb (fun t =>
        let x := fst (fst t) in
        forallb (fun r =>
          match d_rec_idx new x (q_idx5 r) with
          | None => false
          | Some r' =>
              (rstate_eqb (q_st5 r) (q_st5 r') && (q_rem5 r =? q_rem5 r')) ||
              match decode w with
              | None => false
              | Some (_, from, to) =>
                  let own := x =? mh in
                  let keep := q_rem5 r =? q_rem5 r' in
                  if w_typ w =? 2 then
                    (own && (q_idx5 r =? w_init w) && rstate_eqb (q_st5 r') SEst && (q_rem5 r' =? w_resp w)) ||      (* A *)
                    match d_rec_idx prev mh (w_init w) with                                                        (* D *)
                    | Some r0 =>
                        match q_ty5 r0 with
                        | TFwd => optN_eqb (d_primary prev (q_peer5 r0)) (Some x) && (q_peer5 r =? to) &&
                                  negb (rstate_eqb (q_st5 r) SReq) && rstate_eqb (q_st5 r') SEst && keep
                        | TTerm => false
                        end
                    | None => false
                    end
                  else if w_typ w =? 1 then
                    (own && amem to me && (q_peer5 r =? from) && rstate_eqb (q_st5 r') SEst && (q_rem5 r' =? w_init w)) ||   (* B *)
                    (d_am prev && negb (amem to me) && negb (amem from me) &&                                          (* C *)
                     optN_eqb (d_primary prev to) (Some x) && (q_peer5 r =? from) && rstate_eqb (q_st5 r') SReq && keep)
                  else false
              end
          end) (snd (fst t))) (d_tun prev)
  | _ => true
  end.

(* a record that was not there before: who may create what *)
Definition birth_ok (me : list N) (g : ghost) (o : op) (prev : dump) (h : N) (r : rec5) : bool :=
  match o with
  | OMsg mh w _ =>
      match decode w with
      | Some (_, from, to) =>
          (w_typ w =? 1) && negb (amem from me) &&
          match q_ty5 r with
          | TFwd =>
              (* forwarding state: only on a relay, for a target that is not this node *)
              d_am prev && negb (amem to me) &&
              (((h =? mh) && (q_peer5 r =? to) && rstate_eqb (q_st5 r) SPeerReq && (q_rem5 r =? w_init w)) ||
               (optN_eqb (d_primary prev to) (Some h) && g_valid g h && (q_peer5 r =? from) && rstate_eqb (q_st5 r) SReq &&
                (q_rem5 r =? 0)))
          | TTerm =>
              amem to me && (h =? mh) && (q_peer5 r =? from) && rstate_eqb (q_st5 r) SEst && (q_rem5 r =? w_init w)
          end
      | None => false
      end
  | OStart relay vpn _ =>
      negb (d_am prev) && optN_eqb (d_primary prev relay) (Some h) && (q_peer5 r =? vpn) &&
      match q_ty5 r with TTerm => rstate_eqb (q_st5 r) SReq | TFwd => false end
  | _ => false
  end.

Definition new_recs (prev new : dump) : list (N * rec5) :=
  flat_map (fun t => flat_map (fun r => match d_rec_idx prev (fst (fst t)) (q_idx5 r) with None => [(fst (fst t), r)] | Some _ => [] end)
                              (snd (fst t))) (d_tun new).

(* a forward found by the lookups of handleOutsideRelayPacket *)
Definition hit_ok (me : list N) (g : ghost) (d : dump) (x : N * N * N * N * N) : bool :=
  let '(h, idx, t, ridx, rrem) := x in
  match d_rec_idx d h idx, d_rec_idx d t ridx with
  | Some rin, Some r =>
      match q_ty5 rin, q_ty5 r with
      | TFwd, TFwd =>
          negb (amem (q_peer5 rin) me) && negb (amem (q_peer5 r) me) &&         (* never to / from this node itself *)
          amem t (d_list d (q_peer5 rin)) && amem (q_peer5 rin) (g_addr g t) && (* t is a tunnel for the requested peer *)
          negb (amem t (g_dead g)) &&
          rstate_eqb (q_st5 r) SEst &&                                            (* the onward leg is established ... *)
          amem (q_peer5 r) (g_addr g h) &&                                        (* ... for one of h's certified addresses *)
          (q_rem5 r =? rrem) &&
          g_am g h idx && g_am g t ridx &&                                        (* both legs were created while am_relay *)
          ((negb (t =? h)) || amem (q_peer5 rin) (g_addr g h))                    (* back to the sender only if it asked for itself *)
      | _, _ => false
      end
  | _, _ => false
  end.

(* what the receive path did with a relay packet *)
Definition pkt_ok (g : ghost) (d : dump) (hits : list (N * N * N * N * N)) (p : N * N * option N * N) : bool :=
  let '(idx, src, to, hidx) := p in
  optN_eqb (alook idx (d_relays d)) (Some src) && negb (amem src (g_dead g)) &&
  existsb (fun x => let '(h, i, t, _, rrem) := x in
                    (h =? src) && (i =? idx) && (rrem =? hidx) &&
                    match to with Some t' => (t' =? t) && g_valid g t | None => negb (g_valid g t) end) hits.

(* tunnels that left the hostmap own nothing any more *)
Definition dead_ok (d : dump) (dead : list N) : bool :=
  forallb (fun h => negb (d_in_hosts d h) && negb (existsb (fun e => snd e =? h) (d_relays d)) &&
                    negb (existsb (fun e => snd e =? h) (d_index d))) dead.

(* when the last tunnel of a peer goes, the legs towards it are disestablished *)
Definition peer_legs_ok (g : ghost) (prev new : dump) (h : N) : bool :=
  match g_addr g h with
  | [] => true
  | a0 :: _ =>
      if forallb (fun a => match d_list new a with [] => true | _ :: _ => false end) (g_addr g h) then
        forallb (fun r => match q_ty5 r with
                          | TTerm => true
                          | TFwd => forallb (fun x => match d_rec_addr new x a0 with
                                                      | Some r' => rstate_eqb (q_st5 r') SDis
                                                      | None => true
                                                      end) (d_list new (q_peer5 r))
                          end) (d_recs prev h)
      else true
  end.

Definition spec_step (me : list N) (g : ghost) (prev : dump) (o : op) (ob : obs) : ghost * bool :=
  let new := ob_dump ob in
  let g1 := match o with
            | OAdd id addrs _ valid _ => match alook id (g_addrs g) with
                                         | None => mkG ((id, (addrs, valid)) :: g_addrs g) (g_born g) (g_dead g)
                                         | Some _ => g
                                         end
            | _ => g
            end in
  let births := new_recs prev new in
  let gone := filter (fun h => d_in_hosts prev h && negb (d_in_hosts new h)) (map (fun t => fst (fst t)) (d_tun prev)) in
  let g2 := mkG (g_addrs g1) (map (fun b => (fst b, q_idx5 (snd b), d_am prev)) births ++ g_born g1) (gone ++ g_dead g1) in
  let ok :=
    old_recs_ok o prev new && msg_scope_ok me o prev new &&
    forallb (fun b => birth_ok me g1 o prev (fst b) (snd b)) births &&
    forallb (hit_ok me g2 new) (ob_hits ob) &&
    forallb (pkt_ok g2 new (ob_hits ob)) (ob_pkts ob) &&
    dead_ok new (g_dead g2) &&
    match o with
    | ODel id => negb (d_in_hosts new id) && peer_legs_ok g2 prev new id
    | OMsg _ _ _ | OStart _ _ _ => match gone with [] => true | _ :: _ => false end   (* messages never remove tunnels *)
    | _ => true
    end &&
    (* control messages are written only to tunnels of this node, by message steps *)
    match o with OMsg _ _ _ | OStart _ _ _ => true | _ => match ob_sends ob with [] => true | _ :: _ => false end end in
  (g2, ok).

(* ---- rows ------------------------------------------------------------------------------------------------ *)
Definition check_row (c : rowcase) : list N :=
  match c with
  | RQ r a =>
      flag 2 (qrow_gate_ok (r, a) && forallb (fun p => trans_ok message_transitions (fst p) (snd p)) (qrow_trans (r, a))) ++
      flag 1 (match req_decide r with Some a' => act_eqb a a' | None => false end)
  | RX r a =>
      flag 2 (xrow_gate_ok (r, a) && forallb (fun p => trans_ok message_transitions (fst p) (snd p)) (xrow_trans (r, a))) ++
      flag 1 (match resp_decide r with Some a' => act_eqb a a' | None => false end)
  end.

(* ---- histories ---------------------------------------------------------------------------------------------- *)
Definition check_step (me : list N) (s : state) (g : ghost) (prev : dump) (x : op * obs) : state * ghost * list N :=
  let (o, ob) := x in
  let '(s', sends, hs) := step s o in
  let idxs := idx_set (ob_dump ob) (ob_extra ob) in
  let (g', ok) := spec_step me g prev o ob in
  (s', g',
   flag 2 ok ++
   flag 1 (dump_eqb (dump_of s') (ob_dump ob)) ++
   flag 1 (list_eqb omsg_eqb sends (ob_sends ob) && optN_eqb hs (ob_hs ob)) ++
   flag 1 (list_eqb hit_eqb (model_hits s' idxs) (ob_hits ob) && list_eqb pkt_eqb (model_pkts s' idxs) (ob_pkts ob))).

Fixpoint check_steps (me : list N) (s : state) (g : ghost) (prev : dump) (l : list (op * obs)) : list N :=
  match l with
  | [] => []
  | x :: r =>
      let '(s', g', codes) := check_step me s g prev x in
      match codes with
      | [] => check_steps me s' g' (ob_dump (snd x)) r
      | _ :: _ => codes                                   (* stop at the first failing step *)
      end
  end.

Definition check_case (c : case) : list N :=
  match c with
  | CRows l => flat_map check_row l
  | CHist me am steps => check_steps me (init me am) (mkG [] [] []) (dump_of (init me am)) steps
  end.

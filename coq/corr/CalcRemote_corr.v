(* Correspondence of model/CalcRemote.v with /repo/calculated_remote.go and lighthouse.go
   addCalculatedRemotes: cases are produced by harness `calcremote`. *)
From Coq Require Import List NArith ZArith Bool.
Import ListNotations.
From NV Require Import lib.Corr model.CalcRemote.
Open Scope N_scope.

Inductive case :=
| CNew (cf mf : fam) (ma ml : N) (port : Z) (ok : bool)                    (* newCalculatedRemote err == nil *)
| CApply4 (ma ml : N) (port : Z) (oa : N) (res : option (N * N))          (* ApplyV4: Some (Addr, Port); None = refused / panicked *)
| CApply6 (ma ml : N) (port : Z) (oa : N) (res : option (N * N * N))      (* ApplyV6: Some (Hi, Lo, Port) *)
| CLookup (raws : list raw_entry) (cfg_ok : bool)                        (* LightHouse built from the config (or refused) *)
          (probes : list (fam * N * bool * list remote * bool)).        (* addCalculatedRemotes(x): (family, x, added, stored, panicked) *)

Definition remote_eqb (a b : remote) : bool :=
  match a, b with
  | R4 a1 p1, R4 a2 p2 => (a1 =? a2) && (p1 =? p2)
  | R6 h1 l1 p1, R6 h2 l2 p2 => (h1 =? h2) && (l1 =? l2) && (p1 =? p2)
  | _, _ => false
  end.

Definition port_ok (port : Z) : bool := (0 <=? port)%Z && (port <=? 65535)%Z.

(* ---- the property, on the implementation's outputs (uses only spliced / contains / port_ok) ---- *)
Definition remote_okb (xf : fam) (x : N) (raw : raw_remote) (r : remote) : bool :=
  let '(mf, ma, ml, port) := raw in
  fam_eqb mf xf && port_ok port &&
  match xf, r with
  | V4, R4 a p => spliced 32 ml ma x a && (Z.of_N p =? port)%Z
  | V6, R6 hi lo p => (hi <? 2 ^ 64) && (lo <? 2 ^ 64) && spliced 128 ml ma x (addr128 hi lo) && (Z.of_N p =? port)%Z
  | _, _ => false
  end.

Fixpoint all2 {A B} (f : A -> B -> bool) (l1 : list A) (l2 : list B) : bool :=
  match l1, l2 with
  | [], [] => true
  | a :: r1, b :: r2 => f a b && all2 f r1 r2
  | _, _ => false
  end.

(* the most specific configured range containing x (ranges in one configuration are distinct) *)
Definition spec_lpm (raws : list raw_entry) (xf : fam) (x : N) : option raw_entry :=
  fold_left (fun best e => let '(cf, ca, cl, _) := e in
               if contains cf ca cl xf x then
                 match best with
                 | Some (_, _, bl, _) => if bl <? cl then Some e else best
                 | None => Some e
                 end
               else best) raws None.

Definition raw_remote_ok (cf : fam) (r : raw_remote) : bool := let '(mf, _, _, port) := r in fam_eqb mf cf && port_ok port.
Definition raw_cfg_ok (raws : list raw_entry) : bool :=
  forallb (fun e : raw_entry => let '(cf, _, _, rr) := e in forallb (raw_remote_ok cf) rr) raws.

Definition spec_lookup (raws : list raw_entry) (xf : fam) (x : N) (cfg_ok added : bool) (res : list remote) (panicked : bool) : bool :=
  if negb cfg_ok then negb (raw_cfg_ok raws)          (* a refused configuration really is invalid *)
  else
    raw_cfg_ok raws && negb panicked &&
    Bool.eqb added (match res with [] => false | _ => true end) &&
    match spec_lpm raws xf x with
    | None => match res with [] => true | _ => false end      (* outside every range of its family: nothing *)
    | Some (_, _, _, rr) => all2 (remote_okb xf x) rr res
    end.

Definition check_case (c : case) : list N :=
  match c with
  | CNew cf mf ma ml port ok =>
      flag 1 (Bool.eqb (match new_calculated_remote cf mf ma ml port with Some _ => true | None => false end) ok)
      ++ flag 2 (Bool.eqb (fam_eqb mf cf && port_ok port) ok)
  | CApply4 ma ml port oa res =>
      let m := match new_calculated_remote V4 V4 ma ml port with Some c => apply_v4 c V4 oa | None => None end in
      flag 1 (option_eqb (fun a b => (fst a =? fst b) && (snd a =? snd b)) m res)
      ++ flag 2 (match res with
                 | Some (a, p) => remote_okb V4 oa (V4, ma, ml, port) (R4 a p)
                 | None => negb (port_ok port)
                 end)
  | CApply6 ma ml port oa res =>
      let m := match new_calculated_remote V6 V6 ma ml port with Some c => apply_v6 c V6 oa | None => None end in
      flag 1 (option_eqb (fun a b => let '(h1, l1, p1) := a in let '(h2, l2, p2) := b in (h1 =? h2) && (l1 =? l2) && (p1 =? p2)) m res)
      ++ flag 2 (match res with
                 | Some (hi, lo, p) => remote_okb V6 oa (V6, ma, ml, port) (R6 hi lo p)
                 | None => negb (port_ok port)
                 end)
  | CLookup raws cfg_ok probes =>
      flag 1 (match build_cfg raws with
              | None => negb cfg_ok
              | Some cfg => cfg_ok &&
                  forallb (fun '(xf, x, added, res, panicked) =>
                    negb panicked &&
                    match add_calculated cfg xf x with
                    | Some rs => list_eqb remote_eqb rs res && Bool.eqb added (match rs with [] => false | _ => true end)
                    | None => false
                    end) probes
              end)
      ++ flag 2 (if cfg_ok then forallb (fun '(xf, x, added, res, panicked) => spec_lookup raws xf x true added res panicked) probes
                 else spec_lookup raws V4 0 false false [] false)
  end.

(* Correspondence of model/Bits.v with /repo/bits.go: cases are produced by harness `bits`.
   A case is a whole history run on a fresh NewBits(L): the implementation's verdict for every
   Check/Update, whether each Check left (current, bits) untouched, and the final current and words. *)
From Coq Require Import List NArith Bool.
Import ListNotations.
From NV Require Import lib.Bytes lib.Corr model.Bits.
Open Scope N_scope.

Definition U := OUpdate.
Definition K := OCheck.

Inductive case :=
| CHist (L : N) (ops : list op) (verdicts : list bool) (checks_pure : bool) (final_cur : N) (final_words : list N)
| CNew (L : N) (ok : bool) (len mask cur : N) (words : list N).

Definition bool_list_eqb := list_eqb Bool.eqb.

(* every Check is immediately followed by the verdict it predicts: the history generator emits
   Check c; Update c pairs, and this compares the two verdicts wherever such a pair occurs *)
Fixpoint check_predicts (ops : list op) (vs : list bool) : bool :=
  match ops, vs with
  | OCheck c :: ((OUpdate c' :: _) as r), v :: ((v' :: _) as vr) =>
      (if c =? c' then Bool.eqb v v' else true) && check_predicts r vr
  | _ :: r, _ :: vr => check_predicts r vr
  | _, _ => true
  end.

Definition check_case (c : case) : list N :=
  match c with
  | CHist L ops vs pure cur ws =>
      match new_bits L with
      | None => [3]
      | Some b0 =>
          let '(mvs, mb) := run_ops b0 ops in
          (* 1: the word-level model reproduces the implementation: verdicts, current, bitmap words *)
          flag 1 (bool_list_eqb mvs vs && (b_cur mb =? cur) && nlist_eqb (b_words mb) ws)
          (* 2: the property itself, evaluated on the implementation's verdicts: they are the
                specification's verdicts, Check changes nothing and predicts Update *)
          ++ flag 2 (bool_list_eqb (fst (spec_run L spec_init ops)) vs)
          ++ flag 2 pure
          ++ flag 2 (check_predicts ops vs)
      end
  | CNew L ok len mask cur ws =>
      match new_bits L with
      | None => flag 1 (negb ok)
      | Some b => flag 1 (ok && (b_len b =? len) && (b_mask b =? mask) && (b_cur b =? cur) && nlist_eqb (b_words b) ws)
      end
  end.

(* Correspondence of model/Wheel.v with /repo/timeout.go (TimerWheel[uint64] and LockingTimerWheel[uint64]);
   cases are produced by harness component `wheel`.

   code 1: the model's Purge outputs (one entry per Purge call, order included) differ from the real wheel's.
           Compared for histories whose clock never steps back a full tick or more behind the largest instant
           seen (clock_okb tick): that is the domain of the timing theorems, and the only region where the
           sign of a negative tick count matters is outside it.
   code 2: the property's executable specification, evaluated on the REAL wheel's outputs, rejects them:
           - every Purge output is an item that was added and has not been returned before (all histories);
           - not early: an item is returned only when some Advance has reached
             (instant of the last Advance before its Add) + roundup_tick(clamp(timeout));
           - not late: whenever Purge says "nothing", every item for which the latest Advance has reached
             (instant of the last Advance before its Add) + roundup_tick(clamp(timeout)) + 2 ticks
             has already been returned  (the harness ends each history with a long advance and purges until
             "nothing", so this also checks that every item is returned at all).
           The two timing clauses are the documented rule of the property (C33), not the model; they are
           evaluated for clock_okb tick histories. Items added before the first Advance are timed from the
           first Advance. *)
From Coq Require Import List ZArith NArith Bool.
Import ListNotations.
From NV Require Import lib.Corr model.Wheel.
Open Scope Z_scope.

(* monomorphic aliases: cheap to elaborate in the generated literals *)
Definition WA (i : N) (T : Z) : op N := OAdd i T.
Definition WV (now : Z) : op N := OAdvance now.
Definition WP : op N := OPurge.

(* obs: one entry per Purge call: item + 1, or 0 when Purge said "nothing" *)
Inductive case :=
| CWheel (locking : bool) (mn mx : Z) (ops : list (op N)) (obs : list N)
  (* the history with more than timerCacheMax recycled cells is too long for evaluation here: the harness
     evaluates the same specification (specCheck in c_wheel.go) and reports its verdict *)
| CBulk (added returned : N) (spec_ok : bool).

(* documented clamp: below the resolution -> one tick; beyond the span -> the span (the tick wins if span < tick) *)
Definition spec_clamp (d mx T : Z) : Z := Z.max d (Z.min T mx).
Definition spec_roundup (d x : Z) : Z := ((x + d - 1) / d) * d.
Definition spec_due (d mx T : Z) : Z := spec_roundup d (spec_clamp d mx T).

(* a pending item: id, timeout, instant of the last Advance before the Add (None: not advanced yet) *)
Definition pitem := (N * Z * option Z)%type.

Fixpoint take_item (id : N) (p : list pitem) : option (pitem * list pitem) :=
  match p with
  | [] => None
  | ((i, T, c) as x) :: r =>
      if N.eqb i id then Some (x, r)
      else match take_item id r with Some (y, r') => Some (y, x :: r') | None => None end
  end.

Definition stamp (now : Z) (x : pitem) : pitem :=
  match x with (i, T, None) => (i, T, Some now) | _ => x end.

(* clk: instant of the latest Advance; cmax: largest instant handed to Advance so far *)
Fixpoint spec_run (timing : bool) (d mx : Z) (ops : list (op N)) (obs : list (option N))
                  (clk cmax : option Z) (pend : list pitem) : bool :=
  match ops with
  | [] => match obs with [] => true | _ => false end
  | OAdd id T :: r => spec_run timing d mx r obs clk cmax (pend ++ [(id, T, clk)])
  | OAdvance now :: r => spec_run timing d mx r obs (Some now) (clock_max cmax now) (map (stamp now) pend)
  | OPurge :: r =>
      match obs with
      | [] => false
      | Some id :: obs' =>
          match take_item id pend with
          | None => false                                   (* unknown item, or returned twice *)
          | Some ((_, T, c), pend') =>
              (negb timing ||
               match c, cmax with
               | Some c0, Some m => c0 + spec_due d mx T <=? m     (* not early *)
               | _, _ => false                                    (* returned by a wheel never advanced *)
               end)
              && spec_run timing d mx r obs' clk cmax pend'
          end
      | None :: obs' =>
          (negb timing ||
           forallb (fun x : pitem =>
                      match x, clk with
                      | (_, T, Some c0), Some now => negb (c0 + spec_due d mx T + 2 * d <=? now)   (* not late *)
                      | _, _ => true
                      end) pend)
          && spec_run timing d mx r obs' clk cmax pend
      end
  end.

Definition obs_eqb := list_eqb (option_eqb N.eqb).
Definition dec_obs (x : N) : option N := if N.eqb x 0 then None else Some (N.pred x).

Definition check_case (c : case) : list N :=
  match c with
  | CWheel _ mn mx ops obs0 =>
      let obs := map dec_obs obs0 in
      let timing := clock_okb mn None ops in
      flag 1 (negb timing || obs_eqb (trace ops (init mn mx)) obs)
      ++ flag 2 (spec_run timing mn mx ops obs None None [])
  | CBulk added returned ok => flag 2 (N.eqb added returned) ++ flag 2 ok
  end.

(* Correspondence of model/RouteCfg.v with /repo/overlay/route.go: cases are produced by harness `routecfg`. *)
From Coq Require Import List NArith ZArith Bool.
Import ListNotations.
From NV Require Import lib.Corr model.RouteCfg.
Open Scope N_scope.

(* nets = the overlay networks; ppt / pat = netip.ParsePrefix / netip.ParseAddr evaluated by the harness on
   every string of the configuration (strings not listed are invalid); v = the value of tun.routes /
   tun.unsafe_routes; res = the returned []Route or None for an error; panicked = the call panicked *)
Inductive case :=
| CRoutes (nets : list prefix) (ppt : list (list N * prefix)) (v : yaml) (res : option (list route)) (panicked : bool)
| CUnsafe (nets : list prefix) (ppt : list (list N * prefix)) (pat : list (list N * addr)) (v : yaml)
          (res : option (list route)) (panicked : bool).

Fixpoint table {A} (t : list (list N * A)) (s : list N) : option A :=
  match t with [] => None | (k, a) :: r => if str_eqb s k then Some a else table r s end.

Definition prefix_eqb (a b : prefix) : bool :=
  let '(f1, v1, b1) := a in let '(f2, v2, b2) := b in (f1 =? f2) && (v1 =? v2) && (b1 =? b2).
Definition addr_eqb (a b : addr) : bool :=
  let '(f1, v1, z1) := a in let '(f2, v2, z2) := b in (f1 =? f2) && (v1 =? v2) && str_eqb z1 z2.
Definition gw_eqb (a b : addr * Z) : bool := addr_eqb (fst a) (fst b) && (snd a =? snd b)%Z.
Definition route_eqb (a b : route) : bool :=
  let '(m1, k1, c1, g1, i1) := a in let '(m2, k2, c2, g2, i2) := b in
  (m1 =? m2)%Z && (k1 =? k2)%Z && prefix_eqb c1 c2 && list_eqb gw_eqb g1 g2 && Bool.eqb i1 i2.
Definition result_eqb := option_eqb (list_eqb route_eqb).

(* ---- the property as a checker of an accepted entry against the configuration it came from ------- *)

(* a numeric field: the stated integer (int or decimal string), the default only when the key is absent *)
Definition num_field_ok (m : list (list N * yaml)) (k : list N) (default : option Z) (lo hi : Z) (zero_ok : bool) (got : Z) : bool :=
  match ylookup k m with
  | None => match default with Some d => (got =? d)%Z | None => false end
  | Some v => match parse_num v with
              | Some z => (got =? z)%Z && (((lo <=? z)%Z && (z <=? hi)%Z) || (zero_ok && (z =? 0)%Z))
              | None => false
              end
  end.

Definition route_entry_ok (pp : list N -> option prefix) (nets : list prefix) (e : yaml) (r : route) : bool :=
  let '(mtu, metric, c, via, inst) := r in
  match e with
  | YMap m =>
      num_field_ok m k_mtu None 500 max_int false mtu
      && (metric =? 0)%Z && inst && (match via with [] => true | _ => false end)
      && match ylookup k_route m with
         | Some (YStr s) => option_eqb prefix_eqb (pp s) (Some c)
         | _ => false
         end
      && route_inside nets c
  | _ => false
  end.

Definition gateway_ok (pa : list N -> option addr) (v : yaml) (g : addr * Z) : bool :=
  match v with
  | YMap gm =>
      match ylookup k_gateway gm with
      | Some (YStr s) => option_eqb addr_eqb (pa s) (Some (fst g))
      | _ => false
      end
      && num_field_ok gm k_weight (Some 1%Z) 1 max_int32 false (snd g)
  | _ => false
  end.

Fixpoint all2 {A B} (f : A -> B -> bool) (l1 : list A) (l2 : list B) : bool :=
  match l1, l2 with
  | [], [] => true
  | a :: r1, b :: r2 => f a b && all2 f r1 r2
  | _, _ => false
  end.

Definition unsafe_entry_ok (pp : list N -> option prefix) (pa : list N -> option addr) (nets : list prefix)
           (e : yaml) (r : route) : bool :=
  let '(mtu, metric, c, via, inst) := r in
  match e with
  | YMap m =>
      num_field_ok m k_mtu (Some 0%Z) 500 max_int true mtu
      && num_field_ok m k_metric (Some 0%Z) 0 max_int32 false metric
      && match ylookup k_via m with
         | Some (YStr s) => option_eqb (list_eqb gw_eqb) (option_map (fun ip => [(ip, 1%Z)]) (pa s)) (Some via)
         | Some (YList l) => all2 (gateway_ok pa) l via
         | _ => false
         end
      && match ylookup k_route m with
         | Some (YStr s) => option_eqb prefix_eqb (pp s) (Some c)
         | _ => false
         end
      && match ylookup k_install m with
         | None => inst
         | Some vi => option_eqb Bool.eqb (parse_install vi) (Some inst)
         end
      && negb (base_in_networks nets c)
  | _ => false
  end.

Definition entries_ok (f : yaml -> route -> bool) (v : yaml) (rs : list route) : bool :=
  match v with
  | YNull => match rs with [] => true | _ => false end
  | YList l => all2 f l rs
  | _ => false
  end.

(* code 1: the model's result differs from the implementation's.
   code 2: the implementation panicked, or accepted something that is not a well-formed configuration with
   exactly the stated values, or refused a configuration the model accepts (every field well formed). *)
Definition check_case (c : case) : list N :=
  match c with
  | CRoutes nets ppt v res panicked =>
      let model := parse_routes (table ppt) nets v in
      flag 1 (result_eqb model res && negb panicked)
      ++ flag 2 (negb panicked)
      ++ flag 2 (match res with
                 | Some rs => entries_ok (route_entry_ok (table ppt) nets) v rs
                 | None => panicked || match model with Some _ => false | None => true end
                 end)
  | CUnsafe nets ppt pat v res panicked =>
      let model := parse_unsafe_routes (table ppt) (table pat) nets v in
      flag 1 (result_eqb model res && negb panicked)
      ++ flag 2 (negb panicked)
      ++ flag 2 (match res with
                 | Some rs => entries_ok (unsafe_entry_ok (table ppt) (table pat) nets) v rs
                 | None => panicked || match model with Some _ => false | None => true end
                 end)
  end.

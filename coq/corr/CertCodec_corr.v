(* Correspondence of model/CertCodec.v with /repo/cert: cases are produced by harness `certcodec`. *)
From Coq Require Import List NArith ZArith Bool Uint63.
Import ListNotations.
From NV Require Import lib.Bytes lib.Corr lib.Proto lib.Der model.CertCodec.
Open Scope N_scope.

(* Compact byte-string literals (parsing time of the generated case files is dominated by number literals, and
   primitive integers are read an order of magnitude faster than N): up to 7 bytes per primitive integer, big-endian,
   below a marker bit, e.g. 0x1a0b1 = bytes [0xa0; 0xb1]. Only used to write the cases down. *)
Definition chunk (x : int) : list N :=
  let z := Z.to_N (Uint63.to_Z x) in
  let k := N.log2 z / 8 in
  be_enc (N.to_nat k) (z - 2 ^ (8 * k)).
Definition bs (l : list int) : list N := flat_map chunk l.

Definition pfx_same (p q : pfx) : bool :=
  Bool.eqb (p_is4 p) (p_is4 q) && (p_addr p =? p_addr q) && (p_bits p =? p_bits q).

Definition cert_eqb (a b : cert) : bool :=
  nlist_eqb (c_name a) (c_name b) && list_eqb pfx_same (c_nets a) (c_nets b) &&
  list_eqb pfx_same (c_unsafe a) (c_unsafe b) && list_eqb nlist_eqb (c_groups a) (c_groups b) &&
  Bool.eqb (c_isca a) (c_isca b) && (c_nb a =? c_nb b)%Z && (c_na a =? c_na b)%Z &&
  nlist_eqb (c_issuer a) (c_issuer b) && (c_curve a =? c_curve b) && nlist_eqb (c_pub a) (c_pub b) &&
  nlist_eqb (c_sig a) (c_sig b).

Definition cert2_eqb (a b : cert2) : bool := cert_eqb (c2 a) (c2 b) && nlist_eqb (c2_raw a) (c2_raw b).

Definition any_eqb (a b : anycert) : bool :=
  match a, b with
  | V1 x, V1 y => cert_eqb x y
  | V2 x, V2 y => cert2_eqb x y
  | _, _ => false
  end.

(* what the harness saw of a certificate that Sign produced:
   the certificate as the accessors show it (and rawDetails for v2), Marshal(), MarshalForHandshakes(), the bytes
   handed to the signer callback, the bytes whose SHA-256 equals Fingerprint() (checked in the harness), and a
   bit mask of round trips that FAILED on the implementation: 1 = standard encoding through unmarshalCertificateV1/V2,
   2 = MarshalPEM -> UnmarshalCertificateFromPEM, 4 = MarshalForHandshakes -> Recombine with the key and curve,
   8 = a fingerprint differs after one of these round trips, 16 = SHA-256 of the claimed preimage is not the
   fingerprint. "Failed" means: error, or any field / raw details / fingerprint differs. *)
Record issued := mkIssued {
  i_cert : anycert; i_std : list N; i_hs : list N; i_signed : list N; i_fppre : list N; i_failed : N
}.

Inductive case :=
(* TBSCertificate.Sign / SignWith on version [ver]; [tbs] carries the fields (c_issuer = fingerprint bytes of the
   signer, c_sig = []), res = None when Sign refused *)
| CSign (ver : N) (tbs : cert) (res : option issued)
(* unmarshalCertificateV1(b, pk) *)
| CDec1 (pk : list N) (b : list N) (res : option cert)
(* unmarshalCertificateV2(b, pk, curve) *)
| CDec2 (pk : list N) (curve : N) (b : list N) (res : option cert2)
(* Recombine(v, b, pk, curve) with a non-nil pk *)
| CRecombine (v : N) (pk : list N) (curve : N) (b : list N) (res : option anycert)
(* UnmarshalCertificateFromPEM(pem(banner, b)): banner 1 = v1, 2 = v2, 3 = some other banner *)
| CPem (banner : N) (b : list N) (res : option anycert)
(* a v2 TBS certificate whose encoding is about MaxCertificateSize bytes long (one very long group), too large to be
   written down here: did Sign accept it, how long is (or would be) Marshal(), and did all three round trips succeed *)
| COversize (accepted : bool) (std_len : N) (roundtrips_ok : bool).

Definition sig_of (a : anycert) : list N := match a with V1 c => c_sig c | V2 c => c_sig (c2 c) end.

(* the structural rules signing enforces, as an executable predicate on what the decoder returned *)
Definition obeys_rules (a : anycert) : bool :=
  match a with
  | V1 c => valid_v1 c
  | V2 c => valid_v2 (c2 c)
  end.

Definition model_sign (ver : N) (tbs : cert) (sig : list N) : option anycert :=
  match ver with
  | 1 => option_map V1 (sign_v1 tbs sig)
  | 2 => option_map V2 (sign_v2 tbs sig)
  | _ => None
  end.

Definition dummy_sig : list N := [1].

Definition check_case (c : case) : list N :=
  match c with
  | CSign ver tbs None =>
      (* refused by the implementation: the model must refuse as well (for whatever non-empty signature) *)
      flag 1 (match model_sign ver tbs dummy_sig with None => true | Some _ => false end)
  | CSign ver tbs (Some i) =>
      match model_sign ver tbs (sig_of (i_cert i)) with
      | None => [1]
      | Some m =>
          flag 1 (any_eqb m (i_cert i)) ++
          match m with
          | V1 mc =>
              flag 1 (nlist_eqb (encode_v1 mc) (i_std i)) ++ flag 1 (nlist_eqb (encode_hs_v1 mc) (i_hs i)) ++
              flag 1 (nlist_eqb (tbs_v1 mc) (i_signed i)) ++ flag 1 (nlist_eqb (fp_pre_v1 mc) (i_fppre i)) ++
              (* the model decoders on the implementation's bytes *)
              flag 1 (option_eqb cert_eqb (decode_v1 [] (i_std i)) (Some mc)) ++
              flag 1 (option_eqb any_eqb (recombine 1 (i_hs i) (Some (c_pub mc)) (c_curve mc)) (Some m))
          | V2 mc =>
              flag 1 (nlist_eqb (encode_v2 mc) (i_std i)) ++ flag 1 (nlist_eqb (encode_hs_v2 mc) (i_hs i)) ++
              flag 1 (nlist_eqb (tbs_v2 mc) (i_signed i)) ++ flag 1 (nlist_eqb (fp_pre_v2 mc) (i_fppre i)) ++
              flag 1 (option_eqb cert2_eqb (decode_v2 [] 0 (i_std i)) (Some mc)) ++
              flag 1 (option_eqb any_eqb (recombine 2 (i_hs i) (Some (c_pub (c2 mc))) (c_curve (c2 mc))) (Some m))
          end
      end ++
      (* the property on the implementation: every encoding of an issued certificate decodes back to it *)
      flag 2 (i_failed i =? 0) ++ flag 2 (obeys_rules (i_cert i))
  | CDec1 pk b res =>
      flag 1 (option_eqb cert_eqb (decode_v1 pk b) res) ++
      flag 2 (match res with Some r => valid_v1 r | None => true end)
  | CDec2 pk cv b res =>
      flag 1 (option_eqb cert2_eqb (decode_v2 pk cv b) res) ++
      flag 2 (match res with Some r => valid_v2 (c2 r) | None => true end)
  | CRecombine v pk cv b res =>
      flag 1 (option_eqb any_eqb (recombine v b (Some pk) cv) res) ++
      flag 2 (match res with Some r => obeys_rules r | None => true end)
  | COversize accepted std_len ok =>
      (* model: SignWith accepts exactly the certificates that fit MaxCertificateSize; property: what Sign accepts
         must decode *)
      flag 1 (Bool.eqb accepted (std_len <=? max_certificate_size)) ++ flag 2 (negb accepted || ok)
  | CPem banner b res =>
      flag 1 (option_eqb any_eqb
                (option_map fst (unmarshal_pem (fun _ => Some (banner, b, [])) []))
                res) ++
      flag 2 (match res with Some r => obeys_rules r | None => true end)
  end.

(* Correspondence of model/Routing.v with /repo/routing: cases are produced by harness `routing`. *)
From Coq Require Import List NArith ZArith Bool.
Import ListNotations.
From NV Require Import lib.Bytes lib.Corr model.Routing.
Open Scope N_scope.

Inductive case :=
(* CalculateBucketsForGateways on NewGateway(_, w) for every w; res = the BucketUpperBound()s, None = panic *)
| CBuckets (ws : list N) (res : option (list Z))
(* BalancePacket for ports (lp, rp) on gateways of weights ws (addresses = positions 0..n-1), buckets
   calculated or not; bs = the implementation's bounds, h = hashPacket, res = (position of the returned
   address, ok) or None = panic; indep = hash and result were the same for every variation of the packet
   fields other than the two ports *)
| CBalance (lp rp : N) (ws : list N) (calc : bool) (bs : list Z) (h : N) (res : option (N * bool)) (indep : bool).

Definition zlist_eqb := list_eqb Z.eqb.
Definition res_eqb (a b : N * bool) : bool := (fst a =? fst b) && Bool.eqb (snd a) (snd b).

Definition valid_ws (ws : list N) : bool := negb (match ws with [] => true | _ => false end) && forallb weight_ok ws.

Definition positions (n : nat) : list N := map N.of_nat (seq 0 n).

Definition check_case (c : case) : list N :=
  match c with
  | CBuckets ws res =>
      flag 1 (option_eqb zlist_eqb (calc_buckets ws) res)
      ++ (if valid_ws ws
          then flag 2 (match res with Some bs => bounds_ok ws bs | None => false end)
          else [])
  | CBalance lp rp ws calc bs h res indep =>
      let gs := combine (positions (length ws)) ws in
      let model_gws := if calc then calculate gs else Some (uncalculated gs) in
      let impl_gws := combine (positions (length ws)) bs in
      flag 1 (hash_packet lp rp =? h)
      ++ flag 1 (option_eqb (list_eqb (fun a b => (fst a =? fst b) && (snd a =? snd b)%Z)) model_gws (Some impl_gws))
      ++ flag 1 (option_eqb res_eqb (match model_gws with Some g => balance lp rp g | None => None end) res)
      ++ flag 2 indep
      ++ (if calc && valid_ws ws
          then (* the property on the implementation's own bounds, hash and choice *)
               flag 2 (h <? two31)
               ++ flag 2 (bounds_ok ws bs)
               ++ flag 2 (match res with
                          | Some (a, ok) => ok && nlist_eqb (owners (Z.of_N h) (-1) impl_gws) [a]
                          | None => false
                          end)
          else [])
  end.

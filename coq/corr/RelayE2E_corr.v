(* Correspondence of model/RelayE2E.v with /repo (inside.go relay send path, outside.go relay receive path): cases are
   produced by the harness component `relaynet15` - a malicious relay between real nodes. Each manipulation the relay
   performs on real datagrams has a symbolic counterpart here; the model's verdict (accept / reject, who the plaintext
   is attributed to) must equal what the real endpoint did. *)
From Coq Require Import List NArith Bool.
Import ListNotations.
From NV Require Import lib.Corr lib.Sym model.RelayE2E.
Open Scope N_scope.

Inductive kind :=
| KGenuine      (* the relay forwards what it received *)
| KFlipCt       (* a bit of the payload's ciphertext or tag flipped *)
| KCtr          (* the payload header's counter changed *)
| KIdx          (* the payload header's index changed to another tunnel of the receiver *)
| KOwnKey       (* the relay encrypts a plaintext of its choice under a key it holds *)
| KClaimOther   (* the genuine payload forwarded under the relay record of another peer *)
| KReplay       (* a payload the receiver already accepted, wrapped again *)
| KTrunc        (* the payload cut short *)
| KSplice       (* header of one genuine payload, ciphertext of another *)
| KOldSession   (* a relay packet made under the relay tunnel keys of a previous session *)
| KJunk.        (* the payload replaced by bytes of the relay's making *)

Inductive case :=
| CRelay (k : kind) (fresh delivered to_inner_owner : bool) (mask : N)
  (* fresh: the payload's counter was not yet accepted (replay window, C11/C12); delivered: the sender's plaintext
     reached the receiver's tun; to_inner_owner: everything delivered / marked live is attributed to the tunnel that
     owns the payload's index; mask: effect set of model/Outside.v at the receiver *)
| CCross (steps : list (N * bool * bool * bool * bool))
  (* a session of genuine end-to-end frames of one sender arriving at the receiver in an adversarial order over both
     paths. Per arrival: the frame's end-to-end counter; whether it came through the relay (the relay packet as
     forwarded, or the frame wrapped again by the relay) or as the bare inner frame sent directly from an arbitrary
     address; whether the sender's plaintext reached the tun; whether everything that moved is attributed to the
     sender's tunnel; whether the tunnel's underlay remote changed *)
| CView (seen markers leaks relay_tun : N).
  (* the relay received [seen] datagrams; [leaks] of the [markers] plaintext markers occur in them; [relay_tun]
     packets reached the relay's own tun *)

(* ---- the symbolic world: receiver B with tunnels to A (index 70, key 7, peer 1001) and A2 (80, 8, 1002), relay
   records 90 (claiming A) and 91 (claiming A2) on the tunnel to the relay (key 4; key 3 in the previous session) --- *)
Definition ts : list tunnel := [mkTunnel 70 7 1001; mkTunnel 80 8 1002].
Definition rA : relayrec := mkRelay 90 4 1001.
Definition rA2 : relayrec := mkRelay 91 4 1002.
Definition hA (c : N) : term := hdr t_message st_none 70 c.
Definition ctA (c d : N) : term := Aead (key 7) c (hA c) (data d).
Definition genuine : term := inner_pkt 7 70 12 (data 5).

(* (relay record used, index and counter the receiver reads from the payload header, the relay packet) *)
Definition sym (k : kind) : relayrec * N * N * term :=
  match k with
  | KGenuine | KReplay => (rA, 70, 12, outer_pkt 4 90 200 genuine)
  | KFlipCt => (rA, 70, 12, outer_pkt 4 90 200 (cat (hA 12) (Junk 1 48)))
  | KCtr => (rA, 70, 13, outer_pkt 4 90 200 (cat (hA 13) (ctA 12 5)))
  | KIdx => (rA, 80, 12, outer_pkt 4 90 200 (cat (hdr t_message st_none 80 12) (ctA 12 5)))
  | KOwnKey => (rA, 70, 12, outer_pkt 4 90 200 (inner_pkt 4 70 12 (data 5)))
  | KClaimOther => (rA2, 70, 12, outer_pkt 4 91 200 genuine)
  | KTrunc => (rA, 70, 12, outer_pkt 4 90 200 (fst (take dl 20 genuine)))
  | KSplice => (rA, 70, 12, outer_pkt 4 90 200 (cat (hA 12) (ctA 13 6)))
  | KOldSession => (rA, 70, 12, outer_pkt 3 90 200 genuine)
  | KJunk => (rA, 70, 12, outer_pkt 4 90 200 (Junk 2 64))
  end.

Definition model_verdict (k : kind) : option (N * term) :=
  let '(r, idx, c, t) := sym k in recv_outer ts r 200 idx c t.

Definition is_some {A} (o : option A) : bool := match o with Some _ => true | None => false end.

Definition e_live : N := 3.
Definition e_win : N := 4.
Definition e_recverr : N := 8.
(* liveness / window of the (authentic) relay tunnel, or a recv_error sent back: nothing of the end-to-end tunnel moved *)
Definition quiet (mask : N) : bool := N.ldiff mask (N.lor (2 ^ e_live) (N.lor (2 ^ e_win) (2 ^ e_recverr))) =? 0.

(* the property on the observations alone: one end-to-end counter is delivered at most once whatever the path; what is
   delivered is the sender's plaintext attributed to the sender; a refused copy does not roam the tunnel *)
Fixpoint cross_spec (delivered_before : list N) (l : list (N * bool * bool * bool * bool)) : bool :=
  match l with
  | [] => true
  | (c, _, d, own, roam) :: r =>
      implb d (negb (existsb (N.eqb c) delivered_before)) && own && implb roam d &&
      cross_spec (if d then c :: delivered_before else delivered_before) r
  end.

(* the model: every frame is authentic, so the first arrival of a counter is accepted (one window per tunnel, C11/C12)
   and every later one refused; an accepted direct frame roams the tunnel (handleHostRoaming), a relayed one never *)
Fixpoint cross_model (arrived : list N) (l : list (N * bool * bool * bool * bool)) : bool :=
  match l with
  | [] => true
  | (c, relayed, d, _, roam) :: r =>
      Bool.eqb d (negb (existsb (N.eqb c) arrived)) && Bool.eqb roam (d && negb relayed) && cross_model (c :: arrived) r
  end.

Definition check_case (c : case) : list N :=
  match c with
  | CRelay k fresh delivered owner mask =>
      (* code 2, the property: only the sender's own payload is ever delivered, once, attributed to the owner of the
         payload's index; a rejected payload leaves the receiver as it was (the authentic relay packet around it may
         mark the relay tunnel live and advance its window) *)
      flag 2 (implb delivered (match k with KGenuine | KClaimOther => fresh | _ => false end)) ++
      flag 2 owner ++
      flag 2 (implb (negb delivered) (quiet mask)) ++
      (* code 1: the symbolic endpoint's verdict *)
      flag 1 (Bool.eqb delivered (fresh && is_some (model_verdict k))) ++
      flag 1 (implb delivered (match model_verdict k with Some (who, p) => (who =? 1001) && term_eqb p (data 5) | None => false end))
  | CCross steps => flag 2 (cross_spec [] steps) ++ flag 1 (cross_model [] steps)
  | CView seen markers leaks relay_tun =>
      flag 2 (leaks =? 0) ++ flag 2 (relay_tun =? 0) ++ flag 3 (negb (seen =? 0) && negb (markers =? 0))
  end.

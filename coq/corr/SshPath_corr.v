(* Correspondence of model/SshPath.v with /repo/ssh.go sshSanitizeFilePath (+ the commands calling it) and
   with go's path/filepath.Clean: cases are produced by harness `sshpath`. *)
From Coq Require Import List NArith Bool.
Import ListNotations.
From NV Require Import lib.Corr model.SshPath.
Open Scope N_scope.

Inductive case :=
| CSan (sb p : list N) (ok : bool) (q : list N)          (* sshSanitizeFilePath(sb, p) = (q, nil) / error *)
| CClean (p out : list N)                                (* filepath.Clean(p) = out *)
| CCaller (cmd : N) (sb p : list N) (created : list (list N)).  (* files that appeared after the command ran *)

Definition res_eqb (r : result) (ok : bool) (q : list N) : bool :=
  match r with Ok q' => ok && nlist_eqb q' q | Refused => negb ok end.

(* The property, evaluated on what the implementation returned, by component-wise resolution only (no use of
   the model's clean/sanitize): an accepted path is the canonical absolute spelling of the location the
   user's path resolves to, and that location is strictly inside the sandbox. Stated for configured,
   absolute sandbox directories (the domain of the C45 theorems). *)
Definition inside_ok (sb q : list N) : bool :=
  is_abs q && strictly_inside (loc_of sb) (loc_of q) && nlist_eqb q (abs_render (loc_of q)).

Definition spec_ok (sb p : list N) (ok : bool) (q : list N) : bool :=
  if is_abs sb && ok then inside_ok sb q && list_eqb nlist_eqb (loc_of q) (resolve sb p) else true.

(* The property at command level (component-wise resolution only): every file that appeared while the command
   ran is strictly inside the sandbox and is the canonical spelling of the location the argument resolves to;
   nothing appears when the argument does not resolve strictly inside the sandbox. *)
Definition caller_spec_ok (sb p : list N) (created : list (list N)) : bool :=
  if is_abs sb then
    forallb (fun f => inside_ok sb f && list_eqb nlist_eqb (loc_of f) (resolve sb p)) created &&
    (strictly_inside (loc_of sb) (resolve sb p) || match created with [] => true | _ => false end)
  else true.

Definition check_case (c : case) : list N :=
  match c with
  | CSan sb p ok q => flag 1 (res_eqb (sanitize sb p) ok q) ++ flag 2 (spec_ok sb p ok q)
  | CClean p out => flag 1 (nlist_eqb (clean p) out)
  | CCaller _ sb p created =>
      flag 1 (match sanitize sb p with
              | Ok q => list_eqb nlist_eqb created [q]
              | Refused => match created with [] => true | _ => false end
              end)
      ++ flag 2 (caller_spec_ok sb p created)
  end.

(* Correspondence of model/Conntrack.v + model/FwReload.v with /repo (firewall.go Drop/inConns/addConn/evict,
   timeout.go, outside.go newPacket, interface.go reloadFirewall); cases are produced by the harness components
   `conntrack` (C18: packets and sleeps) and `fwreload` (C19: packets, sleeps and reloads through the real
   Interface.reloadFirewall), both running under the virtual clock of testing/synctest.

   A case is a timed history on one node plus everything the real code said about it:
     - per packet: the tuple the real newPacket produced for the wire packet and the real Drop's verdict
       (0 passes, 1 refused by an address check, 2 refused for want of a rule / tracked flow, 3 anything else);
     - the table [tab]: for every (rule set, peer, tuple) that occurs, the real address checks and the real
       FirewallTable.match of the in and out tables. This is the abstract [allowed] / [addr_ok] of the model.
     - per reload: whether the real reloadFirewall installed a new firewall.

   code 1: the model disagrees with the implementation: orientation of a packet, a verdict, a reload that was /
           was not installed, or a (rule set, peer, tuple) missing from the table.
   code 2: the history-level specification of C18/C19 (FwReload.flow_ok, for every flow of the history), evaluated
           on the IMPLEMENTATION's verdicts, rejects them: a packet passed that no rule allows and that has no
           live, validated tracked flow; or a packet was refused although a rule allows it or its flow is tracked,
           not idle longer than its timeout, and its original direction is allowed by the current rules.
           The specification is taken AS THE PROPERTY STATES IT (flow_ok false): a reload only ever marks flows for
           revalidation. The code additionally forgets every flow when rulesVersion wraps from 65535 to 0, which
           cuts flows the rules still allow: known finding F25, signature reload-version-wrap; the theorems
           (props/C19.v) are proved for the code's behaviour (flow_ok true) and the two specifications agree on
           every history without a wrap (C19_history_spec_as_stated).
           With a cache (CHistC) the specification is FwReload.cflow_ok: additionally a flow that the TABLE honoured
           since the last tick of the cache ticker passes (the documented staleness of one cache period), and
           nothing else does - in particular not a flow that was refused since that tick. *)
From Coq Require Import List ZArith NArith Bool.
Import ListNotations.
From NV Require Import lib.Corr model.Wheel model.Conntrack model.FwReload.
Open Scope N_scope.

(* rule set, peer, tuple, address checks pass, in table matches, out table matches *)
Definition row := (N * N * tuple * bool * bool * bool)%type.

Fixpoint tab_find (tab : list row) (rs p : N) (t : tuple) : option (bool * bool * bool) :=
  match tab with
  | [] => None
  | (rs', p', t', ok, ai, ao) :: r =>
      if N.eqb rs rs' && N.eqb p p' && tuple_eqb t t' then Some (ok, ai, ao) else tab_find r rs p t
  end.

Definition tab_allowed (tab : list row) (rs p : N) (incoming : bool) (t : tuple) : bool :=
  match tab_find tab rs p t with
  | Some (_, ai, ao) => if incoming then ai else ao
  | None => false
  end.

Definition tab_addr_ok (tab : list row) (rs p : N) (t : tuple) : bool :=
  match tab_find tab rs p t with
  | Some (ok, _, _) => ok
  | None => false
  end.

(* monomorphic constructors for the generated literals (cheap to elaborate) *)
Definition T6 (a b c d e : N) (f : bool) : tuple := (a, b, c, d, e, f).
Definition Rw (rs p : N) (t : tuple) (ok ai ao : bool) : row := (rs, p, t, ok, ai, ao).

Inductive cev :=
| CP (peer : N) (incoming : bool) (w : wire) (t : tuple)        (* t: what the real newPacket made of w *)
| CS (d : Z)
| CR (rs : N) (tcp udp def : Z) (installed : bool)               (* a reload with a changed configuration *)
| CN (installed : bool).                                         (* a reload with an unchanged configuration *)

Inductive case :=
| CHist (rs0 v0 : N) (tcp udp def : Z) (tab : list row) (h : list cev) (obs : list N)
  (* the same with a routine-local conntrack cache handed to every Drop: a real firewall.ConntrackCacheTicker of
     the given period started at the beginning of the history (instant 0) *)
| CHistC (period : Z) (rs0 v0 : N) (tcp udp def : Z) (tab : list row) (h : list cev) (obs : list N).

Fixpoint to_ev (h : list cev) : list ev :=
  match h with
  | [] => []
  | CP p d w _ :: r => EPkt p d (orient d w) :: to_ev r
  | CS d :: r => ESleep d :: to_ev r
  | CR rs tcp udp def _ :: r => EReload rs tcp udp def :: to_ev r
  | CN _ :: r => to_ev r
  end.

(* orientation agrees, reloads were installed exactly when the configuration changed, the table is complete *)
Fixpoint static_ok (tab : list row) (rs : N) (h : list cev) : bool :=
  match h with
  | [] => true
  | CP p d w t :: r =>
      tuple_eqb (orient d w) t
      && match tab_find tab rs p t with Some _ => true | None => false end
      && static_ok tab rs r
  | CS _ :: r => static_ok tab rs r
  | CR rs' _ _ _ inst :: r => inst && static_ok tab rs' r
  | CN inst :: r => negb inst && static_ok tab rs r
  end.

Fixpoint dedup (l : list tuple) : list tuple :=
  match l with
  | [] => []
  | t :: r => if existsb (tuple_eqb t) r then dedup r else t :: dedup r
  end.

Definition blist_eqb := list_eqb Bool.eqb.

Definition check_case (c : case) : list N :=
  match c with
  | CHist rs0 v0 tcp udp def tab h obs =>
      let al := tab_allowed tab in
      let ao := tab_addr_ok tab in
      let hh := to_ev h in
      let impl := map (fun o => N.eqb o 0) obs in
      let model := verdicts al ao hh (boot rs0 v0 tcp udp def 0%Z) in
      flag 1 (static_ok tab rs0 h)
      ++ flag 1 (forallb (fun o => negb (N.eqb o 3)) obs)
      ++ flag 1 (blist_eqb model impl)
      ++ flag 2 (forallb (fun f => flow_ok al ao false f (spec_boot rs0 v0 tcp udp def 0%Z) hh impl) (dedup (tuples_of hh)))
  | CHistC period rs0 v0 tcp udp def tab h obs =>
      let al := tab_allowed tab in
      let ao := tab_addr_ok tab in
      let hh := to_ev h in
      let impl := map (fun o => N.eqb o 0) obs in
      let model := cverdicts al ao hh (cboot (boot rs0 v0 tcp udp def 0%Z) period) in
      flag 1 (static_ok tab rs0 h)
      ++ flag 1 (forallb (fun o => negb (N.eqb o 3)) obs)
      ++ flag 1 (blist_eqb model impl)
      ++ flag 2 (forallb (fun f => cflow_ok al ao false f (cspec_boot (spec_boot rs0 v0 tcp udp def 0%Z) period) hh impl)
                         (dedup (tuples_of hh)))
  end.

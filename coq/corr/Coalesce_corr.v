(* Correspondence of model/Coalesce.v with /repo/overlay/batch (MultiCoalescer, TCPCoalescer, UDPCoalescer,
   Passthrough): cases are produced by harness `coalesce` (go/cmd/harness/c_coalesce.go).

   One case = one batch: the staged packets in Commit order (abstracted from the rendered bytes by the harness'
   reference classifier), the Write / WriteGSO calls the real MultiCoalescer made on a recording tio.GSOWriter
   (parsed back into the model's vocabulary), and the packets the harness' byte level reference segmenter (the
   kernel side: TSO / USO) makes of those calls.

     code 1  the model's writes differ from the implementation's
     code 2  the property's executable specification rejects the implementation's output: the re-segmented
             writes are not the batch's packets (each exactly once, modulo [approx]), or a flow's packets are out
             of transmission order beyond the pure-ACK exception, or a superpacket has a geometry / header fields
             the kernel does not accept, or a checksum completed from the coalescer's seed does not verify
     code 3  the harness' reference segmenter and the model's [kernel_segment] disagree on the implementation's
             writes (they are two renderings of the same kernel behaviour) *)
From Coq Require Import List NArith Bool String.
Import ListNotations.
From NV Require Import lib.Bytes lib.Corr gen.Consts_Coalesce model.Coalesce.
Open Scope N_scope.

(* byte strings: lower-case hex literals, or slices of the harness' deterministic payload streams *)
Definition hexval (a : Ascii.ascii) : N :=
  let n := Ascii.N_of_ascii a in if n <? 58 then n - 48 else n - 87.
Fixpoint hx (s : String.string) : list N :=
  match s with
  | String.String a (String.String b r) => (16 * hexval a + hexval b) :: hx r
  | _ => []
  end.

(* coalStreamByte: byte j of stream s is (s * 167 + j * (2 * (s mod 5) + 1) + (j / 256) * 31) mod 256, produced
   incrementally (no division per byte): x is the current byte, c = j mod 256 *)
Definition wrap8 (x : N) : N := if x <? 256 then x else x - 256.
Fixpoint pl_from (b x c : N) (n : nat) : list N :=
  match n with
  | O => []
  | S n' =>
      let x1 := wrap8 (x + b) in
      if c =? 255 then x :: pl_from b (wrap8 (x1 + 31)) 0 n'
      else x :: pl_from b x1 (c + 1) n'
  end.
Definition pl (s n : N) : list N := pl_from (2 * (s mod 5) + 1) ((s * 167) mod 256) 0 (N.to_nat n).

(* packet literals: F p is p; U t id seq flags ipck l4ck pay is template t (the t-th entry of the case's template
   list: a packet of the same flow printed in full, with these six fields blanked) with the six fields filled in *)
Inductive plit :=
| F (p : pkt)
| U (t id seq flags ipck l4ck : N) (pay : list N).

Definition resolve_p (tpls : list pkt) (l : plit) : option pkt :=
  match l with
  | F p => Some p
  | U t id seq flags ipck l4ck pay =>
      match nth_error tpls (N.to_nat t) with
      | Some p => Some (with_body (with_cks (with_flags (with_seq (with_id p id) seq) flags) ipck l4ck) pay [])
      | None => None
      end
  end.

(* writes / delivered packets; WI i / SI i: byte-identical to the i-th staged packet (the harness compared bytes) *)
Inductive wlit := WI (i : N) | WP (p : plit) | WG (proto : N) (hdr : plit) (iplen udplen : N) (pays : list (list N)).
Inductive slit := SI (i : N) | SP (p : plit).

Inductive case :=
| CBatch (tso uso : bool)            (* the GSO capabilities the writer advertises *)
         (tpls : list pkt)           (* templates for the U literals below *)
         (ins : list (key * plit))   (* Commit order *)
         (ws : list wlit)            (* Write / WriteGSO calls in call order *)
         (segs : list slit)          (* the calls re-segmented by the harness' kernel reference, in order *)
         (harness_ok : bool).        (* no panic; every recorded header parsed; every checksum completed from the
                                        coalescer's seed verified from scratch; the real tio.Offload put the
                                        contracted virtio_net_hdr + bytes on its descriptor for every call *)

Fixpoint resolve_ins (tpls : list pkt) (ins : list (key * plit)) : option (list staged) :=
  match ins with
  | [] => Some []
  | (k, l) :: r =>
      match resolve_p tpls l, resolve_ins tpls r with
      | Some p, Some r' => Some ((k, p) :: r')
      | _, _ => None
      end
  end.

Fixpoint resolve_ws (tpls pk : list pkt) (ws : list wlit) : option (list write) :=
  match ws with
  | [] => Some []
  | w :: r =>
      match resolve_ws tpls pk r with
      | None => None
      | Some r' =>
          match w with
          | WI i => match nth_error pk (N.to_nat i) with Some p => Some (WPlain p :: r') | None => None end
          | WP l => match resolve_p tpls l with Some p => Some (WPlain p :: r') | None => None end
          | WG proto hl iplen udplen pays =>
              match resolve_p tpls hl with
              | Some h => Some (WGso (mkGso proto h iplen udplen pays) :: r')
              | None => None
              end
          end
      end
  end.

Fixpoint resolve_ss (tpls pk : list pkt) (ss : list slit) : option (list pkt) :=
  match ss with
  | [] => Some []
  | s :: r =>
      match resolve_ss tpls pk r with
      | None => None
      | Some r' =>
          match s with
          | SI i => match nth_error pk (N.to_nat i) with Some p => Some (p :: r') | None => None end
          | SP l => match resolve_p tpls l with Some p => Some (p :: r') | None => None end
          end
      end
  end.

Definition gso_eqb (a b : gso) : bool :=
  (g_proto a =? g_proto b) && (g_iplen a =? g_iplen b) && (g_udplen a =? g_udplen b)
  && pkt_eqb (g_hdr a) (g_hdr b) && list_eqb nlist_eqb (g_pays a) (g_pays b).
Definition write_eqb (a b : write) : bool :=
  match a, b with
  | WPlain p, WPlain q => pkt_eqb p q
  | WGso g, WGso h => gso_eqb g h
  | _, _ => false
  end.

(* equal except for the two checksum fields *)
Definition eq_mod_cks (a b : pkt) : bool := pkt_eqb (with_cks a 0 0) (with_cks b 0 0).

(* ---- the property, executable ----------------------------------------------------------------------- *)

Fixpoint take_first (f : pkt -> bool) (l : list staged) : option (staged * list staged) :=
  match l with
  | [] => None
  | x :: r => if f (snd x) then Some (x, r)
              else match take_first f r with
                   | Some (y, r') => Some (y, x :: r')
                   | None => None
                   end
  end.

(* which staged packet each delivered packet is: the earliest transmitted one not yet used that is [approx] to
   it (packets that are [approx] to each other are interchangeable, and taking the earliest is the most
   favourable choice for the order check); None unless every staged packet is used exactly once *)
Fixpoint attribute (rel : pkt -> pkt -> bool) (ins : list staged) (outs : list pkt) : option (list staged) :=
  match outs with
  | [] => match ins with [] => Some [] | _ => None end
  | o :: r =>
      match take_first (fun i => rel i o) ins with
      | Some (x, ins') => match attribute rel ins' r with Some l => Some (x :: l) | None => None end
      | None => None
      end
  end.

(* q is delivered before p: not allowed when p was transmitted before q in the same flow, unless p is a pure ACK *)
Definition order_pair_ok (q p : staged) : bool :=
  if key_ltb (fst p) (fst q) then
    if same_flow (snd p) (snd q) then pure_ack (snd p) else true
  else true.
Fixpoint order_ok (l : list staged) : bool :=
  match l with
  | [] => true
  | q :: r => forallb (order_pair_ok q) r && order_ok r
  end.

Definition write_geometry_ok (w : write) : bool :=
  match w with WPlain _ => true | WGso g => geometry_okb g && seeds_okb g end.

Definition spec_ok (ins : list staged) (ws : list write) (delivered : list pkt) : bool :=
  forallb write_geometry_ok ws
  && match attribute approxb (sort_staged ins) delivered with
     | Some att => order_ok att
     | None => false
     end.

Definition check_case (c : case) : list N :=
  match c with
  | CBatch tso uso tpls lins ws segs harness_ok =>
      match resolve_ins tpls lins with
      | None => [1; 2]
      | Some ins =>
          let pk := map snd ins in
          match resolve_ws tpls pk ws, resolve_ss tpls pk segs with
          | Some iw, Some isegs =>
              (* the staged packets satisfy the representation invariants the theorems assume *)
              flag 1 (forallb (fun kp => wf_pktb (snd kp) && ranges_okb (snd kp)) ins
                      && list_eqb write_eqb (coalesce tso uso ins) iw)
              ++ flag 2 (spec_ok ins iw isegs && harness_ok)
              ++ flag 3 (list_eqb eq_mod_cks (tun_view iw) isegs)
          | _, _ => [1; 2]
          end
      end
  end.

(* Correspondence of model/Payload.v with /repo/handshake/payload.go and with the gogofaster-generated
   NebulaHandshake codec; cases are produced by harness component `payload` (go/cmd/harness/c_payload.go).
   Observations: [None] = the call panicked, [Some None] = it returned an error, [Some (Some x)] = it returned x. *)
From Coq Require Import List NArith Bool.
Import ListNotations.
From NV Require Import lib.Bytes lib.Corr lib.Proto model.Payload.
Open Scope N_scope.

Definition ptuple := (list N * N * N * N * N)%type.            (* cert, initiator, responder, time, version *)
Definition dtuple := (list N * N * N * N * N * N)%type.        (* cert, initiator, responder, cookie, time, version *)
Definition mtuple := (option dtuple * list N)%type.            (* Details, Hmac *)
Definition hobs := option (option ptuple).
Definition gobs := option (option mtuple).

Inductive case :=
| CMarshal (p : ptuple) (pre out : list N) (hdec : hobs) (gdec : gobs)
    (* out = MarshalPayload(pre, p); hdec = UnmarshalPayload(out[len(pre):]); gdec = NebulaHandshake.Unmarshal(same) *)
| CUnmarshal (b : list N) (h : hobs) (g : gobs)
| CReject (rule : N) (b : list N) (h : hobs)
    (* b was built from a valid encoding by injecting one violation of rejection rule [rule] *)
| CSchema (m : mtuple) (enc : list N) (h : hobs)
    (* enc = NebulaHandshake.Marshal(m); h = UnmarshalPayload(enc) *)
| CSkip (b_with b_without : list N) (h_with h_without : hobs).
    (* b_with = b_without plus one well-formed unknown field at a field boundary *)

Definition payload_of_tuple (t : ptuple) : payload :=
  let '(c, ii, ri, tm, v) := t in mkPayload c ii ri tm v.
Definition tuple_of_payload (p : payload) : ptuple := (p_cert p, p_ii p, p_ri p, p_time p, p_ver p).
Definition details_of_tuple (t : dtuple) : details_msg :=
  let '(c, ii, ri, ck, tm, v) := t in mkDetails c ii ri ck tm v.
Definition tuple_of_details (d : details_msg) : dtuple := (d_cert d, d_ii d, d_ri d, d_cookie d, d_time d, d_ver d).
Definition msg_of_tuple (t : mtuple) : hs_msg := mkHs (option_map details_of_tuple (fst t)) (snd t).
Definition tuple_of_msg (m : hs_msg) : mtuple := (option_map tuple_of_details (h_details m), h_hmac m).

Definition ptuple_eqb (a b : ptuple) : bool :=
  let '(c1, i1, r1, t1, v1) := a in let '(c2, i2, r2, t2, v2) := b in
  nlist_eqb c1 c2 && (i1 =? i2) && (r1 =? r2) && (t1 =? t2) && (v1 =? v2).
Definition dtuple_eqb (a b : dtuple) : bool :=
  let '(c1, i1, r1, k1, t1, v1) := a in let '(c2, i2, r2, k2, t2, v2) := b in
  nlist_eqb c1 c2 && (i1 =? i2) && (r1 =? r2) && (k1 =? k2) && (t1 =? t2) && (v1 =? v2).
Definition mtuple_eqb (a b : mtuple) : bool :=
  option_eqb dtuple_eqb (fst a) (fst b) && nlist_eqb (snd a) (snd b).

Definition hobs_eqb : hobs -> hobs -> bool := option_eqb (option_eqb ptuple_eqb).
Definition gobs_eqb : gobs -> gobs -> bool := option_eqb (option_eqb mtuple_eqb).

Definition model_h (b : list N) : hobs := Some (option_map tuple_of_payload (unmarshal_payload b)).
Definition model_g (b : list N) : gobs := Some (option_map tuple_of_msg (schema_decode b)).

Definition no_panic {A} (o : option A) : bool := match o with Some _ => true | None => false end.

(* the fields the hand-written API exposes, as the generated decoder saw them *)
Definition ptuple_of_mtuple (m : mtuple) : ptuple := tuple_of_payload (payload_of_msg (msg_of_tuple m)).

(* Cross-decoder agreement, evaluated on the two implementations' outputs: when both accept, the fields are the same;
   when the hand-written parser accepts and the generated one refuses, the input must be in the one documented class
   where that happens (a wrong wire type on Hmac=2 of the outer message or on Cookie=4 of Details: fields the schema
   knows and the parser does not, so it skips them): the strict variant of the parser refuses exactly those. *)
Definition agree (b : list N) (h : hobs) (g : gobs) : bool :=
  match h, g with
  | Some (Some p), Some (Some m) => ptuple_eqb p (ptuple_of_mtuple m)
  | Some (Some _), Some None => match unmarshal_strict b with None => true | Some _ => false end
  | _, _ => true
  end.

Definition check_case (c : case) : list N :=
  match c with
  | CMarshal p pre out hdec gdec =>
      let P := payload_of_tuple p in
      let body := skipn (length pre) out in
      (* model bytes = implementation bytes *)
      flag 1 (nlist_eqb (pre ++ marshal_payload P) out) ++
      (* lossless: the implementation decodes its own output to the same fields (nil/empty cert identified) *)
      flag 2 (hobs_eqb hdec (Some (Some p))) ++
      (* wire compatible: the generated decoder reads the same fields, no Cookie, no Hmac ... *)
      flag 2 (gobs_eqb gdec (Some (Some (tuple_of_msg (msg_of_payload P))))) ++
      (* ... and so do the two model decoders on the implementation's bytes *)
      flag 2 (gobs_eqb (model_g body) (Some (Some (tuple_of_msg (msg_of_payload P))))) ++
      flag 2 (hobs_eqb (model_h body) (Some (Some p)))
  | CUnmarshal b h g =>
      flag 1 (hobs_eqb (model_h b) h) ++
      flag 1 (gobs_eqb (model_g b) g) ++
      flag 2 (no_panic h) ++
      flag 2 (agree b h g)
  | CReject rule b h =>
      (* by construction of b the decoder must refuse *)
      flag 2 (hobs_eqb h (Some None)) ++
      flag 1 (hobs_eqb (model_h b) h)
  | CSchema m enc h =>
      let M := msg_of_tuple m in
      flag 1 (nlist_eqb (schema_encode M) enc) ++
      (* backward compatible: what the generated encoder wrote is read back field by field *)
      flag 2 (hobs_eqb h (Some (Some (tuple_of_payload (payload_of_msg M)))))
  | CSkip bw bo hw ho =>
      flag 2 (no_panic hw && no_panic ho && hobs_eqb hw ho) ++
      flag 1 (hobs_eqb (model_h bw) hw) ++
      flag 1 (hobs_eqb (model_h bo) ho)
  end.

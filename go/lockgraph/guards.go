package lockgraph

// guards.go - the WRITE-DISCIPLINE part of the C34 translator.  It reuses the SSA program, the call graph and the lock
// classes that Analyze builds and enumerates every SSA write into module state of two kinds:
//
//   imm    a store into a struct of a type that the source documents as IMMUTABLE AFTER PUBLICATION (wdImmutableTypes:
//          nebula.Relay): every *ssa.Store whose address is the struct itself or (a field path of) a FieldAddr on a
//          value of type *T.  The written object is FRESH iff it is an *ssa.Alloc of the same function (new, composite
//          literal, local copy) that cannot have escaped before the store: no use of the pointer other than loads and
//          stores through it lies on a control-flow path from the allocation to the store.  Anything else (a value
//          loaded from a map or a field, a call result, a parameter, a phi) is SHARED.
//   guard  a write to a map- or slice-typed field of a module struct that has a sync.Mutex / sync.RWMutex field of its
//          own (embedded or named): a MapUpdate on the loaded field, delete() on it, a store to one of its elements, or a
//          store to the field itself.  FRESH as above for the owning struct.
//
// For every write it computes the MUST-HELD lock classes, separately for write mode (Mutex.Lock, RWMutex.Lock) and read
// mode (RWMutex.RLock):
//   - inside a function: forward must-held dataflow (intersection at joins; Lock/RLock adds, Unlock/RUnlock removes; a
//     deferred unlock keeps the lock to the end of the function);
//   - a call removes every class that some possible callee (call graph: static callee or every VTA target; closures and
//     formatting methods when the call leaves the module) may NET-RELEASE: an Unlock/RUnlock (deferred or not) that is
//     not matched by a Lock/RLock of the same receiver value earlier in the same function;
//   - at function entry: the intersection, over every call site of the function in the call graph, of what is must-held
//     there (greatest fixpoint).  A `go` statement, a `defer`red call, and any caller outside the module contribute the
//     empty set; so does having no caller at all.
// "Held" is by lock CLASS (struct type + mutex field), like the lock-order graph: holding the guard of another instance
// of the same struct type is not distinguished.  A write through an alias (the map value passed to another function and
// updated there, a field address stored in a variable of pointer type that goes through a phi or a call) is not seen.

import (
	"fmt"
	"go/token"
	"go/types"
	"os"
	"sort"
	"strings"

	"golang.org/x/tools/go/ssa"
)

// types whose values the source documents as immutable once a pointer to them has been stored in shared state
// (/repo/hostmap.go, comment on RelayState).  The Coq model pins the same list by the generated constants.
var wdImmutableTypes = []string{"Relay"}

type WriteSite struct {
	ID    int
	Kind  string // "imm" | "guard"
	Obj   string // "Relay" | "HostMap.Hosts"
	Op    string // store | struct-store | mapupdate | delete | elem-store
	Fresh bool
	HeldW []string // lock classes must-held in write mode
	HeldR []string // ... in read mode
	File  string
	Line  int
	Col   int
	Func  string
	// Chain: for a write that is not fresh, the call chain on which least is held: starting at the writing function, the
	// call site (of those that reach the current function) with the fewest write-mode locks, and so on upwards
	Chain []string
}

type Guards struct {
	Types  []string // immutable types
	Fields []string // guarded-container candidates: "Type.field"
	Sites  []WriteSite
}

type wdHeld map[string]ssa.Value // "W:class" / "R:class" -> receiver base value (nil: unknown)

func (h wdHeld) clone() wdHeld {
	r := make(wdHeld, len(h))
	for k, v := range h {
		r[k] = v
	}
	return r
}

// meet: intersection; returns whether dst changed
func wdMeet(dst, src wdHeld) bool {
	ch := false
	for k, v := range dst {
		w, ok := src[k]
		if !ok {
			delete(dst, k)
			ch = true
		} else if v != nil && v != w {
			dst[k] = nil
			ch = true
		}
	}
	return ch
}

type wdAn struct {
	a        *analysis
	fns      []*ssa.Function
	isFn     map[*ssa.Function]bool
	siteTgts map[ssa.CallInstruction][]*ssa.Function
	viaLeave map[ssa.CallInstruction]map[*ssa.Function]bool // targets reached only through code outside the module
	release  map[*ssa.Function]set                          // net releases of the body itself
	relStar  map[*ssa.Function]set                          // ... and of everything it may call synchronously
	entry    map[*ssa.Function]wdHeld
	extern   map[*ssa.Function]bool // has a caller outside the module, or none
	bound    map[*ssa.Function]bool // function literals bound to their one call site (see computeBound)
	callers  map[*ssa.Function][]wdCaller
	universe []string
}

// wdLockOp: +1 Lock/RLock, -1 Unlock/RUnlock; mode "W" or "R"; the receiver.
func wdLockOp(c *ssa.CallCommon) (int, string, ssa.Value) {
	op, recv := lockOp(c)
	if op == 0 {
		return 0, "", nil
	}
	switch c.StaticCallee().Name() {
	case "RLock", "RUnlock":
		return op, "R", recv
	}
	return op, "W", recv
}

// wdBase: the object a mutex receiver belongs to, as an SSA value (nil when it cannot be named)
func wdBase(v ssa.Value) ssa.Value {
	switch x := v.(type) {
	case *ssa.FieldAddr:
		return x.X
	case *ssa.UnOp:
		if x.Op == token.MUL {
			if fa, ok := x.X.(*ssa.FieldAddr); ok {
				return fa.X
			}
		}
	case *ssa.Global:
		return x
	}
	return nil
}

func (w *wdAn) targets(fn *ssa.Function, site ssa.CallInstruction) []*ssa.Function {
	if t, ok := w.siteTgts[site]; ok {
		return t
	}
	var out []*ssa.Function
	seen := map[*ssa.Function]bool{}
	add := func(f *ssa.Function) {
		if f != nil && !seen[f] && w.isFn[f] {
			seen[f] = true
			out = append(out, f)
		}
	}
	leaves := false
	cc := site.Common()
	if g := cc.StaticCallee(); g != nil {
		if w.isFn[g] {
			add(g)
		} else if !inModule(g) {
			leaves = true
		}
	}
	if n := w.a.cg.Nodes[fn]; n != nil {
		for _, e := range n.Out {
			if e.Site == site && e.Callee != nil && e.Callee.Func != nil {
				if w.isFn[e.Callee.Func] {
					add(e.Callee.Func)
				} else {
					leaves = true
				}
			}
		}
	}
	if leaves {
		// code outside the module may run these later or on another goroutine (time.AfterFunc, WaitGroup.Go): they count
		// as callees for what the call may release, but enter with nothing held
		direct := len(out)
		for _, arg := range cc.Args {
			if fv := funcValue(arg); fv != nil {
				add(fv)
			}
		}
		for _, m := range w.a.boxedFormatters(fn) {
			add(m)
		}
		if len(out) > direct {
			w.viaLeave[site] = map[*ssa.Function]bool{}
			for _, t := range out[direct:] {
				w.viaLeave[site][t] = true
			}
		}
	}
	w.siteTgts[site] = out
	return out
}

// flow runs the must-held dataflow of fn from the given entry set and then calls visit for every instruction of every
// reachable block with the set held just before it (visit must not keep or change the map).
func (w *wdAn) flow(fn *ssa.Function, entry wdHeld, visit func(ins ssa.Instruction, held wdHeld)) {
	if len(fn.Blocks) == 0 {
		return
	}
	in := make([]wdHeld, len(fn.Blocks))
	in[0] = entry.clone()
	work := []*ssa.BasicBlock{fn.Blocks[0]}
	transfer := func(b *ssa.BasicBlock, held wdHeld, v func(ssa.Instruction, wdHeld)) {
		for _, ins := range b.Instrs {
			if v != nil {
				v(ins, held)
			}
			switch x := ins.(type) {
			case *ssa.Go, *ssa.Defer:
				// neither changes what this function holds now
			case ssa.CallInstruction:
				op, mode, recv := wdLockOp(x.Common())
				switch op {
				case 1:
					held[mode+":"+classOf(recv, fn, 0)] = wdBase(recv)
				case -1:
					delete(held, mode+":"+classOf(recv, fn, 0))
				default:
					for _, t := range w.targets(fn, x) {
						for k := range w.relStar[t] {
							delete(held, k)
						}
					}
				}
			}
		}
	}
	for len(work) > 0 {
		b := work[len(work)-1]
		work = work[:len(work)-1]
		held := in[b.Index].clone()
		transfer(b, held, nil)
		for _, s := range b.Succs {
			if in[s.Index] == nil {
				in[s.Index] = held.clone()
				work = append(work, s)
			} else if wdMeet(in[s.Index], held) {
				work = append(work, s)
			}
		}
	}
	if visit != nil {
		for _, b := range fn.Blocks {
			if in[b.Index] != nil {
				transfer(b, in[b.Index].clone(), visit)
			}
		}
	}
}

// balanced: an unlock of key with this receiver matches a lock of the same receiver value taken by this function
func wdBalanced(held wdHeld, key string, recv ssa.Value) bool {
	b, ok := held[key]
	return ok && b != nil && b == wdBase(recv)
}

func (w *wdAn) computeReleases() {
	w.release = map[*ssa.Function]set{}
	w.relStar = map[*ssa.Function]set{}
	for _, fn := range w.fns {
		w.release[fn] = set{}
		w.relStar[fn] = set{}
	}
	callees := map[*ssa.Function][]*ssa.Function{}
	for _, fn := range w.fns {
		seen := map[*ssa.Function]bool{}
		for _, b := range fn.Blocks {
			for _, ins := range b.Instrs {
				if _, isGo := ins.(*ssa.Go); isGo {
					continue
				}
				if ci, ok := ins.(ssa.CallInstruction); ok {
					if op, _ := lockOp(ci.Common()); op != 0 {
						continue
					}
					for _, t := range w.targets(fn, ci) {
						if !seen[t] {
							seen[t] = true
							callees[fn] = append(callees[fn], t)
						}
					}
				}
			}
		}
	}
	for round := 0; round < 100; round++ {
		ch := false
		for _, fn := range w.fns {
			rel := w.release[fn]
			w.flow(fn, wdHeld{}, func(ins ssa.Instruction, held wdHeld) {
				var cc *ssa.CallCommon
				switch x := ins.(type) {
				case *ssa.Go:
					return
				case ssa.CallInstruction:
					cc = x.Common()
				default:
					return
				}
				if op, mode, recv := wdLockOp(cc); op == -1 {
					key := mode + ":" + classOf(recv, fn, 0)
					if !wdBalanced(held, key, recv) && !rel[key] {
						rel[key] = true
						ch = true
					}
				}
			})
		}
		for again := true; again; {
			again = false
			for _, fn := range w.fns {
				st := w.relStar[fn]
				if st.addAll(w.release[fn]) {
					again, ch = true, true
				}
				for _, t := range callees[fn] {
					if st.addAll(w.relStar[t]) {
						again, ch = true, true
					}
				}
			}
		}
		if !ch {
			break
		}
	}
}

// wdBoundArgs: the function literals that the call x hands directly to call-only parameters of its static callee g (a
// func-typed parameter that g only calls, or hands on to such a parameter: lockgraph.go computeCallOnly).  Such a literal
// runs only inside this call, synchronously.
func (w *wdAn) wdBoundArgs(x ssa.CallInstruction) (*ssa.Function, []*ssa.Function) {
	cc := x.Common()
	g := cc.StaticCallee()
	if g == nil || !w.isFn[g] {
		return nil, nil
	}
	var out []*ssa.Function
	for i, arg := range cc.Args {
		if i < len(g.Params) && w.a.callOnly[g.Params[i]] {
			if fv := funcValue(arg); fv != nil && fv.Parent() != nil {
				out = append(out, fv)
			}
		}
	}
	return g, out
}

// computeBound: a function literal is BOUND when its only use in the function that contains it is as a direct argument
// for a call-only parameter of a module function.  Every execution of a bound literal happens inside that call, so its
// entry set is what the caller holds at the call minus what the callee may release - whatever other closures the
// callee's parameter receives elsewhere.  (Precision only: without it a shared helper such as tio.SegmentSuperpacket
// intersects the held sets of all its callers.)
func (w *wdAn) computeBound() {
	w.bound = map[*ssa.Function]bool{}
	for _, fn := range w.fns {
		uses := map[*ssa.Function]int{}   // operand uses of each literal (directly or as its MakeClosure)
		direct := map[*ssa.Function]int{} // ... of which: direct argument for a call-only parameter
		var ops []*ssa.Value
		for _, b := range fn.Blocks {
			for _, ins := range b.Instrs {
				if mc, ok := ins.(*ssa.MakeClosure); ok {
					if f, ok := mc.Fn.(*ssa.Function); ok && mc.Referrers() != nil {
						for _, r := range *mc.Referrers() {
							if _, dbg := r.(*ssa.DebugRef); !dbg {
								uses[f]++
							}
						}
					}
					continue
				}
				ops = ins.Operands(ops[:0])
				for _, o := range ops {
					if o != nil && *o != nil {
						if f, ok := (*o).(*ssa.Function); ok && f.Parent() == fn {
							uses[f]++
						}
					}
				}
				if ci, ok := ins.(ssa.CallInstruction); ok {
					if _, fvs := w.wdBoundArgs(ci); fvs != nil {
						for _, f := range fvs {
							direct[f]++
						}
					}
				}
			}
		}
		for f, n := range direct {
			if w.isFn[f] && f.Parent() == fn && n == uses[f] {
				w.bound[f] = true
			}
		}
	}
}

func (w *wdAn) computeEntries() {
	w.computeBound()
	// the universe of keys: every class that is locked anywhere, in both modes
	u := set{}
	for _, k := range w.a.order {
		for c := range w.a.get(k).acquires {
			u["W:"+c] = true
			u["R:"+c] = true
		}
	}
	for k := range u {
		w.universe = append(w.universe, k)
	}
	sort.Strings(w.universe)
	top := func() wdHeld {
		h := wdHeld{}
		for _, k := range w.universe {
			h[k] = nil
		}
		return h
	}
	w.extern = map[*ssa.Function]bool{}
	w.entry = map[*ssa.Function]wdHeld{}
	for _, fn := range w.fns {
		n := w.a.cg.Nodes[fn]
		ext := n == nil || len(n.In) == 0
		if n != nil {
			for _, e := range n.In {
				if e.Caller == nil || e.Caller.Func == nil || !w.isFn[e.Caller.Func] {
					ext = true
				}
			}
		}
		if w.bound[fn] {
			ext = false
		}
		w.extern[fn] = ext
		if ext {
			w.entry[fn] = wdHeld{}
		} else {
			w.entry[fn] = top()
		}
	}
	for round := 0; round < 200; round++ {
		next := map[*ssa.Function]wdHeld{}
		add := func(t *ssa.Function, held wdHeld) {
			h := wdHeld{}
			for k := range held {
				h[k] = nil
			}
			if cur, ok := next[t]; ok {
				wdMeet(cur, h)
			} else {
				next[t] = h
			}
		}
		// the literals bound at the call x of fn: entered with what fn holds there, minus what the callee may release
		bind := func(fn *ssa.Function, x ssa.CallInstruction, held wdHeld) {
			g, fvs := w.wdBoundArgs(x)
			for _, fv := range fvs {
				if !w.bound[fv] {
					continue
				}
				h := wdHeld{}
				if _, isCall := x.(*ssa.Call); isCall {
					for k := range held {
						if !w.relStar[g][k] {
							h[k] = nil
						}
					}
				}
				add(fv, h)
			}
		}
		contribute := func(t *ssa.Function, held wdHeld) {
			if w.extern[t] || w.bound[t] {
				return
			}
			h := wdHeld{}
			for k := range held {
				h[k] = nil
			}
			if cur, ok := next[t]; ok {
				wdMeet(cur, h)
			} else {
				next[t] = h
			}
		}
		for _, fn := range w.fns {
			w.flow(fn, w.entry[fn], func(ins ssa.Instruction, held wdHeld) {
				if ci, ok := ins.(ssa.CallInstruction); ok {
					bind(fn, ci, held)
				}
				switch x := ins.(type) {
				case *ssa.Go:
					for _, t := range w.targets(fn, x) {
						contribute(t, wdHeld{})
					}
				case *ssa.Defer:
					if op, _ := lockOp(x.Common()); op == 0 {
						for _, t := range w.targets(fn, x) {
							contribute(t, wdHeld{})
						}
					}
				case ssa.CallInstruction:
					if op, _ := lockOp(x.Common()); op == 0 {
						for _, t := range w.targets(fn, x) {
							if w.viaLeave[x][t] {
								contribute(t, wdHeld{})
							} else {
								contribute(t, held)
							}
						}
					}
				}
			})
		}
		ch := false
		for _, fn := range w.fns {
			if w.extern[fn] {
				continue
			}
			nx, ok := next[fn]
			if !ok {
				// only reached through targets we do not resolve (or not at all): nothing is known to be held
				nx = wdHeld{}
			}
			cur := w.entry[fn]
			if len(nx) != len(cur) {
				ch = true
			} else {
				for k := range nx {
					if _, ok := cur[k]; !ok {
						ch = true
					}
				}
			}
			w.entry[fn] = nx
		}
		if !ch {
			break
		}
	}
	// debugging aid: WD_DEBUG=<substring of a function name> prints the entry set of the matching functions and
	// what each of their call sites holds
	if dbg := os.Getenv("WD_DEBUG"); dbg != "" {
		for _, fn := range w.fns {
			if strings.Contains(fn.String(), dbg) {
				fmt.Fprintf(os.Stderr, "WD %s extern=%v entry=%v\n", fn.String(), w.extern[fn], wdKeys(w.entry[fn]))
				if n := w.a.cg.Nodes[fn]; n != nil {
					for _, e := range n.In {
						if e.Caller != nil && e.Caller.Func != nil {
							fmt.Fprintf(os.Stderr, "WD    in-edge from %s (module function: %v)\n", e.Caller.Func.String(), w.isFn[e.Caller.Func])
						}
					}
				}
			}
		}
		for _, fn := range w.fns {
			w.flow(fn, w.entry[fn], func(ins ssa.Instruction, held wdHeld) {
				if ci, ok := ins.(ssa.CallInstruction); ok {
					for _, t := range w.targets(fn, ci) {
						if strings.Contains(t.String(), dbg) {
							fmt.Fprintf(os.Stderr, "WD    site in %s (%T) -> %s holds %v\n", fn.String(), ins, t.String(), wdKeys(held))
						}
					}
				}
			})
		}
	}
}

func wdKeys(h wdHeld) []string {
	var ks []string
	for k := range h {
		ks = append(ks, k)
	}
	sort.Strings(ks)
	return ks
}

func wdStructOf(ptr types.Type) (*types.Named, *types.Struct) {
	p, ok := ptr.Underlying().(*types.Pointer)
	if !ok {
		return nil, nil
	}
	n, ok := p.Elem().(*types.Named)
	if !ok {
		return nil, nil
	}
	st, ok := n.Underlying().(*types.Struct)
	if !ok {
		return nil, nil
	}
	return n, st
}

func wdHasMutex(st *types.Struct) bool {
	for i := 0; i < st.NumFields(); i++ {
		if isMutexType(st.Field(i).Type()) {
			return true
		}
	}
	return false
}

// wdContainerField: fa addresses a map/slice field of a module struct that has a mutex of its own
func wdContainerField(fa *ssa.FieldAddr) (string, bool) {
	n, st := wdStructOf(fa.X.Type())
	if n == nil || n.Obj().Pkg() == nil || !pkgInModule(n.Obj().Pkg().Path()) || !wdHasMutex(st) {
		return "", false
	}
	f := st.Field(fa.Field)
	switch f.Type().Underlying().(type) {
	case *types.Map, *types.Slice:
		return typeName(n) + "." + f.Name(), true
	}
	return "", false
}

func wdLoadedField(v ssa.Value) *ssa.FieldAddr {
	if u, ok := v.(*ssa.UnOp); ok && u.Op == token.MUL {
		if fa, ok := u.X.(*ssa.FieldAddr); ok {
			return fa
		}
	}
	return nil
}

// wdImmRoot: addr is (a field / element path inside) a struct of an immutable type, reached through a pointer; returns
// the pointer and the type name
func wdImmRoot(addr ssa.Value, imm map[string]bool) (ssa.Value, string) {
	for depth := 0; depth < 8; depth++ {
		if n, _ := wdStructOf(addr.Type()); n != nil && n.Obj().Pkg() != nil && pkgInModule(n.Obj().Pkg().Path()) && imm[typeName(n)] {
			return addr, typeName(n)
		}
		switch x := addr.(type) {
		case *ssa.FieldAddr:
			addr = x.X
		case *ssa.IndexAddr:
			if _, isArr := x.X.Type().Underlying().(*types.Pointer); !isArr {
				return nil, "" // element of a slice: another object
			}
			addr = x.X
		default:
			return nil, ""
		}
	}
	return nil, ""
}

func wdIndex(ins ssa.Instruction) int {
	for i, x := range ins.Block().Instrs {
		if x == ins {
			return i
		}
	}
	return -1
}

// wdFresh: base is an allocation of the function of `at` that cannot have escaped when `at` executes.
func wdFresh(base ssa.Value, at ssa.Instruction) bool {
	for { // a struct nested by value in a fresh struct is part of the same allocation
		fa, ok := base.(*ssa.FieldAddr)
		if !ok {
			break
		}
		base = fa.X
	}
	al, ok := base.(*ssa.Alloc)
	if !ok || al.Parent() != at.Parent() || al.Block() == nil {
		return false
	}
	var escapes []ssa.Instruction
	var walk func(v ssa.Value, depth int)
	walk = func(v ssa.Value, depth int) {
		refs := v.Referrers()
		if refs == nil {
			return
		}
		for _, r := range *refs {
			switch x := r.(type) {
			case *ssa.DebugRef:
			case *ssa.Store:
				if x.Val == v { // the pointer itself is stored somewhere
					escapes = append(escapes, r)
				}
			case *ssa.UnOp:
				if x.Op != token.MUL {
					escapes = append(escapes, r)
				}
			case *ssa.FieldAddr:
				if depth < 6 {
					walk(x, depth+1)
				} else {
					escapes = append(escapes, r)
				}
			case *ssa.IndexAddr:
				if _, isArr := x.X.Type().Underlying().(*types.Pointer); isArr && x.X == v && depth < 6 {
					walk(x, depth+1)
				} else {
					escapes = append(escapes, r)
				}
			default:
				escapes = append(escapes, r)
			}
		}
	}
	walk(al, 0)
	ab := at.Block()
	ai := wdIndex(at)
	for _, e := range escapes {
		eb := e.Block()
		if eb == nil {
			return false
		}
		if eb == ab && wdIndex(e) < ai {
			return false
		}
		// a path of one or more edges from the escape to the store that does not run through the allocation again
		seen := map[*ssa.BasicBlock]bool{}
		stack := []*ssa.BasicBlock{}
		push := func(b *ssa.BasicBlock) {
			if b != al.Block() && !seen[b] {
				seen[b] = true
				stack = append(stack, b)
			}
		}
		for _, s := range eb.Succs {
			push(s)
		}
		for len(stack) > 0 {
			b := stack[len(stack)-1]
			stack = stack[:len(stack)-1]
			if b == ab {
				return false
			}
			for _, s := range b.Succs {
				push(s)
			}
		}
	}
	return true
}

type wdCaller struct {
	from  *ssa.Function
	where string
	heldW []string
}

// computeCallers records, with the final entry sets, every call site that enters a function and what it holds in
// write mode (the same contributions computeEntries intersects) - for the explanation attached to a site.
func (w *wdAn) computeCallers() {
	w.callers = map[*ssa.Function][]wdCaller{}
	for _, fn := range w.fns {
		fn := fn
		w.flow(fn, w.entry[fn], func(ins ssa.Instruction, held wdHeld) {
			ci, ok := ins.(ssa.CallInstruction)
			if !ok {
				return
			}
			if op, _ := lockOp(ci.Common()); op != 0 {
				return
			}
			_, sync := ins.(*ssa.Call)
			p := w.a.prog.Fset.Position(ins.Pos())
			where := fmt.Sprintf("%s:%d", wdRelFile(p.Filename, w.a.root), p.Line)
			if !sync {
				where += " (go/defer)"
			}
			rec := func(t *ssa.Function, minus set) {
				c := wdCaller{from: fn, where: where}
				if w.viaLeave[ci][t] {
					c.where += " (through code outside the module)"
				} else if sync {
					for k := range held {
						if strings.HasPrefix(k, "W:") && !minus[k] {
							c.heldW = append(c.heldW, k[2:])
						}
					}
					sort.Strings(c.heldW)
				}
				w.callers[t] = append(w.callers[t], c)
			}
			g, fvs := w.wdBoundArgs(ci)
			for _, fv := range fvs {
				if w.bound[fv] {
					rec(fv, w.relStar[g])
				}
			}
			for _, t := range w.targets(fn, ci) {
				if !w.bound[t] {
					rec(t, nil)
				}
			}
		})
	}
}

func (w *wdAn) chain(fn *ssa.Function) []string {
	var out []string
	seen := map[*ssa.Function]bool{fn: true}
	for step := 0; step < 8; step++ {
		cs := w.callers[fn]
		if len(cs) == 0 {
			break
		}
		best := 0
		for i, c := range cs {
			if len(c.heldW) < len(cs[best].heldW) || (len(c.heldW) == len(cs[best].heldW) && c.where < cs[best].where) {
				best = i
			}
		}
		c := cs[best]
		out = append(out, fmt.Sprintf("%s called at %s in %s holding %v", fn.String(), c.where, c.from.String(), c.heldW))
		if seen[c.from] {
			break
		}
		seen[c.from] = true
		fn = c.from
	}
	return out
}

func (w *wdAn) sites() *Guards {
	w.computeCallers()
	imm := map[string]bool{}
	for _, t := range wdImmutableTypes {
		imm[t] = true
	}
	g := &Guards{Types: append([]string{}, wdImmutableTypes...)}
	fields := set{}
	// every candidate field, written or not
	for _, p := range w.a.prog.AllPackages() {
		if !pkgInModule(p.Pkg.Path()) {
			continue
		}
		for _, m := range p.Members {
			t, ok := m.(*ssa.Type)
			if !ok {
				continue
			}
			n, ok := t.Type().(*types.Named)
			if !ok {
				continue
			}
			st, ok := n.Underlying().(*types.Struct)
			if !ok || !wdHasMutex(st) {
				continue
			}
			for i := 0; i < st.NumFields(); i++ {
				switch st.Field(i).Type().Underlying().(type) {
				case *types.Map, *types.Slice:
					fields[typeName(n)+"."+st.Field(i).Name()] = true
				}
			}
		}
	}
	for _, fn := range w.fns {
		fn := fn
		w.flow(fn, w.entry[fn], func(ins ssa.Instruction, held wdHeld) {
			kind, obj, op := "", "", ""
			var base ssa.Value
			switch x := ins.(type) {
			case *ssa.Store:
				if root, tn := wdImmRoot(x.Addr, imm); root != nil {
					kind, obj, base, op = "imm", tn, root, "store"
					if root == x.Addr {
						op = "struct-store"
					}
				} else if fa, ok := x.Addr.(*ssa.FieldAddr); ok {
					if name, ok := wdContainerField(fa); ok {
						kind, obj, base, op = "guard", name, fa.X, "store"
					}
				} else if ia, ok := x.Addr.(*ssa.IndexAddr); ok {
					if fa := wdLoadedField(ia.X); fa != nil {
						if name, ok := wdContainerField(fa); ok {
							kind, obj, base, op = "guard", name, fa.X, "elem-store"
						}
					}
				}
			case *ssa.MapUpdate:
				if fa := wdLoadedField(x.Map); fa != nil {
					if name, ok := wdContainerField(fa); ok {
						kind, obj, base, op = "guard", name, fa.X, "mapupdate"
					}
				}
			case ssa.CallInstruction:
				cc := x.Common()
				if b, ok := cc.Value.(*ssa.Builtin); ok && (b.Name() == "delete" || b.Name() == "clear") && len(cc.Args) > 0 {
					if fa := wdLoadedField(cc.Args[0]); fa != nil {
						if name, ok := wdContainerField(fa); ok {
							kind, obj, base, op = "guard", name, fa.X, b.Name()
						}
					}
				}
			}
			if kind == "" {
				return
			}
			if kind == "guard" {
				fields[obj] = true
			}
			s := WriteSite{Kind: kind, Obj: obj, Op: op, Fresh: wdFresh(base, ins), Func: fn.String()}
			for k := range held {
				if strings.HasPrefix(k, "W:") {
					s.HeldW = append(s.HeldW, k[2:])
				} else {
					s.HeldR = append(s.HeldR, k[2:])
				}
			}
			sort.Strings(s.HeldW)
			sort.Strings(s.HeldR)
			if !s.Fresh {
				s.Chain = w.chain(fn)
			}
			p := w.a.prog.Fset.Position(ins.Pos())
			if !p.IsValid() {
				if fa, ok := base.(ssa.Instruction); ok {
					p = w.a.prog.Fset.Position(fa.Pos())
				}
			}
			if !p.IsValid() {
				p = w.a.prog.Fset.Position(fn.Pos())
			}
			s.File, s.Line, s.Col = wdRelFile(p.Filename, w.a.root), p.Line, p.Column
			g.Sites = append(g.Sites, s)
		})
	}
	sort.SliceStable(g.Sites, func(i, j int) bool {
		a, b := g.Sites[i], g.Sites[j]
		if a.File != b.File {
			return a.File < b.File
		}
		if a.Line != b.Line {
			return a.Line < b.Line
		}
		if a.Col != b.Col {
			return a.Col < b.Col
		}
		if a.Func != b.Func {
			return a.Func < b.Func
		}
		if a.Obj != b.Obj {
			return a.Obj < b.Obj
		}
		return a.Op < b.Op
	})
	for i := range g.Sites {
		g.Sites[i].ID = i
	}
	for f := range fields {
		g.Fields = append(g.Fields, f)
	}
	sort.Strings(g.Fields)
	return g
}

func wdRelFile(file, root string) string {
	if root != "" && strings.HasPrefix(file, root) {
		return strings.TrimPrefix(strings.TrimPrefix(file, root), "/")
	}
	if i := strings.Index(file, "/repo/"); i >= 0 {
		return file[i+6:]
	}
	return file
}

// guards computes the write sites of the module (called by Analyze).
func (a *analysis) guards(fns []*ssa.Function) *Guards {
	w := &wdAn{a: a, fns: fns, isFn: map[*ssa.Function]bool{}, siteTgts: map[ssa.CallInstruction][]*ssa.Function{},
		viaLeave: map[ssa.CallInstruction]map[*ssa.Function]bool{}}
	for _, fn := range fns {
		w.isFn[fn] = true
	}
	w.computeReleases()
	w.computeEntries()
	return w.sites()
}

// FieldIdent / TypeIdent: Coq identifiers of a container field and of an immutable type.
func FieldIdent(f string) string { return "fld_" + strings.TrimPrefix(Ident(f), "cls_") }
func TypeIdent(t string) string  { return "typ_" + strings.TrimPrefix(Ident(t), "cls_") }

// WriteSitesCoq renders the write sites as coq/gen/WriteSites.v.  Lock classes are numbered as in gen/LockGraph.v.
func (r *Result) WriteSitesCoq() string {
	g := r.Guards
	var sb strings.Builder
	sb.WriteString("(* GENERATED from /repo by the write-discipline translator (go/lockgraph/guards.go: go/ssa + callgraph/vta): do not edit *)\n")
	sb.WriteString("From Coq Require Import List NArith Bool.\nImport ListNotations.\nOpen Scope N_scope.\n")
	sb.WriteString("(* types documented as immutable after publication *)\n")
	for i, t := range g.Types {
		fmt.Fprintf(&sb, "Definition %s : N := %d.\n", TypeIdent(t), i)
	}
	sb.WriteString("(* map / slice fields of module structs that carry a mutex of their own *)\n")
	fidx := map[string]int{}
	for i, f := range g.Fields {
		fidx[f] = i
		fmt.Fprintf(&sb, "Definition %s : N := %d.  (* %s *)\n", FieldIdent(f), i, cmt(f))
	}
	tidx := map[string]int{}
	for i, t := range g.Types {
		tidx[t] = i
	}
	cidx := map[string]int{}
	for i, c := range r.Classes {
		cidx[c] = i
	}
	sb.WriteString("(* one entry per write: (site id, kind (0 immutable-type store, 1 guarded-container write), type id or field id,\n" +
		"   fresh, lock classes must-held in write mode, lock classes must-held in read mode) *)\n")
	sb.WriteString("Definition write_sites : list (N * N * N * bool * list N * list N) := [\n")
	for i, s := range g.Sites {
		sep := ";"
		if i == len(g.Sites)-1 {
			sep = ""
		}
		fmt.Fprintf(&sb, "  %s%s  (* %s %s %s:%d %s *)\n", s.Tuple(r), sep, cmt(s.Obj), s.Op, cmt(s.File), s.Line, cmt(s.Func))
	}
	sb.WriteString("].\n")
	return sb.String()
}

// Tuple: the Gallina literal of a site (N_scope).
func (s WriteSite) Tuple(r *Result) string {
	kind, obj := 0, 0
	if s.Kind == "guard" {
		kind = 1
		for i, f := range r.Guards.Fields {
			if f == s.Obj {
				obj = i
			}
		}
	} else {
		for i, t := range r.Guards.Types {
			if t == s.Obj {
				obj = i
			}
		}
	}
	cls := func(l []string) string {
		var xs []string
		for _, c := range l {
			for i, d := range r.Classes {
				if c == d {
					xs = append(xs, fmt.Sprint(i))
				}
			}
		}
		return "[" + strings.Join(xs, "; ") + "]"
	}
	fresh := "false"
	if s.Fresh {
		fresh = "true"
	}
	return fmt.Sprintf("(%d, %d, %d, %s, %s, %s)", s.ID, kind, obj, fresh, cls(s.HeldW), cls(s.HeldR))
}

// Package lockgraph is the translator of C34: it loads the nebula module from source (go/packages), builds SSA
// (go/ssa) and a call graph (callgraph/vta on top of callgraph/cha), and computes the lock-order graph of the
// program:
//
//   - a lock CLASS is (named struct type, field) for every sync.Mutex / sync.RWMutex field (embedded or named,
//     by value or by pointer), a package-level mutex variable, or - when the receiver of Lock cannot be traced to
//     either - the function-local site;
//   - an EDGE a -> b means: somewhere b may be acquired (Lock or RLock) while a may be held, either directly in one
//     function body (forward may-held dataflow over the SSA control-flow graph; a deferred Unlock keeps the lock
//     held to the end of the function) or through any chain of synchronous calls (call-graph closure of "the locks a
//     function may acquire"; `go` statements do not nest).  Locks a function returns with (held at a return without
//     a deferred unlock) flow back into its callers' held sets.
//
// Precision devices, each sound:
//   - a branch on a constant, or on a package-level bool that is never assigned outside package initialisation
//     (noiseutil.EncryptLockNeeded), is followed consistently: the dataflow runs once per value of such flags;
//   - a function is analysed separately for every set of pointer / interface / func parameters that a call site
//     passes as the constant nil, and branches comparing such a parameter with nil are pruned;
//   - a func-typed parameter that is only ever called (or handed on to such a parameter) is bound per call site: a
//     closure written at the call site is charged to that call site, with the locks the callee holds when it
//     invokes the parameter; other function values are resolved by the call graph.
//
// Only code of the module is analysed. Code outside it (standard library, dependencies) is opaque: its own locks are
// not classes here, and it is assumed to call back into the module only (a) through function values passed to it
// directly as call arguments and (b) through the formatting methods (String, Error, MarshalJSON, MarshalText,
// LogValue, GoString, Format) of module values boxed into interfaces in the calling function (logging).
// Within the module the analysis over-approximates (may-held sets, call graph), so a missing edge is a guarantee
// under those assumptions and an edge may be spurious.
package lockgraph

import (
	"fmt"
	"go/token"
	"go/types"
	"path/filepath"
	"sort"
	"strings"

	"golang.org/x/tools/go/callgraph"
	"golang.org/x/tools/go/callgraph/cha"
	"golang.org/x/tools/go/callgraph/vta"
	"golang.org/x/tools/go/packages"
	"golang.org/x/tools/go/ssa"
	"golang.org/x/tools/go/ssa/ssautil"
)

const Module = "github.com/slackhq/nebula"

type Edge struct {
	From, To string
	Witness  string // one place where it arises
}

type Result struct {
	Classes []string
	Edges   []Edge
	Funcs   int
	Guards  *Guards // write sites of the write discipline (guards.go), from the same SSA program and call graph
}

type set map[string]bool

func (s set) clone() set {
	r := set{}
	for k := range s {
		r[k] = true
	}
	return r
}
func (s set) addAll(o set) bool {
	ch := false
	for k := range o {
		if !s[k] {
			s[k] = true
			ch = true
		}
	}
	return ch
}

func pkgInModule(path string) bool { return path == Module || strings.HasPrefix(path, Module+"/") }

func inModule(f *ssa.Function) bool {
	if f == nil {
		return false
	}
	if f.Pkg != nil {
		return pkgInModule(f.Pkg.Pkg.Path())
	}
	if f.Parent() != nil {
		return inModule(f.Parent())
	}
	if o := f.Origin(); o != nil && o != f {
		return inModule(o)
	}
	if ob := f.Object(); ob != nil && ob.Pkg() != nil { // bound-method and interface-method wrappers
		return pkgInModule(ob.Pkg().Path())
	}
	return false
}

func isMutexType(t types.Type) bool {
	if p, ok := t.(*types.Pointer); ok {
		t = p.Elem()
	}
	n, ok := t.(*types.Named)
	if !ok {
		return false
	}
	o := n.Obj()
	return o.Pkg() != nil && o.Pkg().Path() == "sync" && (o.Name() == "Mutex" || o.Name() == "RWMutex")
}

// lockOp classifies a call: +1 Lock/RLock, -1 Unlock/RUnlock, 0 other; and returns the receiver value.
func lockOp(c *ssa.CallCommon) (int, ssa.Value) {
	f := c.StaticCallee()
	if f == nil || f.Pkg == nil || f.Pkg.Pkg.Path() != "sync" || len(c.Args) == 0 {
		return 0, nil
	}
	recv := f.Signature.Recv()
	if recv == nil || !isMutexType(recv.Type()) {
		return 0, nil
	}
	switch f.Name() {
	case "Lock", "RLock":
		return 1, c.Args[0]
	case "Unlock", "RUnlock":
		return -1, c.Args[0]
	}
	return 0, nil // TryLock never blocks: it cannot be the waiting edge of a wait-for cycle
}

func typeName(t types.Type) string {
	for {
		p, ok := t.(*types.Pointer)
		if !ok {
			break
		}
		t = p.Elem()
	}
	if n, ok := t.(*types.Named); ok {
		o := n.Obj()
		if o.Pkg() != nil {
			return strings.TrimPrefix(strings.TrimPrefix(strings.TrimPrefix(o.Pkg().Path(), Module+"/"), Module)+"."+o.Name(), ".")
		}
		return o.Name()
	}
	return t.String()
}

// classOf traces the receiver of a Lock/Unlock call to its class.
func classOf(v ssa.Value, fn *ssa.Function, depth int) string {
	if depth > 8 {
		return "?deep:" + fn.String()
	}
	switch x := v.(type) {
	case *ssa.FieldAddr:
		st := x.X.Type().Underlying().(*types.Pointer).Elem()
		return typeName(st) + "." + st.Underlying().(*types.Struct).Field(x.Field).Name()
	case *ssa.Field:
		st := x.X.Type()
		return typeName(st) + "." + st.Underlying().(*types.Struct).Field(x.Field).Name()
	case *ssa.UnOp:
		if x.Op == token.MUL { // load of a *sync.Mutex stored somewhere
			return classOf(x.X, fn, depth+1)
		}
	case *ssa.Global:
		return "var " + strings.TrimPrefix(x.Pkg.Pkg.Path(), Module+"/") + "." + x.Name()
	case *ssa.Alloc:
		return "local " + fn.String() + ":" + x.Comment
	case *ssa.Phi:
		if len(x.Edges) > 0 {
			return classOf(x.Edges[0], fn, depth+1)
		}
	case *ssa.ChangeType:
		return classOf(x.X, fn, depth+1)
	case *ssa.MakeInterface:
		return classOf(x.X, fn, depth+1)
	case *ssa.Parameter:
		return "param " + fn.String() + ":" + x.Name()
	case *ssa.FreeVar:
		return "freevar " + fn.String() + ":" + x.Name()
	case *ssa.IndexAddr:
		return "elem " + typeName(x.X.Type())
	}
	return fmt.Sprintf("?%T:%s", v, fn.String())
}

// key: a function analysed under the assumption that the parameters in nilMask are nil.
type key struct {
	fn      *ssa.Function
	nilMask uint64
}

type fnInfo struct {
	k         key
	acquires  set         // classes locked directly in the body
	acqStar   set         // ... or by anything called synchronously
	exitHeld  set         // classes held at some return (not covered by a deferred unlock)
	paramHeld map[int]set // for a call-only func parameter: classes held when it is invoked (here or deeper)
	callees   []key
}

type analysis struct {
	prog     *ssa.Program
	cg       *callgraph.Graph
	info     map[key]*fnInfo
	order    []key
	edges    map[[2]string]string
	boxed    map[*ssa.Function][]*ssa.Function
	stable   map[*ssa.Global]bool // package-level bool variables never stored to outside package initialisation
	assume   map[*ssa.Global]bool // the value assumed for them in the current dataflow run
	callOnly map[*ssa.Parameter]bool
	root     string // absolute path of the module root (for relative file names)
}

var formatters = map[string]bool{"String": true, "Error": true, "MarshalJSON": true, "MarshalText": true, "LogValue": true, "GoString": true, "Format": true}

// boxedFormatters: formatting methods of module values that this function boxes into an interface.
func (a *analysis) boxedFormatters(fn *ssa.Function) []*ssa.Function {
	if r, ok := a.boxed[fn]; ok {
		return r
	}
	var out []*ssa.Function
	seen := map[*ssa.Function]bool{}
	for _, b := range fn.Blocks {
		for _, ins := range b.Instrs {
			mi, ok := ins.(*ssa.MakeInterface)
			if !ok {
				continue
			}
			ms := a.prog.MethodSets.MethodSet(mi.X.Type())
			for i := 0; i < ms.Len(); i++ {
				sel := ms.At(i)
				if !formatters[sel.Obj().Name()] {
					continue
				}
				if m := a.prog.MethodValue(sel); m != nil && inModule(m) && !seen[m] {
					seen[m] = true
					out = append(out, m)
				}
			}
		}
	}
	a.boxed[fn] = out
	return out
}

func funcValue(v ssa.Value) *ssa.Function {
	switch f := v.(type) {
	case *ssa.MakeClosure:
		if g, ok := f.Fn.(*ssa.Function); ok {
			return g
		}
	case *ssa.Function:
		return f
	}
	return nil
}

func isNilConst(v ssa.Value) bool {
	c, ok := v.(*ssa.Const)
	return ok && c.IsNil()
}

// computeCallOnly: func-typed parameters that are only called, or passed on to such parameters of module functions.
func (a *analysis) computeCallOnly(fns []*ssa.Function) {
	a.callOnly = map[*ssa.Parameter]bool{}
	for _, fn := range fns {
		for _, p := range fn.Params {
			if _, ok := p.Type().Underlying().(*types.Signature); ok {
				a.callOnly[p] = true // optimistic
			}
		}
	}
	for changed := true; changed; {
		changed = false
		for p, ok := range a.callOnly {
			if !ok {
				continue
			}
			good := true
			for _, ref := range *p.Referrers() {
				switch r := ref.(type) {
				case *ssa.DebugRef:
				case *ssa.Call:
					if !a.usesOnlyAsCalleeOrHandOn(&r.Call, p) {
						good = false
					}
				case *ssa.Defer:
					if !a.usesOnlyAsCalleeOrHandOn(&r.Call, p) {
						good = false
					}
				default:
					good = false
				}
			}
			if !good {
				a.callOnly[p] = false
				changed = true
			}
		}
	}
}

func (a *analysis) usesOnlyAsCalleeOrHandOn(cc *ssa.CallCommon, p *ssa.Parameter) bool {
	g := cc.StaticCallee()
	for i, arg := range cc.Args {
		if arg != p {
			continue
		}
		if g == nil || !inModule(g) || len(g.Blocks) == 0 || i >= len(g.Params) || !a.callOnly[g.Params[i]] {
			return false
		}
	}
	return true
}

type target struct {
	k      key
	hoArgs []hoArg // closures bound to call-only parameters of k.fn at this site
}
type hoArg struct {
	param int
	fv    *ssa.Function
	pass  *ssa.Parameter // or: our own call-only parameter handed on
}

// targets of a call instruction made by k.fn.
func (a *analysis) targets(k key, site ssa.CallInstruction) []target {
	fn := k.fn
	cc := site.Common()
	var out []target
	// a call through one of our own call-only parameters is charged to our callers
	if p, ok := cc.Value.(*ssa.Parameter); ok && !cc.IsInvoke() && a.callOnly[p] {
		return nil
	}
	if g := cc.StaticCallee(); g != nil && inModule(g) && len(g.Blocks) > 0 {
		t := target{k: key{fn: g}}
		for i, arg := range cc.Args {
			if i >= len(g.Params) || i >= 64 {
				break
			}
			if isNilConst(arg) {
				t.k.nilMask |= 1 << uint(i)
			}
			if a.callOnly[g.Params[i]] {
				if fv := funcValue(arg); fv != nil {
					t.hoArgs = append(t.hoArgs, hoArg{param: i, fv: fv})
				} else if p, ok := arg.(*ssa.Parameter); ok && a.callOnly[p] {
					t.hoArgs = append(t.hoArgs, hoArg{param: i, pass: p})
				}
			}
		}
		return append(out, t)
	}
	leaves := false
	if n := a.cg.Nodes[fn]; n != nil {
		for _, e := range n.Out {
			if e.Site == site && e.Callee != nil && e.Callee.Func != nil {
				if inModule(e.Callee.Func) && len(e.Callee.Func.Blocks) > 0 {
					out = append(out, target{k: key{fn: e.Callee.Func}})
				} else {
					leaves = true
				}
			}
		}
	}
	if callee := cc.StaticCallee(); callee != nil && !inModule(callee) {
		leaves = true
	}
	if leaves {
		for _, arg := range cc.Args {
			if fv := funcValue(arg); fv != nil && len(fv.Blocks) > 0 {
				out = append(out, target{k: key{fn: fv}})
			}
		}
		for _, m := range a.boxedFormatters(fn) {
			out = append(out, target{k: key{fn: m}})
		}
	}
	return out
}

func (a *analysis) get(k key) *fnInfo {
	if i, ok := a.info[k]; ok {
		return i
	}
	i := &fnInfo{k: k, acquires: set{}, acqStar: set{}, exitHeld: set{}, paramHeld: map[int]set{}}
	a.info[k] = i
	a.order = append(a.order, k)
	return i
}

func paramIndex(fn *ssa.Function, p *ssa.Parameter) int {
	for i, q := range fn.Params {
		if q == p {
			return i
		}
	}
	return -1
}

// stableLoad: v is a load of a start-up flag.
func (a *analysis) stableLoad(v ssa.Value) *ssa.Global {
	if u, ok := v.(*ssa.UnOp); ok && u.Op == token.MUL {
		if g, ok := u.X.(*ssa.Global); ok && a.stable[g] {
			return g
		}
	}
	return nil
}

// branch decides an If whose outcome is known in this run: 0 unknown, 1 true branch only, 2 false branch only.
func (a *analysis) branch(k key, cond ssa.Value) int {
	if c, ok := cond.(*ssa.Const); ok && c.Value != nil {
		if c.Value.String() == "true" {
			return 1
		}
		return 2
	}
	if g := a.stableLoad(cond); g != nil && a.assume != nil {
		if a.assume[g] {
			return 1
		}
		return 2
	}
	if b, ok := cond.(*ssa.BinOp); ok && (b.Op == token.EQL || b.Op == token.NEQ) {
		var p *ssa.Parameter
		if q, ok := b.X.(*ssa.Parameter); ok && isNilConst(b.Y) {
			p = q
		} else if q, ok := b.Y.(*ssa.Parameter); ok && isNilConst(b.X) {
			p = q
		}
		if p != nil {
			if i := paramIndex(k.fn, p); i >= 0 && i < 64 && k.nilMask&(1<<uint(i)) != 0 {
				if b.Op == token.EQL {
					return 1
				}
				return 2
			}
		}
	}
	return 0
}

func (fi *fnInfo) addParamHeld(i int, s set) bool {
	if fi.paramHeld[i] == nil {
		fi.paramHeld[i] = set{}
	}
	return fi.paramHeld[i].addAll(s)
}

// flow runs the may-held dataflow over one function. When record is true it adds lock-order edges.
func (a *analysis) flow(fi *fnInfo, record bool) (changed bool) {
	k := fi.k
	fn := k.fn
	if len(fn.Blocks) == 0 {
		return false
	}
	in := make([]set, len(fn.Blocks))
	for i := range in {
		in[i] = set{}
	}
	deferred := set{} // classes with a deferred Unlock somewhere in the function
	for _, b := range fn.Blocks {
		for _, ins := range b.Instrs {
			if d, ok := ins.(*ssa.Defer); ok {
				if op, recv := lockOp(&d.Call); op == -1 {
					deferred[classOf(recv, fn, 0)] = true
				}
			}
		}
	}
	call := func(held set, site ssa.CallInstruction, returns bool) {
		cc := site.Common()
		// invoking one of our call-only parameters: remember what we hold
		if p, ok := cc.Value.(*ssa.Parameter); ok && !cc.IsInvoke() && a.callOnly[p] {
			if fi.addParamHeld(paramIndex(fn, p), held) {
				changed = true
			}
			return
		}
		for _, t := range a.targets(k, site) {
			ti := a.get(t.k)
			if record {
				for h := range held {
					for c := range ti.acqStar {
						a.addEdge(h, c, fn, site.Pos(), k, t.k)
					}
				}
			}
			for _, ho := range t.hoArgs {
				inner := held.clone()
				inner.addAll(ti.paramHeld[ho.param])
				if ho.fv != nil {
					fvi := a.get(key{fn: ho.fv})
					if record {
						for h := range inner {
							for c := range fvi.acqStar {
								a.addEdge(h, c, fn, site.Pos(), k, fvi.k)
							}
						}
					}
				} else if fi.addParamHeld(paramIndex(fn, ho.pass), inner) {
					changed = true
				}
			}
			if returns {
				for c := range ti.exitHeld { // the callee returns holding c
					held[c] = true
				}
			}
		}
	}
	work := []*ssa.BasicBlock{fn.Blocks[0]}
	seen := map[int]bool{0: true}
	for len(work) > 0 {
		b := work[len(work)-1]
		work = work[:len(work)-1]
		held := in[b.Index].clone()
		for _, ins := range b.Instrs {
			switch x := ins.(type) {
			case *ssa.Go:
				// a new goroutine holds nothing of ours
			case *ssa.Defer:
				// a deferred unlock runs at return: the lock stays held until then. Other deferred calls run with
				// what is held at return - approximated by the held set here.
				if op, _ := lockOp(&x.Call); op == 0 {
					call(held, x, false)
				}
			case ssa.CallInstruction:
				op, recv := lockOp(x.Common())
				switch op {
				case 1:
					c := classOf(recv, fn, 0)
					if !fi.acquires[c] {
						fi.acquires[c] = true
						changed = true
					}
					if record {
						for h := range held {
							a.addEdge(h, c, fn, x.Pos(), k, key{})
						}
					}
					held[c] = true
				case -1:
					delete(held, classOf(recv, fn, 0))
				default:
					call(held, x, true)
				}
			case *ssa.Return:
				for h := range held {
					if !deferred[h] && !fi.exitHeld[h] {
						fi.exitHeld[h] = true
						changed = true
					}
				}
			}
		}
		succs := b.Succs
		if len(b.Instrs) > 0 && len(b.Succs) == 2 {
			if br, ok := b.Instrs[len(b.Instrs)-1].(*ssa.If); ok {
				switch a.branch(k, br.Cond) {
				case 1:
					succs = b.Succs[:1]
				case 2:
					succs = b.Succs[1:]
				}
			}
		}
		for _, s := range succs {
			if in[s.Index].addAll(held) || !seen[s.Index] {
				seen[s.Index] = true
				work = append(work, s)
			}
		}
	}
	return changed
}

// flowAll runs the dataflow once for every assignment of the start-up flags the function branches on.
func (a *analysis) flowAll(fi *fnInfo, record bool) bool {
	var gs []*ssa.Global
	seen := map[*ssa.Global]bool{}
	for _, b := range fi.k.fn.Blocks {
		if len(b.Instrs) == 0 {
			continue
		}
		if br, ok := b.Instrs[len(b.Instrs)-1].(*ssa.If); ok {
			if g := a.stableLoad(br.Cond); g != nil && !seen[g] {
				seen[g] = true
				gs = append(gs, g)
			}
		}
	}
	if len(gs) > 4 {
		gs = gs[:4]
	}
	ch := false
	for m := 0; m < 1<<len(gs); m++ {
		a.assume = map[*ssa.Global]bool{}
		for i, g := range gs {
			a.assume[g] = m&(1<<i) != 0
		}
		if a.flow(fi, record) {
			ch = true
		}
	}
	a.assume = nil
	return ch
}

// reachable callees of a function variant (for the closure of "may acquire"): every target, and every closure bound
// at a call site (it runs synchronously inside that call)
func (a *analysis) calleesOf(k key) []key {
	seen := map[key]bool{}
	var out []key
	add := func(c key) {
		if !seen[c] {
			seen[c] = true
			out = append(out, c)
		}
	}
	// only blocks that can be reached once branches on constants and on nil parameters are decided
	reach := map[int]bool{}
	if len(k.fn.Blocks) > 0 {
		stack := []*ssa.BasicBlock{k.fn.Blocks[0]}
		reach[0] = true
		for len(stack) > 0 {
			b := stack[len(stack)-1]
			stack = stack[:len(stack)-1]
			succs := b.Succs
			if len(b.Instrs) > 0 && len(b.Succs) == 2 {
				if br, ok := b.Instrs[len(b.Instrs)-1].(*ssa.If); ok {
					switch a.branch(k, br.Cond) {
					case 1:
						succs = b.Succs[:1]
					case 2:
						succs = b.Succs[1:]
					}
				}
			}
			for _, s := range succs {
				if !reach[s.Index] {
					reach[s.Index] = true
					stack = append(stack, s)
				}
			}
		}
	}
	for _, b := range k.fn.Blocks {
		if !reach[b.Index] {
			continue
		}
		for _, ins := range b.Instrs {
			if _, isGo := ins.(*ssa.Go); isGo {
				continue
			}
			ci, ok := ins.(ssa.CallInstruction)
			if !ok {
				continue
			}
			if op, _ := lockOp(ci.Common()); op != 0 {
				continue
			}
			for _, t := range a.targets(k, ci) {
				add(t.k)
				for _, ho := range t.hoArgs {
					if ho.fv != nil {
						add(key{fn: ho.fv})
					}
				}
			}
		}
	}
	return out
}

func (a *analysis) addEdge(from, to string, fn *ssa.Function, pos token.Pos, caller, callee key) {
	kk := [2]string{from, to}
	if _, ok := a.edges[kk]; !ok {
		p := a.prog.Fset.Position(pos)
		file := p.Filename
		if i := strings.Index(file, "/repo/"); i >= 0 {
			file = file[i+6:]
		}
		a.edges[kk] = fmt.Sprintf("%s (%s:%d)", fn.String(), file, p.Line)
	}
	if explainFrom != "" && from == explainFrom && to == explainTo {
		a.explain(fn, pos, callee)
	}
}

// Analyze loads the module rooted at dir and returns its lock-order graph.
func Analyze(dir string, tags []string) (*Result, error) {
	cfg := &packages.Config{
		Mode: packages.NeedName | packages.NeedFiles | packages.NeedCompiledGoFiles | packages.NeedImports | packages.NeedDeps |
			packages.NeedTypes | packages.NeedTypesSizes | packages.NeedSyntax | packages.NeedTypesInfo | packages.NeedModule,
		Dir: dir,
	}
	if len(tags) > 0 {
		cfg.BuildFlags = []string{"-tags", strings.Join(tags, ",")}
	}
	pkgs, err := packages.Load(cfg, "./...")
	if err != nil {
		return nil, err
	}
	var bad []string
	packages.Visit(pkgs, nil, func(p *packages.Package) {
		if strings.HasPrefix(p.PkgPath, Module) {
			for _, e := range p.Errors {
				bad = append(bad, e.Error())
			}
		}
	})
	if len(bad) > 0 {
		return nil, fmt.Errorf("loading %s: %s", dir, strings.Join(bad, "; "))
	}
	prog, spkgs := ssautil.Packages(pkgs, ssa.InstantiateGenerics)
	for _, p := range spkgs {
		if p != nil {
			p.Build()
		}
	}
	all := ssautil.AllFunctions(prog)
	cg := vta.CallGraph(all, cha.CallGraph(prog))
	a := &analysis{prog: prog, cg: cg, info: map[key]*fnInfo{}, edges: map[[2]string]string{}, boxed: map[*ssa.Function][]*ssa.Function{}}
	if abs, err := filepath.Abs(dir); err == nil {
		a.root = abs
	}
	a.stable = map[*ssa.Global]bool{}
	stored := map[*ssa.Global]bool{}
	for fn := range all {
		if fn.Name() == "init" && fn.Parent() == nil && fn.Signature.Recv() == nil {
			continue
		}
		for _, b := range fn.Blocks {
			for _, ins := range b.Instrs {
				if st, ok := ins.(*ssa.Store); ok {
					if g, ok := st.Addr.(*ssa.Global); ok {
						stored[g] = true
					}
				}
			}
		}
	}
	for _, p := range prog.AllPackages() {
		for _, m := range p.Members {
			if g, ok := m.(*ssa.Global); ok && !stored[g] {
				if pt, ok := g.Type().(*types.Pointer); ok {
					if bt, ok := pt.Elem().Underlying().(*types.Basic); ok && bt.Kind() == types.Bool {
						a.stable[g] = true
					}
				}
			}
		}
	}
	var fns []*ssa.Function
	for fn := range all {
		if inModule(fn) && len(fn.Blocks) > 0 {
			fns = append(fns, fn)
		}
	}
	sort.Slice(fns, func(i, j int) bool { return fns[i].String() < fns[j].String() })
	a.computeCallOnly(fns)
	for _, fn := range fns {
		a.get(key{fn: fn})
	}
	// 1. direct acquisitions, locks held at exit, locks held when parameters are invoked, and the function variants
	//    reached - to a fixpoint
	for round := 0; round < 50; round++ {
		ch := false
		n := len(a.order)
		for i := 0; i < len(a.order); i++ {
			if a.flowAll(a.get(a.order[i]), false) {
				ch = true
			}
		}
		if !ch && len(a.order) == n {
			break
		}
	}
	// 2. transitive closure of "may acquire" over synchronous calls
	for i := 0; i < len(a.order); i++ {
		fi := a.get(a.order[i])
		fi.acqStar.addAll(fi.acquires)
		fi.callees = a.calleesOf(fi.k)
	}
	for round := 0; round < 1000; round++ {
		ch := false
		for i := 0; i < len(a.order); i++ {
			fi := a.get(a.order[i])
			if fi.callees == nil {
				fi.acqStar.addAll(fi.acquires)
				fi.callees = a.calleesOf(fi.k)
				if fi.callees == nil {
					fi.callees = []key{}
				}
				ch = true
			}
			for _, t := range fi.callees {
				if fi.acqStar.addAll(a.get(t).acqStar) {
					ch = true
				}
			}
		}
		if !ch {
			break
		}
	}
	// 3. edges
	for i := 0; i < len(a.order); i++ {
		a.flowAll(a.get(a.order[i]), true)
	}
	res := &Result{Funcs: len(fns)}
	cls := set{}
	for k := range a.edges {
		cls[k[0]], cls[k[1]] = true, true
	}
	for _, k := range a.order {
		for c := range a.get(k).acquires {
			cls[c] = true
		}
	}
	for c := range cls {
		res.Classes = append(res.Classes, c)
	}
	sort.Strings(res.Classes)
	for k, w := range a.edges {
		res.Edges = append(res.Edges, Edge{k[0], k[1], w})
	}
	sort.Slice(res.Edges, func(i, j int) bool {
		if res.Edges[i].From != res.Edges[j].From {
			return res.Edges[i].From < res.Edges[j].From
		}
		return res.Edges[i].To < res.Edges[j].To
	})
	res.Guards = a.guards(fns)
	return res, nil
}

// Ident turns a class name into a Coq identifier.
func Ident(c string) string {
	var sb strings.Builder
	sb.WriteString("cls_")
	for _, r := range c {
		switch {
		case r >= 'a' && r <= 'z', r >= 'A' && r <= 'Z', r >= '0' && r <= '9':
			sb.WriteRune(r)
		default:
			sb.WriteByte('_')
		}
	}
	return sb.String()
}

// cmt makes a string safe inside a Coq comment (comments nest, and a double quote opens a string).
func cmt(s string) string {
	s = strings.ReplaceAll(s, "(*", "( *")
	s = strings.ReplaceAll(s, "*)", "* )")
	return strings.ReplaceAll(s, "\"", "'")
}

// Coq renders the graph as coq/gen/LockGraph.v.
func (r *Result) Coq() string {
	var sb strings.Builder
	sb.WriteString("(* GENERATED from /repo by the lock-order translator (go/lockgraph: go/ssa + callgraph/vta): do not edit *)\n")
	sb.WriteString("From Coq Require Import List NArith.\nImport ListNotations.\nOpen Scope N_scope.\n")
	idx := map[string]int{}
	sb.WriteString("(* lock classes *)\n")
	for i, c := range r.Classes {
		idx[c] = i
		fmt.Fprintf(&sb, "Definition %s : N := %d.  (* %s *)\n", Ident(c), i, cmt(c))
	}
	fmt.Fprintf(&sb, "Definition lock_class_count : N := %d.\n", len(r.Classes))
	sb.WriteString("(* (a, b): b may be acquired while a may be held *)\nDefinition lock_edges : list (N * N) := [\n")
	for i, e := range r.Edges {
		sep := ";"
		if i == len(r.Edges)-1 {
			sep = ""
		}
		fmt.Fprintf(&sb, "  (%d, %d)%s  (* %s -> %s   at %s *)\n", idx[e.From], idx[e.To], sep, cmt(e.From), cmt(e.To), cmt(e.Witness))
	}
	sb.WriteString("].\n")
	return sb.String()
}

// Explain prints, for an edge from -> to, call chains from the places where it arises to a function that locks `to`.
func Explain(dir, from, to string) (string, error) {
	explainFrom, explainTo = from, to
	explainOut.Reset()
	explainSeen = map[string]bool{}
	_, err := Analyze(dir, nil)
	explainFrom = ""
	return explainOut.String(), err
}

var explainFrom, explainTo string
var explainOut strings.Builder
var explainSeen map[string]bool

func (a *analysis) explain(fn *ssa.Function, pos token.Pos, t key) {
	p := a.prog.Fset.Position(pos)
	head := fmt.Sprintf("%s at %s:%d", fn.String(), p.Filename, p.Line)
	if explainSeen[head] {
		return
	}
	explainSeen[head] = true
	if t.fn == nil {
		fmt.Fprintf(&explainOut, "%s locks %s itself\n", head, explainTo)
		return
	}
	prev := map[key]*key{t: nil}
	q := []key{t}
	for len(q) > 0 {
		f := q[0]
		q = q[1:]
		if a.get(f).acquires[explainTo] {
			var chain []string
			for g := &f; g != nil; g = prev[*g] {
				chain = append(chain, g.fn.String())
			}
			fmt.Fprintf(&explainOut, "%s calls", head)
			for i := len(chain) - 1; i >= 0; i-- {
				fmt.Fprintf(&explainOut, "\n    -> %s", chain[i])
			}
			fmt.Fprintf(&explainOut, "   [locks %s]\n", explainTo)
			return
		}
		for _, c := range a.get(f).callees {
			if _, ok := prev[c]; !ok {
				ff := f
				prev[c] = &ff
				q = append(q, c)
			}
		}
	}
}

module verifharness

go 1.26.0

require github.com/slackhq/nebula v0.0.0

replace github.com/slackhq/nebula => /repo

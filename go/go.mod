module verifharness

go 1.26.0

require (
	github.com/flynn/noise v1.1.0
	github.com/gogo/protobuf v1.3.2
	github.com/slackhq/nebula v0.0.0
	golang.org/x/crypto v0.54.0
	golang.org/x/sys v0.47.0
	golang.org/x/tools v0.45.0
	google.golang.org/protobuf v1.36.11
)

require (
	dario.cat/mergo v1.0.2 // indirect
	filippo.io/bigmod v0.1.0 // indirect
	github.com/anmitsu/go-shlex v0.0.0-20200514113438-38f4b401e2be // indirect
	github.com/armon/go-radix v1.0.0 // indirect
	github.com/beorn7/perks v1.0.1 // indirect
	github.com/cespare/xxhash/v2 v2.3.0 // indirect
	github.com/gaissmai/bart v0.28.0 // indirect
	github.com/google/gopacket v1.1.19 // indirect
	github.com/miekg/dns v1.1.72 // indirect
	github.com/munnerz/goautoneg v0.0.0-20191010083416-a7dc8b61c822 // indirect
	github.com/nbrownus/go-metrics-prometheus v0.0.0-20210712211119-974a6260965f // indirect
	github.com/prometheus/client_golang v1.24.1 // indirect
	github.com/prometheus/client_model v0.6.2 // indirect
	github.com/prometheus/common v0.70.1 // indirect
	github.com/prometheus/procfs v0.21.1 // indirect
	github.com/rcrowley/go-metrics v0.0.0-20201227073835-cf1acfcdf475 // indirect
	github.com/stefanberger/go-pkcs11uri v0.0.0-20230803200340-78284954bff6 // indirect
	github.com/vishvananda/netlink v1.3.1 // indirect
	github.com/vishvananda/netns v0.0.5 // indirect
	go.yaml.in/yaml/v3 v3.0.5 // indirect
	golang.org/x/mod v0.36.0 // indirect
	golang.org/x/net v0.57.0 // indirect
	golang.org/x/sync v0.22.0 // indirect
	golang.org/x/term v0.45.0 // indirect
	gvisor.dev/gvisor v0.0.0-20240423190808-9d7a357edefe // indirect
)

replace github.com/slackhq/nebula => /repo

// Command lockgraph prints the lock-order graph of the nebula module (C34) as a Coq file.
package main

import (
	"flag"
	"fmt"
	"os"
	"strings"

	"verifharness/lockgraph"
)

func main() {
	dir := flag.String("dir", "/repo", "module root")
	out := flag.String("o", "", "output file (default stdout)")
	explain := flag.String("explain", "", "print call chains for the edge \"A->B\"")
	writes := flag.String("writes", "", "print the write sites instead: \"coq\" (gen/WriteSites.v) or \"list\" (one line per site)")
	flag.Parse()
	if *explain != "" {
		ab := strings.SplitN(*explain, "->", 2)
		s, err := lockgraph.Explain(*dir, ab[0], ab[1])
		if err != nil {
			fmt.Fprintln(os.Stderr, err)
			os.Exit(1)
		}
		fmt.Print(s)
		return
	}
	r, err := lockgraph.Analyze(*dir, nil)
	if err != nil {
		fmt.Fprintln(os.Stderr, err)
		os.Exit(1)
	}
	s := r.Coq()
	switch *writes {
	case "coq":
		s = r.WriteSitesCoq()
	case "list":
		s = ""
		for _, w := range r.Guards.Sites {
			s += fmt.Sprintf("%d %s %s %s fresh=%v W=%v R=%v %s:%d %s\n", w.ID, w.Kind, w.Obj, w.Op, w.Fresh, w.HeldW, w.HeldR, w.File, w.Line, w.Func)
		}
	}
	if *out == "" {
		fmt.Print(s)
		return
	}
	if err := os.WriteFile(*out, []byte(s), 0o644); err != nil {
		fmt.Fprintln(os.Stderr, err)
		os.Exit(1)
	}
}

//go:build e2e_testing && (comp_all || comp_outside)

package main

// C14 netsim component `outsidenet`: real nodes (built by nebula.Main) with established direct and relayed
// tunnels exchange real traffic of every message type; each datagram is captured on the wire before delivery and
// the receiver is attacked with every single-bit flip of its 16 header bytes, every truncation, substitutions of
// type / subtype / index / counter, ciphertext and tag bit flips, cross-tunnel splices, delivery to the wrong
// node, source spoofing and, after the genuine delivery, replays. For each injected datagram the receiver's
// state digest (hostmap, remotes, windows, liveness, lighthouse cache, relay state, conntrack) and its output
// (UDP, tun) are turned into an effect set; the features of the datagram are computed independently (header
// fields, what the index resolves to at the receiver, the real window check, whether the bytes are those the
// peer produced); Coq evaluates the documented rule and the table's prediction on every case.

import (
	"bytes"
	"encoding/binary"
	"fmt"
	"net/netip"
	"os"

	"github.com/slackhq/nebula"
	"github.com/slackhq/nebula/header"
	"verifharness/hx"
)

func init() { hx.Register("outsidenet", outsNetRun) }

type outsNet struct {
	c        *hx.Ctx
	w        *outsWorld
	cw       *hx.CaseWriter
	failures []map[string]any
	budget   int // mutations per captured datagram (sampling of the long families)
	acted    int
}

// rowOf names the features of a datagram arriving at dst from src. authentic: the bytes are exactly what the
// tunnel's peer produced for this receiver. relayAddr: for a relayed payload, the relay's underlay address.
func (L *outsNet) rowOf(dst *outsNode, src netip.AddrPort, b []byte, authentic bool, relayed bool) (r outsRow, roaming bool, ok bool) {
	var h header.H
	if err := h.Parse(b); err != nil {
		return r, false, false
	}
	r.ty = int(h.Type)
	r.st = int(h.Subtype)
	if r.st > 2 {
		r.st = 2
	}
	r.ver = h.Version == header.Version
	switch {
	case relayed:
		r.via = outsViaRelayed
	case dst.InMyNetworks(src.Addr()):
		r.via = outsViaVpn
	default:
		r.via = outsViaDirect
	}
	r.cfgS, r.cfgA = dst.RecvErrorPermits(src)
	r.full = len(b) >= header.Len+dst.CipherOverhead()
	tun, rel, rev := dst.Resolve(h.RemoteIndex)
	isRelay := r.ty == 1 && r.st == 1
	switch {
	case r.ty == 0:
	case r.ty == 2:
		r.idx = rev
		if rev {
			t, _ := dst.ReverseTunnel(h.RemoteIndex)
			switch {
			case !t.RemoteAddr.IsValid():
				r.rm = outsRmInvalid
			case t.RemoteAddr == src:
				r.rm = outsRmMatch
			default:
				r.rm = outsRmDiffer
			}
		}
	case isRelay:
		r.idx = rel
		if rel {
			owner, _ := dst.RelayOwner(h.RemoteIndex)
			roaming = !relayed && owner.RemoteAddr != src
			r.fresh = dst.WindowCheck(h.RemoteIndex, true, h.MessageCounter)
			r.auth = authentic && r.full
			r.rel = L.relOf(dst, h.RemoteIndex)
		}
	default:
		r.idx = tun
		if tun {
			t, _ := dst.TunnelByLocal(h.RemoteIndex)
			roaming = !relayed && t.RemoteAddr != src
			r.fresh = dst.WindowCheck(h.RemoteIndex, false, h.MessageCounter)
			r.auth = authentic && r.full
		}
	}
	return r, roaming, true
}

func (L *outsNet) relOf(dst *outsNode, idx uint32) int {
	recs := dst.RelayRecords()
	var me *nebula.VerifOutsideRelayRec
	for i := range recs {
		if recs[i].Local == idx {
			me = &recs[i]
		}
	}
	if me == nil {
		return outsRelFwdDown
	}
	if me.Type == nebula.VerifOutsideTerminalType {
		return outsRelTerm
	}
	owner, _ := dst.TunnelByLocal(me.OwnerLocal)
	target, ok := dst.Tunnel(me.Peer)
	if !ok {
		return outsRelFwdDown
	}
	for _, r := range recs {
		if r.OwnerLocal != target.Local {
			continue
		}
		for _, a := range owner.VpnAddrs {
			if r.Peer == a {
				if r.State == nebula.VerifOutsideEstablished && r.Type == nebula.VerifOutsideForwardingType {
					return outsRelFwdEst
				}
				return outsRelFwdDown
			}
		}
	}
	return outsRelFwdDown
}

// shoot injects one datagram into dst and records the case. innerAuthentic: when the datagram is a relay packet,
// whether its payload is exactly an authentic packet for dst.
func (L *outsNet) shoot(dst *outsNode, src netip.AddrPort, b []byte, authentic, innerAuthentic bool, kind string, desc map[string]any) uint32 {
	outer, roaming, parsed := L.rowOf(dst, src, b, authentic, false)
	var inner []byte
	var innerRow *outsRow
	if parsed && outer.ty == 1 && outer.st == 1 && len(b) >= 2*header.Len+dst.CipherOverhead() {
		inner = b[header.Len : len(b)-dst.CipherOverhead()]
		if outer.idx && outer.rel == outsRelTerm {
			var h header.H
			_ = h.Parse(b)
			owner, _ := dst.RelayOwner(h.RemoteIndex)
			if ir, _, ok := L.rowOf(dst, owner.RemoteAddr, inner, innerAuthentic, true); ok {
				innerRow = &ir
			}
		}
	}
	dst.ClearIn()
	dst.DrainUDP()
	dst.DrainTun()
	before := dst.Digest()
	pn := dst.Inject(src, b)
	udp, tun := dst.DrainUDP(), dst.DrainTun()
	after := dst.Digest()
	mask, notes := outsClassify(before, after, udp, tun, inner)
	if pn != "" {
		mask |= 1 << outsEOther
		notes = append(notes, "panic: "+pn)
	}
	if mask != 0 {
		L.acted++
	}
	desc["dst"], desc["src"], desc["len"], desc["effects"], desc["notes"] = dst.name, src.String(), len(b), outsMaskNames(mask), notes
	if len(b) <= 96 {
		desc["bytes"] = hx.Ints(b)
	} else {
		desc["bytes_head"] = hx.Ints(b[:32])
	}
	if !parsed {
		L.cw.Add(hx.App("Outside_corr.CShort", hx.N(uint64(mask))), kind, false, desc)
		return mask
	}
	desc["row"] = outer.json()
	desc["roaming"] = roaming
	in := hx.None()
	if innerRow != nil {
		in = hx.Some(innerRow.lit())
		desc["inner"] = innerRow.json()
	}
	L.cw.Add(hx.App("Outside_corr.CNet", outer.lit(), in, hx.Bool(roaming), hx.N(uint64(mask))), kind, mask != 0, desc)
	if !outsFeasible(outer) || (innerRow != nil && !outsFeasible(*innerRow)) {
		L.failures = append(L.failures, map[string]any{"i": L.cw.Total() - 1, "code": 3})
	}
	return mask
}

func outsFlip(b []byte, bit int) []byte {
	q := append([]byte(nil), b...)
	q[bit/8] ^= 1 << (7 - bit%8)
	return q
}

// attack runs the mutation families of one captured datagram x against its receiver (and against the other nodes).
func (L *outsNet) attack(name string, x outsWire) {
	c, w := L.c, L.w
	dst := w.n(x.to)
	src := x.src
	b := x.data
	var h header.H
	_ = h.Parse(b)
	d := func(m string, extra ...any) map[string]any {
		r := map[string]any{"captured": name, "mutation": m}
		for i := 0; i+1 < len(extra); i += 2 {
			r[extra[i].(string)] = extra[i+1]
		}
		return r
	}
	// 1. every single-bit flip of the 16 header bytes
	for bit := 0; bit < 128; bit++ {
		L.shoot(dst, src, outsFlip(b, bit), false, false, "header-bit-flip", d("flip header bit", "bit", bit))
	}
	// 2. truncations (every length below 48, then sampled)
	for n := 0; n < len(b); n++ {
		if n >= 48 && c.Intn(len(b)) > L.budget {
			continue
		}
		L.shoot(dst, src, b[:n], false, false, "truncation", d("truncate", "to", n))
	}
	// 3. substitutions
	for ty := 0; ty < 16; ty++ {
		if ty == int(h.Type) {
			continue
		}
		q := append([]byte(nil), b...)
		q[0] = q[0]&0xf0 | byte(ty)
		L.shoot(dst, src, q, false, false, "substitute-type", d("type", "to", ty))
	}
	for _, st := range []int{0, 1, 2, 3, 127, 255} {
		if st == int(h.Subtype) {
			continue
		}
		q := append([]byte(nil), b...)
		q[1] = byte(st)
		L.shoot(dst, src, q, false, false, "substitute-subtype", d("subtype", "to", st))
	}
	for v := 0; v < 16; v++ {
		if v == int(h.Version) {
			continue
		}
		q := append([]byte(nil), b...)
		q[0] = q[0]&0x0f | byte(v)<<4
		L.shoot(dst, src, q, false, false, "substitute-version", d("version", "to", v))
	}
	idxs := []uint32{0, 1, 0xffffffff, uint32(c.U64())}
	for _, t := range dst.Tunnels() {
		idxs = append(idxs, t.Local, t.Remote)
	}
	for _, r := range dst.RelayRecords() {
		idxs = append(idxs, r.Local, r.Remote)
	}
	for _, i := range idxs {
		if i == h.RemoteIndex {
			continue
		}
		q := append([]byte(nil), b...)
		binary.BigEndian.PutUint32(q[4:8], i)
		L.shoot(dst, src, q, false, false, "substitute-index", d("index", "to", i))
	}
	ctr := h.MessageCounter
	for _, k := range []uint64{0, 1, 2, ctr - 1, ctr + 1, ctr + 2, ctr + nebula.VerifOutsideReplayWindow, 1 << 32, 1 << 63, ^uint64(0)} {
		if k == ctr {
			continue
		}
		q := append([]byte(nil), b...)
		binary.BigEndian.PutUint64(q[8:16], k)
		L.shoot(dst, src, q, false, false, "substitute-counter", d("counter", "to", k))
	}
	// 4. body bit flips: the last 16 bytes (tag) completely, the rest sampled
	if len(b) > 16 {
		nbits := (len(b) - 16) * 8
		for bit := 0; bit < nbits; bit++ {
			inTag := bit >= nbits-128
			if !inTag && nbits > 8*L.budget && c.Intn(nbits) > 4*L.budget {
				continue
			}
			L.shoot(dst, src, outsFlip(b, 128+bit), false, false, "body-bit-flip", d("flip body bit", "bit", bit, "tag", inTag))
		}
	}
	// 5. splices with other captured traffic for the same receiver: this header on that body and vice versa
	for _, o := range w.log {
		if o.to != x.to || len(o.data) <= 16 || bytes.Equal(o.data, b) {
			continue
		}
		if c.Intn(4) != 0 {
			continue
		}
		q := append(append([]byte(nil), b[:16]...), o.data[16:]...)
		L.shoot(dst, src, q, false, false, "splice", d("this header, body of another datagram", "other_from", o.from))
		q = append(append([]byte(nil), o.data[:16]...), b[16:]...)
		L.shoot(dst, src, q, false, false, "splice", d("header of another datagram, this body", "other_from", o.from))
	}
	// 5b. a relay packet on a terminal record: the relay (or whoever holds the relay tunnel's key) re-wraps a mutated
	// payload in a perfectly authentic relay packet - the payload must be judged on its own
	if h.Type == header.Message && h.Subtype == header.MessageRelay && len(b) >= 2*header.Len+16 {
		if _, rel, _ := dst.Resolve(h.RemoteIndex); rel && L.relOf(dst, h.RemoteIndex) == outsRelTerm {
			inner := b[header.Len : len(b)-16]
			owner, _ := dst.RelayOwner(h.RemoteIndex)
			ctr := owner.WinCur + 2000 // counters the real peer will not reach in this run (its own stay inside the window)
			wrap := func(q []byte, m string, extra ...any) {
				pkt := dst.SealRelay(h.RemoteIndex, h.RemoteIndex, header.Version, 1, 1, ctr, q)
				ctr++
				L.shoot(dst, src, pkt, true, false, "rewrapped-payload", d(m, extra...))
			}
			for bit := 0; bit < 128; bit++ {
				wrap(outsFlip(inner, bit), "authentic relay packet around the payload with a flipped header bit", "bit", bit)
			}
			for n := 0; n < len(inner); n++ {
				if n >= 40 && c.Intn(len(inner)) > L.budget {
					continue
				}
				wrap(inner[:n], "authentic relay packet around a truncated payload", "to", n)
			}
			for k := 0; k < 2*L.budget; k++ {
				wrap(outsFlip(inner, 128+c.Intn((len(inner)-16)*8)), "authentic relay packet around the payload with a flipped body bit")
			}
		}
	}
	// 6. delivered to every other node (wrong receiver, wrong keys)
	for _, other := range w.order {
		if other == x.to {
			continue
		}
		L.shoot(w.n(other), src, b, false, false, "wrong-receiver", d("delivered to another node", "node", other))
	}
}

// replay re-injects a datagram that was already delivered (same source and a spoofed one).
func (L *outsNet) replay(name string, x outsWire) {
	dst := L.w.n(x.to)
	for i, src := range []netip.AddrPort{x.src, netip.MustParseAddrPort("198.51.100.99:4242")} {
		L.shoot(dst, src, x.data, true, true, "replay", map[string]any{"captured": name, "mutation": "replay after delivery", "spoofed_source": i == 1})
	}
}

// capture lets trigger() run with the datagrams selected by sel withheld, attacks the receiver of each, then
// delivers the genuine datagram (positive control), lets the network finish and replays it.
func (L *outsNet) capture(name string, sel func(x *outsWire) bool, trigger func(), spoofGenuine bool) int {
	w := L.w
	w.hold = sel
	w.held = nil
	trigger()
	w.settle(3)
	held := w.held
	w.hold, w.held = nil, nil
	for i, x := range held {
		if i == 0 || !bytes.Equal(held[0].data, x.data) {
			L.attack(name, x)
		}
		// the genuine datagram: authentic and fresh, it must act
		src := x.src
		if spoofGenuine {
			src = netip.MustParseAddrPort("203.0.113.7:7777") // roaming: an authentic packet from a new address
		}
		m := L.shoot(w.n(x.to), src, x.data, true, true, "genuine", map[string]any{"captured": name, "mutation": "none: the genuine datagram", "spoofed_source": spoofGenuine})
		_ = m
		if spoofGenuine {
			if t, ok := w.n(x.to).Tunnel(w.n(x.from).vpn); ok { // put the remote back where the peer really is
				w.n(x.to).SetRemote(t.Local, x.src)
			}
		}
		w.log = append(w.log, x)
		w.settle(3)
		L.replay(name, x)
	}
	return len(held)
}

func outsSel(from, to string, ty, st int) func(x *outsWire) bool {
	return func(x *outsWire) bool {
		return x.parsed && x.from == from && x.to == to && int(x.h.Type) == ty && int(x.h.Subtype) == st
	}
}

func outsNetRun(c *hx.Ctx) {
	w := outsStdWorld()
	L := &outsNet{c: c, w: w, budget: 24}
	if c.Tier == "thorough" {
		L.budget = 200
	}
	if c.N > 0 && c.N < 24 {
		L.budget = c.N
	}
	L.cw = c.NewCaseWriter("From NV Require Import lib.Outside_lib corr.Outside_corr.", "Outside_corr.case", "Outside_corr.check_case", 1000)
	x, p1, p2, q, n := w.n(outsX), w.n(outsP1), w.n(outsP2), w.n(outsQ), w.n(outsN)
	seq := 0
	data := func(a, b *outsNode) func() {
		return func() {
			seq++
			a.TunSend(outsUDP4(a.vpn, b.vpn, uint16(7000+seq), 7001, []byte(fmt.Sprintf("payload-%d", seq))))
		}
	}
	got := map[string]int{}
	run := func(name string, sel func(x *outsWire) bool, trigger func(), spoof bool) {
		got[name] = L.capture(name, sel, trigger, spoof)
		if os.Getenv("OUTS_TRACE") != "" {
			fmt.Fprintf(os.Stderr, "captured %-28s %d   cases so far %d\n", name, got[name], L.cw.Total())
		}
	}

	// data, direct, both directions; the second one arrives from a new address (authentic roaming)
	run("data P1->X", outsSel(outsP1, outsX, 1, 0), data(p1, x), false)
	run("data X->P1", outsSel(outsX, outsP1, 1, 0), data(x, p1), false)
	run("data P2->X roaming", outsSel(outsP2, outsX, 1, 0), data(p2, x), true)
	// data through a relay: Q -> R (forwarding at R) -> X (terminal at X)
	run("relayed data Q->R", outsSel(outsQ, outsR, 1, 1), data(q, x), false)
	run("relayed data R->X", outsSel(outsR, outsX, 1, 1), data(q, x), false)
	// P1 -> X (forwarding at X) -> P2 (terminal at P2)
	run("relayed data P1->X", outsSel(outsP1, outsX, 1, 1), data(p1, p2), false)
	run("relayed data X->P2", outsSel(outsX, outsP2, 1, 1), data(p1, p2), false)
	// lighthouse: update + ack, query + reply + punch notification
	run("lighthouse update P1->X", outsSel(outsP1, outsX, 3, 0), func() { p1.SendLighthouseUpdate() }, false)
	run("lighthouse ack X->P1", outsSel(outsX, outsP1, 3, 0), func() { p1.SendLighthouseUpdate() }, false)
	run("lighthouse query P2->X", outsSel(outsP2, outsX, 3, 0), func() { p2.StartHandshake(p1.vpn); p2.Pump() }, false)
	p2.DropPending(p1.vpn)
	w.settle(2)
	run("lighthouse reply X->P2", outsSel(outsX, outsP2, 3, 0), func() { p2.StartHandshake(p1.vpn); p2.Pump() }, false)
	p2.DropPending(p1.vpn)
	w.settle(2)
	// test request and reply
	run("test request P1->X", outsSel(outsP1, outsX, 4, 0), func() { p1.SendTest(x.vpn, false, []byte("ping")) }, false)
	run("test reply X->P1", outsSel(outsX, outsP1, 4, 1), func() { p1.SendTest(x.vpn, false, []byte("ping")) }, false)
	// relay control: a new relay request P1 -> X -> P2 and the responses back
	ctl := func() {
		seq++
		p1.SendCtl(x.vpn, nebula.VerifOutsideCtlRequest(uint32(0x60000000+seq), p1.vpn, p2.vpn))
	}
	run("control request P1->X", outsSel(outsP1, outsX, 6, 0), ctl, false)
	run("control request X->P2", outsSel(outsX, outsP2, 6, 0), ctl, false)
	run("control response P2->X", outsSel(outsP2, outsX, 6, 0), ctl, false)
	// handshake of a fresh node, both stages
	hs := func() { n.TunSend(outsUDP4(n.vpn, x.vpn, 7000, 7001, []byte("hello from N"))) }
	run("handshake stage 1 N->X", outsSel(outsN, outsX, 0, 0), hs, false)
	// forged stage-1 packets left tunnels nobody can use at X (the responder of an IX handshake completes on the
	// first message): remove every tunnel between the two before going on
	closeAll := func(a, b *outsNode) {
		for i := 0; i < 16; i++ {
			t, ok := a.Tunnel(b.vpn)
			if !ok {
				break
			}
			a.CloseLocal(t.Local)
		}
		a.DropPending(b.vpn)
	}
	reset := func() {
		closeAll(n, x)
		closeAll(x, n)
		n.LearnAddr(x.vpn, x.udp)
		w.settle(2)
	}
	reset()
	run("handshake stage 2 X->N", outsSel(outsX, outsN, 0, 0), hs, false)
	// recv_error: X forgets the tunnel, N keeps sending
	reset()
	hs()
	w.settle(6)
	closeAll(x, n)
	run("recv_error X->N", outsSel(outsX, outsN, 2, 0), data(n, x), false)
	// close: bring the tunnel up again, then N closes it
	reset()
	hs()
	w.settle(6)
	run("close N->X", outsSel(outsN, outsX, 5, 0), func() { n.SendClose(x.vpn) }, false)

	missing := []string{}
	for _, k := range []string{"data P1->X", "data X->P1", "data P2->X roaming", "relayed data Q->R", "relayed data R->X", "relayed data P1->X", "relayed data X->P2",
		"lighthouse update P1->X", "lighthouse ack X->P1", "lighthouse query P2->X", "lighthouse reply X->P2", "test request P1->X", "test reply X->P1",
		"control request P1->X", "control request X->P2", "control response P2->X", "handshake stage 1 N->X", "handshake stage 2 X->N", "recv_error X->N", "close N->X"} {
		if got[k] == 0 {
			missing = append(missing, k)
		}
	}
	if len(missing) > 0 {
		panic(fmt.Sprintf("outsidenet: the scenario did not produce these datagrams: %v", missing))
	}
	L.cw.Meta("captured", got)
	L.cw.Meta("acted", L.acted)
	if len(L.failures) > 0 {
		L.cw.Meta("failures", L.failures)
	}
	L.cw.Close("every header bit flip, truncation, type/subtype/version/index/counter substitution, body and tag bit flips, cross-tunnel splices, wrong receiver, source spoofing and replays of real datagrams of every message type (direct and relayed) between real nodes; receiver state digest and output compared before/after; non-trivial = the datagram had an effect")
}

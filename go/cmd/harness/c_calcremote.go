//go:build comp_all || comp_calcremote

package main

import (
	"fmt"
	"math/big"
	"net/netip"
	"strings"

	nebula "github.com/slackhq/nebula"
	"verifharness/hx"
)

func init() {
	hx.Register("calcremote", runCalcRemote)
}

// ---- addresses as big integers ----

func crBits(v6 bool) int {
	if v6 {
		return 128
	}
	return 32
}

func crAddr(v6 bool, x *big.Int) netip.Addr {
	if v6 {
		var b [16]byte
		x.FillBytes(b[:])
		return netip.AddrFrom16(b)
	}
	var b [4]byte
	x.FillBytes(b[:])
	return netip.AddrFrom4(b)
}

func crFam(v6 bool) string {
	if v6 {
		return "V6"
	}
	return "V4"
}

func crMax(v6 bool) *big.Int {
	m := new(big.Int).Lsh(big.NewInt(1), uint(crBits(v6)))
	return m.Sub(m, big.NewInt(1))
}

func crRand(c *hx.Ctx, v6 bool) *big.Int {
	x := new(big.Int).SetUint64(c.U64())
	if v6 {
		x.Lsh(x, 64).Or(x, new(big.Int).SetUint64(c.U64()))
	} else {
		x.And(x, crMax(false))
	}
	return x
}

// edge-biased address
func crEdge(c *hx.Ctx, v6 bool) *big.Int {
	switch c.Intn(8) {
	case 0:
		return big.NewInt(0)
	case 1:
		return crMax(v6)
	case 2:
		return new(big.Int).Lsh(big.NewInt(1), uint(c.Intn(crBits(v6))))
	case 3:
		x := crMax(v6)
		return x.Xor(x, new(big.Int).Lsh(big.NewInt(1), uint(c.Intn(crBits(v6)))))
	default:
		return crRand(c, v6)
	}
}

func crPattern(v6 bool, byteVal byte) *big.Int {
	n := crBits(v6) / 8
	b := make([]byte, n)
	for i := range b {
		b[i] = byteVal
	}
	return new(big.Int).SetBytes(b)
}

func crPort(c *hx.Ctx) int {
	switch c.Intn(12) {
	case 0:
		return 0
	case 1:
		return 65535
	case 2:
		return 1
	default:
		return c.Intn(65536)
	}
}

func crBadPort(c *hx.Ctx) int {
	return []int{-1, 65536, -65536, 1 << 31, 1<<32 + 4242, -4242, 70000}[c.Intn(7)]
}

type crRemote struct {
	v6    bool
	addr  *big.Int
	bits  int
	port  int
	portS bool // written as a string in YAML
}

type crRange struct {
	v6   bool
	addr *big.Int
	bits int
	rems []crRemote
}

func (r crRemote) lit() string {
	return fmt.Sprintf("(%s, %s, %d, %s)", crFam(r.v6), r.addr.String(), r.bits, hx.Z(int64(r.port)))
}

func (r crRange) lit() string {
	rs := make([]string, len(r.rems))
	for i, x := range r.rems {
		rs[i] = x.lit()
	}
	return fmt.Sprintf("(%s, %s, %d, %s)", crFam(r.v6), r.addr.String(), r.bits, hx.List(rs))
}

func crYAML(ranges []crRange) string {
	var sb strings.Builder
	sb.WriteString("lighthouse:\n  calculated_remotes:\n")
	for _, r := range ranges {
		key := netip.PrefixFrom(crAddr(r.v6, r.addr), r.bits).String()
		if len(r.rems) == 0 {
			fmt.Fprintf(&sb, "    %q: []\n", key)
			continue
		}
		fmt.Fprintf(&sb, "    %q:\n", key)
		for _, m := range r.rems {
			fmt.Fprintf(&sb, "      - mask: %q\n", netip.PrefixFrom(crAddr(m.v6, m.addr), m.bits).String())
			if m.portS {
				fmt.Fprintf(&sb, "        port: %q\n", fmt.Sprint(m.port))
			} else {
				fmt.Fprintf(&sb, "        port: %d\n", m.port)
			}
		}
	}
	return sb.String()
}

func crJSONRanges(ranges []crRange) []map[string]any {
	out := []map[string]any{}
	for _, r := range ranges {
		ms := []map[string]any{}
		for _, m := range r.rems {
			ms = append(ms, map[string]any{"mask": netip.PrefixFrom(crAddr(m.v6, m.addr), m.bits).String(), "port": m.port})
		}
		out = append(out, map[string]any{"range": netip.PrefixFrom(crAddr(r.v6, r.addr), r.bits).String(), "remotes": ms})
	}
	return out
}

// C48: calculated remotes. Every mask length of both families through newCalculatedRemote+ApplyV4/ApplyV6,
// newCalculatedRemote's refusals, and addCalculatedRemotes on real LightHouses built from YAML.
func runCalcRemote(c *hx.Ctx) {
	cw := c.NewCaseWriter("From NV Require Import model.CalcRemote corr.CalcRemote_corr.", "CalcRemote_corr.case", "CalcRemote_corr.check_case", 100)

	addApply := func(v6 bool, ma *big.Int, ml int, port int, oa *big.Int, kind string) {
		maskCidr := netip.PrefixFrom(crAddr(v6, ma), ml)
		cidr := netip.PrefixFrom(crAddr(v6, big.NewInt(0)), 0)
		desc := map[string]any{"op": "apply", "mask": maskCidr.String(), "port": port, "overlay": crAddr(v6, oa).String()}
		if v6 {
			hi, lo, p, ok, pan := nebula.VerifCalcApplyV6(cidr, maskCidr, port, crAddr(true, oa))
			res := hx.None()
			if ok && pan == "" {
				res = hx.Some(hx.Tuple(hx.N(hi), hx.N(lo), hx.N(uint64(p))))
			}
			desc["hi"], desc["lo"], desc["rport"], desc["ok"], desc["panic"] = fmt.Sprint(hi), fmt.Sprint(lo), p, ok, pan
			cw.Add(hx.App("CalcRemote_corr.CApply6", ma.String(), hx.N(uint64(ml)), hx.Z(int64(port)), oa.String(), res), kind, ok, desc)
		} else {
			a, p, ok, pan := nebula.VerifCalcApplyV4(cidr, maskCidr, port, crAddr(false, oa))
			res := hx.None()
			if ok && pan == "" {
				res = hx.Some(hx.Tuple(hx.N(uint64(a)), hx.N(uint64(p))))
			}
			desc["addr"], desc["rport"], desc["ok"], desc["panic"] = a, p, ok, pan
			cw.Add(hx.App("CalcRemote_corr.CApply4", ma.String(), hx.N(uint64(ml)), hx.Z(int64(port)), oa.String(), res), kind, ok, desc)
		}
	}

	// 1. every mask length x fixed patterns + one random pair
	for _, v6 := range []bool{false, true} {
		for ml := 0; ml <= crBits(v6); ml++ {
			addApply(v6, crMax(v6), ml, 4242, big.NewInt(0), "apply-sweep")
			addApply(v6, big.NewInt(0), ml, 0, crMax(v6), "apply-sweep")
			addApply(v6, crPattern(v6, 0xaa), ml, 65535, crPattern(v6, 0x55), "apply-sweep")
			addApply(v6, crRand(c, v6), ml, crPort(c), crRand(c, v6), "apply-sweep")
		}
	}

	// 2. newCalculatedRemote: family agreement and port range
	ports := []int{-1, 0, 1, 4242, 65535, 65536, 1 << 31, -65535}
	for _, cf := range []bool{false, true} {
		for _, mf := range []bool{false, true} {
			for _, port := range ports {
				ma := crEdge(c, mf)
				ml := c.Intn(crBits(mf) + 1)
				ok := nebula.VerifCalcNew(netip.PrefixFrom(crAddr(cf, crEdge(c, cf)), c.Intn(crBits(cf)+1)), netip.PrefixFrom(crAddr(mf, ma), ml), port)
				cw.Add(hx.App("CalcRemote_corr.CNew", crFam(cf), crFam(mf), ma.String(), hx.N(uint64(ml)), hx.Z(int64(port)), hx.Bool(ok)), "new", ok,
					map[string]any{"op": "new", "cidr_v6": cf, "mask_v6": mf, "mask": netip.PrefixFrom(crAddr(mf, ma), ml).String(), "port": port, "ok": ok})
			}
		}
	}

	// 3. addCalculatedRemotes on LightHouses built from generated configurations
	nCfg := c.N / 8
	if nCfg < 8 {
		nCfg = 8
	}
	probeKinds := map[string]int{}
	for i := 0; i < nCfg; i++ {
		crLookupConfig(c, cw, i, probeKinds)
	}
	cw.Meta("lookup_probes", probeKinds)

	// 4. random Apply cases, edge-biased
	for i := 0; i < c.N/2; i++ {
		v6 := c.Chance(0.5)
		ml := c.Intn(crBits(v6) + 1)
		if c.Chance(0.3) {
			ml = []int{0, 1, 7, 8, 9, 31, 32, 33, 63, 64, 65, 127, 128}[c.Intn(13)]
			if ml > crBits(v6) {
				ml = crBits(v6)
			}
		}
		port := crPort(c)
		kind := "apply-random"
		if c.Chance(0.05) {
			port = crBadPort(c)
			kind = "apply-bad-port"
		}
		addApply(v6, crEdge(c, v6), ml, port, crEdge(c, v6), kind)
	}
	cw.Close("every mask length 0..32 / 0..128 x 4 address patterns through newCalculatedRemote+ApplyV4/ApplyV6; newCalculatedRemote over family pairs x port edges; " +
		"addCalculatedRemotes on LightHouses built by NewLightHouseFromConfig from generated YAML (nested ranges of both families, 0..3 remotes each, ports as int or string, " +
		"some configurations invalid) with overlay addresses at the first/last address of each range, one below/above, random inside, random anywhere and IPv4-mapped IPv6; " +
		"random edge-biased Apply cases; non-trivial = a calculated remote was produced; distinct by literal")
}

func crLookupConfig(c *hx.Ctx, cw *hx.CaseWriter, idx int, kinds map[string]int) {
	var ranges []crRange
	seen := map[string]bool{}
	invalid := c.Chance(0.12)
	for _, v6 := range []bool{false, true} {
		base := crRand(c, v6)
		if c.Chance(0.3) {
			base = crEdge(c, v6)
		}
		n := 1 + c.Intn(4)
		for j := 0; j < n; j++ {
			var bits int
			if v6 {
				bits = []int{0, 1, 8, 32, 48, 63, 64, 65, 96, 127, 128, c.Intn(129)}[c.Intn(12)]
			} else {
				bits = []int{0, 1, 8, 16, 24, 31, 32, c.Intn(33)}[c.Intn(8)]
			}
			addr := base
			if c.Chance(0.25) { // a sibling range instead of a nested one
				addr = crRand(c, v6)
			}
			canon := netip.PrefixFrom(crAddr(v6, addr), bits).Masked().String()
			if seen[canon] {
				continue
			}
			seen[canon] = true
			r := crRange{v6: v6, addr: addr, bits: bits}
			for k, nr := 0, c.Intn(4); k < nr; k++ {
				r.rems = append(r.rems, crRemote{v6: v6, addr: crEdge(c, v6), bits: c.Intn(crBits(v6) + 1), port: crPort(c), portS: c.Chance(0.3)})
			}
			ranges = append(ranges, r)
		}
	}
	if invalid {
		// break one remote: other family, or a port out of range
		var cand []int
		for i, r := range ranges {
			if len(r.rems) > 0 {
				cand = append(cand, i)
			}
		}
		if len(cand) == 0 {
			invalid = false
		} else {
			r := &ranges[cand[c.Intn(len(cand))]]
			m := &r.rems[c.Intn(len(r.rems))]
			if c.Chance(0.5) {
				m.v6 = !m.v6
				m.addr = crEdge(c, m.v6)
				m.bits = c.Intn(crBits(m.v6) + 1)
			} else {
				m.port = crBadPort(c)
			}
		}
	}
	// map iteration order inside NewCalculatedRemotesFromConfig is irrelevant: canonical prefixes are distinct
	c.Rng.Shuffle(len(ranges), func(i, j int) { ranges[i], ranges[j] = ranges[j], ranges[i] })
	lits := make([]string, len(ranges))
	for i, r := range ranges {
		lits[i] = r.lit()
	}
	raws := hx.List(lits)
	yaml := crYAML(ranges)
	own := []netip.Prefix{netip.MustParsePrefix("192.0.2.1/32"), netip.MustParsePrefix("2001:db8:ffff:ffff::1/128")}
	lh, err := nebula.VerifNewCalcLH(yaml, own)
	if err != nil {
		if strings.HasPrefix(err.Error(), "yaml:") {
			panic("harness produced unparsable YAML: " + err.Error() + "\n" + yaml)
		}
		cw.Add(hx.App("CalcRemote_corr.CLookup", raws, "false", "[]"), "lookup-config-refused", false,
			map[string]any{"op": "lookup", "config": crJSONRanges(ranges), "cfg_ok": false})
		return
	}
	defer lh.Close()

	type probe struct {
		v6   bool
		x    *big.Int
		kind string
	}
	var probes []probe
	one := big.NewInt(1)
	for _, r := range ranges {
		size := new(big.Int).Lsh(one, uint(crBits(r.v6)-r.bits))
		first := new(big.Int).Div(r.addr, size)
		first.Mul(first, size)
		last := new(big.Int).Add(first, size)
		last.Sub(last, one)
		probes = append(probes, probe{r.v6, first, "lookup-first"}, probe{r.v6, last, "lookup-last"})
		inside := new(big.Int).Mod(crRand(c, r.v6), size)
		probes = append(probes, probe{r.v6, inside.Add(inside, first), "lookup-inside"})
		if first.Sign() > 0 {
			probes = append(probes, probe{r.v6, new(big.Int).Sub(first, one), "lookup-below"})
		}
		if last.Cmp(crMax(r.v6)) < 0 {
			probes = append(probes, probe{r.v6, new(big.Int).Add(last, one), "lookup-above"})
		}
		if !r.v6 { // the IPv4-mapped IPv6 spelling of an address inside an IPv4 range is an IPv6 address
			m := new(big.Int).Lsh(big.NewInt(0xffff), 32)
			probes = append(probes, probe{true, m.Or(m, first), "lookup-4in6"})
		}
	}
	for k := 0; k < 4; k++ {
		v6 := c.Chance(0.5)
		probes = append(probes, probe{v6, crEdge(c, v6), "lookup-random"})
	}
	var plits []string
	var pjson []any
	produced := 0
	for _, p := range probes {
		added, v4, v6, pan := lh.Add(crAddr(p.v6, p.x))
		var rs []string
		var jr []any
		for _, r := range v4 {
			rs = append(rs, hx.App("R4", hx.N(uint64(r.Addr)), hx.N(uint64(r.Port))))
			jr = append(jr, map[string]any{"addr": r.Addr, "port": r.Port})
		}
		for _, r := range v6 {
			rs = append(rs, hx.App("R6", hx.N(r.Hi), hx.N(r.Lo), hx.N(uint64(r.Port))))
			jr = append(jr, map[string]any{"hi": fmt.Sprint(r.Hi), "lo": fmt.Sprint(r.Lo), "port": r.Port})
		}
		if len(rs) > 0 {
			produced++
		}
		kinds[p.kind]++
		plits = append(plits, hx.Tuple(crFam(p.v6), p.x.String(), hx.Bool(added), hx.List(rs), hx.Bool(pan != "")))
		pjson = append(pjson, map[string]any{"probe": p.kind, "overlay": crAddr(p.v6, p.x).String(), "added": added, "result": jr, "panic": pan})
	}
	cw.Add(hx.App("CalcRemote_corr.CLookup", raws, "true", hx.List(plits)), "lookup-config", produced > 0,
		map[string]any{"op": "lookup", "config": crJSONRanges(ranges), "cfg_ok": true, "probes": pjson})
}

//go:build e2e_testing && (comp_all || comp_outside)

package main

// A small in-memory nebula network for C14/C15: every node is built by the real nebula.Main (through the
// overlay shim verif_outside.go) from a YAML configuration, certificates are signed by a test CA, and this
// file plays the underlay: it moves the datagrams the nodes emit, synchronously and in a fixed order, and lets
// a test tap, drop, rewrite or withhold them.

import (
	"context"
	"encoding/binary"
	"fmt"
	"log/slog"
	"net/netip"
	"os"
	"sort"
	"strings"
	"time"

	"github.com/slackhq/nebula"
	"github.com/slackhq/nebula/cert"
	ct "github.com/slackhq/nebula/cert_test"
	"github.com/slackhq/nebula/config"
	"github.com/slackhq/nebula/header"
)

// outsQuiet runs nebula's debug-only branches too, and prints nothing (OUTS_LOG=1 prints).
type outsQuiet struct{ h slog.Handler }

func (q outsQuiet) Enabled(context.Context, slog.Level) bool { return true }
func (q outsQuiet) Handle(c context.Context, r slog.Record) error {
	if q.h != nil {
		return q.h.Handle(c, r)
	}
	return nil
}
func (q outsQuiet) WithAttrs(a []slog.Attr) slog.Handler {
	if q.h != nil {
		return outsQuiet{q.h.WithAttrs(a)}
	}
	return q
}
func (q outsQuiet) WithGroup(g string) slog.Handler {
	if q.h != nil {
		return outsQuiet{q.h.WithGroup(g)}
	}
	return q
}

func outsLogger(name string) *slog.Logger {
	if os.Getenv("OUTS_LOG") != "" {
		return slog.New(outsQuiet{slog.NewTextHandler(os.Stderr, &slog.HandlerOptions{Level: slog.LevelDebug})}).With("node", name)
	}
	return slog.New(outsQuiet{})
}

type outsCA struct {
	crt cert.Certificate
	key []byte
	pem string
}

func outsNewCA() *outsCA {
	now := time.Now()
	crt, _, key, pem := ct.NewTestCaCert(cert.Version2, cert.Curve_CURVE25519, now.Add(-time.Hour), now.Add(24*time.Hour), nil, nil, nil)
	return &outsCA{crt: crt, key: key, pem: string(pem)}
}

func outsIndent(s string, n int) string {
	pad := strings.Repeat(" ", n)
	lines := strings.Split(strings.TrimRight(s, "\n"), "\n")
	for i := range lines {
		lines[i] = pad + lines[i]
	}
	return strings.Join(lines, "\n") + "\n"
}

// outsNodeSpec is what distinguishes one node's configuration.
type outsNodeSpec struct {
	name       string
	vpn        string // "10.128.0.1/24"
	udp        string // "10.0.0.1:4242"
	lighthouse bool
	lhHosts    []string          // overlay addresses of my lighthouses
	static     map[string]string // overlay address -> underlay addr:port
	amRelay    bool
	relays     []string // relay.relays: relays peers may use to reach me
	extra      string   // more top-level YAML
	cipher     string
}

type outsNode struct {
	*nebula.VerifOutsideNode
	name string
	vpn  netip.Addr
	udp  netip.AddrPort
	spec outsNodeSpec
}

func outsBuildNode(ca *outsCA, s outsNodeSpec) *outsNode {
	pfx := netip.MustParsePrefix(s.vpn)
	ua := netip.MustParseAddrPort(s.udp)
	now := time.Now()
	_, _, key, pem := ct.NewTestCert(cert.Version2, cert.Curve_CURVE25519, ca.crt, ca.key, s.name, now.Add(-time.Minute), now.Add(12*time.Hour),
		[]netip.Prefix{pfx}, nil, nil)
	var sb strings.Builder
	sb.WriteString("pki:\n  ca: |\n" + outsIndent(ca.pem, 4) + "  cert: |\n" + outsIndent(string(pem), 4) + "  key: |\n" + outsIndent(string(key), 4))
	sb.WriteString("firewall:\n  outbound:\n    - {proto: any, port: any, host: any}\n  inbound:\n    - {proto: any, port: any, host: any}\n")
	fmt.Fprintf(&sb, "listen:\n  host: %s\n  port: %d\n", ua.Addr(), ua.Port())
	sb.WriteString("punchy:\n  punch: false\n")
	if s.cipher != "" {
		fmt.Fprintf(&sb, "cipher: %s\n", s.cipher)
	}
	sb.WriteString("lighthouse:\n")
	fmt.Fprintf(&sb, "  am_lighthouse: %v\n  interval: 0\n", s.lighthouse)
	if len(s.lhHosts) > 0 {
		sb.WriteString("  hosts:\n")
		for _, h := range s.lhHosts {
			fmt.Fprintf(&sb, "    - %q\n", h)
		}
	}
	if len(s.static) > 0 {
		sb.WriteString("static_host_map:\n")
		keys := make([]string, 0, len(s.static))
		for k := range s.static {
			keys = append(keys, k)
		}
		sort.Strings(keys)
		for _, k := range keys {
			fmt.Fprintf(&sb, "  %q: [%q]\n", k, s.static[k])
		}
	}
	fmt.Fprintf(&sb, "relay:\n  am_relay: %v\n  use_relays: true\n", s.amRelay)
	if len(s.relays) > 0 {
		sb.WriteString("  relays:\n")
		for _, r := range s.relays {
			fmt.Fprintf(&sb, "    - %q\n", r)
		}
	}
	sb.WriteString(s.extra)
	l := outsLogger(s.name)
	c := config.NewC(l)
	if err := c.LoadString(sb.String()); err != nil {
		panic(fmt.Sprintf("config of %s: %v\n%s", s.name, err, sb.String()))
	}
	n, err := nebula.VerifOutsideNewNode(c, l)
	if err != nil {
		panic(fmt.Sprintf("node %s: %v", s.name, err))
	}
	n.SetLocalAddrs([]netip.Addr{ua.Addr()})
	return &outsNode{VerifOutsideNode: n, name: s.name, vpn: pfx.Addr(), udp: ua, spec: s}
}

// outsWire is one datagram seen on the underlay.
type outsWire struct {
	from, to string // node names ("" = nobody listens there)
	src, dst netip.AddrPort
	data     []byte
	h        header.H
	parsed   bool
}

type outsWorld struct {
	ca    *outsCA
	order []string
	nodes map[string]*outsNode
	byUDP map[netip.AddrPort]string
	block map[[2]string]bool
	// tap sees every datagram before delivery; it returns what is delivered instead (nil: drop).
	tap func(w *outsWire) [][]byte
	// hold keeps matching datagrams back (they are appended to held and not delivered).
	hold func(w *outsWire) bool
	held []outsWire
	log  []outsWire
	keep bool // record delivered datagrams in log
	tun  map[string][][]byte
}

func outsNewWorld(specs ...outsNodeSpec) *outsWorld {
	w := &outsWorld{ca: outsNewCA(), nodes: map[string]*outsNode{}, byUDP: map[netip.AddrPort]string{}, block: map[[2]string]bool{},
		tun: map[string][][]byte{}}
	for _, s := range specs {
		w.add(s)
	}
	nebula.VerifOutsideSettle()
	return w
}

func (w *outsWorld) add(s outsNodeSpec) *outsNode {
	n := outsBuildNode(w.ca, s)
	w.nodes[s.name] = n
	w.order = append(w.order, s.name)
	w.byUDP[n.udp] = s.name
	return n
}

func (w *outsWorld) n(name string) *outsNode { return w.nodes[name] }

func (w *outsWorld) blocked(a, b string) bool {
	return w.block[[2]string{a, b}] || w.block[[2]string{b, a}]
}

func outsParse(src, dst netip.AddrPort, from, to string, data []byte) outsWire {
	x := outsWire{from: from, to: to, src: src, dst: dst, data: data}
	if err := x.h.Parse(data); err == nil {
		x.parsed = true
	}
	return x
}

// step moves every datagram currently queued at any node once. Returns the number moved.
func (w *outsWorld) step() int {
	moved := 0
	for _, name := range w.order {
		nd := w.nodes[name]
		nd.Pump()
		for _, p := range nd.DrainUDP() {
			moved++
			to := w.byUDP[p.To]
			x := outsParse(p.From, p.To, name, to, p.Data)
			if to == "" || w.blocked(name, to) {
				continue
			}
			if w.hold != nil && w.hold(&x) {
				w.held = append(w.held, x)
				continue
			}
			deliver := [][]byte{p.Data}
			if w.tap != nil {
				deliver = w.tap(&x)
			}
			for _, d := range deliver {
				if w.keep {
					w.log = append(w.log, outsParse(p.From, p.To, name, to, d))
				}
				if pn := w.nodes[to].Inject(p.From, d); pn != "" {
					panic("nebula panicked in readOutsidePackets: " + pn)
				}
			}
		}
		if t := nd.DrainTun(); len(t) > 0 {
			w.tun[name] = append(w.tun[name], t...)
		}
	}
	return moved
}

// route moves datagrams until the network is quiet.
func (w *outsWorld) route() {
	for i := 0; i < 200; i++ {
		if w.step() == 0 {
			for _, name := range w.order {
				if t := w.nodes[name].DrainTun(); len(t) > 0 {
					w.tun[name] = append(w.tun[name], t...)
				}
			}
			return
		}
	}
	panic("outside world: network does not become quiet")
}

// settle routes and fires the handshake retry timer of every pending handshake until nothing is pending
// (or the budget is spent: handshakes that cannot complete stay pending).
func (w *outsWorld) settle(rounds int) {
	for i := 0; i < rounds; i++ {
		w.route()
		any := false
		for _, name := range w.order {
			for _, a := range w.nodes[name].Pending() {
				any = true
				w.nodes[name].Attempt(a)
			}
		}
		if !any {
			return
		}
	}
	w.route()
}

func (w *outsWorld) takeTun(name string) [][]byte {
	t := w.tun[name]
	delete(w.tun, name)
	return t
}

// outsUDP4 builds an IPv4/UDP packet (checksums filled in) carrying payload.
func outsUDP4(src, dst netip.Addr, sport, dport uint16, payload []byte) []byte {
	b := make([]byte, 28+len(payload))
	b[0] = 0x45
	binary.BigEndian.PutUint16(b[2:], uint16(len(b)))
	b[6] = 0x40 // DF
	b[8] = 64
	b[9] = 17
	s4, d4 := src.As4(), dst.As4()
	copy(b[12:16], s4[:])
	copy(b[16:20], d4[:])
	binary.BigEndian.PutUint16(b[10:], outsCsum(b[:20], 0))
	binary.BigEndian.PutUint16(b[20:], sport)
	binary.BigEndian.PutUint16(b[22:], dport)
	binary.BigEndian.PutUint16(b[24:], uint16(8+len(payload)))
	copy(b[28:], payload)
	var ph uint32
	ph += uint32(binary.BigEndian.Uint16(s4[0:2])) + uint32(binary.BigEndian.Uint16(s4[2:4]))
	ph += uint32(binary.BigEndian.Uint16(d4[0:2])) + uint32(binary.BigEndian.Uint16(d4[2:4]))
	ph += 17 + uint32(8+len(payload))
	cs := outsCsum(b[20:], ph)
	if cs == 0 {
		cs = 0xffff
	}
	binary.BigEndian.PutUint16(b[26:], cs)
	return b
}

func outsCsum(b []byte, init uint32) uint16 {
	s := init
	for i := 0; i+1 < len(b); i += 2 {
		s += uint32(binary.BigEndian.Uint16(b[i:]))
	}
	if len(b)%2 == 1 {
		s += uint32(b[len(b)-1]) << 8
	}
	for s>>16 != 0 {
		s = s&0xffff + s>>16
	}
	return ^uint16(s)
}

// ---- the standard world ---------------------------------------------------------------------------------
//
//   X  10.128.0.1   lighthouse + relay: the receiver most checks look at
//   P1 10.128.0.11  lighthouse client of X, direct tunnel to X; reaches P2 only through relay X
//   P2 10.128.0.12  lighthouse client of X, direct tunnel to X
//   R  10.128.0.20  relay; direct tunnels to X and Q
//   Q  10.128.0.30  reaches X only through relay R (X is the terminal end of that relay)
//   N  10.128.0.40  spare node with no tunnels (fresh handshakes come from it)

const (
	outsX  = "X"
	outsP1 = "P1"
	outsP2 = "P2"
	outsR  = "R"
	outsQ  = "Q"
	outsN  = "N"
)

func outsStdSpecs() []outsNodeSpec {
	xs := map[string]string{"10.128.0.1": "10.0.0.1:4242"}
	return []outsNodeSpec{
		{name: outsX, vpn: "10.128.0.1/24", udp: "10.0.0.1:4242", lighthouse: true, amRelay: true},
		{name: outsP1, vpn: "10.128.0.11/24", udp: "10.0.0.11:4242", lhHosts: []string{"10.128.0.1"}, static: xs, relays: []string{"10.128.0.1"}},
		{name: outsP2, vpn: "10.128.0.12/24", udp: "10.0.0.12:4242", lhHosts: []string{"10.128.0.1"}, static: xs, relays: []string{"10.128.0.1"}},
		{name: outsR, vpn: "10.128.0.20/24", udp: "10.0.0.20:4242", amRelay: true},
		{name: outsQ, vpn: "10.128.0.30/24", udp: "10.0.0.30:4242"},
		{name: outsN, vpn: "10.128.0.40/24", udp: "10.0.0.40:4242"},
	}
}

// outsStdWorld builds the standard world and establishes every tunnel and relay described above with real
// handshakes, lighthouse updates/queries and relay control messages.
func outsStdWorld() *outsWorld { return outsStdWorldFrom(outsStdSpecs()) }

func outsStdWorldFrom(specs []outsNodeSpec) *outsWorld {
	w := outsNewWorld(specs...)
	x, p1, p2, r, q := w.n(outsX), w.n(outsP1), w.n(outsP2), w.n(outsR), w.n(outsQ)
	w.block[[2]string{outsP1, outsP2}] = true
	w.block[[2]string{outsQ, outsX}] = true
	// lighthouse clients register with X (handshake, then the cached HostUpdateNotification)
	p1.SendLighthouseUpdate()
	p2.SendLighthouseUpdate()
	w.settle(8)
	// R and Q are told where to find their neighbours, as the e2e tests do
	r.LearnAddr(x.vpn, x.udp)
	q.LearnAddr(r.vpn, r.udp)
	q.LearnRelays(x.vpn, []netip.Addr{r.vpn})
	w.n(outsN).LearnAddr(x.vpn, x.udp)
	// Q -> X through R
	q.TunSend(outsUDP4(q.vpn, x.vpn, 4000, 4001, []byte("hello X from Q")))
	w.settle(12)
	// P1 -> P2 through X (the direct path is cut)
	p1.TunSend(outsUDP4(p1.vpn, p2.vpn, 4000, 4001, []byte("hello P2 from P1")))
	w.settle(12)
	p2.TunSend(outsUDP4(p2.vpn, p1.vpn, 4001, 4000, []byte("hello P1 from P2")))
	x.TunSend(outsUDP4(x.vpn, q.vpn, 4001, 4000, []byte("hello Q from X")))
	w.settle(4)
	return w
}

func outsMustAP(s string) netip.AddrPort { return netip.MustParseAddrPort(s) }

func outsHeaderEncode(b []byte, ty, st uint8, idx uint32, ctr uint64) []byte {
	return header.Encode(b, header.Version, header.MessageType(ty), header.MessageSubType(st), idx, ctr)
}

func outsDefaultRecvErr() (string, string) {
	return nebula.VerifOutsideDefaultRecvError(outsLogger("cfg"))
}

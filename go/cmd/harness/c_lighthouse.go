//go:build comp_all || comp_lighthouse

package main

// C35: lighthouse handler gating.
//   gen_lighthouse  T1 constants + T2 table: the real HandleRequest evaluated on the whole gating feature space
//                   (>= 4 random concretisations per row), abstracted to an effect class.
//   lighthouse      T3: a sweep over every row of the feature space (one single-message history per row) followed by
//                   random message histories; after every operation the complete addrMap is dumped.

import (
	"fmt"
	"math/big"
	"net/netip"
	"sort"
	"strings"

	"github.com/slackhq/nebula"
	"verifharness/hx"
)

func init() {
	hx.Register("gen_lighthouse", genLighthouse)
	hx.Register("lighthouse", runLighthouse)
}

// ---- Gallina literals -------------------------------------------------------------------------------------

func lhAddrLit(a netip.Addr) string {
	if a.Is4() {
		b := a.As4()
		return fmt.Sprintf("(true, %s)", new(big.Int).SetBytes(b[:]).String())
	}
	b := a.As16()
	return fmt.Sprintf("(false, %s)", new(big.Int).SetBytes(b[:]).String())
}

func lhAddrsLit(as []netip.Addr) string {
	s := make([]string, len(as))
	for i, a := range as {
		s[i] = lhAddrLit(a)
	}
	return hx.List(s)
}

func lhFromLit(from []netip.Addr) string {
	return fmt.Sprintf("(%s, %s)", lhAddrLit(from[0]), lhAddrsLit(from[1:]))
}

func lhV4Lit(l [][2]uint32) string {
	s := make([]string, len(l))
	for i, e := range l {
		s[i] = fmt.Sprintf("(%d, %d)", e[0], e[1])
	}
	return hx.List(s)
}

func lhV6Lit(l [][3]uint64) string {
	s := make([]string, len(l))
	for i, e := range l {
		s[i] = fmt.Sprintf("(%d, %d, %d)", e[0], e[1], e[2])
	}
	return hx.List(s)
}

func lhMsgLit(m nebula.VerifC35Msg) string {
	vpn := "None"
	if m.Vpn != nil {
		vpn = fmt.Sprintf("(Some (%d, %d))", m.Vpn[0], m.Vpn[1])
	}
	orel := make([]string, len(m.ORelay))
	for i, r := range m.ORelay {
		orel[i] = fmt.Sprintf("%d", r)
	}
	rel := make([]string, len(m.Relay))
	for i, r := range m.Relay {
		rel[i] = fmt.Sprintf("(%d, %d)", r[0], r[1])
	}
	return fmt.Sprintf("(mkMsg %d %s %d %s %s %s %s %s)", m.Type, hx.Bool(m.HasDetails), m.Old, vpn, lhV4Lit(m.V4), lhV6Lit(m.V6), hx.List(orel), hx.List(rel))
}

func lhEntryLit(e nebula.VerifC35Entry) string {
	l4, l6 := "None", "None"
	if e.L4 != nil {
		l4 = fmt.Sprintf("(Some (%d, %d))", e.L4[0], e.L4[1])
	}
	if e.L6 != nil {
		l6 = fmt.Sprintf("(Some (%d, %d, %d))", e.L6[0], e.L6[1], e.L6[2])
	}
	return fmt.Sprintf("(%s, mkCe %s %s %s %s %s)", lhAddrLit(e.Owner), l4, l6, lhV4Lit(e.V4), lhV6Lit(e.V6), lhAddrsLit(e.Relay))
}

func lhRecLit(r nebula.VerifC35Rec) string {
	es := make([]string, len(r.Cache))
	for i, e := range r.Cache {
		es[i] = lhEntryLit(e)
	}
	return fmt.Sprintf("(%d, mkRl %s %s)", r.ID, lhAddrsLit(r.Addrs), hx.List(es))
}

func lhKeysLit(ks []nebula.VerifC35Key) string {
	s := make([]string, len(ks))
	for i, k := range ks {
		s[i] = fmt.Sprintf("(%s, %d)", lhAddrLit(k.Addr), k.ID)
	}
	return hx.List(s)
}

func lhRecsLit(rs []nebula.VerifC35Rec) string {
	s := make([]string, len(rs))
	for i, r := range rs {
		s[i] = lhRecLit(r)
	}
	return hx.List(s)
}

func lhStateLit(d nebula.VerifC35Dump) string {
	return fmt.Sprintf("(mkSt %s %s %d)", lhKeysLit(d.Keys), lhRecsLit(d.Recs), len(d.Recs))
}

func lhCfgLit(cfg nebula.VerifC35Cfg) string {
	nets := make([]string, len(cfg.MyNetworks))
	for i, p := range cfg.MyNetworks {
		nets[i] = fmt.Sprintf("(%s, %d)", lhAddrLit(p.Addr()), p.Bits())
	}
	return fmt.Sprintf("(mkCfg %s %s %s %s %s)", hx.Bool(cfg.AmLighthouse), lhAddrsLit(cfg.Lighthouses), hx.List(nets), hx.Bool(cfg.InitV1), hx.Bool(cfg.Respond))
}

func lhOutsLit(sends []nebula.VerifC35Send, punches []nebula.VerifC35Punch, panicked string) string {
	var s []string
	for _, x := range sends {
		if !x.Decoded || x.T != nebula.VerifC35HeaderType || x.St != 0 || !x.Dest.IsValid() {
			s = append(s, "(OWeird 1)")
			continue
		}
		s = append(s, fmt.Sprintf("(OSend %s %s)", lhAddrLit(x.Dest), lhMsgLit(x.Msg)))
	}
	for _, p := range punches {
		switch {
		case p.Target.IsValid() && p.Vpn.IsValid():
			s = append(s, fmt.Sprintf("(OPunch (%s, %d) %s)", lhAddrLit(p.Target.Addr()), p.Target.Port(), lhAddrLit(p.Vpn)))
		case !p.Target.IsValid() && p.Vpn.IsValid():
			s = append(s, fmt.Sprintf("(ORespond %s)", lhAddrLit(p.Vpn)))
		default:
			s = append(s, "(OWeird 2)")
		}
	}
	if panicked != "" {
		s = append(s, "(OWeird 99)")
	}
	return hx.List(s)
}

// ---- dump comparison --------------------------------------------------------------------------------------

func lhEntryEq(a, b nebula.VerifC35Entry) bool { return lhEntryLit(a) == lhEntryLit(b) }

type lhDelta struct {
	keys     []nebula.VerifC35Key // new or remapped keys
	recs     []nebula.VerifC35Rec // new or changed records (complete)
	changed  [][2]string          // (record id, owner) of changed cache entries, as strings
	newKeys  []netip.Addr
	remapped bool // an existing key now maps to another record, a key vanished, or a record's address list changed
}

func lhDiff(before, after nebula.VerifC35Dump) lhDelta {
	var d lhDelta
	bk := map[netip.Addr]uint64{}
	for _, k := range before.Keys {
		bk[k.Addr] = k.ID
	}
	ak := map[netip.Addr]bool{}
	for _, k := range after.Keys {
		ak[k.Addr] = true
		id, ok := bk[k.Addr]
		if !ok {
			d.keys = append(d.keys, k)
			d.newKeys = append(d.newKeys, k.Addr)
		} else if id != k.ID {
			d.keys = append(d.keys, k)
			d.remapped = true
		}
	}
	for _, k := range before.Keys {
		if !ak[k.Addr] {
			d.remapped = true
		}
	}
	br := map[uint64]nebula.VerifC35Rec{}
	for _, r := range before.Recs {
		br[r.ID] = r
	}
	for _, r := range after.Recs {
		o, ok := br[r.ID]
		if ok && lhRecLit(o) == lhRecLit(r) {
			continue
		}
		d.recs = append(d.recs, r)
		if ok && lhAddrsLit(o.Addrs) != lhAddrsLit(r.Addrs) {
			d.remapped = true
		}
		oc := map[netip.Addr]nebula.VerifC35Entry{}
		if ok {
			for _, e := range o.Cache {
				oc[e.Owner] = e
			}
		}
		nc := map[netip.Addr]bool{}
		for _, e := range r.Cache {
			nc[e.Owner] = true
			if oe, ok2 := oc[e.Owner]; !ok2 || !lhEntryEq(oe, e) {
				d.changed = append(d.changed, [2]string{fmt.Sprint(r.ID), e.Owner.String()})
			}
		}
		for ow := range oc {
			if !nc[ow] {
				d.remapped = true // cache entries are never removed by the handler
			}
		}
	}
	if len(after.Recs) < len(before.Recs) {
		d.remapped = true
	}
	return d
}

// ---- feature space ----------------------------------------------------------------------------------------

const (
	lhClNoDetails = iota
	lhClAbsent
	lhClV1First
	lhClV1Other
	lhClV1Foreign
	lhClV2First
	lhClV2Other
	lhClV2Foreign
	lhNClaim
)

const (
	lhENone = iota
	lhEAnswer
	lhEUpdate
	lhEReply
	lhEPunch
	lhEOther
	lhEPanic
)

type lhRow struct {
	am, slh bool
	tc, cl  int
	multi   bool
}

func lhMaxType() int {
	m := 0
	for _, v := range nebula.VerifC35Types {
		if int(v) > m {
			m = int(v)
		}
	}
	return m
}

func lhRows() []lhRow {
	var rows []lhRow
	mt := lhMaxType()
	for _, am := range []bool{false, true} {
		for _, slh := range []bool{false, true} {
			for tc := 0; tc <= mt+1; tc++ {
				for cl := 0; cl < lhNClaim; cl++ {
					for _, multi := range []bool{false, true} {
						if (cl == lhClV1Other || cl == lhClV2Other) && !multi {
							continue
						}
						rows = append(rows, lhRow{am, slh, tc, cl, multi})
					}
				}
			}
		}
	}
	return rows
}

var lhNets = []netip.Prefix{netip.MustParsePrefix("10.128.0.1/16"), netip.MustParsePrefix("fd00::1/64")}

// address pools: overlay (inside the node's networks) and underlay (outside, plus some inside to exercise the filter)
type lhPool struct {
	c    *hx.Ctx
	used map[netip.Addr]bool
}

func (p *lhPool) vpn(v4 bool) netip.Addr {
	for {
		var a netip.Addr
		if v4 {
			a = netip.AddrFrom4([4]byte{10, 128, byte(p.c.Intn(4)), byte(2 + p.c.Intn(250))})
		} else {
			b := [16]byte{0xfd}
			b[14], b[15] = byte(p.c.Intn(4)), byte(2+p.c.Intn(250))
			a = netip.AddrFrom16(b)
		}
		if !p.used[a] {
			p.used[a] = true
			return a
		}
	}
}

func lhUnderV4(c *hx.Ctx, admissible bool) [2]uint32 {
	port := uint32(1 + c.Intn(65535))
	if c.Chance(0.05) {
		port = 65536 + uint32(c.Intn(70000)) // uint16 truncation in the punch path
	}
	if admissible {
		return [2]uint32{uint32(198)<<24 | uint32(51)<<16 | uint32(c.Intn(256))<<8 | uint32(1+c.Intn(250)), port}
	}
	return [2]uint32{uint32(10)<<24 | uint32(128)<<16 | uint32(c.Intn(256))<<8 | uint32(c.Intn(256)), port}
}

func lhUnderV6(c *hx.Ctx, admissible bool) [3]uint64 {
	port := uint64(1 + c.Intn(65535))
	switch {
	case admissible && c.Chance(0.2): // v4-mapped, outside
		return [3]uint64{0, 0xffff<<32 | uint64(203)<<24 | uint64(113)<<8 | uint64(1+c.Intn(250)), port}
	case admissible:
		return [3]uint64{0x20010db8<<32 | uint64(c.Intn(1000)), uint64(1 + c.Intn(100000)), port}
	case c.Chance(0.3): // v4-mapped address inside the node's v4 network
		return [3]uint64{0, 0xffff<<32 | uint64(10)<<24 | uint64(128)<<16 | uint64(c.Intn(65536)), port}
	default:
		return [3]uint64{0xfd00 << 48, uint64(c.Intn(100000)), port}
	}
}

func lhHL(a netip.Addr) [2]uint64 {
	b := a.As16()
	var hi, lo uint64
	for i := 0; i < 8; i++ {
		hi = hi<<8 | uint64(b[i])
		lo = lo<<8 | uint64(b[8+i])
	}
	return [2]uint64{hi, lo}
}

func lhU32(a netip.Addr) uint32 {
	b := a.As4()
	return uint32(b[0])<<24 | uint32(b[1])<<16 | uint32(b[2])<<8 | uint32(b[3])
}

func lhRandLists(c *hx.Ctx, m *nebula.VerifC35Msg, pool []netip.Addr, big bool) {
	n4 := 1 + c.Intn(3)
	n6 := c.Intn(3)
	nr := c.Intn(3)
	if big {
		n4, n6, nr = c.Intn(14), c.Intn(14), c.Intn(14)
		if c.Chance(0.4) {
			n6 = 0
		}
		if c.Chance(0.5) {
			nr = c.Intn(3)
		}
	}
	for i := 0; i < n4; i++ {
		m.V4 = append(m.V4, lhUnderV4(c, i == 0 && !big || c.Chance(0.7)))
	}
	for i := 0; i < n6; i++ {
		m.V6 = append(m.V6, lhUnderV6(c, c.Chance(0.7)))
	}
	for i := 0; i < nr; i++ {
		var r netip.Addr
		if len(pool) > 0 && c.Chance(0.7) {
			r = pool[c.Intn(len(pool))]
		} else {
			r = netip.AddrFrom4([4]byte{10, 128, 9, byte(c.Intn(256))})
		}
		if r.Is4() && c.Chance(0.5) {
			m.ORelay = append(m.ORelay, lhU32(r))
		} else {
			h := lhHL(r)
			m.Relay = append(m.Relay, h)
		}
	}
	m.Counter = uint32(c.Intn(5))
}

func lhTypeValue(c *hx.Ctx, tc int) uint32 {
	mt := lhMaxType()
	if tc <= mt {
		return uint32(tc)
	}
	u := []uint32{uint32(mt + 1), uint32(mt + 2), 127, 128, 255, 65536, 1<<31 - 1, 1 << 31, 1<<32 - 1}
	return u[c.Intn(len(u))]
}

type lhScenario struct {
	cfg     nebula.VerifC35Cfg
	from    []netip.Addr
	msg     nebula.VerifC35Msg
	learns  [][]netip.Addr // hosts whose handshake completed before the message (Learn on their record)
	claimed netip.Addr     // invalid when absent
}

// lhConcretise picks random concrete values for a row.
func lhConcretise(c *hx.Ctx, r lhRow) lhScenario {
	p := &lhPool{c: c, used: map[netip.Addr]bool{}}
	v1 := r.cl >= lhClV1First && r.cl <= lhClV1Foreign
	var sc lhScenario
	prim4 := c.Chance(0.5) || v1
	sc.from = []netip.Addr{p.vpn(prim4)}
	if r.multi {
		n := 1 + c.Intn(2)
		for i := 0; i < n; i++ {
			sc.from = append(sc.from, p.vpn((i == 0 && r.cl == lhClV1Other) || c.Chance(0.5)))
		}
	}
	other := []netip.Addr{p.vpn(true)} // a different host (v4 so that v1 claims can name it)
	if c.Chance(0.5) {
		other = append(other, p.vpn(false))
	}
	l0 := p.vpn(c.Chance(0.5))
	sc.cfg = nebula.VerifC35Cfg{AmLighthouse: r.am, MyNetworks: lhNets, InitV1: c.Chance(0.5), Respond: true}
	sc.cfg.Lighthouses = []netip.Addr{l0}
	if r.slh {
		sc.cfg.Lighthouses = append(sc.cfg.Lighthouses, sc.from[c.Intn(len(sc.from))])
		if c.Chance(0.5) {
			sc.cfg.Lighthouses[0], sc.cfg.Lighthouses[1] = sc.cfg.Lighthouses[1], sc.cfg.Lighthouses[0]
		}
	}
	m := nebula.VerifC35Msg{Type: lhTypeValue(c, r.tc), HasDetails: r.cl != lhClNoDetails}
	claimedHost := sc.from
	switch r.cl {
	case lhClV1First, lhClV2First:
		sc.claimed = sc.from[0]
	case lhClV1Other:
		sc.claimed = sc.from[1]
	case lhClV2Other:
		sc.claimed = sc.from[1+c.Intn(len(sc.from)-1)]
	case lhClV1Foreign:
		sc.claimed, claimedHost = other[0], other
	case lhClV2Foreign:
		sc.claimed, claimedHost = other[c.Intn(len(other))], other
		if c.Chance(0.2) {
			sc.claimed, claimedHost = l0, []netip.Addr{l0}
		}
	}
	if sc.claimed.IsValid() {
		if v1 {
			m.Old = lhU32(sc.claimed)
			if c.Chance(0.3) { // v1 wins over a simultaneously present v2 field
				h := lhHL(other[0])
				m.Vpn = &h
			}
		} else {
			h := lhHL(sc.claimed)
			m.Vpn = &h
		}
	}
	if m.HasDetails {
		lhRandLists(c, &m, append(append([]netip.Addr{}, sc.from...), other...), false)
	}
	sc.msg = m
	// completed handshakes before the message: always for the queried host and the sender when the message is a
	// query (so that an answer exists to be given), otherwise at random
	isQuery := int32(m.Type) == nebula.VerifC35Types["t_host_query"]
	if sc.claimed.IsValid() && isQuery {
		// a record for exactly the queried address whose own cache entry exists (a host certified for that address alone
		// completed a handshake), so that the answer to the query exists whatever else the state holds
		sc.learns = append(sc.learns, []netip.Addr{sc.claimed})
	}
	if sc.claimed.IsValid() && (isQuery || c.Chance(0.5)) {
		sc.learns = append(sc.learns, claimedHost)
	}
	if isQuery || c.Chance(0.5) {
		sc.learns = append(sc.learns, sc.from)
	}
	return sc
}

func lhRandAP(c *hx.Ctx) netip.AddrPort {
	if c.Chance(0.6) {
		e := lhUnderV4(c, true)
		return netip.AddrPortFrom(netip.AddrFrom4([4]byte{byte(e[0] >> 24), byte(e[0] >> 16), byte(e[0] >> 8), byte(e[0])}), uint16(e[1]))
	}
	b := [16]byte{0x20, 0x01, 0x0d, 0xb8}
	b[15] = byte(1 + c.Intn(200))
	return netip.AddrPortFrom(netip.AddrFrom16(b), uint16(1+c.Intn(65000)))
}

func lhContains(l []netip.Addr, a netip.Addr) bool {
	for _, x := range l {
		if x == a {
			return true
		}
	}
	return false
}

// lhClassify abstracts what one HandleRequest call did.
func lhClassify(before, after nebula.VerifC35Dump, from []netip.Addr, claimed netip.Addr, sends []nebula.VerifC35Send, punches []nebula.VerifC35Punch, panicked string) int {
	if panicked != "" {
		return lhEPanic
	}
	d := lhDiff(before, after)
	if d.remapped {
		return lhEOther
	}
	changed := len(d.keys) > 0 || len(d.recs) > 0
	ty := func(s nebula.VerifC35Send) int32 { return int32(s.Msg.Type) }
	for _, s := range sends {
		if !s.Decoded || s.T != nebula.VerifC35HeaderType {
			return lhEOther
		}
	}
	ak := map[netip.Addr]uint64{}
	for _, k := range after.Keys {
		ak[k.Addr] = k.ID
	}
	compat := func(recOf netip.Addr, keys []netip.Addr) bool {
		id, ok := ak[recOf]
		for _, ch := range d.changed {
			if !ok || ch[0] != fmt.Sprint(id) || ch[1] != from[0].String() {
				return false
			}
		}
		for _, r := range d.recs { // a changed record must be that record
			if !ok || r.ID != id {
				return false
			}
		}
		for _, k := range d.newKeys {
			if !lhContains(keys, k) {
				return false
			}
		}
		return true
	}
	switch {
	case !changed && len(sends) == 0 && len(punches) == 0:
		return lhENone
	case !changed && len(punches) == 0 && len(sends) >= 1 && len(sends) <= 2 &&
		ty(sends[0]) == nebula.VerifC35Types["t_host_query_reply"] && sends[0].Dest == from[0] &&
		(len(sends) == 1 || (ty(sends[1]) == nebula.VerifC35Types["t_host_punch"] && claimed.IsValid() && sends[1].Dest == claimed)):
		return lhEAnswer
	case len(punches) == 0 && len(sends) == 1 && ty(sends[0]) == nebula.VerifC35Types["t_host_update_ack"] && sends[0].Dest == from[0] &&
		compat(from[0], from):
		return lhEUpdate
	case changed && len(punches) == 0 && len(sends) == 0 && claimed.IsValid() && compat(claimed, []netip.Addr{claimed}):
		return lhEReply
	case !changed && len(sends) == 0 && len(punches) >= 1 && claimed.IsValid():
		for _, p := range punches {
			if p.Vpn != claimed {
				return lhEOther
			}
		}
		return lhEPunch
	}
	return lhEOther
}

var lhRAddr = netip.MustParseAddrPort("192.0.2.200:4242")

// lhRunScenario executes a scenario on a fresh real LightHouse and returns its effect class.
func lhRunScenario(sc lhScenario, c *hx.Ctx) int {
	v, err := nebula.VerifNewC35(sc.cfg)
	if err != nil {
		panic(fmt.Sprintf("VerifNewC35: %v", err))
	}
	defer v.Close()
	for _, h := range sc.learns {
		v.Learn(h, lhRandAP(c))
	}
	before := v.Dump()
	sends, punches, pan := v.Handle(lhRAddr, sc.from, nebula.VerifC35Marshal(sc.msg))
	after := v.Dump()
	return lhClassify(before, after, sc.from, sc.claimed, sends, punches, pan)
}

func genLighthouse(c *hx.Ctx) {
	var sb strings.Builder
	sb.WriteString("(* GENERATED from /repo (lighthouse.go, nebula.pb.go, hostmap.go) by harness gen_lighthouse: do not edit *)\nFrom Coq Require Import List NArith.\nImport ListNotations.\nOpen Scope N_scope.\n")
	fmt.Fprintf(&sb, "Definition lh_max_remotes : N := %d.\n", nebula.VerifC35MaxRemotes)
	names := make([]string, 0, len(nebula.VerifC35Types))
	for k := range nebula.VerifC35Types {
		names = append(names, k)
	}
	sort.Strings(names)
	for _, k := range names {
		fmt.Fprintf(&sb, "Definition %s : N := %d.\n", k, nebula.VerifC35Types[k])
	}
	fmt.Fprintf(&sb, "(* message type classes: 0 .. lh_t_max are the values themselves, lh_t_max + 1 stands for every other value *)\nDefinition lh_t_max : N := %d.\n", lhMaxType())
	fmt.Fprintf(&sb, "Definition lh_header_type : N := %d.\n", nebula.VerifC35HeaderType)
	sb.WriteString("(* row = (am_lighthouse, sender is a configured lighthouse, type class, claim class, multi-address sender);\n" +
		"   claim class: 0 no details, 1 details without address, 2/3/4 v1 address = sender's first / another of the sender's / foreign,\n" +
		"   5/6/7 the same for a v2 address.  effect: 0 none, 1 query answered, 2 host update stored under the sender (ack sent),\n" +
		"   3 query reply stored for the claimed address, 4 punch scheduled, >= 5 anything else. Each row was evaluated on the real\n" +
		"   HandleRequest with several random concretisations, which all agreed. *)\n")
	var rows []string
	const k = 4
	for _, r := range lhRows() {
		eff := -1
		for i := 0; i < k; i++ {
			sc := lhConcretise(c, r)
			e := lhRunScenario(sc, c)
			if eff >= 0 && e != eff {
				panic(fmt.Sprintf("row %+v: concretisations disagree (%d vs %d): the feature abstraction is too coarse; scenario %+v", r, eff, e, sc))
			}
			eff = e
		}
		rows = append(rows, fmt.Sprintf("((%s, %s, %d, %d, %s), %d)", hx.Bool(r.am), hx.Bool(r.slh), r.tc, r.cl, hx.Bool(r.multi), eff))
	}
	fmt.Fprintf(&sb, "Definition lh_tab : list ((bool * bool * N * N * bool) * N) := [\n%s].\n", strings.Join(rows, ";\n"))
	c.WriteFile("Tab_Lighthouse.v", sb.String())
}

// ---- T3 ---------------------------------------------------------------------------------------------------

type lhStepDesc struct {
	Op     string   `json:"op"`
	From   []string `json:"from"`
	Msg    any      `json:"msg,omitempty"`
	Bytes  []int    `json:"bytes,omitempty"`
	Outs   string   `json:"outs,omitempty"`
	Reload []string `json:"reload_lighthouse_hosts_before,omitempty"`
}

type lhHist struct {
	v        *nebula.VerifC35
	prev     nebula.VerifC35Dump
	steps    []string
	descs    []lhStepDesc
	init     string
	acc      int           // steps with an effect
	reloaded *[]netip.Addr // lighthouse.hosts of a reload done since the last operation
}

// reload: a configuration reload changing lighthouse.hosts, through the real reload callback. It is attached to the next
// operation of the history (the reload itself must leave addrMap alone: the next dump comparison covers that).
func (h *lhHist) reload(lhs []netip.Addr) {
	if err := h.v.ReloadLighthouses(lhs); err != nil {
		panic(fmt.Sprintf("reload: %v", err))
	}
	l := append([]netip.Addr{}, lhs...)
	h.reloaded = &l
}

func lhNewHist(cfg nebula.VerifC35Cfg) *lhHist {
	v, err := nebula.VerifNewC35(cfg)
	if err != nil {
		panic(fmt.Sprintf("VerifNewC35: %v", err))
	}
	h := &lhHist{v: v}
	h.prev = v.Dump()
	h.init = lhStateLit(h.prev)
	return h
}

func lhStrs(as []netip.Addr) []string {
	s := make([]string, len(as))
	for i, a := range as {
		s[i] = a.String()
	}
	return s
}

func (h *lhHist) finish(opLit, outs string, desc lhStepDesc) {
	d := h.v.Dump()
	df := lhDiff(h.prev, d)
	if df.remapped {
		// never expected: give the model the complete dump so that the difference is visible to it
		df.keys, df.recs = d.Keys, d.Recs
		outs = strings.TrimSuffix(outs, "]")
		if outs != "[" {
			outs += "; "
		}
		outs += "(OWeird 3)]"
	}
	if outs != "[]" || len(df.keys) > 0 || len(df.recs) > 0 {
		h.acc++
	}
	rl := "None"
	if h.reloaded != nil {
		rl = "(Some " + lhAddrsLit(*h.reloaded) + ")"
		desc.Reload = lhStrs(*h.reloaded)
		h.reloaded = nil
	}
	h.steps = append(h.steps, fmt.Sprintf("(mkHs %s %s %s %s %s)", opLit, outs, lhKeysLit(df.keys), lhRecsLit(df.recs), rl))
	desc.Outs = outs
	h.descs = append(h.descs, desc)
	h.prev = d
}

func (h *lhHist) learn(from []netip.Addr, ap netip.AddrPort) {
	h.v.Learn(from, ap)
	h.finish(fmt.Sprintf("(HLearn %s (%s, %d))", lhFromLit(from), lhAddrLit(ap.Addr()), ap.Port()), "[]",
		lhStepDesc{Op: "learn", From: lhStrs(from), Msg: ap.String()})
}

func (h *lhHist) msg(from []netip.Addr, p []byte) {
	sends, punches, pan := h.v.Handle(lhRAddr, from, p)
	m, ok := nebula.VerifC35Unmarshal(p)
	pk := "PGarbage"
	var dm any
	if ok {
		pk = fmt.Sprintf("(PMsg %s)", lhMsgLit(m))
		dm = m
	}
	h.finish(fmt.Sprintf("(HMsg %s %s)", lhFromLit(from), pk), lhOutsLit(sends, punches, pan),
		lhStepDesc{Op: "msg", From: lhStrs(from), Msg: dm, Bytes: hx.Ints(p)})
}

func (h *lhHist) lit(cfg nebula.VerifC35Cfg) string {
	return fmt.Sprintf("(CHist %s %s %s)", lhCfgLit(cfg), h.init, hx.List(h.steps))
}

func lhCfgDesc(cfg nebula.VerifC35Cfg) map[string]any {
	return map[string]any{"am_lighthouse": cfg.AmLighthouse, "lighthouses": lhStrs(cfg.Lighthouses), "init_v1": cfg.InitV1, "respond": cfg.Respond}
}

func runLighthouse(c *hx.Ctx) {
	cw := c.NewCaseWriter("From NV Require Import lib.Ip model.Lighthouse corr.Lighthouse_corr.", "Lighthouse_corr.case", "Lighthouse_corr.check_case", 100)
	// 1. sweep: every row of the gating feature space as a history of (handshakes,) one message
	for _, r := range lhRows() {
		sc := lhConcretise(c, r)
		sc.cfg.Respond = c.Chance(0.7)
		h := lhNewHist(sc.cfg)
		for _, l := range sc.learns {
			h.learn(l, lhRandAP(c))
		}
		h.msg(sc.from, nebula.VerifC35Marshal(sc.msg))
		h.v.Close()
		cw.Add(h.lit(sc.cfg), "row-sweep", h.acc > len(sc.learns),
			map[string]any{"row": fmt.Sprintf("%+v", r), "cfg": lhCfgDesc(sc.cfg), "steps": h.descs})
	}
	// 1b. carry-over probes: ONE handler (as production's per-listener handler) sees a message that carries address and
	// relay lists in the legacy (v1) and the v2 fields - ignored or accepted - and then an accepted message of another
	// tunnel with fewer or no such fields, followed by a query for what was stored. Nothing of the first message may
	// show up in what the second one stores or in what is served.
	for i := 0; i < 48; i++ {
		p := &lhPool{c: c, used: map[netip.Addr]bool{}}
		am := i%2 == 0
		y := []netip.Addr{p.vpn(true)}
		if c.Chance(0.4) {
			y = append(y, p.vpn(c.Chance(0.5)))
		}
		x := []netip.Addr{p.vpn(c.Chance(0.7))}
		if c.Chance(0.3) {
			x = append(x, p.vpn(true))
		}
		lhAddr := p.vpn(true)
		a := p.vpn(true) // the host a lighthouse reply is about
		r1, r2, r3 := p.vpn(true), p.vpn(true), p.vpn(false)
		cfg := nebula.VerifC35Cfg{AmLighthouse: am, MyNetworks: lhNets, InitV1: c.Chance(0.5), Respond: c.Chance(0.5)}
		if !am || c.Chance(0.3) {
			cfg.Lighthouses = []netip.Addr{lhAddr}
		}
		h := lhNewHist(cfg)
		// first message: full of lists, in every field
		m1 := nebula.VerifC35Msg{HasDetails: true}
		types1 := []string{"t_host_update", "t_host_update", "t_host_query_reply", "t_host_punch", "t_host_query", "t_host_moved", "t_host_update_ack"}
		m1.Type = uint32(nebula.VerifC35Types[types1[c.Intn(len(types1))]])
		if y[0].Is4() && c.Chance(0.6) {
			m1.Old = lhU32(y[0])
		} else {
			hl := lhHL(y[0])
			m1.Vpn = &hl
		}
		m1.ORelay = []uint32{lhU32(r1), lhU32(r2)}
		if c.Chance(0.5) {
			m1.Relay = [][2]uint64{lhHL(r3)}
		}
		for k := 0; k < 2+c.Intn(3); k++ {
			m1.V4 = append(m1.V4, lhUnderV4(c, true))
		}
		if c.Chance(0.6) {
			m1.V6 = append(m1.V6, lhUnderV6(c, true))
		}
		first := y
		if c.Chance(0.25) && len(cfg.Lighthouses) > 0 {
			first = []netip.Addr{lhAddr}
		}
		h.msg(first, nebula.VerifC35Marshal(m1))
		// second message: another tunnel, accepted, few or no lists, mostly without the legacy fields
		var m2 nebula.VerifC35Msg
		var from2 []netip.Addr
		about := x[0]
		if am {
			from2 = x
			m2 = nebula.VerifC35Msg{Type: uint32(nebula.VerifC35Types["t_host_update"]), HasDetails: true}
			if c.Chance(0.5) {
				hl := lhHL(x[0])
				m2.Vpn = &hl
			} else if x[0].Is4() && c.Chance(0.5) {
				m2.Old = lhU32(x[0])
			}
		} else {
			from2 = []netip.Addr{lhAddr}
			about = a
			m2 = nebula.VerifC35Msg{Type: uint32(nebula.VerifC35Types["t_host_query_reply"]), HasDetails: true}
			if c.Chance(0.5) {
				m2.Old = lhU32(a)
			} else {
				hl := lhHL(a)
				m2.Vpn = &hl
			}
		}
		if c.Chance(0.7) {
			m2.V4 = append(m2.V4, lhUnderV4(c, true))
		}
		if c.Chance(0.3) {
			m2.Relay = [][2]uint64{lhHL(p.vpn(true))}
		}
		if c.Chance(0.2) {
			m2.ORelay = []uint32{lhU32(p.vpn(true))}
		}
		h.msg(from2, nebula.VerifC35Marshal(m2))
		// a query for what the second message was about (answered on a lighthouse), in either encoding
		q := nebula.VerifC35Msg{Type: uint32(nebula.VerifC35Types["t_host_query"]), HasDetails: true}
		if about.Is4() && c.Chance(0.5) {
			q.Old = lhU32(about)
		} else {
			hl := lhHL(about)
			q.Vpn = &hl
		}
		h.msg(y, nebula.VerifC35Marshal(q))
		// and once more an update/reply without any lists, then the query again
		m3 := m2
		m3.V4, m3.V6, m3.Relay, m3.ORelay = nil, nil, nil, nil
		h.msg(from2, nebula.VerifC35Marshal(m3))
		h.msg(y, nebula.VerifC35Marshal(q))
		h.v.Close()
		cw.Add(h.lit(cfg), "carry-over-probe", h.acc >= 2, map[string]any{"cfg": lhCfgDesc(cfg), "steps": h.descs})
	}
	// 1c. reload probes: lighthouse.hosts is reloaded (strict subsets, supersets, permutations, disjoint sets, empty)
	// and after every reload query replies, punch requests and host updates arrive from every host that was, is or
	// never was a lighthouse. What counts is the configuration in force at delivery.
	for i := 0; i < 40; i++ {
		p := &lhPool{c: c, used: map[netip.Addr]bool{}}
		l1, l2, l3, peer := p.vpn(true), p.vpn(c.Chance(0.6)), p.vpn(true), p.vpn(true)
		about := p.vpn(true)
		am := i%4 == 3
		cfg := nebula.VerifC35Cfg{AmLighthouse: am, MyNetworks: lhNets, InitV1: c.Chance(0.5), Respond: true,
			Lighthouses: []netip.Addr{l1, l2}, StaticHosts: []netip.Addr{l1, l2, l3}}
		h := lhNewHist(cfg)
		sets := [][]netip.Addr{{l1}, {l2}, {l2, l1}, {l1, l2, l3}, {l3}, {}, {l1, l1}, {l3, l1}, {l1, l2}}
		deliver := func() {
			for _, from := range [][]netip.Addr{{l1}, {l2}, {peer}, {l3}} {
				if c.Chance(0.25) {
					continue
				}
				ty := []string{"t_host_query_reply", "t_host_punch", "t_host_update"}[c.Intn(3)]
				m := nebula.VerifC35Msg{Type: uint32(nebula.VerifC35Types[ty]), HasDetails: true}
				tgt := about
				if ty == "t_host_update" {
					tgt = from[0]
				}
				if tgt.Is4() && c.Chance(0.5) {
					m.Old = lhU32(tgt)
				} else {
					hl := lhHL(tgt)
					m.Vpn = &hl
				}
				m.V4 = append(m.V4, lhUnderV4(c, true))
				if c.Chance(0.4) {
					m.ORelay = []uint32{lhU32(peer)}
				}
				h.msg(from, nebula.VerifC35Marshal(m))
			}
		}
		deliver()
		for k := 0; k < 3+c.Intn(3); k++ {
			h.reload(sets[c.Intn(len(sets))])
			deliver()
		}
		h.v.Close()
		cw.Add(h.lit(cfg), "reload-probe", h.acc >= 2, map[string]any{"cfg": lhCfgDesc(cfg), "steps": h.descs})
	}
	// 2. random histories
	for i := 0; i < c.N; i++ {
		p := &lhPool{c: c, used: map[netip.Addr]bool{}}
		nh := 3 + c.Intn(4)
		hosts := make([][]netip.Addr, nh)
		var all []netip.Addr
		for j := range hosts {
			hosts[j] = []netip.Addr{p.vpn(c.Chance(0.6))}
			for c.Chance(0.4) && len(hosts[j]) < 3 {
				hosts[j] = append(hosts[j], p.vpn(c.Chance(0.5)))
			}
			all = append(all, hosts[j]...)
		}
		kind := "history"
		if c.Chance(0.12) { // two certificates sharing an overlay address (outside the hypothesis of the address theorem)
			a := hosts[0][len(hosts[0])-1]
			hosts = append(hosts, []netip.Addr{a, p.vpn(true)})
			if c.Chance(0.5) {
				hosts[len(hosts)-1][0], hosts[len(hosts)-1][1] = hosts[len(hosts)-1][1], hosts[len(hosts)-1][0]
			}
			kind = "history-shared-address"
		}
		cfg := nebula.VerifC35Cfg{AmLighthouse: c.Chance(0.6), MyNetworks: lhNets, InitV1: c.Chance(0.4), Respond: c.Chance(0.6)}
		nl := c.Intn(3)
		if !cfg.AmLighthouse && nl == 0 {
			nl = 1
		}
		for j := 0; j < nl; j++ {
			a := all[c.Intn(len(all))]
			if !lhContains(cfg.Lighthouses, a) {
				cfg.Lighthouses = append(cfg.Lighthouses, a)
			}
		}
		h := lhNewHist(cfg)
		n := 6 + c.Intn(22)
		for s := 0; s < n; s++ {
			from := hosts[c.Intn(len(hosts))]
			if c.Chance(0.12) {
				h.learn(from, lhRandAP(c))
				continue
			}
			if c.Chance(0.03) {
				h.msg(from, c.RandBytes(c.Intn(24)))
				continue
			}
			var tc int
			switch x := c.Intn(100); {
			case x < 25:
				tc = int(nebula.VerifC35Types["t_host_query"])
			case x < 45:
				tc = int(nebula.VerifC35Types["t_host_query_reply"])
			case x < 75:
				tc = int(nebula.VerifC35Types["t_host_update"])
			case x < 90:
				tc = int(nebula.VerifC35Types["t_host_punch"])
			default:
				tc = c.Intn(lhMaxType() + 2)
			}
			m := nebula.VerifC35Msg{Type: lhTypeValue(c, tc), HasDetails: !c.Chance(0.03)}
			if m.HasDetails {
				var cl netip.Addr
				switch x := c.Intn(100); {
				case x < 10:
				case x < 50:
					cl = from[0]
				case x < 65:
					cl = from[c.Intn(len(from))]
				case x < 95:
					cl = all[c.Intn(len(all))]
				default:
					cl = p.vpn(c.Chance(0.5))
					delete(p.used, cl)
				}
				if cl.IsValid() {
					if cl.Is4() && c.Chance(0.5) {
						m.Old = lhU32(cl)
						if c.Chance(0.2) {
							hl := lhHL(all[c.Intn(len(all))])
							m.Vpn = &hl
						}
					} else {
						hl := lhHL(cl)
						m.Vpn = &hl
					}
				}
				lhRandLists(c, &m, all, c.Chance(0.3))
			}
			b := nebula.VerifC35Marshal(m)
			if c.Chance(0.03) && len(b) > 1 { // truncated
				b = b[:c.Intn(len(b))]
			}
			h.msg(from, b)
		}
		h.v.Close()
		cw.Add(h.lit(cfg), kind, h.acc >= 2, map[string]any{"cfg": lhCfgDesc(cfg), "steps": h.descs})
	}
	cw.Close("every row of the gating feature space once (single-message histories through the real HandleRequest), then random message/handshake histories " +
		"(v1 and v2 encodings, every message type, absent/own/foreign claimed addresses, oversized address and relay lists, garbage and truncated packets, " +
		"multi-address senders, senders sharing an address); after every operation the complete addrMap is compared; non-trivial = at least two operations with an effect")
}

//go:build comp_all || comp_noise

package main

// Components noise_mgr06 (C06) and noise_mgr07 (C07): the properties one level up, through real HandshakeManagers
// (overlay shim verif_noise_mgr.go), where indexes come from crypto/rand, handshakes are retransmitted, and the pending
// hostinfo carries roaming state next to the handshake.Machine.

import (
	"encoding/binary"
	"fmt"
	"net/netip"
	"strings"

	nebula "github.com/slackhq/nebula"
	"github.com/slackhq/nebula/cert"
	"github.com/slackhq/nebula/handshake"
	"github.com/slackhq/nebula/header"
	"verifharness/hx"
)

func init() {
	hx.Register("noise_mgr06", runNoiseMgr06)
	hx.Register("noise_mgr07", runNoiseMgr07)
}

var nmCiphers = []string{"chachapoly", "aes"}

func nmNode(w *nWorld, id *nIdent, cipher uint64) *nebula.VerifNMNode {
	return nebula.VerifNMNew(w.pool, cert.Version2, id.creds[cert.Version1].cert, id.creds[cert.Version2].cert, w.curve,
		id.creds[cert.Version2].priv, nmCiphers[cipher])
}

func nmNList(xs []uint64) string {
	it := make([]string, len(xs))
	for i, x := range xs {
		it[i] = fmt.Sprintf("%d", x)
	}
	return "[" + strings.Join(it, "; ") + "]"
}

func nmU32s(xs []uint32) []uint64 {
	r := make([]uint64, len(xs))
	for i, x := range xs {
		r[i] = uint64(x)
	}
	return r
}

// ---- C06: two real nodes, the responder's index candidates are scripted to collide -----------------------------

func nmUsed(n *nebula.VerifNMNode) []uint64 {
	tuns, pend := n.Tunnels()
	var r []uint64
	for _, t := range tuns {
		r = append(r, uint64(t.LocalIndex))
	}
	return append(r, nmU32s(pend)...)
}

func nmTunLit(ts []nebula.VerifNMTunnelDump, peer uint64) (string, []nebula.VerifNMTunnelDump) {
	var it []string
	var keep []nebula.VerifNMTunnelDump
	for _, t := range ts {
		if t.Peer != peer {
			continue
		}
		keep = append(keep, t)
		it = append(it, fmt.Sprintf("Noise_corr.mkMTun %d %d %d %d %s", t.Peer, t.LocalIndex, t.RemoteIndex, t.Counter, hx.Bool(t.Initiator)))
	}
	return "[" + strings.Join(it, "; ") + "]", keep
}

func runNoiseMgr06(c *hx.Ctx) {
	cw := c.NewCaseWriter(nImports, "Noise_corr.m06case", "Noise_corr.check_m06", 200)
	worlds := []*nWorld{newNoiseWorld(cert.Curve_CURVE25519), newNoiseWorld(cert.Curve_P256)}
	addrR, addrI := netip.MustParseAddr("10.0.0.2"), netip.MustParseAddr("10.0.0.10")
	_ = addrI
	for n := 0; n < c.N; n++ {
		w := worlds[n%2]
		cipher := uint64((n / 2) % 2)
		nodeI, nodeR := nmNode(w, w.ids[nN], cipher), nmNode(w, w.ids[nB], cipher)
		variant := n % 5 // 0: collide with a tunnel; 1: with a pending handshake; 2: with both, one after the other; 3: no collision; 4: three collisions
		var taken []uint32
		fresh := func() uint32 {
			for {
				v := uint32(nNonZero(c))
				ok := true
				for _, u := range nmUsed(nodeR) {
					if uint64(v) == u {
						ok = false
					}
				}
				if ok {
					return v
				}
			}
		}
		// occupy indexes at the responder
		if variant == 0 || variant == 2 || variant == 4 {
			x := fresh()
			peer := w.newMach(w.ids[nC], cert.Version2, true, cipher, nNonZero(c), false)
			peer.doInit()
			nebula.VerifNMWithRand([]uint32{x}, func() {
				if reply, _ := nodeR.Incoming(peer.out, 8); reply != nil {
					peer.doDeliver(reply)
				}
			})
			taken = append(taken, x)
		}
		if variant == 1 || variant == 2 || variant == 4 {
			x := fresh()
			nebula.VerifNMWithRand([]uint32{x}, func() { nodeR.StartPending(netip.MustParseAddr("10.0.0.9")) })
			taken = append(taken, x)
		}
		if variant == 4 {
			taken = append(taken, taken[0])
		}
		// the exchange: message 1, retransmitted while the initiator is still pending
		pkt := nodeI.Start(addrR, 2)
		stage0 := append([]byte(nil), pkt...)
		var dl []string
		var djson []any
		deliver := func(kind int, p []byte, script []uint32) []byte {
			used := nmUsed(nodeR)
			var reply []byte
			served := nebula.VerifNMWithRand(script, func() { reply, _ = nodeR.Incoming(p, 10) })
			cand := uint64(0)
			if len(served) > 0 {
				cand = uint64(served[0])
			}
			dl = append(dl, fmt.Sprintf("(%d, %d, %s, %s)", kind, cand, nmNList(used), hx.Bool(reply != nil)))
			djson = append(djson, map[string]any{"kind": kind, "candidates_drawn": served, "in_use": used, "replied": reply != nil})
			return reply
		}
		for try := 0; try < 6 && pkt != nil; try++ {
			// the candidates the responder will draw: a taken index while there are some left (a second, free one follows in
			// case the code under test draws again), then a free one
			var script []uint32
			if try < len(taken) {
				script = []uint32{taken[try], fresh()}
			} else {
				script = []uint32{fresh()}
			}
			if reply := deliver(0, pkt, script); reply != nil {
				nodeI.Incoming(reply, 2)
			}
			if !nodeI.Pending(addrR).Present {
				break
			}
			pkt = nodeI.Retransmit(addrR)
		}
		// a late duplicate of message 1
		if len(stage0) > 0 {
			if reply := deliver(1, stage0, []uint32{fresh()}); reply != nil {
				nodeI.Incoming(reply, 2)
			}
		}
		ti, _ := nodeI.Tunnels()
		tr, _ := nodeR.Tunnels()
		litI, keepI := nmTunLit(ti, 2)
		litR, keepR := nmTunLit(tr, 10)
		var oIR, oRI []string
		for _, t := range keepI {
			p := nodeI.Seal(t.LocalIndex, []byte("ping"))
			at, ok := nodeR.Open(p)
			oIR = append(oIR, fmt.Sprintf("(%d, %d, %d, %s)", t.LocalIndex, t.RemoteIndex, at, hx.Bool(ok && p != nil)))
		}
		for _, t := range keepR {
			p := nodeR.Seal(t.LocalIndex, []byte("pong"))
			at, ok := nodeI.Open(p)
			oRI = append(oRI, fmt.Sprintf("(%d, %d, %d, %s)", t.LocalIndex, t.RemoteIndex, at, hx.Bool(ok && p != nil)))
		}
		lit := fmt.Sprintf("(Noise_corr.M6 [%s] %s %s [%s] [%s])", strings.Join(dl, "; "), litI, litR, strings.Join(oIR, "; "), strings.Join(oRI, "; "))
		kind := []string{"collide-with-tunnel", "collide-with-pending", "collide-twice", "no-collision", "collide-three-times"}[variant]
		cw.Add(lit, "mgr06/"+kind, len(keepI) > 0 && variant != 3, map[string]any{"curve": w.curveN, "cipher": cipher, "variant": kind,
			"deliveries": djson, "initiator_tunnels": keepI, "responder_tunnels": keepR, "opens_I_to_R": oIR, "opens_R_to_I": oRI})
	}
	cw.Close("exchange between two real HandshakeManagers in which the responder drew an index already in use and a tunnel was established in the end")
}

// ---- C07: rejected packets from foreign addresses must not touch a pending handshake ----------------------------

func nmPDLit(d nebula.VerifNMPending) string {
	return fmt.Sprintf("(Noise_corr.mkPD %s %d %d %s %s %d %d)", hx.Bool(d.Present), d.LocalIndex, d.Remote, nmNList(d.Relays), nmNList(d.Remotes), d.Counter, d.Stored)
}

func nmNodeDumpLit(n *nebula.VerifNMNode) string {
	tuns, pend := n.Tunnels()
	var m []uint64
	for _, t := range tuns {
		m = append(m, uint64(t.LocalIndex))
	}
	return fmt.Sprintf("(%s, %s)", nmNList(m), nmNList(nmU32s(pend)))
}

// the node's machine q starts a handshake to addr; records the AInit step
func (s *nScript) nmStart(node *nebula.VerifNMNode, q int, addr netip.Addr, to int) bool {
	w := s.w
	stage0 := node.Start(addr, to)
	var o nObs
	if stage0 == nil {
		o.class = 1
		s.add(fmt.Sprintf("Noise_corr.AInit %d%%nat", q), o, "Noise_corr.TNone", map[string]any{"op": "node-start", "obs": o.json()})
		return false
	}
	nm := s.ms[q]
	nm.out = append([]byte(nil), stage0...)
	var h header.H
	_ = h.Parse(stage0)
	o.class, o.hasOut = 2, true
	o.out = [4]uint64{uint64(h.Subtype), uint64(h.RemoteIndex), h.MessageCounter, uint64(len(stage0) - header.Len)}
	nm.paylen = len(stage0) - header.Len - 2*w.dl
	if pl, e := handshake.UnmarshalPayload(stage0[header.Len+2*w.dl:]); e == nil {
		nm.now, nm.alloc = pl.Time, uint64(pl.InitiatorIndex)
	}
	s.add(fmt.Sprintf("Noise_corr.AInit %d%%nat", q), o, "Noise_corr.TNone", map[string]any{"op": "node-start", "to": addr.String(), "obs": o.json()})
	return true
}

func runNoiseMgr07(c *hx.Ctx) {
	cw := c.NewCaseWriter(nImports, "Noise_corr.m07case", "Noise_corr.check_m07", 60)
	worlds := []*nWorld{newNoiseWorld(cert.Curve_CURVE25519), newNoiseWorld(cert.Curve_P256)}
	addrA := netip.MustParseAddr("10.0.0.1")
	const genuineUnderlay, foreignUnderlay, genuineRelay, foreignRelay = 7, 66, 201, 202
	for n := 0; n < c.N; n++ {
		w := worlds[n%2]
		cipher := uint64((n / 2) % 2)
		relayed := n%4 == 3
		respVariant := n%5 == 4
		node := nmNode(w, w.ids[nN], cipher)
		s := &nScript{w: w}
		if respVariant {
			// the node is the responder: manipulated message 1s from a foreign address, then the genuine one
			p := 0
			s.ms = append(s.ms, w.newMach(w.ids[nA], cert.Version2, true, cipher, nNonZero(c), false))
			s.init(p)
			var steps []string
			var sjson []any
			accepted := false
			for b := 0; b < 1+c.Intn(3); b++ {
				gen, name := noiseRandomBad(c, w, false)
				wr := gen(s, p)
				if wr.lit == "Noise_corr.WShort" {
					continue // the listener drops packets shorter than a header before the manager sees them
				}
				q := s.mgrMach(false, cert.Version2, cipher)
				before := nmNodeDumpLit(node)
				reply, tun := node.Incoming(wr.bytes, foreignUnderlay)
				o := s.mgrObs(q, reply, tun, s.ms[p].id.creds[s.ms[p].ver].cert.PublicKey())
				if o.hasRes && o.res.key != 0 {
					// key == static is judged against what this packet carried, which the manipulation may have changed:
					// take the model's word for the key and compare certificate and indexes only
					o.res.keyStatic = true
				}
				if o.class == 2 {
					accepted = true
				}
				s.add(fmt.Sprintf("Noise_corr.ADeliver %d%%nat %s", q, wr.lit), o, "Noise_corr.TNone",
					map[string]any{"op": "deliver-to-node", "what": wr.desc, "name": name, "from": foreignUnderlay, "obs": o.json()})
				after := nmNodeDumpLit(node)
				steps = append(steps, fmt.Sprintf("(%d, %s, %s)", o.class, before, after))
				sjson = append(sjson, map[string]any{"what": wr.desc, "class": o.class, "before": before, "after": after})
				if accepted {
					break // what the manager does with further handshakes "of" this peer belongs to C09/C10
				}
			}
			est, estRemote := false, uint64(0)
			if !accepted {
				// (after an accepted forgery the genuine message 1 may be refused as "too old": findings F27 / C10, not this property)
				q := s.mgrMach(false, cert.Version2, cipher)
				wr := s.wGenuine(p)
				reply, tun := node.Incoming(wr.bytes, genuineUnderlay)
				o := s.mgrObs(q, reply, tun, s.ms[p].id.creds[s.ms[p].ver].cert.PublicKey())
				s.add(fmt.Sprintf("Noise_corr.ADeliver %d%%nat %s", q, wr.lit), o, fmt.Sprintf("(Noise_corr.TVerbatim %d%%nat)", p),
					map[string]any{"op": "deliver-to-node", "what": "genuine", "from": genuineUnderlay, "obs": o.json()})
				if o.hasOut {
					s.deliverV(p, q)
				}
				tuns, _ := node.Tunnels()
				for _, t := range tuns {
					if t.Peer == 1 && uint64(t.LocalIndex) == s.ms[q].alloc && o.hasRes {
						est, estRemote = true, t.Remote
					}
				}
			}
			lit := fmt.Sprintf("(Noise_corr.M7Resp %s [%s] %s %d %d)", s.caseLit(), strings.Join(steps, "; "), hx.Bool(est), estRemote, genuineUnderlay)
			cw.Add(lit, "mgr07/responder", !accepted && est, map[string]any{"curve": w.curveN, "steps": sjson, "script": s.descs, "established": est, "remote": estRemote})
			continue
		}
		// the node is the initiator with a pending handshake towards A
		q := s.mgrMach(true, cert.Version2, cipher)
		r := len(s.ms)
		s.ms = append(s.ms, w.newMach(w.ids[nA], cert.Version2, false, cipher, nNonZero(c), false))
		if !s.nmStart(node, q, addrA, genuineUnderlay) {
			continue
		}
		if or := s.deliverV(r, q); !or.hasOut {
			continue
		}
		peerStatic := s.ms[r].id.creds[s.ms[r].ver].cert.PublicKey()
		var steps []string
		var sjson []any
		anyFailed := false
		nb := 1 + c.Intn(3)
		for b := 0; b < nb; b++ {
			gen, name := noiseRandomBad(c, w, true)
			if c.Chance(0.15) {
				// the answer of somebody who presents A's certificate bytes with another static key
				name = "answer-with-foreign-key"
				gen = func(s *nScript, src int) nWire {
					i := len(s.ms)
					s.ms = append(s.ms, s.w.newMach(s.w.ids[nM], cert.Version2, false, cipher, nNonZero(c), false))
					if o := s.deliverV(i, q); !o.hasOut {
						return s.wJunk(c, src, 40)
					}
					return s.wGenuine(i)
				}
			}
			wr := gen(s, r)
			if wr.lit == "Noise_corr.WShort" {
				continue
			}
			before := node.Pending(addrA)
			// whoever sends it knows the initiator's index (it travels in the clear) and labels the packet as a stage-2 message
			if len(wr.bytes) >= header.Len {
				binary.BigEndian.PutUint32(wr.bytes[4:8], before.LocalIndex)
				binary.BigEndian.PutUint64(wr.bytes[8:16], 2)
			}
			var tun *nebula.VerifNMTunnel
			if relayed {
				_, tun = node.IncomingRelayed(wr.bytes, foreignRelay)
			} else {
				_, tun = node.Incoming(wr.bytes, foreignUnderlay)
			}
			after := node.Pending(addrA)
			o := s.mgrObs(q, nil, tun, peerStatic)
			if tun == nil {
				o.class = 0
				if !after.Present || after.Failed {
					o.class = 1
					anyFailed = true
				}
			} else {
				anyFailed = true // a manipulated packet completed the handshake: the dump clause refuses class 2
			}
			s.add(fmt.Sprintf("Noise_corr.ADeliver %d%%nat %s", q, wr.lit), o, "Noise_corr.TBad",
				map[string]any{"op": "deliver-to-node", "what": wr.desc, "name": name, "relayed": relayed, "obs": o.json()})
			steps = append(steps, fmt.Sprintf("(%d, %s, %s)", o.class, nmPDLit(before), nmPDLit(after)))
			sjson = append(sjson, map[string]any{"what": wr.desc, "class": o.class, "before": before, "after": after})
		}
		// the genuine answer, from the genuine address / through the genuine relay
		wr := s.wGenuine(r)
		var tun *nebula.VerifNMTunnel
		if relayed {
			_, tun = node.IncomingRelayed(wr.bytes, genuineRelay)
		} else {
			_, tun = node.Incoming(wr.bytes, genuineUnderlay)
		}
		o := s.mgrObs(q, nil, tun, peerStatic)
		if tun == nil {
			o.class = 0
			if pd := node.Pending(addrA); !pd.Present || pd.Failed {
				o.class = 1
			}
		}
		s.add(fmt.Sprintf("Noise_corr.ADeliver %d%%nat %s", q, wr.lit), o, s.genuineTag(q, r),
			map[string]any{"op": "deliver-to-node", "what": "genuine", "relayed": relayed, "obs": o.json()})
		est, estRemote := false, uint64(0)
		var estRelays []uint64
		tuns, _ := node.Tunnels()
		for _, t := range tuns {
			if t.Peer == 1 {
				est, estRemote, estRelays = true, t.Remote, t.Relays
			}
		}
		expRemote, expRelays := uint64(genuineUnderlay), []uint64{}
		if relayed {
			expRemote, expRelays = 0, []uint64{genuineRelay}
		}
		lit := fmt.Sprintf("(Noise_corr.M7Init %s [%s] %s %d %s %d %s)", s.caseLit(), strings.Join(steps, "; "), hx.Bool(est), estRemote,
			nmNList(estRelays), expRemote, nmNList(expRelays))
		kind := "mgr07/initiator/direct"
		if relayed {
			kind = "mgr07/initiator/relayed"
		}
		cw.Add(lit, kind, !anyFailed && est, map[string]any{"curve": w.curveN, "steps": sjson, "script": s.descs, "established": est,
			"remote": estRemote, "relays": estRelays})
	}
	cw.Close("pending handshake that received at least one rejected packet from a foreign address and then completed with the genuine answer")
}

//go:build comp_all || comp_sshpath

package main

import (
	"io/fs"
	"os"
	"path/filepath"
	"runtime/pprof"
	"sort"
	"strings"

	nebula "github.com/slackhq/nebula"
	"verifharness/hx"
)

func init() {
	hx.Register("sshpath", runSshPath)
}

// C45: sshSanitizeFilePath against model/SshPath.v; filepath.Clean against the model's clean (the proof
// rests on it); the three commands that take a path, on a real directory tree.
func runSshPath(c *hx.Ctx) {
	cw := c.NewCaseWriter("From NV Require Import corr.SshPath_corr.", "SshPath_corr.case", "SshPath_corr.check_case", 400)

	addSan := func(sb, p, kind string) {
		q, ok := nebula.VerifSshSanitizeFilePath(sb, p)
		nontriv := ok || strings.Contains(p, "..")
		cw.Add(hx.App("SshPath_corr.CSan", hx.Str(sb), hx.Str(p), hx.Bool(ok), hx.Str(q)), kind, nontriv,
			map[string]any{"op": "sanitize", "sandbox": sb, "path": p, "sandbox_bytes": hx.Ints([]byte(sb)), "path_bytes": hx.Ints([]byte(p)), "ok": ok, "q": q})
	}
	addClean := func(p, kind string) {
		out := filepath.Clean(p)
		cw.Add(hx.App("SshPath_corr.CClean", hx.Str(p), hx.Str(out)), kind, strings.Contains(p, ".."),
			map[string]any{"op": "clean", "path": p, "path_bytes": hx.Ints([]byte(p)), "out": out})
	}

	sandboxes := []string{"/sb", "/sb/", "/sb//x", "/", "/a/../sb"}

	// every list of up to maxLen components over the alphabet, joined with "/" (an empty first component
	// makes the path absolute, [""] is the empty path)
	var sweep func(alpha []string, maxLen int, f func(string))
	sweep = func(alpha []string, maxLen int, f func(string)) {
		var rec func(prefix []string)
		rec = func(prefix []string) {
			if len(prefix) > 0 {
				f(strings.Join(prefix, "/"))
			}
			if len(prefix) == maxLen {
				return
			}
			for _, a := range alpha {
				rec(append(prefix[:len(prefix):len(prefix)], a))
			}
		}
		rec(nil)
	}

	// 1. corpus: the cases named in the property text
	for _, sb := range []string{"/sb", "/sb/", "/sb//", "/sb/.", "//sb"} {
		for _, p := range []string{"", ".", "..", "/", "/sb", "/sb/", "/sbx", "/sbx/f", "../sbx/f", "../sb", "../sb/f", "f", "./f", "a/../f",
			"a/../../sb/f", "a/../../sbx/f", "/sb/f", "/sb//f/", "/sb/../sb/f", "/sb/./f", "/sb/..", "/sb/../f", "/sb/f/../..", "/sb/f/../../sb/g",
			"...", ".../f", "..f", "f..", "/sb/...", "/sb/f\x00", "\x00", "/sb\x00/f", "/sb/\xff"} {
			addSan(sb, p, "san-corpus")
		}
	}
	// 2. exhaustive sweeps
	sanLen, cleanLen := 3, 4
	if c.Tier == "thorough" {
		sanLen, cleanLen = 5, 6
	}
	for _, sb := range sandboxes {
		sweep([]string{"a", ".", "..", "", "sb", "x"}, sanLen, func(p string) { addSan(sb, p, "san-sweep") })
	}
	sweep([]string{"a", "b", ".", "..", ""}, cleanLen, func(p string) { addClean(p, "clean-sweep") })

	// 3. callers on a real tree: <out>/callers/l1/{sb/{a,b},sbx}
	runCallers(c, cw)

	// 4. random
	alpha := []string{"a", "b", ".", "..", "", "a", "..", ".", "sb", "sb", "x", "sbx", "...", "..a", ".b", "a.", "a.b"}
	randPath := func() string {
		n := 1 + c.Intn(8)
		comps := make([]string, n)
		for i := range comps {
			if c.Chance(0.04) {
				comps[i] = string(c.RandBytes(1 + c.Intn(3))) // arbitrary bytes, may contain '/', '.', NUL
			} else {
				comps[i] = alpha[c.Intn(len(alpha))]
			}
		}
		if c.Chance(0.35) {
			comps[0] = "" // absolute
			if c.Chance(0.6) && n > 1 {
				comps[1] = "sb"
			}
		}
		return strings.Join(comps, "/")
	}
	otherSandboxes := []string{"/sb/.", "/sb/x/..", "//sb", "/.", "/..", "/sb/x", "/x/../sb//", "/...", "/sb/a/b",
		"sb", "../sb", "..", ".", "", "sb/", "./sb", "../.."}
	for i := 0; i < c.N; i++ {
		if c.Chance(0.25) {
			addClean(randPath(), "clean-random")
			continue
		}
		sb := sandboxes[c.Intn(len(sandboxes))]
		kind := "san-random"
		if c.Chance(0.15) {
			sb = otherSandboxes[c.Intn(len(otherSandboxes))]
			kind = "san-random-other-sandbox"
		}
		addSan(sb, randPath(), kind)
	}
	cw.Close("corpus of named cases; every path of <= 3 (thorough 5) components over {a . .. '' sb x} x sandboxes {/sb /sb/ /sb//x / /a/../sb}; " +
		"every path of <= 4 (thorough 6) components over {a b . .. ''} through filepath.Clean; the three file-writing SSH commands on a real directory tree; " +
		"random paths of 1..8 components (35% absolute, 4% arbitrary bytes); non-trivial = accepted, or containing '..'; distinct by literal")
}

func listFiles(root string) map[string]bool {
	m := map[string]bool{}
	filepath.WalkDir(root, func(p string, d fs.DirEntry, err error) error {
		if err == nil && !d.IsDir() {
			m[p] = true
		}
		return nil
	})
	return m
}

func runCallers(c *hx.Ctx, cw *hx.CaseWriter) {
	out, err := filepath.Abs(c.Out)
	if err != nil {
		panic(err)
	}
	// scratch tree: <out>/callers/l1/{sb/{a,b}, sbx, cwd/{a,b}}. The sandbox is l1/sb; the process working
	// directory is l1/cwd (a different directory with the same sub-directories), so a command that opens the raw
	// argument instead of the sanitized path creates its file outside the sandbox, where the scan sees it.
	root := filepath.Join(out, "callers")
	os.RemoveAll(root)
	sb := filepath.Join(root, "l1", "sb")
	sib := filepath.Join(root, "l1", "sbx")
	cwd := filepath.Join(root, "l1", "cwd")
	for _, d := range []string{filepath.Join(sb, "a"), filepath.Join(sb, "b"), sib, filepath.Join(cwd, "a"), filepath.Join(cwd, "b")} {
		if err := os.MkdirAll(d, 0o755); err != nil {
			panic(err)
		}
	}
	defer os.RemoveAll(root)
	oldwd, err := os.Getwd()
	if err != nil {
		panic(err)
	}
	// the working directory is switched only around the command itself (the case writer may use relative paths)
	runIn := func(dir string, f func()) {
		if err := os.Chdir(dir); err != nil {
			panic(err)
		}
		defer os.Chdir(oldwd)
		f()
	}
	paths := []string{"f1", "a/f2", "a/../f3", "./a//f4", "../sb/f5", "../sbx/f6", "../f7", "../../f8", sb + "/f9", sb + "/../sb/a/f10",
		sb + "x/f11", sib + "/f12", ".", "", "a/..", sb, sb + "/", root + "/f13", "b/../../sbx/f14", "a/b/../../b/f15",
		"../cwd/f16", cwd + "/f17", "b/f18", "./f19", "a/./../b/f20", sb + "/b/../a/f21"}
	cmdName := []string{"start-cpu-profile", "save-heap-profile", "save-mutex-profile"}
	for cmd := 0; cmd < 3; cmd++ {
		for _, p0 := range paths {
			p := p0
			if strings.Contains(p, "/f") || strings.HasPrefix(p, "f") {
				p += "_" + cmdName[cmd]
			}
			for _, sbSpelling := range []string{sb, sb + "/"} {
				before := listFiles(root)
				runIn(cwd, func() {
					nebula.VerifSshFileCommand(cmd, sbSpelling, p)
					if cmd == 0 {
						pprof.StopCPUProfile()
					}
				})
				after := listFiles(root)
				var created []string
				for f := range after {
					if !before[f] {
						created = append(created, f)
					}
				}
				sort.Strings(created)
				lits := make([]string, len(created))
				for i, f := range created {
					lits[i] = hx.Str(f)
					os.Remove(f)
				}
				cw.Add(hx.App("SshPath_corr.CCaller", hx.N(uint64(cmd)), hx.Str(sbSpelling), hx.Str(p), hx.List(lits)), "caller-"+cmdName[cmd], len(created) > 0,
					map[string]any{"op": "caller", "cmd": cmdName[cmd], "sandbox": sbSpelling, "cwd": cwd, "path": p, "created": created})
			}
		}
	}
}

//go:build comp_all || comp_bits

package main

import (
	"fmt"
	"strings"

	nebula "github.com/slackhq/nebula"
	"verifharness/hx"
)

func init() {
	hx.Register("gen_bits", genBits)
	hx.Register("bits", runBits)
}

// genBits (T1): the constants the C11 theorems are instantiated with.
func genBits(c *hx.Ctx) {
	var sb strings.Builder
	sb.WriteString("(* GENERATED from /repo (connection_state.go, noiseutil, bits.go) by harness gen_bits: do not edit *)\nFrom Coq Require Import NArith.\nOpen Scope N_scope.\n")
	fmt.Fprintf(&sb, "Definition ReplayWindow : N := %d.\n", nebula.VerifReplayWindow)
	fmt.Fprintf(&sb, "Definition RejectAfterMessages : N := %d.\n", nebula.VerifRejectAfterMessages)
	fmt.Fprintf(&sb, "Definition bitsPerWord : N := %d.\n", nebula.VerifBitsPerWord)
	c.WriteFile("Bits_consts.v", sb.String())
}

type bitsOp struct {
	upd bool
	c   uint64
}

type bitsHist struct {
	L    uint64
	ops  []bitsOp
	kind string
}

func (h *bitsHist) u(c uint64)  { h.ops = append(h.ops, bitsOp{true, c}) }
func (h *bitsHist) k(c uint64)  { h.ops = append(h.ops, bitsOp{false, c}) }
func (h *bitsHist) ku(c uint64) { h.k(c); h.u(c) }

func u64sEqual(a, b []uint64) bool {
	if len(a) != len(b) {
		return false
	}
	for i := range a {
		if a[i] != b[i] {
			return false
		}
	}
	return true
}

// emitBitsHist runs the history on a fresh NewBits(L) of the real implementation and records what it did.
func emitBitsHist(cw *hx.CaseWriter, h *bitsHist) {
	b, ok := nebula.VerifNewBits(h.L)
	if !ok {
		panic("history on a window length NewBits refuses")
	}
	lits := make([]string, len(h.ops))
	verdicts := make([]bool, len(h.ops))
	jops := make([][2]any, len(h.ops))
	pure := true
	sawT, sawF := false, false
	for i, o := range h.ops {
		if o.upd {
			verdicts[i] = b.Update(o.c)
			lits[i] = "U " + hx.N(o.c)
			jops[i] = [2]any{"U", o.c}
		} else {
			cur, ws := b.Current(), b.Words()
			verdicts[i] = b.Check(o.c)
			if cur != b.Current() || !u64sEqual(ws, b.Words()) {
				pure = false
			}
			lits[i] = "K " + hx.N(o.c)
			jops[i] = [2]any{"K", o.c}
		}
		if verdicts[i] {
			sawT = true
		} else {
			sawF = true
		}
	}
	lit := hx.App("CHist", hx.N(h.L), hx.List(lits), hx.BoolList(verdicts), hx.Bool(pure), hx.N(b.Current()), hx.NList(b.Words()))
	cw.Add(lit, h.kind, sawT && sawF, map[string]any{"L": h.L, "ops": jops, "verdicts": verdicts, "current": b.Current()})
}

func emitBitsNew(cw *hx.CaseWriter, L uint64) {
	b, ok := nebula.VerifNewBits(L)
	lit := hx.App("CNew", hx.N(L), hx.Bool(false), "0", "0", "0", "[]")
	if ok {
		lit = hx.App("CNew", hx.N(L), hx.Bool(true), hx.N(b.Length()), hx.N(b.Mask()), hx.N(b.Current()), hx.NList(b.Words()))
	}
	cw.Add(lit, "new", ok, map[string]any{"new": L, "ok": ok})
}

var bitsWindows = []uint64{1, 2, 4, 8, 16, 32, 64, 128, 256, 512, 1024, 2048, 4096, 8192}

// bitsPattern: the scripted boundary history around a starting counter `base` (first op jumps there).
func bitsPattern(L, base uint64, kind string) *bitsHist {
	h := &bitsHist{L: L, kind: kind}
	cur := base
	adv := func(d uint64) { cur += d; h.ku(cur) }
	h.ku(cur)
	for i := 0; i < 5; i++ { // dense run
		adv(1)
	}
	h.ku(cur)                  // duplicate of the cursor
	h.ku(cur - 2)              // duplicate inside the window (if L > 2), else out of window
	adv(L - 1 + boolU(L == 1)) // jump of L-1 (of 1 when L = 1)
	h.ku(cur - 1)              // backfill just below the cursor
	h.ku(cur - 1)              // and its duplicate
	if cur >= L+1 {
		h.ku(cur - L + 1) // oldest counter still in the window
		h.ku(cur - L)     // first one out
		h.ku(cur - L - 1)
	}
	adv(L) // jump of exactly one window: everything cleared
	if cur >= L {
		h.ku(cur - L + 1)
		h.ku(cur - L)
	}
	adv(L + 1)
	h.ku(cur - 1)
	for _, k := range []uint64{1, 2} { // jumps of 64k-1, 64k, 64k+1 (word boundaries)
		adv(64*k - 1)
		h.ku(cur - 3)
		adv(64 * k)
		adv(64*k + 1)
		h.ku(cur - 64)
		h.ku(cur - 63)
		h.ku(cur - 65)
	}
	adv(3 * L) // far beyond the window
	h.ku(cur - L/2)
	h.ku(cur - L/2)
	h.ku(0)
	adv(1)
	return h
}

func boolU(b bool) uint64 {
	if b {
		return 1
	}
	return 0
}

func runBits(c *hx.Ctx) {
	cw := c.NewCaseWriter("From NV Require Import model.Bits corr.Bits_corr.", "Bits_corr.case", "Bits_corr.check_case", 200)
	const top = ^uint64(0)

	// 0. the F11 witness first: counters within one window of 2^64 (top+1-111 = 2^64-111, ...)
	w := &bitsHist{L: 8192, kind: "wrap-witness"}
	for _, x := range []uint64{top - 110, top - 100, top - 50, top - 110, top - 100, top, 0} {
		w.u(x)
	}
	emitBitsHist(cw, w)

	// 1. NewBits on powers of two and their neighbours
	for _, L := range []uint64{0, 1, 2, 3, 4, 5, 8, 32, 63, 64, 65, 96, 128, 192, 1024, 8191, 8192, 8193, 1 << 14, 1<<14 + 64} {
		emitBitsNew(cw, L)
	}

	// 2. boundary sweep for every window 1 .. 8192
	for _, L := range bitsWindows {
		d := &bitsHist{L: L, kind: "dense"}
		n := 3*L + 3
		if n > 260 {
			n = 260
		}
		d.ku(0)
		for i := uint64(1); i <= n; i++ {
			d.ku(i)
			if i%7 == 0 {
				d.ku(i - 3)
			}
		}
		emitBitsHist(cw, d)
		emitBitsHist(cw, bitsPattern(L, 1, "pattern-0"))
		emitBitsHist(cw, bitsPattern(L, 3, "pattern-0"))
		emitBitsHist(cw, bitsPattern(L, L-1+boolU(L == 1), "pattern-warmup-edge"))
		emitBitsHist(cw, bitsPattern(L, L, "pattern-warmup-edge"))
		emitBitsHist(cw, bitsPattern(L, 1<<32-L-40, "pattern-2^32"))
		emitBitsHist(cw, bitsPattern(L, 1<<63-L-40, "pattern-2^63"))
		// ceiling: the whole pattern stays below 2^64 - L (in range for the theorems)
		span := 6*L + 600
		emitBitsHist(cw, bitsPattern(L, top-L-span, "pattern-ceiling-in-range"))
		// the last in-range counters
		e := &bitsHist{L: L, kind: "ceiling-edge-in-range"}
		lim := top - L // = 2^64-1-L: the largest counter the theorems cover
		e.ku(lim - L - 2)
		e.ku(lim - 2)
		e.ku(lim - 1)
		e.ku(lim - 1)
		e.ku(lim)
		e.ku(lim - L + 1)
		e.ku(lim - L)
		e.ku(lim)
		emitBitsHist(cw, e)
		// wrap region (known finding F11): classified by the counters it contains
		x := &bitsHist{L: L, kind: "wrap-region"}
		x.u(top - L/2 - 3)
		x.u(top - L/4 - 1)
		x.u(top - L/2 - 3)
		x.u(top)
		x.u(0)
		x.u(1)
		emitBitsHist(cw, x)
	}

	// 2b. evict-and-reuse: counters seen in one window, a jump that slides them out, then the counters that
	// reuse their bit positions must be accepted (a position clearRange failed to clear shows up here)
	for _, L := range bitsWindows {
		if L < 4 {
			continue
		}
		for rep := 0; rep < 6; rep++ {
			h := &bitsHist{L: L, kind: "evict-reuse"}
			b := uint64(1 + c.Intn(int(3*L)))
			var S []uint64
			cur := b
			h.u(b)
			S = append(S, b)
			for k := 0; k < 2+c.Intn(6); k++ {
				x := b + uint64(c.Intn(int(L)))
				h.u(x)
				S = append(S, x)
				if x > cur {
					cur = x
				}
			}
			if c.Chance(0.5) { // a fully set word or two
				for k := uint64(0); k < 70 && cur+1 < b+L; k++ {
					cur++
					h.u(cur)
					S = append(S, cur)
				}
			}
			i := cur + 1 + uint64(c.Intn(int(L-1)))
			if rep == 0 {
				i = cur + L - 1
			}
			h.ku(i)
			for _, x := range S {
				if x+L <= i {
					h.ku(x + L) // reuses x's position: fresh
					h.ku(x + L) // now a duplicate
					h.ku(x)     // slid out
				} else {
					h.ku(x) // still in the window: duplicate
				}
			}
			emitBitsHist(cw, h)
		}
	}

	// 3. small windows exhaustively: every sequence of n counters from a small alphabet, each as Check; Update
	type exh struct {
		L     uint64
		alpha []uint64
		n     int
	}
	var sweeps []exh
	if c.Tier == "thorough" {
		sweeps = []exh{
			{1, []uint64{0, 1, 2, 3}, 6},
			{2, []uint64{0, 1, 2, 3, 4}, 6},
			{4, []uint64{0, 1, 2, 3, 4, 5, 6}, 5},
			{8, []uint64{0, 1, 2, 8, 9, 10, 16, 17}, 5},
		}
	} else {
		sweeps = []exh{
			{1, []uint64{0, 1, 2, 3}, 4},
			{2, []uint64{0, 1, 2, 3, 4}, 4},
			{4, []uint64{0, 1, 2, 4, 5, 6}, 4},
		}
	}
	for _, s := range sweeps {
		idx := make([]int, s.n)
		for {
			h := &bitsHist{L: s.L, kind: fmt.Sprintf("exhaustive-L%d", s.L)}
			for _, j := range idx {
				h.ku(s.alpha[j])
			}
			emitBitsHist(cw, h)
			p := s.n - 1
			for p >= 0 {
				idx[p]++
				if idx[p] < len(s.alpha) {
					break
				}
				idx[p] = 0
				p--
			}
			if p < 0 {
				break
			}
		}
	}

	// 4. random histories
	for i := 0; i < c.N; i++ {
		var L uint64
		switch {
		case c.Chance(0.35):
			L = 8192
		case c.Chance(0.3):
			L = bitsWindows[c.Intn(6)] // below 64: one partial word
		default:
			L = bitsWindows[c.Intn(len(bitsWindows))]
		}
		h := &bitsHist{L: L, kind: "random"}
		lim := top - L // largest in-range counter
		var cur uint64
		switch c.Intn(10) {
		case 0:
			cur = 1<<32 - uint64(c.Intn(int(2*L+4)))
			h.kind = "random-2^32"
		case 1:
			cur = 1<<63 - uint64(c.Intn(int(2*L+4)))
			h.kind = "random-2^63"
		case 2:
			cur = lim - 40*L - 4000 - uint64(c.Intn(1000))
			h.kind = "random-ceiling-in-range"
		default:
			cur = uint64(c.Intn(3))
		}
		wrap := c.Chance(0.02)
		if wrap {
			h.kind = "random-wrap-region"
			cur = top - uint64(c.Intn(int(3*L)))
		}
		if cur > 0 {
			h.ku(cur)
		}
		var sent []uint64
		nops := 10 + c.Intn(110)
		put := func(x uint64) {
			if !wrap && x > lim { // keep in-range histories in range
				return
			}
			switch {
			case c.Chance(0.30):
				h.ku(x)
			case c.Chance(0.06):
				h.k(x)
			default:
				h.u(x)
			}
			sent = append(sent, x)
			if x > cur {
				cur = x
			}
		}
		budget := uint64(30) // how many far jumps an in-range ceiling history can afford
		for j := 0; j < nops; j++ {
			r := c.Rng.Float64()
			switch {
			case r < 0.35:
				put(cur + 1)
			case r < 0.47:
				put(cur + 2 + uint64(c.Intn(int(L/2+2))))
			case r < 0.67: // backfill inside the window
				d := uint64(c.Intn(int(L))) + 1
				if d <= cur {
					put(cur - d)
				}
			case r < 0.77: // replay of something sent before
				if len(sent) > 0 {
					put(sent[c.Intn(len(sent))])
				}
			case r < 0.83: // the trailing edge of the window
				d := L + uint64(c.Intn(3)) - 1
				if d <= cur {
					put(cur - d)
				}
			case r < 0.93: // jumps around one window / word multiples
				if budget == 0 {
					continue
				}
				budget--
				var d uint64
				switch c.Intn(5) {
				case 0:
					d = L - 1
				case 1:
					d = L
				case 2:
					d = L + 1
				case 3:
					d = 64*uint64(1+c.Intn(4)) + uint64(c.Intn(3)) - 1
				default:
					d = L + uint64(c.Intn(int(3*L+1)))
				}
				if d == 0 {
					d = 1
				}
				put(cur + d)
			case r < 0.96:
				put(uint64(c.Intn(4)))
			default:
				put(c.EdgeU64(64))
			}
		}
		emitBitsHist(cw, h)
	}
	cw.Close("histories of Check/Update on a fresh NewBits(L), L = 1..8192: scripted boundary patterns per window (dense, warm-up edge, jumps of L-1/L/L+1/64k+-1, bases near 2^32, 2^63 and the ceiling), all sequences over a small alphabet for windows 1, 2, 4 (8), random mixes of next/jump/backfill/replay/edge; non-trivial = history with both accepted and rejected counters; distinct by literal")
}

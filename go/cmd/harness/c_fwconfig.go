//go:build comp_all || comp_fwconfig

package main

// Component fwconfig (C22): port texts through the real parsePort; generated firewall.inbound/outbound tables written
// as YAML text, parsed by nebula's config loader, loaded through the real AddFirewallRulesFromConfig both into a
// recording FirewallInterface and into a real Firewall, which is then probed with Drop.
// (Shares generators with c_fwrules.go, whose build tag therefore includes comp_fwconfig.)

import (
	"fmt"
	"net/netip"
	"sort"
	"strconv"
	"strings"

	nebula "github.com/slackhq/nebula"
	"github.com/slackhq/nebula/config"
	"github.com/slackhq/nebula/firewall"
	"verifharness/hx"
)

func init() {
	hx.Register("fwconfig", runFwConfig)
}

// ---- YAML text and Gallina literal of generated values --------------------------------------------

type yNull struct{}
type yFloat float64

func yText(v any) string {
	switch x := v.(type) {
	case nil, yNull:
		return "null"
	case string:
		return strconv.Quote(x) // a YAML double-quoted scalar: always a string
	case int:
		return strconv.Itoa(x)
	case bool:
		if x {
			return "true"
		}
		return "false"
	case yFloat:
		return strconv.FormatFloat(float64(x), 'f', -1, 64)
	case []any:
		s := make([]string, len(x))
		for i, e := range x {
			s[i] = yText(e)
		}
		return "[" + strings.Join(s, ", ") + "]"
	case map[string]any:
		keys := make([]string, 0, len(x))
		for k := range x {
			keys = append(keys, k)
		}
		sort.Strings(keys)
		s := make([]string, len(keys))
		for i, k := range keys {
			s[i] = strconv.Quote(k) + ": " + yText(x[k])
		}
		return "{" + strings.Join(s, ", ") + "}"
	}
	panic(fmt.Sprintf("yText: %T", v))
}

// yLit renders what the config loader actually produced (not what the generator intended).
func yLit(v any) (string, bool) {
	switch x := v.(type) {
	case nil:
		return "YNull", true
	case string:
		return "(YStr " + hx.Str(x) + ")", true
	case int:
		return "(YInt " + hx.Z(int64(x)) + ")", true
	case int64:
		return "(YInt " + hx.Z(x) + ")", true
	case bool:
		return "(YBool " + hx.Bool(x) + ")", true
	case float64:
		return "(YFloatText " + hx.Str(fmt.Sprintf("%v", x)) + ")", true
	case []any:
		s := make([]string, len(x))
		for i, e := range x {
			l, ok := yLit(e)
			if !ok {
				return "", false
			}
			s[i] = l
		}
		return "(YList " + hx.List(s) + ")", true
	case map[string]any:
		keys := make([]string, 0, len(x))
		for k := range x {
			keys = append(keys, k)
		}
		sort.Strings(keys)
		s := make([]string, len(keys))
		for i, k := range keys {
			l, ok := yLit(x[k])
			if !ok {
				return "", false
			}
			s[i] = hx.Tuple(hx.Str(k), l)
		}
		return "(YMap " + hx.List(s) + ")", true
	}
	return "", false // a type the model does not carry (uint64, time.Time, map[any]any): the case is skipped
}

// every string that may reach netip.ParsePrefix, with the real result
func collectStrings(v any, acc map[string]bool) {
	switch x := v.(type) {
	case []any:
		for _, e := range x {
			collectStrings(e, acc)
		}
		acc[fmt.Sprintf("%v", x)] = true
	case map[string]any:
		for _, e := range x {
			collectStrings(e, acc)
		}
		acc[fmt.Sprintf("%v", x)] = true
	default:
		acc[fmt.Sprintf("%v", x)] = true
	}
}

func optPortLit(a, b int32, ok bool) string {
	if !ok {
		return hx.None()
	}
	return hx.Some(hx.Tuple(hx.Z(int64(a)), hx.Z(int64(b))))
}

var fwPortTexts = []string{
	"any", "fragment", "0", "1", "80", "443", "65535", "65536", "65534", "99999", "4294967296", "18446744073709551616",
	"99999999999999999999999999", "0080", "00000", "000000000000000000000080", "+80", "-80", "-1", "- 1", " 80", "80 ", " 80 ", "\t80", "8 0",
	"0x50", "0X50", "50h", "8_0", "80.0", "8e1", "٨٠", "８０", "", " ", "-", "--", "a", "Any", "ANY", "any ", " any", "Fragment", "fragment ",
	"80-90", "80 - 90", " 80 - 90 ", "80- 90", "80 -90", "80  -  90", "80\t-90", "80-\t90", "90-80", "80-80", "0-0", "0-5", "0-65535", "0-65536",
	"0-x", "0- ", "5-0", "1-65535", "1-65536", "65535-65535", "65536-1", "80-", "-90", " -90", "80- ", " - ", "1-2-3", "1--2", "1- -2", "any-80",
	"80-any", "fragment-1", "any-any", "0-any", "+1-2", "1-+2", "1-0x10", "01-02", "00-99", "1 2-3", "1-2 3", "80–90", "80—90", "80-90\n", "\n80",
	"80\x00", "1-\x00", "65535-65536", "000065535-0000065535", "655350", "6553 5", "1e3", "0b1", "0o7", "१", "1_000-2",
}

func genPortText(c *hx.Ctx) string {
	alpha := []string{"0", "1", "2", "5", "6", "8", "9", "-", "-", " ", " ", "a", "x", "+", "any", "fragment", "65535", "65536", "0", "\t", "_", "."}
	switch c.Intn(6) {
	case 0: // a decimal, possibly out of range
		return strconv.FormatUint(c.EdgeU64(uint(1+c.Intn(20))), 10)
	case 1: // lo-hi with optional blanks
		pad := func() string { return strings.Repeat(" ", c.Intn(3)*c.Intn(2)) }
		return pad() + strconv.FormatUint(c.EdgeU64(17), 10) + pad() + "-" + pad() + strconv.FormatUint(c.EdgeU64(17), 10) + pad()
	case 2: // leading zeros
		return strings.Repeat("0", c.Intn(25)) + strconv.FormatUint(c.EdgeU64(17), 10)
	default:
		n := c.Intn(6)
		var sb strings.Builder
		for i := 0; i < n; i++ {
			sb.WriteString(alpha[c.Intn(len(alpha))])
		}
		return sb.String()
	}
}

// ---- rule maps -----------------------------------------------------------------------------------

func pickAny(c *hx.Ctx, xs []any) any { return xs[c.Intn(len(xs))] }

func genRuleMap(c *hx.Ctx) any {
	if c.Chance(0.03) {
		return pickAny(c, []any{"tcp", 5, yNull{}, []any{"a"}, []any{}, true})
	}
	m := map[string]any{}
	good := c.Chance(0.7) // mostly rules that load; the rest draws from the odd pools
	odd := func(p float64) bool { return !good && c.Chance(p) }
	// proto
	switch {
	case odd(0.25):
		m["proto"] = pickAny(c, []any{"TCP", "icmpv6", "ip", 6, yNull{}, "", "tcp ", []any{"tcp"}, true})
	case odd(0.1):
	default:
		m["proto"] = pickAny(c, []any{"tcp", "tcp", "udp", "icmp", "any"})
	}
	// port / code
	portPool := []any{"80", "443", "any", "fragment", "80-90", "1000-1010", "0", "1-300", 80, 8080, 65535, 22, "22", " 80 - 90 ", "0-5"}
	oddPort := []any{" 80", "90-80", "65536", "+80", "0x50", "", "80-", "-80", "1-2-3", 65536, -1, yFloat(80.5), yFloat(80), true, yNull{}, []any{80}, "any ", "0-65536", 0}
	switch {
	case odd(0.3):
		m["port"] = pickAny(c, oddPort)
	case odd(0.08):
	default:
		m["port"] = pickAny(c, portPool)
	}
	if c.Chance(0.06) {
		m["code"] = pickAny(c, []any{"8", 8, "any", "80-90", ""})
		if c.Chance(0.6) {
			delete(m, "port")
		}
	}
	// selectors
	sel := func(key string, pool, oddPool []any, p float64) {
		if c.Chance(p) {
			m[key] = pickAny(c, pool)
		}
		if odd(0.12) {
			m[key] = pickAny(c, oddPool)
		}
	}
	sel("host", []any{"h1", "h2", "h3", "any"}, []any{yNull{}, 5, "", true, []any{"h1", "h2"}, map[string]any{"a": 1}}, 0.3)
	sel("cidr", []any{"10.0.0.0/24", "10.0.0.5/32", "10.0.0.5/30", "0.0.0.0/0", "::/0", "fd00::/64", "any", "10.0.0.128/25"},
		[]any{"10.0.0.0/33", "10.0.0.1", "garbage", yNull{}, 10, "", "any ", "Any", "fe80::1%eth0/64", "10.0.0.0/024", " 10.0.0.0/24"}, 0.3)
	sel("local_cidr", []any{"10.0.0.0/24", "10.0.0.1/32", "192.168.0.0/24", "0.0.0.0/0", "any", "fd00::/64", "192.168.0.0/25"},
		[]any{"nope", "1.2.3.4/40", yNull{}, "", 7, "::/129", yFloat(1.5)}, 0.3)
	sel("ca_name", []any{"ca1", "ca2"}, []any{yNull{}, 1, ""}, 0.15)
	sel("ca_sha", []any{"s1", "s2"}, []any{yNull{}, 2, "", []any{"s1"}}, 0.15)
	// group / groups
	if c.Chance(0.3) {
		m["group"] = pickAny(c, []any{"a", "b", "c", "any"})
	}
	if c.Chance(0.3) && (m["group"] == nil || !good) {
		n := 1 + c.Intn(3)
		var gs []any
		for i := 0; i < n; i++ {
			gs = append(gs, pickAny(c, []any{"a", "b", "c", "d"}))
		}
		m["groups"] = gs
		if c.Chance(0.15) {
			m["groups"] = pickAny(c, []any{"a", "any", "b"})
		}
	}
	if odd(0.2) {
		m["group"] = pickAny(c, []any{[]any{"a"}, []any{"a", "b"}, []any{}, []any{5}, []any{yNull{}}, []any{[]any{"a", "b"}}, "", yNull{}, 7, true,
			map[string]any{"x": "y"}, []any{""}})
	}
	if odd(0.2) {
		m["groups"] = pickAny(c, []any{[]any{}, []any{"a", 1}, []any{1, 2}, yNull{}, 5, true, yFloat(2.5), "", []any{""}, []any{"a", yNull{}},
			map[string]any{"a": "b"}, []any{[]any{"a"}}, []any{"any", "a"}})
	}
	if len(m) <= 2 && good { // make sure good rules have a selector
		m["host"] = pickAny(c, []any{"h1", "any"})
	}
	if c.Chance(0.05) {
		m["comment"] = "ignored key"
	}
	return m
}

func runFwConfig(c *hx.Ctx) {
	cw := c.NewCaseWriter("From NV Require Import lib.Ip model.Firewall model.FwConfig corr.Firewall_corr corr.FwConfig_corr.", "FwConfig_corr.case",
		"FwConfig_corr.check_case", 100)
	var failures []map[string]any
	// 1. port texts: table first, then generated
	addPort := func(s, kind string) {
		a, b, ok := nebula.VerifParsePort(s)
		cw.Add(hx.App("CPort", hx.Str(s), optPortLit(a, b, ok)), kind, ok, map[string]any{"op": "port", "text": s, "ok": ok, "start": a, "end": b})
	}
	for _, s := range fwPortTexts {
		addPort(s, "port-table")
	}
	nPorts := c.N
	for i := 0; i < nPorts; i++ {
		addPort(genPortText(c), "port-gen")
	}
	// 2. configurations
	// boundary corpus: selectors that are present but empty, each alone and next to one real selector, both directions
	// (a rule whose only selectors are empty must be refused: loaded, it would be an allow-any-host rule)
	type emptySel struct {
		key string
		val any
	}
	emptyShapes := []emptySel{
		{"groups", []any{}}, {"groups", []any{""}}, {"groups", ""}, {"groups", yNull{}}, {"group", ""}, {"group", []any{""}}, {"group", yNull{}},
		{"host", ""}, {"cidr", ""}, {"local_cidr", ""}, {"ca_name", ""}, {"ca_sha", ""}, {"host", yNull{}}, {"none", ""},
	}
	realSels := []emptySel{{"", nil}, {"host", "h1"}, {"group", "a"}, {"groups", []any{"a", "b"}}, {"cidr", "10.0.0.0/24"}, {"local_cidr", "any"},
		{"ca_name", "ca1"}, {"ca_sha", "s1"}}
	var corpus []struct {
		inbound bool
		rules   []any
	}
	for _, inb := range []bool{true, false} {
		for _, es := range emptyShapes {
			for _, rs := range realSels {
				if rs.key == es.key {
					continue
				}
				for _, proto := range []string{"tcp", "any"} {
					m := map[string]any{"proto": proto, "port": "80", es.key: es.val}
					if proto == "any" {
						m["port"] = "any"
					}
					if rs.key != "" {
						m[rs.key] = rs.val
					}
					corpus = append(corpus, struct {
						inbound bool
						rules   []any
					}{inb, []any{m}})
				}
			}
		}
		// every selector present and empty at once
		corpus = append(corpus, struct {
			inbound bool
			rules   []any
		}{inb, []any{map[string]any{"proto": "any", "port": "any", "groups": []any{}, "group": "", "host": "", "cidr": "", "local_cidr": "", "ca_name": "", "ca_sha": ""}}})
	}
	// boundary corpus: port ranges at the edges of the port space (1-65535 is NOT any: no fragments, no ICMP under proto any)
	nEmptySel := len(corpus)
	for _, inb := range []bool{true, false} {
		for _, proto := range []string{"tcp", "udp", "any"} {
			for ri, rs := range fwEdgeRanges {
				if !fwEdgeWanted(c.Tier, inb, proto, ri) {
					continue
				}
				var rules []any
				for _, se := range rs.ranges {
					rules = append(rules, map[string]any{"proto": proto, "port": fmt.Sprintf("%d-%d", se[0], se[1]), "host": "any"})
				}
				corpus = append(corpus, struct {
					inbound bool
					rules   []any
				}{inb, rules})
			}
		}
	}
	nConf := c.N/2 + len(corpus)
	for ci := 0; ci < nConf; ci++ {
		inbound := c.Chance(0.6)
		fromCorpus := ci < len(corpus)
		if fromCorpus {
			inbound = corpus[ci].inbound
		}
		key := "outbound"
		if inbound {
			key = "inbound"
		}
		// the table value
		var tblText string
		absent := false
		switch {
		case fromCorpus:
			tblText = yText(corpus[ci].rules)
		case c.Chance(0.03):
			absent = true
		case c.Chance(0.03):
			tblText = yText(pickAny(c, []any{yNull{}, "rules", 5, map[string]any{"port": "80", "proto": "tcp", "host": "any"}, true}))
		default:
			n := 1 + c.Intn(4)
			if c.Chance(0.05) {
				n = 0
			}
			var rs []any
			for i := 0; i < n; i++ {
				rs = append(rs, genRuleMap(c))
			}
			tblText = yText(rs)
		}
		text := "firewall:\n  dummy: 1\n"
		if !absent {
			text += "  " + key + ": " + tblText + "\n"
		}
		load := func() (*config.C, bool) {
			cfg, err := nebula.VerifFwLoadYAML(text)
			if err != nil {
				return nil, false
			}
			return cfg, true
		}
		c0, ok0 := load()
		if !ok0 {
			panic("generated YAML does not load: " + text)
		}
		tv := c0.Get("firewall." + key)
		tblLit := hx.None()
		strs := map[string]bool{}
		if !absent {
			l, ok := yLit(tv)
			if !ok {
				continue
			}
			tblLit = hx.Some(l)
			collectStrings(tv, strs)
		}
		var ppLits []string
		keys := make([]string, 0, len(strs))
		for s := range strs {
			keys = append(keys, s)
		}
		sort.Strings(keys)
		for _, s := range keys {
			if p, err := netip.ParsePrefix(s); err == nil {
				ppLits = append(ppLits, hx.Tuple(hx.Str(s), fwPfxLit(p)))
			}
		}
		// recorder run (fresh parse: convertRule rewrites the map it is given)
		c1, _ := load()
		rec, rok, rpanic := nebula.VerifRulesFromC(inbound, c1)
		recClass := 0
		if rpanic {
			recClass = 2
		} else if !rok {
			recClass = 1
		}
		var recLits []string
		var jrules []string
		if recClass == 0 {
			for _, r := range rec.Rules {
				if r.Incoming != inbound {
					failures = append(failures, map[string]any{"i": cw.Total(), "code": 2})
				}
				recLits = append(recLits, fwRuleLit(r))
				jrules = append(jrules, fmt.Sprintf("%+v", r))
			}
		}
		// real firewall run
		w := &fwWorld{c: c}
		w.my.Name = "me"
		w.my.Networks = []netip.Prefix{mp("10.0.0.1/24")}
		if c.Chance(0.3) {
			w.my.Networks = append(w.my.Networks, mp("fd00::1/64"))
		}
		if c.Chance(0.4) {
			w.my.Unsafe = []netip.Prefix{mp("192.168.0.0/24")}
		}
		w.dlca = c.Chance(0.3)
		w.cidrs = append(w.cidrs, w.my.Networks...)
		w.cidrs = append(w.cidrs, w.my.Unsafe...)
		w.pool = map[string]string{"s1": "ca1", "s2": "ca2"}
		poolLit := hx.List([]string{hx.Tuple(hx.Str("s1"), hx.Str("ca1")), hx.Tuple(hx.Str("s2"), hx.Str("ca2"))})
		fw := nebula.VerifNewFirewall(w.my, w.dlca)
		fw.SetPool(w.pool)
		c2, _ := load()
		fok, fpanic := fw.AddFromC(inbound, c2)
		fwClass := 0
		if fpanic {
			fwClass = 2
		} else if !fok {
			fwClass = 1
		}
		var probeLits []string
		var jprobes []map[string]any
		if fwClass == 0 && recClass == 0 {
			for _, r := range rec.Rules {
				w.ports = append(w.ports, int(r.Start), int(r.End))
				for _, s := range []string{r.Cidr, r.LocalCidr} {
					if p, err := netip.ParsePrefix(s); err == nil {
						w.cidrs = append(w.cidrs, p)
					}
				}
			}
			np := 4 + c.Intn(5)
			if fromCorpus {
				np = 3 // the two "nobody" probes and one aimed probe
			}
			edge := fromCorpus && ci >= nEmptySel
			var edgePkts []firewall.Packet
			if edge {
				edgePkts = fwEdgePackets()
				np = len(edgePkts)
			}
			for pi := 0; pi < np; pi++ {
				peer := w.genPeer(false)
				pkt := w.genPacket(peer, false)
				incoming := inbound
				if c.Chance(0.1) {
					incoming = !incoming
				}
				if len(rec.Rules) > 0 && c.Chance(0.75) {
					w.aim(rec.Rules[c.Intn(len(rec.Rules))], &peer, &pkt)
				}
				if pi < 2 {
					// a peer nobody selected: no groups, a name no rule uses, an issuer no rule names; authentic addresses, and a
					// packet on the first rule's protocol and port: only an any-host rule lets it through
					peer = nebula.VerifFwCert{Name: "nobody", Issuer: "s9", Networks: []netip.Prefix{mp("10.0.0.77/24")}}
					pkt = firewall.Packet{LocalAddr: ma("10.0.0.1"), RemoteAddr: ma("10.0.0.77"), LocalPort: 80, RemotePort: 80, Protocol: nebula.VerifFwProtoTCP}
					incoming = inbound
					if len(rec.Rules) > 0 {
						r := rec.Rules[0]
						if r.Proto != nebula.VerifFwProtoAny {
							pkt.Protocol = r.Proto
						}
						if r.Start > 0 {
							pkt.LocalPort, pkt.RemotePort = uint16(r.Start), uint16(r.Start)
						}
						if pi == 1 {
							pkt.Fragment = r.Start == -1
							pkt.LocalPort, pkt.RemotePort = pkt.RemotePort+1, pkt.LocalPort+1
						}
					}
				}
				if edge {
					peer, pkt, incoming = fwEdgePeer, edgePkts[pi], inbound
				}
				hp := fw.NewPeer(peer)
				fw.ResetConntrack()
				class, before, after := fw.Drop(pkt, incoming, hp, nil)
				probeLits = append(probeLits, hx.App("mkProbe", hx.Bool(true), fwCertLit(peer), fwPktLit(pkt), hx.Bool(incoming), hx.Bool(false),
					hx.Bool(before), hx.N(uint64(class)), hx.Bool(after)))
				jprobes = append(jprobes, map[string]any{"peer": fmt.Sprintf("%+v", peer), "pkt": fmt.Sprintf("%+v", pkt), "incoming": incoming, "class": class})
			}
		}
		lit := hx.App("CConf", hx.Bool(inbound), tblLit, hx.List(ppLits), hx.N(uint64(recClass)), hx.List(recLits),
			hx.App("mkConf", fwPfxList(w.my.Networks), fwPfxList(w.my.Unsafe), hx.Bool(w.dlca)), hx.N(uint64(fwClass)), poolLit, hx.List(probeLits))
		kind := []string{"conf-loaded", "conf-refused", "conf-panic"}[recClass]
		if fromCorpus && ci < nEmptySel {
			kind = "corpus-empty-selector-" + kind[5:]
		} else if fromCorpus {
			kind = "corpus-port-range-" + kind[5:]
		}
		cw.Add(lit, kind, recClass == 0 && len(rec.Rules) > 0, map[string]any{"op": "conf", "yaml": text, "inbound": inbound, "rec_class": recClass, "fw_class": fwClass,
			"rules": jrules, "probes": jprobes})
	}
	// 3. whole firewalls through the real NewFirewallFromConfig: default_local_cidr_any true / false / absent x own
	// certificate with and without unsafe networks (v4, v6) x rules with and without local_cidr in BOTH directions, probed
	// in both directions with local addresses inside the VPN networks, inside the unsafe networks and outside both.
	nFull := c.N / 3
	for fi := 0; fi < nFull; fi++ {
		my := nebula.VerifFwCert{Name: "me", Networks: []netip.Prefix{mp("10.0.0.1/24")}}
		if c.Chance(0.4) {
			my.Networks = append(my.Networks, mp("fd00::1/64"))
		}
		switch c.Intn(5) {
		case 0:
		case 1, 2:
			my.Unsafe = []netip.Prefix{mp("192.168.0.0/24")}
		case 3:
			my.Unsafe = []netip.Prefix{mp("fd99::/48")}
		default:
			my.Unsafe = []netip.Prefix{mp("192.168.0.0/24"), mp("fd99::/48")}
		}
		flagLit := hx.None()
		flagText := ""
		switch c.Intn(5) {
		case 0:
		case 1:
			flagLit, flagText = hx.Some("false"), "  default_local_cidr_any: false\n"
		default:
			flagLit, flagText = hx.Some("true"), "  default_local_cidr_any: true\n"
		}
		genDir := func() []any {
			n := c.Intn(3)
			if c.Chance(0.6) {
				n = 1 + c.Intn(2)
			}
			var rs []any
			for i := 0; i < n; i++ {
				m := map[string]any{"proto": pickAny(c, []any{"tcp", "udp", "any", "icmp"}), "port": pickAny(c, []any{"80", "any", "80-90", 443})}
				switch c.Intn(4) {
				case 0:
					m["group"] = "a"
				case 1:
					m["cidr"] = pickAny(c, []any{"10.0.0.0/24", "fd00::/64", "0.0.0.0/0"})
				default:
					m["host"] = pickAny(c, []any{"any", "any", "h1"})
				}
				if c.Chance(0.4) {
					m["local_cidr"] = pickAny(c, []any{"any", "192.168.0.0/24", "10.0.0.0/24", "fd99::/48", "192.168.0.0/25", "10.0.0.1/32"})
				}
				if c.Chance(0.04) {
					m["port"] = pickAny(c, []any{"90-80", "x"}) // the whole load fails
				}
				rs = append(rs, m)
			}
			return rs
		}
		outRules, inRules := genDir(), genDir()
		text := "firewall:\n" + flagText
		outAbsent, inAbsent := c.Chance(0.05), c.Chance(0.05)
		if !outAbsent {
			text += "  outbound: " + yText(outRules) + "\n"
		}
		if !inAbsent {
			text += "  inbound: " + yText(inRules) + "\n"
		}
		cfg, err := nebula.VerifFwLoadYAML(text)
		if err != nil {
			panic("generated YAML does not load: " + text)
		}
		tblLit := func(key string, absent bool) (string, bool) {
			if absent {
				return hx.None(), true
			}
			l, ok := yLit(cfg.Get("firewall." + key))
			return hx.Some(l), ok
		}
		outLit, ok1 := tblLit("outbound", outAbsent)
		inLit, ok2 := tblLit("inbound", inAbsent)
		if !ok1 || !ok2 {
			continue
		}
		strs := map[string]bool{}
		collectStrings(cfg.Get("firewall"), strs)
		keys := make([]string, 0, len(strs))
		for s := range strs {
			keys = append(keys, s)
		}
		sort.Strings(keys)
		var ppLits []string
		for _, s := range keys {
			if p, err := netip.ParsePrefix(s); err == nil {
				ppLits = append(ppLits, hx.Tuple(hx.Str(s), fwPfxLit(p)))
			}
		}
		// the records of what the text denotes (for aiming the probes only)
		recOut, _, _ := nebula.VerifRulesFromC(false, cfg)
		recIn, _, _ := nebula.VerifRulesFromC(true, cfg)
		cfg2, _ := nebula.VerifFwLoadYAML(text) // fresh parse: convertRule rewrites the map it is given
		fw, fok, fpanic := nebula.VerifNewFirewallFromConfig(my, cfg2)
		fwClass := 0
		if fpanic {
			fwClass = 2
		} else if !fok {
			fwClass = 1
		}
		var probeLits []string
		var jprobes []map[string]any
		nAllow, nNoRule := 0, 0
		if fwClass == 0 {
			w := &fwWorld{c: c, my: my, pool: map[string]string{}}
			locals := []netip.Addr{ma("10.0.0.1"), ma("10.0.0.1"), ma("10.0.0.9"), ma("192.168.0.5"), ma("192.168.0.200"), ma("172.16.0.1"), ma("fd99::5"), ma("fd00::1"), ma("fd98::1")}
			np := 10 + c.Intn(6)
			for pi := 0; pi < np; pi++ {
				incoming := pi%2 == 0
				peer := nebula.VerifFwCert{Name: "h1", Groups: []string{"a"}, Issuer: "s9", Networks: []netip.Prefix{mp("10.0.0.77/24"), mp("fd00::77/64")}}
				if c.Chance(0.15) {
					peer.Name, peer.Groups = "other", nil
				}
				pkt := firewall.Packet{Protocol: nebula.VerifFwProtoTCP, LocalPort: 80, RemotePort: 80}
				rs := recOut.Rules
				if incoming {
					rs = recIn.Rules
				}
				if len(rs) > 0 {
					r := rs[c.Intn(len(rs))]
					r.Cidr, r.LocalCidr = "", "" // aim protocol and port only; addresses are set below
					w.aim(r, &peer, &pkt)
				}
				pkt.LocalAddr = locals[c.Intn(len(locals))]
				if pkt.LocalAddr.Is4() {
					pkt.RemoteAddr = ma("10.0.0.77")
				} else {
					pkt.RemoteAddr = ma("fd00::77")
				}
				hp := fw.NewPeer(peer)
				fw.ResetConntrack()
				class, before, after := fw.Drop(pkt, incoming, hp, nil)
				if class == nebula.VerifFwAllow {
					nAllow++
				}
				if class == nebula.VerifFwNoRule {
					nNoRule++
				}
				probeLits = append(probeLits, hx.App("mkProbe", hx.Bool(true), fwCertLit(peer), fwPktLit(pkt), hx.Bool(incoming), hx.Bool(false),
					hx.Bool(before), hx.N(uint64(class)), hx.Bool(after)))
				jprobes = append(jprobes, map[string]any{"peer": fmt.Sprintf("%+v", peer), "pkt": fmt.Sprintf("%+v", pkt), "incoming": incoming, "class": class})
			}
		}
		lit := hx.App("CFull", flagLit, inLit, outLit, hx.List(ppLits), fwPfxList(my.Networks), fwPfxList(my.Unsafe), hx.N(uint64(fwClass)), hx.List(probeLits))
		kind := []string{"full-loaded", "full-refused", "full-panic"}[fwClass]
		if len(my.Unsafe) > 0 {
			kind += "+unsafe"
		}
		cw.Add(lit, kind, nAllow > 0 && nNoRule > 0, map[string]any{"op": "full", "yaml": text, "my": fmt.Sprintf("%+v", my), "fw_class": fwClass, "probes": jprobes})
	}
	if len(failures) > 0 {
		cw.Meta("failures", failures)
	}
	cw.Close("port texts: fixed table of " + strconv.Itoa(len(fwPortTexts)) + " strings (digits, signs, blanks, hex, empty, huge, ranges with blanks, reversed ranges, unicode digits) + generated; " +
		"configurations: YAML text of 0-4 rule maps with arbitrary field types through nebula's config loader into a recorder and a real Firewall, then 4-8 Drop probes; " +
		"whole firewalls through NewFirewallFromConfig (default_local_cidr_any true/false/absent x unsafe networks x rules with/without local_cidr, both directions), 10-15 Drop probes with local addresses in the VPN networks, in the unsafe networks and outside; " +
		"non-trivial = accepted port text / configuration that loaded at least one rule / firewall that both allowed and refused for lack of a rule; distinct by literal")
}

//go:build comp_all || comp_remotes_admit

package main

import (
	"fmt"
	"net/netip"
	"slices"
	"strings"

	"github.com/slackhq/nebula"
	"verifharness/hx"
)

func init() {
	hx.Register("remotes_admit", runRemotesAdmit)
}

type raRule struct {
	p netip.Prefix
	v bool
}

type raCalc struct {
	mask netip.Prefix
	port int
}

// raCase: one configuration, one real LightHouse, one history.
type raCase struct {
	c        *hx.Ctx
	p        *rlPools
	nets     []netip.Prefix
	amLH     bool
	peers    [][]netip.Addr // overlay addresses of each peer (peer 0.. are the lighthouses)
	lhs      []netip.Addr
	global   []raRule
	hasGlob  bool
	inside   []struct {
		cidr  netip.Prefix
		rules []raRule
	}
	static []struct {
		vpn   netip.Addr
		addrs []netip.AddrPort
	}
	calc []struct {
		cidr netip.Prefix
		l    []raCalc
	}
	lh       *nebula.VerifLH
	ops      []string
	desc     []string
	punches  int
	nonEmpty int
	failed   string
	fresh    uint16
	hotPeer  []netip.Addr     // conflict mode: the multi-address peer whose addresses fall into ranges with opposite verdicts
	hot      []netip.AddrPort // conflict mode: the underlay addresses those ranges disagree about
}

// ---- configuration ----

func raRulesLit(rs []raRule) string {
	s := make([]string, len(rs))
	for i, r := range rs {
		s[i] = fmt.Sprintf("(%s, %s)", rlPrefixLit(r.p), hx.Bool(r.v))
	}
	return hx.List(s)
}

func raRulesMap(rs []raRule) map[string]any {
	m := map[string]any{}
	for _, r := range rs {
		m[r.p.String()] = r.v
	}
	return m
}

// rules: distinct masked prefixes around the pool; a family without a /0 entry has one uniform value
func (k *raCase) rules(max int) []raRule {
	c := k.c
	var rs []raRule
	val := map[bool]bool{true: c.Chance(0.5), false: c.Chance(0.5)} // by Is4
	hasDefault := map[bool]bool{}
	for i, n := 0, c.Intn(max+1); i < n; i++ {
		a := k.p.addr()
		w := a.BitLen()
		bits := []int{w, w - 8, 8, 16, w / 2, 0, 12}[c.Intn(7)]
		if a.Is4() && c.Chance(0.3) {
			bits = []int{8, 12, 16, 24, 32}[c.Intn(5)]
		}
		p := netip.PrefixFrom(a, bits).Masked()
		if slices.ContainsFunc(rs, func(r raRule) bool { return r.p == p }) {
			continue
		}
		v := val[a.Is4()]
		if bits == 0 {
			hasDefault[a.Is4()] = true
			v = c.Chance(0.5)
		}
		rs = append(rs, raRule{p, v})
	}
	// with a default present the other rules of that family may take any value
	for i := range rs {
		if hasDefault[rs[i].p.Addr().Is4()] && rs[i].p.Bits() != 0 {
			rs[i].v = c.Chance(0.5)
		}
	}
	return rs
}

func newRACase(c *hx.Ctx, mapped bool, conflict int) *raCase {
	k := &raCase{c: c, fresh: 20000}
	k.nets = []netip.Prefix{netip.MustParsePrefix("10.77.0.1/24")}
	if c.Chance(0.4) {
		k.nets = append(k.nets, netip.MustParsePrefix("fd77::1/64"))
	}
	if c.Chance(0.1) {
		k.nets = []netip.Prefix{netip.MustParsePrefix("fd77::1/64"), netip.MustParsePrefix("10.77.0.1/16")}
	}
	k.amLH = c.Chance(0.45)
	k.peers = [][]netip.Addr{
		rlParse([]string{"10.77.0.2"}), rlParse([]string{"10.77.0.3", "fd77::3"}), rlParse([]string{"10.77.0.4"}),
		rlParse([]string{"fd77::5", "10.77.0.5"}), rlParse([]string{"192.168.50.9"}), rlParse([]string{"10.77.0.6"}),
		rlParse([]string{"10.77.0.7", "fd77::7", "10.77.0.8"}),
	}
	// underlay pool: the usual mix plus addresses inside the node's own networks
	k.p = newRLPools(c, 5+c.Intn(5))
	own := rlParse([]string{"10.77.0.50", "10.77.0.255", "fd77::50", "10.77.1.1", "10.78.0.1"})
	for i, n := 0, 1+c.Intn(3); i < n; i++ {
		k.p.addrs = append(k.p.addrs, own[c.Intn(len(own))])
	}
	nlh := 1 + c.Intn(2)
	for i := 0; i < nlh; i++ {
		k.lhs = append(k.lhs, k.peers[i][0])
	}
	if c.Chance(0.15) { // a lighthouse known by its second address
		k.lhs[len(k.lhs)-1] = k.peers[1][1]
	}
	if c.Chance(0.7) {
		k.hasGlob = true
		k.global = k.rules(4)
	}
	if conflict > 0 {
		k.conflict(conflict - 1)
	}
	for i, n := 0, c.Intn(3); conflict == 0 && i < n; i++ {
		cidr := []string{"10.77.0.0/24", "10.77.0.2/31", "10.77.0.4/32", "fd77::/64", "0.0.0.0/0", "10.77.0.0/29", "192.168.0.0/16"}[c.Intn(7)]
		p := netip.MustParsePrefix(cidr)
		if slices.ContainsFunc(k.inside, func(e struct {
			cidr  netip.Prefix
			rules []raRule
		}) bool {
			return e.cidr == p
		}) {
			continue
		}
		k.inside = append(k.inside, struct {
			cidr  netip.Prefix
			rules []raRule
		}{p, k.rules(3)})
	}
	// static hosts: every lighthouse, sometimes one more
	statics := append([]netip.Addr{}, k.lhs...)
	if c.Chance(0.5) {
		statics = append(statics, k.peers[2+c.Intn(5)][0])
	}
	if k.hotPeer != nil { // the conflicted peer is a static host (under one of its addresses), configured with the disputed addresses
		statics = append(statics, k.hotPeer[c.Intn(len(k.hotPeer))])
	}
	for _, s := range statics {
		if slices.ContainsFunc(k.static, func(e struct {
			vpn   netip.Addr
			addrs []netip.AddrPort
		}) bool {
			return e.vpn == s
		}) {
			continue
		}
		var as []netip.AddrPort
		if k.hotPeer != nil && slices.Contains(k.hotPeer, s) {
			as = append(as, k.hot...)
		}
		for i, n := 0, 1+c.Intn(3); i < n; i++ {
			a := k.p.ap()
			if mapped && a.Addr().Is4() && c.Chance(0.6) {
				// the IPv4-mapped spelling of an IPv4 literal, sometimes next to the plain one (F20)
				m := netip.AddrPortFrom(netip.AddrFrom16(a.Addr().As16()), a.Port())
				if c.Chance(0.3) && !slices.Contains(as, a) {
					as = append(as, a)
				}
				a = m
			}
			if !slices.Contains(as, a) {
				as = append(as, a)
			}
		}
		k.static = append(k.static, struct {
			vpn   netip.Addr
			addrs []netip.AddrPort
		}{s, as})
	}
	for i, n := 0, c.Intn(3); i < n; i++ {
		cidr := netip.MustParsePrefix([]string{"10.77.0.0/24", "10.77.0.4/30", "fd77::/64", "10.77.0.0/16"}[c.Intn(4)])
		if slices.ContainsFunc(k.calc, func(e struct {
			cidr netip.Prefix
			l    []raCalc
		}) bool {
			return e.cidr == cidr
		}) {
			continue
		}
		var l []raCalc
		for j, m := 0, 1+c.Intn(2); j < m; j++ {
			var mask netip.Prefix
			if cidr.Addr().Is4() {
				mask = netip.MustParsePrefix([]string{"192.168.1.0/24", "10.77.0.0/24", "172.16.9.7/12", "1.1.1.0/28", "8.8.8.8/32", "0.0.0.0/0"}[c.Intn(6)])
			} else {
				mask = netip.MustParsePrefix([]string{"2001:db8:1::/64", "fd77::/64", "::ffff:0:0/96", "2001:db8::1/128", "fc00::/7"}[c.Intn(5)])
			}
			l = append(l, raCalc{mask, []int{4242, 0, 65535, 80}[c.Intn(4)]})
		}
		k.calc = append(k.calc, struct {
			cidr netip.Prefix
			l    []raCalc
		}{cidr, l})
	}
	return k
}

// conflict: a peer with 2-3 overlay addresses (v4 + v6) whose addresses fall into different remote_allow_ranges
// entries that disagree about one underlay address: pattern p picks which addresses allow and which deny it.
//   {u/len: true}  allows only u (default for the family becomes deny)
//   {u/len: false} denies only u (default allow)
func (k *raCase) conflict(p int) {
	c := k.c
	multi := [][]netip.Addr{k.peers[1], k.peers[3], k.peers[6]}
	k.hotPeer = multi[p%3]
	patterns := [][]bool{{true, false}, {false, true}, {true, false, true}, {false, true, true}, {true, true, false}, {false, false, true}}
	pat := patterns[(p/3)%len(patterns)]
	u4 := netip.MustParseAddr([]string{"1.1.1.1", "203.0.113.7", "192.168.1.10", "10.0.0.1"}[c.Intn(4)])
	u6 := netip.MustParseAddr([]string{"2001:db8::1", "2606:4700::1111", "fd12:3456::9"}[c.Intn(3)])
	k.p.addrs = append(k.p.addrs, u4, u6)
	k.hot = []netip.AddrPort{netip.AddrPortFrom(u4, 4242), netip.AddrPortFrom(u6, 4242)}
	for i, a := range k.hotPeer {
		verdict := pat[i%len(pat)]
		cidr := netip.PrefixFrom(a, a.BitLen())
		if c.Chance(0.3) { // a covering range instead of the host route (still separating the peer's addresses)
			cidr = netip.PrefixFrom(a, a.BitLen()-1).Masked()
			if slices.ContainsFunc(k.hotPeer, func(b netip.Addr) bool { return b != a && cidr.Contains(b) }) {
				cidr = netip.PrefixFrom(a, a.BitLen())
			}
		}
		rules := []raRule{{netip.PrefixFrom(u4, 32), verdict}, {netip.PrefixFrom(u6, 128), verdict}}
		if c.Chance(0.3) { // disagree about one family only
			rules = rules[:1]
		}
		k.inside = append(k.inside, struct {
			cidr  netip.Prefix
			rules []raRule
		}{cidr, rules})
	}
	if c.Chance(0.5) { // the global list does not settle it
		k.hasGlob, k.global = false, nil
	}
}

// order: the peer's addresses as a certificate / hostinfo may list them (any order)
func (k *raCase) order(p []netip.Addr) []netip.Addr {
	q := append([]netip.Addr{}, p...)
	k.c.Rng.Shuffle(len(q), func(i, j int) { q[i], q[j] = q[j], q[i] })
	if k.c.Chance(0.25) && len(q) > 2 {
		q = q[:2]
	}
	return q
}

func (k *raCase) anyPeer() []netip.Addr {
	if k.hotPeer != nil && k.c.Chance(0.6) {
		return k.order(k.hotPeer)
	}
	p := k.peer()
	if k.c.Chance(0.3) {
		return k.order(p)
	}
	return p
}

func (k *raCase) src() netip.AddrPort {
	if len(k.hot) > 0 && k.c.Chance(0.6) {
		return k.hot[k.c.Intn(len(k.hot))]
	}
	return k.p.ap()
}

func (k *raCase) roam(p []netip.Addr, src netip.AddrPort) {
	took := k.lh.Roam(p, src)
	k.emit(fmt.Sprintf("LLearn %s %s", rlAddrsLit(p), rlAPLit(src)), "OBool "+hx.Bool(took), fmt.Sprintf("roam %v from %s -> remote taken=%v", p, src, took))
}

func (k *raCase) hsCheck(p []netip.Addr, src netip.AddrPort) {
	ok := k.lh.HandshakeSourceAccepted(p, src)
	k.emit(fmt.Sprintf("LHsCheck %s %s", rlAddrsLit(p), rlAPLit(src)), "OBool "+hx.Bool(ok), fmt.Sprintf("handshake %v from %s -> accepted=%v", p, src, ok))
}

func (k *raCase) done(p []netip.Addr) {
	k.lh.HandshakeDone(p)
	k.emit("LDone "+rlAddrsLit(p), "ONone", fmt.Sprintf("handshake done %v", p))
}

// conflictScript: the boundary corpus for one conflicted peer: every AllowAll user and every Allow user sees the
// disputed addresses, with the peer's addresses in both orders.
func (k *raCase) conflictScript(pref []netip.Prefix) {
	p := k.hotPeer
	rev := append([]netip.Addr{}, p...)
	slices.Reverse(rev)
	for _, u := range k.hot {
		for _, vs := range [][]netip.Addr{p, rev, p[:1], p[len(p)-1:]} {
			k.hsCheck(vs, u)
			k.roam(vs, u)
			k.observe(vs[0], pref)
		}
	}
	// reported for each single address (Allow, per address) by a lighthouse
	from := k.sender()
	for _, a := range p {
		var v4 [][2]uint32
		var v6 [][3]uint64
		for _, u := range k.hot {
			if u.Addr().Is4() {
				v4 = append(v4, rlProtoV4(u.Addr(), uint32(u.Port())))
			} else {
				v6 = append(v6, rlProtoV6(u.Addr(), uint32(u.Port())))
			}
		}
		old, vpn := k.detailsOf(a)
		punched, err := k.lh.HandleRequest(from, nebula.VerifLHMsg{Type: nebula.VerifMsgQueryReply, OldVpn: old, Vpn: vpn, V4: v4, V6: v6})
		if err != nil {
			k.failed = err.Error()
		}
		_ = punched
		k.emit(fmt.Sprintf("LQueryReply %s %d %s %s %s [] []", rlAddrsLit(from), old, optAddrLit(vpn), rlV4sLit(v4), rlV6sLit(v6)), "ONone",
			fmt.Sprintf("LQueryReply from=%v about %s v4=%v v6=%v", from, a, v4, v6))
		k.observe(a, pref)
		punched, err = k.lh.HandleRequest(from, nebula.VerifLHMsg{Type: nebula.VerifMsgPunch, OldVpn: old, Vpn: vpn, V4: v4, V6: v6})
		if err != nil {
			k.failed = err.Error()
		}
		k.emit(fmt.Sprintf("LPunch %s %d %s %s %s", rlAddrsLit(from), old, optAddrLit(vpn), rlV4sLit(v4), rlV6sLit(v6)), "OPunch "+rlAPsLit(punched),
			fmt.Sprintf("LPunch from=%v about %s -> %v", from, a, punched))
		k.punches += len(punched)
	}
	// the static entries of the conflicted peer are re-filtered for all of its addresses once a handshake completes
	for _, e := range k.static {
		if slices.Contains(p, e.vpn) {
			k.observe(e.vpn, pref)
			for _, vs := range [][]netip.Addr{p, rev} {
				if vs[0] != e.vpn { // the list the handshake refreshes is the one registered under the first address
					vs = append([]netip.Addr{e.vpn}, slices.DeleteFunc(append([]netip.Addr{}, vs...), func(a netip.Addr) bool { return a == e.vpn })...)
				}
				k.done(vs)
				k.observe(e.vpn, pref)
				k.punchAll2(vs, pref)
			}
		}
	}
}

func (k *raCase) punchAll2(p []netip.Addr, pref []netip.Prefix) {
	w := k.lh.PunchAll(p, pref)
	k.emit(fmt.Sprintf("LPunchAll %s %s", rlAddrsLit(p), rlPrefixesLit(pref)), "OPunch "+rlAPsLit(w), fmt.Sprintf("punch-all %v pref=%v -> %v", p, pref, w))
	k.punches += len(w)
}

func (k *raCase) settings() map[string]any {
	lhm := map[string]any{"am_lighthouse": k.amLH}
	hosts := []any{}
	for _, a := range k.lhs {
		hosts = append(hosts, a.String())
	}
	lhm["hosts"] = hosts
	if k.hasGlob {
		lhm["remote_allow_list"] = raRulesMap(k.global)
	}
	if len(k.inside) > 0 {
		m := map[string]any{}
		for _, e := range k.inside {
			m[e.cidr.String()] = raRulesMap(e.rules)
		}
		lhm["remote_allow_ranges"] = m
	}
	if len(k.calc) > 0 {
		m := map[string]any{}
		for _, e := range k.calc {
			var l []any
			for _, x := range e.l {
				l = append(l, map[string]any{"mask": x.mask.String(), "port": x.port})
			}
			m[e.cidr.String()] = l
		}
		lhm["calculated_remotes"] = m
	}
	shm := map[string]any{}
	for _, e := range k.static {
		var l []any
		for _, a := range e.addrs {
			l = append(l, a.String())
		}
		shm[e.vpn.String()] = l
	}
	return map[string]any{
		"lighthouse":      lhm,
		"listen":          map[string]any{"port": 4242},
		"static_host_map": shm,
		"punchy":          map[string]any{"punch": true, "respond": false, "delay": "0s", "target_all_remotes": true},
	}
}

func (k *raCase) cfgLiteral() string {
	glob := "None"
	if k.hasGlob {
		glob = "(Some " + raRulesLit(k.global) + ")"
	}
	ins := make([]string, len(k.inside))
	for i, e := range k.inside {
		ins[i] = fmt.Sprintf("(%s, %s)", rlPrefixLit(e.cidr), raRulesLit(e.rules))
	}
	st := make([]string, len(k.static))
	for i, e := range k.static {
		st[i] = fmt.Sprintf("(%s, %s)", rlAddrLit(e.vpn), rlAPsLit(e.addrs))
	}
	ca := make([]string, len(k.calc))
	for i, e := range k.calc {
		l := make([]string, len(e.l))
		for j, x := range e.l {
			l[j] = fmt.Sprintf("(%s, %d)", rlPrefixLit(x.mask.Masked()), x.port)
		}
		ca[i] = fmt.Sprintf("(%s, %s)", rlPrefixLit(e.cidr), hx.List(l))
	}
	return hx.App("mkCfg", rlPrefixesLit(k.nets), hx.Bool(k.amLH), rlAddrsLit(k.lhs), glob, hx.List(ins), hx.List(st), hx.List(ca))
}

// ---- operations ----

func (k *raCase) emit(op, out, desc string) {
	k.ops = append(k.ops, "("+op+", "+out+")")
	k.desc = append(k.desc, desc)
}

func optAddrLit(a *netip.Addr) string {
	if a == nil {
		return "None"
	}
	return "(Some " + rlAddrLit(*a) + ")"
}

func u32sLit(xs []uint32) string {
	s := make([]string, len(xs))
	for i, x := range xs {
		s[i] = fmt.Sprint(x)
	}
	return hx.List(s)
}

func (k *raCase) peer() []netip.Addr { return k.peers[k.c.Intn(len(k.peers))] }

func (k *raCase) sender() []netip.Addr {
	if k.c.Chance(0.7) { // a lighthouse
		lhAddr := k.lhs[k.c.Intn(len(k.lhs))]
		for _, p := range k.peers {
			if slices.Contains(p, lhAddr) {
				return p
			}
		}
	}
	return k.peer()
}

func (k *raCase) entries() ([][2]uint32, [][3]uint64) {
	c := k.c
	n4, n6 := c.Intn(4), c.Intn(3)
	if c.Chance(0.12) {
		n4 = 9 + c.Intn(5)
	}
	if c.Chance(0.08) {
		n6 = 9 + c.Intn(5)
	}
	v4 := make([][2]uint32, n4)
	for i := range v4 {
		v4[i] = rlProtoV4(k.p.v4(), k.p.protoPort())
		if len(k.hot) > 0 && c.Chance(0.4) {
			v4[i] = rlProtoV4(k.hot[0].Addr(), uint32(k.hot[0].Port()))
		}
		if n4 > 8 {
			v4[i][1] = uint32(1000 + i) // distinct entries so that the cap is visible
		}
	}
	v6 := make([][3]uint64, n6)
	for i := range v6 {
		v6[i] = rlProtoV6(k.p.v6entry(), k.p.protoPort())
		if n6 > 8 {
			v6[i][2] = uint64(1000 + i)
		}
	}
	return v4, v6
}

// details: which overlay address the message is about, in the v1 (OldVpnAddr) or v2 (VpnAddr) field
func (k *raCase) detailsOf(a netip.Addr) (uint32, *netip.Addr) {
	if a.Is4() && k.c.Chance(0.4) {
		return rlProtoV4(a, 0)[0], nil
	}
	if a.Is4() && k.c.Chance(0.1) {
		m := netip.AddrFrom16(a.As16())
		return 0, &m
	}
	return 0, &a
}

func (k *raCase) relays() ([]uint32, []netip.Addr) {
	var o []uint32
	var r []netip.Addr
	n := k.c.Intn(3)
	if k.c.Chance(0.06) {
		n = 9 + k.c.Intn(4)
	}
	for i := 0; i < n; i++ {
		a := k.peer()[0]
		if n > 8 {
			a = netip.AddrFrom4([4]byte{10, 77, 0, byte(100 + i)})
		}
		if a.Is4() && k.c.Chance(0.4) {
			o = append(o, rlProtoV4(a, 0)[0])
		} else {
			r = append(r, a)
		}
	}
	return o, r
}

func (k *raCase) observe(vpn netip.Addr, pref []netip.Prefix) []netip.AddrPort {
	ok, as, rs, counts := k.lh.Observe(vpn, pref)
	cl := make([]string, len(counts))
	for i, n := range counts {
		cl[i] = fmt.Sprintf("(%s, (%d, %d, %d))", rlAddrLit(n.Owner), n.R4, n.R6, n.Relays)
	}
	k.emit(fmt.Sprintf("LCopy %s %s", rlAddrLit(vpn), rlPrefixesLit(pref)),
		fmt.Sprintf("OList %s %s %s %s", hx.Bool(ok), rlAPsLit(as), rlAddrsLit(rs), hx.List(cl)),
		fmt.Sprintf("copy %s pref=%v -> present=%v %v relays=%v counts=%v", vpn, pref, ok, as, rs, counts))
	if len(as) > 0 {
		k.nonEmpty++
	}
	return as
}

func (k *raCase) message(typ int, kind string) (touched netip.Addr) {
	from := k.sender()
	about := k.peer()
	target := about[k.c.Intn(len(about))]
	if typ == nebula.VerifMsgUpdate && k.c.Chance(0.85) { // updates are about the sender itself
		target = from[k.c.Intn(len(from))]
	}
	old, vpn := k.detailsOf(target)
	if k.c.Chance(0.06) {
		old, vpn = 0, nil
	}
	v4, v6 := k.entries()
	orel, rel := k.relays()
	if typ == nebula.VerifMsgPunch {
		orel, rel = nil, nil
	}
	punched, err := k.lh.HandleRequest(from, nebula.VerifLHMsg{Type: typ, OldVpn: old, Vpn: vpn, V4: v4, V6: v6, OldRelays: orel, Relays: rel})
	if err != nil {
		k.failed = err.Error()
	}
	head := fmt.Sprintf("%s %s %d %s %s %s", kind, rlAddrsLit(from), old, optAddrLit(vpn), rlV4sLit(v4), rlV6sLit(v6))
	d := fmt.Sprintf("%s from=%v old=%d vpn=%v v4=%v v6=%v", kind, from, old, vpn, v4, v6)
	if typ == nebula.VerifMsgPunch {
		k.emit(head, "OPunch "+rlAPsLit(punched), d+fmt.Sprintf(" -> punched %v", punched))
		k.punches += len(punched)
		return netip.Addr{}
	}
	k.emit(head+" "+u32sLit(orel)+" "+rlAddrsLit(rel), "ONone", d+fmt.Sprintf(" orel=%v rel=%v", orel, rel))
	if typ == nebula.VerifMsgUpdate {
		return from[0]
	}
	return target.Unmap()
}

func (k *raCase) step(pref []netip.Prefix) {
	c := k.c
	var touched netip.Addr
	switch r := c.Intn(100); {
	case r < 30:
		touched = k.message(nebula.VerifMsgQueryReply, "LQueryReply")
	case r < 50:
		touched = k.message(nebula.VerifMsgUpdate, "LUpdate")
	case r < 58:
		vpn := k.peer()[0]
		k.lh.StartHandshakeRemotes(vpn)
		k.emit("LCalc "+rlAddrLit(vpn), "ONone", fmt.Sprintf("starthandshake %s", vpn))
		touched = vpn
	case r < 68:
		p := k.peer()
		vs := p
		if c.Chance(0.3) {
			vs = p[:1]
		}
		if c.Chance(0.2) {
			vs = append(append([]netip.Addr{}, k.peer()...), p...)
		}
		k.lh.Delete(vs)
		k.emit("LDelete "+rlAddrsLit(vs), "ONone", fmt.Sprintf("delete %v", vs))
		touched = vs[0]
	case r < 78:
		p := k.anyPeer()
		k.roam(p, k.src())
		touched = p[0]
	case r < 83:
		k.hsCheck(k.anyPeer(), k.src())
	case r < 92:
		p := k.peer()
		a := k.p.ap()
		if as := k.observe(p[0], pref); len(as) > 0 && c.Chance(0.7) { // every CopyAddrs is part of the recorded history
			a = as[c.Intn(len(as))]
		}
		k.lh.Block(p[0], a)
		k.emit(fmt.Sprintf("LBlock %s %s", rlAddrLit(p[0]), rlAPLit(a)), "ONone", fmt.Sprintf("block %s %s", p[0], a))
		touched = p[0]
	default:
		// the right host answers, sometimes after a wrong one
		p := k.anyPeer()
		if k.c.Chance(0.5) {
			k.fresh++
			a := netip.AddrPortFrom(netip.MustParseAddr("203.0.113.99"), k.fresh)
			k.lh.Block(p[0], a)
			k.emit(fmt.Sprintf("LBlock %s %s", rlAddrLit(p[0]), rlAPLit(a)), "ONone", fmt.Sprintf("block %s %s", p[0], a))
		}
		k.done(p)
		touched = p[0]
	}
	if touched.IsValid() {
		k.observe(touched, pref)
	}
}

func (k *raCase) punchMsg() { k.message(nebula.VerifMsgPunch, "LPunch") }

func (k *raCase) punchAll(pref []netip.Prefix) {
	p := k.peer()
	w := k.lh.PunchAll(p, pref)
	k.emit(fmt.Sprintf("LPunchAll %s %s", rlAddrsLit(p), rlPrefixesLit(pref)), "OPunch "+rlAPsLit(w), fmt.Sprintf("punch-all %v pref=%v -> %v", p, pref, w))
	k.punches += len(w)
}

func (k *raCase) run(nops int, punch bool, script bool) {
	defer func() {
		if r := recover(); r != nil {
			k.failed = fmt.Sprint("panic: ", r)
		}
	}()
	lh, err := nebula.VerifNewLH(k.nets, k.settings())
	if err != nil {
		k.failed = "config refused: " + err.Error()
		return
	}
	k.lh = lh
	defer lh.Close()
	pref := k.p.prefixes(2)
	// the static hosts as configured
	for _, e := range k.static {
		k.observe(e.vpn, pref)
	}
	if script {
		k.conflictScript(pref)
	}
	for i := 0; i < nops; i++ {
		if punch {
			if k.c.Chance(0.6) {
				k.punchMsg()
			} else {
				k.punchAll(pref)
			}
			if k.c.Chance(0.5) {
				k.step(pref)
			}
		} else {
			k.step(pref)
		}
		if k.c.Chance(0.15) {
			pref = k.p.prefixes(2)
		}
		if k.c.Chance(0.2) && len(k.static) > 0 {
			k.observe(k.static[k.c.Intn(len(k.static))].vpn, pref)
		}
	}
	for _, p := range k.peers {
		for _, a := range p {
			k.observe(a, pref)
		}
	}
}

func (k *raCase) literal() string {
	return hx.App("RemotesAdmit_corr.Case", k.cfgLiteral(), "["+strings.Join(k.ops, ";\n  ")+"]")
}

func (k *raCase) json(kind string) map[string]any {
	return map[string]any{"kind": kind, "networks": rlStrs(k.nets), "settings": fmt.Sprint(k.settings()), "ops": k.desc}
}

func runRemotesAdmit(c *hx.Ctx) {
	cw := c.NewCaseWriter("From NV Require Import model.RemoteList model.RemotesAdmit corr.RemotesAdmit_corr.", "RemotesAdmit_corr.case", "RemotesAdmit_corr.check_case", 12)
	var failures []map[string]any
	addCase := func(k *raCase, kind string, nops int, punch, script bool) {
		k.run(nops, punch, script)
		cw.Add(k.literal(), kind, k.nonEmpty > 0 || k.punches > 0, k.json(kind))
		if k.failed != "" {
			failures = append(failures, map[string]any{"i": cw.Total() - 1, "code": 2, "what": k.failed})
		}
	}
	// boundary corpus: every multi-address peer x every allow/deny pattern over its addresses, scripted
	for p := 0; p < 18; p++ {
		addCase(newRACase(c, false, p+1), "allow_all_sweep", 2, false, true)
	}
	for i := 0; i < c.N; i++ {
		kind := "history"
		punch := i%4 == 3
		if punch {
			kind = "punch"
		}
		if i%8 == 5 {
			kind = "static_mapped"
		}
		conflict := 0
		if i%3 == 1 {
			conflict = 1 + c.Intn(18)
			if kind == "history" {
				kind = "allow_all"
			}
		}
		addCase(newRACase(c, kind == "static_mapped", conflict), kind, 3+c.Intn(10), punch, false)
	}
	if len(failures) > 0 {
		cw.Meta("failures", failures)
	}
	cw.Close("random configurations (own networks, allow list with/without defaults, inside ranges, static hosts with literal addresses some of them inside the own networks or denied, calculated remotes, lighthouse or not) and histories of 3..12 operations on a real LightHouse: query replies, host updates, punch notifications (kind punch), keepalive punches to all remotes, calculated remotes, tunnel closes, roaming sources, wrong-host blocks, handshake completions; CopyAddrs, relays and per-owner contribution sizes observed after every operation and for every peer at the end; non-trivial = some non-empty list or punch; distinct by literal")
}

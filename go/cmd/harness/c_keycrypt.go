//go:build comp_all || comp_keycrypt

package main

// Property C43 (encrypted private keys open only with the right passphrase; key PEM encodings round-trip and are
// refused under the wrong banner).
//
//	gen_keycrypt  T1: the PEM banners of /repo/cert/pem.go, and - probed on a real EncryptAndMarshalSigningPrivateKey
//	              output - the algorithm name, the Argon2 version, salt / nonce / tag sizes -> coq/gen/Consts_KeyCrypt.v
//	keycrypt      T3: (1) the four UnmarshalXxxFromPEM functions on every banner x every key length 0..70, and the four
//	              MarshalXxxToPEM functions; (2) real encrypt (cheap Argon2 parameters), then real decrypt of: the
//	              output itself, other passphrases, EVERY single-byte mutation of the protobuf body and of the PEM text,
//	              per-field semantic alterations, banner swaps, and re-encodings that change bytes but no field.
//	              Which field an input differs in is decided by an independent decoder in this file (encoding/pem +
//	              protowire primitives), not by nebula's code.

import (
	"bytes"
	"crypto/aes"
	"crypto/cipher"
	"encoding/pem"
	"fmt"
	"strings"
	"unicode/utf8"

	"github.com/slackhq/nebula/cert"
	"google.golang.org/protobuf/encoding/protowire"
	"verifharness/hx"
)

func init() {
	hx.Register("gen_keycrypt", genKeyCrypt)
	hx.Register("keycrypt", runKeyCrypt)
}

var kcBanners = []struct{ name, text string }{
	{"banner_x25519_priv", cert.X25519PrivateKeyBanner},
	{"banner_x25519_pub", cert.X25519PublicKeyBanner},
	{"banner_p256_priv", cert.P256PrivateKeyBanner},
	{"banner_p256_pub", cert.P256PublicKeyBanner},
	{"banner_ecdsa_p256_enc", cert.EncryptedECDSAP256PrivateKeyBanner},
	{"banner_ecdsa_p256_priv", cert.ECDSAP256PrivateKeyBanner},
	{"banner_ecdsa_p256_pub", cert.ECDSAP256PublicKeyBanner},
	{"banner_ed25519_enc", cert.EncryptedEd25519PrivateKeyBanner},
	{"banner_ed25519_priv", cert.Ed25519PrivateKeyBanner},
	{"banner_ed25519_pub", cert.Ed25519PublicKeyBanner},
	{"banner_cert_v1", cert.CertificateBanner},
	{"banner_cert_v2", cert.CertificateV2Banner},
}

// ---- independent decoder of the container ---------------------------------------------------------

type kcFields struct {
	hasMeta, hasArgon bool
	alg               []byte
	version           int32
	mem, par, it      uint32
	salt              []byte
	blob              []byte
}

// kcWalk walks the fields of one message with protobuf semantics: tag numbers 1..2^29-1, end-group tags are errors,
// a known number with another wire type is skipped like an unknown field.
func kcWalk(b []byte, known func(num protowire.Number, typ protowire.Type, b []byte) (n int, handled bool, err bool)) bool {
	for len(b) > 0 {
		tag, n := protowire.ConsumeVarint(b)
		if n < 0 {
			return false
		}
		b = b[n:]
		num := tag >> 3
		if num < 1 || num > 1<<29-1 {
			return false
		}
		typ := protowire.Type(tag & 7)
		if typ == protowire.EndGroupType {
			return false
		}
		m, handled, bad := known(protowire.Number(num), typ, b)
		if bad {
			return false
		}
		if !handled {
			m = protowire.ConsumeFieldValue(protowire.Number(num), typ, b)
			if m < 0 {
				return false
			}
		}
		b = b[m:]
	}
	return true
}

func kcDecodeArgon(b []byte, f *kcFields) bool {
	return kcWalk(b, func(num protowire.Number, typ protowire.Type, b []byte) (int, bool, bool) {
		if typ == protowire.VarintType && (num >= 1 && num <= 4) {
			v, n := protowire.ConsumeVarint(b)
			if n < 0 {
				return 0, false, true
			}
			switch num {
			case 1:
				f.version = int32(v)
			case 2:
				f.mem = uint32(v)
			case 3:
				f.it = uint32(v)
			case 4:
				f.par = uint32(v)
			}
			return n, true, false
		}
		if typ == protowire.BytesType && num == 5 {
			v, n := protowire.ConsumeBytes(b)
			if n < 0 {
				return 0, false, true
			}
			f.salt = append([]byte{}, v...)
			return n, true, false
		}
		return 0, false, false
	})
}

func kcDecodeMeta(b []byte, f *kcFields) bool {
	return kcWalk(b, func(num protowire.Number, typ protowire.Type, b []byte) (int, bool, bool) {
		if typ != protowire.BytesType || (num != 1 && num != 2) {
			return 0, false, false
		}
		v, n := protowire.ConsumeBytes(b)
		if n < 0 {
			return 0, false, true
		}
		if num == 1 {
			if !utf8.Valid(v) {
				return 0, false, true
			}
			f.alg = append([]byte{}, v...)
			return n, true, false
		}
		f.hasArgon = true
		if !kcDecodeArgon(v, f) {
			return 0, false, true
		}
		return n, true, false
	})
}

func kcDecode(body []byte) (kcFields, bool) {
	var f kcFields
	if len(body) == 0 {
		return f, false
	}
	ok := kcWalk(body, func(num protowire.Number, typ protowire.Type, b []byte) (int, bool, bool) {
		if typ != protowire.BytesType || (num != 1 && num != 2) {
			return 0, false, false
		}
		v, n := protowire.ConsumeBytes(b)
		if n < 0 {
			return 0, false, true
		}
		if num == 1 {
			f.hasMeta = true
			if !kcDecodeMeta(v, &f) {
				return 0, false, true
			}
			return n, true, false
		}
		f.blob = append([]byte{}, v...)
		return n, true, false
	})
	return f, ok
}

// independent encoder (canonical layout: fields in number order)
func kcEncodeArgon(f kcFields) []byte {
	var a []byte
	a = protowire.AppendTag(a, 1, protowire.VarintType)
	a = protowire.AppendVarint(a, uint64(uint32(f.version)))
	a = protowire.AppendTag(a, 2, protowire.VarintType)
	a = protowire.AppendVarint(a, uint64(f.mem))
	a = protowire.AppendTag(a, 3, protowire.VarintType)
	a = protowire.AppendVarint(a, uint64(f.it))
	a = protowire.AppendTag(a, 4, protowire.VarintType)
	a = protowire.AppendVarint(a, uint64(f.par))
	a = protowire.AppendTag(a, 5, protowire.BytesType)
	a = protowire.AppendBytes(a, f.salt)
	return a
}
func kcEncodeMeta(f kcFields) []byte {
	var m []byte
	m = protowire.AppendTag(m, 1, protowire.BytesType)
	m = protowire.AppendBytes(m, f.alg)
	m = protowire.AppendTag(m, 2, protowire.BytesType)
	m = protowire.AppendBytes(m, kcEncodeArgon(f))
	return m
}
func kcEncode(f kcFields) []byte {
	var b []byte
	b = protowire.AppendTag(b, 1, protowire.BytesType)
	b = protowire.AppendBytes(b, kcEncodeMeta(f))
	b = protowire.AppendTag(b, 2, protowire.BytesType)
	b = protowire.AppendBytes(b, f.blob)
	return b
}

const (
	kcHitBanner = 1 << iota
	kcHitAlg
	kcHitVersion
	kcHitMem
	kcHitIt
	kcHitPar
	kcHitSalt
	kcHitNonce
	kcHitCt
	kcHitStructure
	kcHitPass
)

// kcHit: in which fields (banner', body') differs from the honest container, by the independent decoder.
func kcHit(nonceLen int, banner0 string, f0 kcFields, pemOK bool, banner string, body []byte) (int, kcFields) {
	if !pemOK {
		return kcHitStructure, kcFields{}
	}
	h := 0
	if banner != banner0 {
		h |= kcHitBanner
	}
	f, ok := kcDecode(body)
	if !ok || !f.hasMeta || !f.hasArgon {
		return h | kcHitStructure, f
	}
	if !bytes.Equal(f.alg, f0.alg) {
		h |= kcHitAlg
	}
	if f.version != f0.version {
		h |= kcHitVersion
	}
	if f.mem != f0.mem {
		h |= kcHitMem
	}
	if f.it != f0.it {
		h |= kcHitIt
	}
	if f.par != f0.par {
		h |= kcHitPar
	}
	if !bytes.Equal(f.salt, f0.salt) {
		h |= kcHitSalt
	}
	if len(f.blob) <= nonceLen {
		h |= kcHitStructure
	} else {
		if !bytes.Equal(f.blob[:nonceLen], f0.blob[:nonceLen]) {
			h |= kcHitNonce
		}
		if !bytes.Equal(f.blob[nonceLen:], f0.blob[nonceLen:]) {
			h |= kcHitCt
		}
	}
	return h, f
}

func kcGcmSizes() (nonce, tag int) {
	blk, err := aes.NewCipher(make([]byte, 32))
	if err != nil {
		panic(err)
	}
	g, err := cipher.NewGCM(blk)
	if err != nil {
		panic(err)
	}
	return g.NonceSize(), g.Overhead()
}

func kcCurve(c int) cert.Curve {
	if c == 1 {
		return cert.Curve_P256
	}
	return cert.Curve_CURVE25519
}

func kcKeyLen(c int) int {
	if c == 1 {
		return 32
	}
	return 64
}

// ---- gen_keycrypt (T1) ------------------------------------------------------------------------

func genKeyCrypt(c *hx.Ctx) {
	var sb strings.Builder
	sb.WriteString("(* GENERATED from /repo/cert (pem.go constants; crypto.go probed on a real EncryptAndMarshalSigningPrivateKey output) by harness gen_keycrypt: do not edit *)\n")
	sb.WriteString("From Coq Require Import List NArith.\nImport ListNotations.\nOpen Scope N_scope.\n")
	for _, b := range kcBanners {
		fmt.Fprintf(&sb, "Definition %s : list N := %s. (* %q *)\n", b.name, hx.Str(b.text), b.text)
	}
	nonce, tag := kcGcmSizes()
	var alg []byte
	version := int32(0)
	saltLen := -1
	for cv := 0; cv < 2; cv++ {
		key := c.RandBytes(kcKeyLen(cv))
		out, err := cert.EncryptAndMarshalSigningPrivateKey(kcCurve(cv), key, []byte("probe"), cert.NewArgon2Parameters(8, 1, 1))
		if err != nil {
			panic(err)
		}
		blk, _ := pem.Decode(out)
		if blk == nil {
			panic("gen_keycrypt: output is not PEM")
		}
		f, ok := kcDecode(blk.Bytes)
		if !ok || !f.hasMeta || !f.hasArgon {
			panic("gen_keycrypt: output does not decode")
		}
		if len(f.blob) != nonce+len(key)+tag {
			panic(fmt.Sprintf("gen_keycrypt: ciphertext field is %d bytes, expected nonce %d + key %d + tag %d", len(f.blob), nonce, len(key), tag))
		}
		if cv == 1 && (!bytes.Equal(alg, f.alg) || version != f.version || saltLen != len(f.salt)) {
			panic("gen_keycrypt: the two curves use different metadata")
		}
		alg, version, saltLen = f.alg, f.version, len(f.salt)
	}
	fmt.Fprintf(&sb, "Definition alg_name : list N := %s. (* %q *)\n", hx.Bytes(alg), string(alg))
	fmt.Fprintf(&sb, "Definition argon2_version : N := %d.\nDefinition generated_salt_len : N := %d.\nDefinition gcm_nonce_len : N := %d.\nDefinition gcm_tag_len : N := %d.\n",
		version, saltLen, nonce, tag)
	c.WriteFile("Consts_KeyCrypt.v", sb.String())
}

// ---- keycrypt (T3) ----------------------------------------------------------------------------

type kcTrial struct {
	label  string
	pass   []byte // nil = the right one
	banner *string
	pemOK  bool
	body   []byte
	text   []byte // the PEM text handed to the real code
}

func kcEdit(a, b []byte) (off, del int, ins []byte) {
	p := 0
	for p < len(a) && p < len(b) && a[p] == b[p] {
		p++
	}
	s := 0
	for s < len(a)-p && s < len(b)-p && a[len(a)-1-s] == b[len(b)-1-s] {
		s++
	}
	return p, len(a) - p - s, b[p : len(b)-s]
}

func kcOptBytes(b []byte, present bool) string {
	if !present {
		return hx.None()
	}
	return hx.Some(hx.Bytes(b))
}

func runKeyCrypt(c *hx.Ctx) {
	cw := c.NewCaseWriter("From NV Require Import corr.KeyCrypt_corr.", "KeyCrypt_corr.case", "KeyCrypt_corr.check_case", 100)
	nonceLen, _ := kcGcmSizes()
	// cases are collected and then written interleaved (light plain-key cases with heavy container cases), so that
	// the shards coqc evaluates in parallel carry about the same load
	type kcCase struct {
		lit, kind string
		nontriv   bool
		desc      any
	}
	var plain, heavy []kcCase

	// (1) plain key PEM: every unmarshal function x every banner x every length
	type unFn func([]byte) ([]byte, []byte, cert.Curve, error)
	fns := []unFn{cert.UnmarshalPrivateKeyFromPEM, cert.UnmarshalSigningPrivateKeyFromPEM, cert.UnmarshalPublicKeyFromPEM, cert.UnmarshalSigningPublicKeyFromPEM}
	banners := []string{}
	for _, b := range kcBanners {
		banners = append(banners, b.text)
	}
	banners = append(banners, "NEBULA BOGUS KEY", "")
	for fi, fn := range fns {
		for _, bn := range banners {
			for l := 0; l <= 70; l++ {
				if l > 1 && l < 31 || l > 33 && l < 63 || l > 66 && l < 70 {
					continue
				}
				key := c.RandBytes(l)
				text := pem.EncodeToMemory(&pem.Block{Type: bn, Bytes: key})
				tail := []byte(nil)
				if c.Chance(0.3) {
					tail = []byte("trailing text\n")
					text = append(text, tail...)
				}
				got, rest, curve, err := fn(text)
				res := hx.None()
				if err == nil {
					res = hx.Some(hx.Tuple(hx.N(uint64(curve)), hx.Bool(bytes.Equal(got, key) && bytes.Equal(rest, tail))))
				}
				plain = append(plain, kcCase{hx.App("KeyCrypt_corr.CUnmarshal", hx.N(uint64(fi)), hx.Str(bn), hx.N(uint64(l)), res), "unmarshal", err == nil,
					map[string]any{"op": "unmarshal", "fn": fi, "banner": bn, "len": l, "ok": err == nil}})
			}
		}
	}
	type mFn func(cert.Curve, []byte) []byte
	mfns := []mFn{cert.MarshalPrivateKeyToPEM, cert.MarshalSigningPrivateKeyToPEM, cert.MarshalPublicKeyToPEM, cert.MarshalSigningPublicKeyToPEM}
	for fi, fn := range mfns {
		for cv := 0; cv < 3; cv++ { // 2 = a curve the code does not know
			curve := cert.Curve(cv)
			for _, l := range []int{0, 32, 64, 65} {
				key := c.RandBytes(l)
				text := fn(curve, key)
				res := hx.None()
				if text != nil {
					blk, rest := pem.Decode(text)
					if blk == nil || len(rest) != 0 || len(blk.Headers) != 0 {
						res = hx.Some(hx.Tuple(hx.Str("?"), hx.Bool(false)))
					} else {
						res = hx.Some(hx.Tuple(hx.Str(blk.Type), hx.Bool(bytes.Equal(blk.Bytes, key))))
					}
				}
				plain = append(plain, kcCase{hx.App("KeyCrypt_corr.CMarshal", hx.N(uint64(fi)), hx.N(uint64(cv)), res), "marshal", text != nil,
					map[string]any{"op": "marshal", "fn": fi, "curve": cv, "len": l}})
			}
		}
	}

	// (2) encrypted containers
	skipped := 0
	for i := 0; i < c.N; i++ {
		cv := i % 2
		keyLen := kcKeyLen(cv)
		if i%4 == 3 || (i >= 4 && c.Chance(0.2)) { // keys of the wrong length for the curve: encrypt does not mind, decrypt must
			keyLen = []int{0, 1, 31, 32, 33, 63, 64, 65}[c.Intn(8)]
		}
		key := c.RandBytes(keyLen)
		// encrypting passphrases: random bytes, and in turn ones that end in a line ending, start with a blank, are
		// empty, or hold a character with two Unicode normal forms
		pass := c.RandBytes(c.Intn(20))
		if fixed := kcPassphrases[i%len(kcPassphrases)]; fixed != nil {
			pass = []byte(*fixed)
		}
		mem, par, it := uint32(8+c.Intn(24)), uint8(1+c.Intn(3)), uint32(1+c.Intn(2))
		if i < 2 {
			mem, par, it = 8, 1, 1
		}
		out, err := cert.EncryptAndMarshalSigningPrivateKey(kcCurve(cv), key, pass, cert.NewArgon2Parameters(mem, par, it))
		if err != nil {
			panic(err)
		}
		blk, rest := pem.Decode(out)
		if blk == nil || len(rest) != 0 || len(blk.Headers) != 0 {
			panic("keycrypt: output is not one PEM block")
		}
		banner0, body0 := blk.Type, blk.Bytes
		f0, ok := kcDecode(body0)
		if !ok || !f0.hasMeta || !f0.hasArgon || len(f0.blob) <= nonceLen {
			panic("keycrypt: output does not decode")
		}

		var trials []kcTrial
		addBody := func(label string, pass []byte, banner *string, body []byte) {
			bn := banner0
			if banner != nil {
				bn = *banner
			}
			trials = append(trials, kcTrial{label: label, pass: pass, banner: banner, pemOK: true, body: body,
				text: pem.EncodeToMemory(&pem.Block{Type: bn, Bytes: body})})
		}
		addFields := func(label string, f kcFields) { addBody(label, nil, nil, kcEncode(f)) }
		// the output itself, and other passphrases
		trials = append(trials, kcTrial{label: "same", pemOK: true, body: body0, text: out})
		for _, p := range kcNearMisses(c, pass) {
			addBody("pass", p, nil, body0)
		}
		// every banner
		for _, b := range kcBanners {
			if b.text != banner0 {
				t := b.text
				addBody("banner", nil, &t, body0)
			}
		}
		for _, t := range []string{"", "NEBULA ED25519 ENCRYPTED PRIVATE KEY ", "nebula ed25519 encrypted private key", banner0 + "S"} {
			if t != banner0 {
				t := t
				addBody("banner", nil, &t, body0)
			}
		}
		// per-field semantic alterations through the independent encoder
		{
			f := f0
			addFields("recoded", f)
			f = f0
			f.alg = []byte("AES-128-GCM")
			addFields("alg", f)
			f.alg = []byte("aes-256-gcm")
			addFields("alg", f)
			f.alg = append(append([]byte{}, f0.alg...), 0)
			addFields("alg", f)
			f.alg = nil
			addFields("alg", f)
			for _, v := range []int32{0, 16, 18, 20, -1, f0.version + 256} {
				f = f0
				f.version = v
				addFields("version", f)
			}
			for _, d := range []int64{-1, 1, 2, 4, 8, int64(f0.mem)} {
				f = f0
				f.mem = uint32(int64(f0.mem) + d)
				addFields("mem", f)
			}
			f = f0
			f.mem = 0
			addFields("mem", f)
			for _, v := range []uint32{0, f0.it + 1, f0.it + 2} {
				f = f0
				f.it = v
				addFields("it", f)
			}
			for _, v := range []uint32{0, f0.par + 1, f0.par + 256, 255, 256} {
				f = f0
				f.par = v
				addFields("par", f)
			}
			for k := 0; k < 6; k++ {
				f = f0
				f.salt = append([]byte{}, f0.salt...)
				f.salt[c.Intn(len(f.salt))] ^= 1 << uint(c.Intn(8))
				addFields("salt", f)
			}
			for _, s := range [][]byte{nil, f0.salt[:15], f0.salt[:16], f0.salt[:len(f0.salt)-1], append(append([]byte{}, f0.salt...), 0)} {
				f = f0
				f.salt = s
				addFields("salt", f)
			}
			for k := 0; k < 6; k++ {
				f = f0
				f.blob = append([]byte{}, f0.blob...)
				f.blob[c.Intn(nonceLen)] ^= 1 << uint(c.Intn(8))
				addFields("nonce", f)
			}
			for _, bl := range [][]byte{nil, f0.blob[:nonceLen], f0.blob[:nonceLen+1], f0.blob[:len(f0.blob)-1], append(append([]byte{}, f0.blob...), 0), f0.blob[1:]} {
				f = f0
				f.blob = bl
				addFields("blob", f)
			}
			// several fields at once
			for k := 0; k < 6; k++ {
				f = f0
				f.salt = c.RandBytes(len(f0.salt))
				if c.Chance(0.5) {
					f.mem++
				}
				if c.Chance(0.5) {
					f.blob = c.RandBytes(len(f0.blob))
				}
				addFields("multi", f)
			}
		}
		// bytes change, fields do not: these must still open
		{
			meta, argon := kcEncodeMeta(f0), kcEncodeArgon(f0)
			unknown := protowire.AppendVarint(protowire.AppendTag(nil, 15, protowire.VarintType), 7)
			addBody("samefields", nil, nil, append(append([]byte{}, body0...), unknown...))
			addBody("samefields", nil, nil, append(append([]byte{}, unknown...), body0...))
			// ciphertext first
			var sw []byte
			sw = protowire.AppendBytes(protowire.AppendTag(sw, 2, protowire.BytesType), f0.blob)
			sw = protowire.AppendBytes(protowire.AppendTag(sw, 1, protowire.BytesType), meta)
			addBody("samefields", nil, nil, sw)
			// metadata in two pieces (merged), the first carrying another salt that the second overrides
			g := f0
			g.salt = c.RandBytes(len(f0.salt))
			var two []byte
			two = protowire.AppendBytes(protowire.AppendTag(two, 1, protowire.BytesType), kcEncodeMeta(g))
			two = protowire.AppendBytes(protowire.AppendTag(two, 1, protowire.BytesType), protowire.AppendBytes(protowire.AppendTag(nil, 2, protowire.BytesType), protowire.AppendBytes(protowire.AppendTag(nil, 5, protowire.BytesType), f0.salt)))
			two = protowire.AppendBytes(protowire.AppendTag(two, 2, protowire.BytesType), f0.blob)
			addBody("samefields", nil, nil, two)
			// a non-minimal varint for the memory parameter, and one with bits above 2^32
			var nm []byte
			nm = protowire.AppendVarint(protowire.AppendTag(nm, 1, protowire.VarintType), uint64(uint32(f0.version)))
			nm = append(protowire.AppendTag(nm, 2, protowire.VarintType), byte(f0.mem)|0x80, 0x00)
			nm = protowire.AppendVarint(protowire.AppendTag(nm, 3, protowire.VarintType), uint64(f0.it)+1<<32)
			nm = protowire.AppendVarint(protowire.AppendTag(nm, 4, protowire.VarintType), uint64(f0.par))
			nm = protowire.AppendBytes(protowire.AppendTag(nm, 5, protowire.BytesType), f0.salt)
			var nb []byte
			m2 := protowire.AppendBytes(protowire.AppendTag(nil, 1, protowire.BytesType), f0.alg)
			m2 = protowire.AppendBytes(protowire.AppendTag(m2, 2, protowire.BytesType), nm)
			nb = protowire.AppendBytes(protowire.AppendTag(nb, 1, protowire.BytesType), m2)
			nb = protowire.AppendBytes(protowire.AppendTag(nb, 2, protowire.BytesType), f0.blob)
			addBody("samefields", nil, nil, nb)
			// a wrong-typed occurrence of a known field is an unknown field
			wt := protowire.AppendVarint(protowire.AppendTag(nil, 2, protowire.VarintType), 99)
			addBody("samefields", nil, nil, append(append([]byte{}, wt...), body0...))
			// text around the block
			trials = append(trials, kcTrial{label: "samefields", pemOK: true, body: body0, text: append([]byte("# a comment\n\n"), out...)})
			trials = append(trials, kcTrial{label: "samefields", pemOK: true, body: body0, text: append(append([]byte{}, out...), []byte("more text\n")...)})
			// and ones that look similar but are not: an algorithm name that is not UTF-8 before the right one; a group
			var bad []byte
			m3 := protowire.AppendBytes(protowire.AppendTag(nil, 1, protowire.BytesType), []byte{0xff, 0xfe})
			m3 = append(m3, meta...)
			bad = protowire.AppendBytes(protowire.AppendTag(bad, 1, protowire.BytesType), m3)
			bad = protowire.AppendBytes(protowire.AppendTag(bad, 2, protowire.BytesType), f0.blob)
			addBody("structure", nil, nil, bad)
			addBody("structure", nil, nil, append(append([]byte{}, body0...), protowire.AppendTag(nil, 9, protowire.EndGroupType)...))
			addBody("samefields", nil, nil, append(append(append([]byte{}, body0...), protowire.AppendTag(nil, 9, protowire.StartGroupType)...), protowire.AppendTag(nil, 9, protowire.EndGroupType)...))
			addBody("structure", nil, nil, append(append([]byte{}, body0...), protowire.AppendTag(nil, 9, protowire.StartGroupType)...))
			_ = argon
			addBody("structure", nil, nil, nil)
			addBody("structure", nil, nil, body0[:len(body0)-1])
			addBody("structure", nil, nil, body0[1:])
		}
		// EVERY single-byte mutation position of the protobuf body (two replacement values each)
		for p := range body0 {
			for k := 0; k < 2; k++ {
				b := append([]byte{}, body0...)
				if k == 0 {
					b[p] ^= 1 << uint(c.Intn(8))
				} else {
					b[p] = byte(c.Intn(256))
					if b[p] == body0[p] {
						b[p] ^= 0x80
					}
				}
				addBody("bodybyte", nil, nil, b)
			}
		}
		// EVERY single-byte mutation position of the PEM text
		for p := range out {
			t := append([]byte{}, out...)
			switch c.Intn(3) {
			case 0:
				t[p] ^= 1 << uint(c.Intn(7))
			case 1:
				t[p] = "ABCDEFGHIJKLMNOPQRSTUVWXYZabcdefghijklmnopqrstuvwxyz0123456789+/=-\n "[c.Intn(68)]
			default:
				t[p] = byte(c.Intn(256))
			}
			if t[p] == out[p] {
				t[p] ^= 1
			}
			tr := kcTrial{label: "pembyte", text: t}
			if blk, _ := pem.Decode(t); blk != nil {
				tr.pemOK = true
				tr.body = blk.Bytes
				ty := blk.Type
				if ty != banner0 {
					tr.banner = &ty
				}
			}
			trials = append(trials, tr)
		}
		// a few deletions / insertions / truncations of the text
		for k := 0; k < 12; k++ {
			p := c.Intn(len(out))
			var t []byte
			switch k % 3 {
			case 0:
				t = append(append([]byte{}, out[:p]...), out[p+1:]...)
			case 1:
				t = append(append(append([]byte{}, out[:p]...), byte('A'+c.Intn(26))), out[p:]...)
			default:
				t = append([]byte{}, out[:p]...)
			}
			tr := kcTrial{label: "pemedit", text: t}
			if blk, _ := pem.Decode(t); blk != nil {
				tr.pemOK = true
				tr.body = blk.Bytes
				ty := blk.Type
				if ty != banner0 {
					tr.banner = &ty
				}
			}
			trials = append(trials, tr)
		}

		// run the real decrypt on every trial
		var lits []string
		var descs []any
		opened := 0
		kinds := map[string]int{}
		for _, tr := range trials {
			bn := banner0
			if tr.banner != nil {
				bn = *tr.banner
			}
			hit, f := kcHit(nonceLen, banner0, f0, tr.pemOK, bn, tr.body)
			p := pass
			if tr.pass != nil {
				p = tr.pass
				if !bytes.Equal(p, pass) {
					hit |= kcHitPass
				}
			}
			// Argon2 parameters are read from the (unauthenticated) file before anything is verified: do not run inputs
			// that ask for a lot of memory or time
			if tr.pemOK && hit&kcHitStructure == 0 && (uint64(f.mem) > 1<<15 || uint64(f.it) > 64 || uint64(f.mem)*uint64(f.it) > 1<<17) {
				skipped++
				continue
			}
			curve, got, err, panicked := kcDecrypt(p, tr.text)
			res := hx.None()
			if panicked { // a panic is not a refusal: reported as an (impossible) result, so that it fails the check
				res = hx.Some(hx.Tuple(hx.N(99), hx.Bytes(nil)))
			} else if err == nil {
				res = hx.Some(hx.Tuple(hx.N(uint64(curve)), hx.Bytes(got)))
				opened++
			}
			off, del, ins := 0, 0, []byte(nil)
			if tr.pemOK {
				off, del, ins = kcEdit(body0, tr.body)
			}
			lits = append(lits, hx.App("KeyCrypt_corr.T", kcOptBytes(tr.pass, tr.pass != nil), kcOptStr(tr.banner), hx.Bool(tr.pemOK),
				hx.N(uint64(off)), hx.N(uint64(del)), hx.Bytes(ins), hx.N(uint64(hit)), res))
			kinds[tr.label]++
			descs = append(descs, map[string]any{"label": tr.label, "hit": hit, "opened": err == nil, "edit": []any{off, del, hx.Ints(ins)}, "text": string(tr.text)})
		}
		const chunk = 120 // trials per case: keeps the Coq literals small and the shards balanced
		for lo := 0; lo < len(lits); lo += chunk {
			hi := min(lo+chunk, len(lits))
			d := map[string]any{"op": "container", "curve": cv, "key": hx.Ints(key), "pass": hx.Ints(pass), "mem": mem, "par": par, "it": it,
				"pem": string(out), "trials": fmt.Sprintf("%d..%d of %d", lo, hi-1, len(lits)), "trial_list": descs[lo:hi]}
			if lo == 0 {
				d["opened"], d["kinds"] = opened, kinds
			}
			heavy = append(heavy, kcCase{hx.App("KeyCrypt_corr.CEnc", hx.N(uint64(cv)), hx.Bytes(key), hx.Bytes(pass), hx.N(uint64(mem)), hx.N(uint64(par)), hx.N(uint64(it)),
				hx.Str(banner0), hx.Bytes(body0), hx.List(lits[lo:hi])),
				"container", keyLen == kcKeyLen(cv), d})
		}
	}
	for pi, hi, total := 0, 0, len(plain)+len(heavy); pi+hi < total; {
		if hi < len(heavy) && (pi >= len(plain) || hi*total <= (pi+hi)*len(heavy)) {
			k := heavy[hi]
			cw.Add(k.lit, k.kind, k.nontriv, k.desc)
			hi++
		} else {
			k := plain[pi]
			cw.Add(k.lit, k.kind, k.nontriv, k.desc)
			pi++
		}
	}
	cw.Meta("skipped_expensive_trials", skipped)
	cw.Close("exhaustive: 4 unmarshal functions x 14 banners x key lengths {0,1,31,32,33,63..66,70}; 4 marshal functions x 3 curves; " +
		"then per encrypted container (both curves alternating, random key/passphrase, Argon2 memory 8..31 KiB, 1..3 lanes, 1..2 passes; every 4th and 20% of the others with a key of a wrong length): " +
		"the output itself, 20-35 near-miss passphrases (blanks / line endings / NUL added or removed at either end, one letter's case, one byte more or less, bit flip, NFC vs NFD, empty, unrelated; encrypting passphrases in turn random, ending in a line ending, starting with a blank, empty, with both Unicode normal forms), every other banner, ~55 per-field alterations, ~15 re-encodings that keep every field, " +
		"every byte position of the protobuf body x 2 values, every byte position of the PEM text, 12 deletions/insertions/truncations; " +
		"trials whose (unauthenticated) Argon2 parameters would cost > 32 MiB or > 64 passes are not run (counted in skipped_expensive_trials); " +
		"non-trivial = accepted unmarshal / produced marshal / container with a key of the curve's length; distinct by literal")
}

func kcDecrypt(pass, text []byte) (curve cert.Curve, key []byte, err error, panicked bool) {
	defer func() {
		if r := recover(); r != nil {
			panicked = true
		}
	}()
	curve, key, _, err = cert.DecryptAndUnmarshalSigningPrivateKey(pass, text)
	return
}

func kcStr(s string) *string { return &s }

// nil = random bytes
var kcPassphrases = []*string{kcStr("pw\n"), kcStr("pw"), kcStr("caf\u00e9 Pass"), nil, kcStr("correct horse battery staple\r\n"),
	kcStr(""), kcStr(" pw"), nil, kcStr("cafe\u0301 Pass"), kcStr("\n"), kcStr("pw\t"), nil, kcStr("PW\r"), nil}

// kcNearMisses: passphrases that differ from the right one only slightly (blanks and line endings added or removed at
// either end, one letter's case, one byte more or less, the other Unicode normal form of a character), plus a few
// unrelated ones. None equals the right one.
func kcNearMisses(c *hx.Ctx, pass []byte) [][]byte {
	cat := func(parts ...[]byte) []byte {
		out := []byte{}
		for _, p := range parts {
			out = append(out, p...)
		}
		return out
	}
	var out [][]byte
	for _, ws := range []string{"\n", "\r\n", "\r", " ", "\t", "\x00", "\n\n"} {
		out = append(out, cat(pass, []byte(ws)), cat([]byte(ws), pass))
	}
	out = append(out, bytes.TrimRight(pass, "\r\n"), bytes.TrimRight(pass, "\n"), bytes.TrimSpace(pass), bytes.TrimLeft(pass, " \t"),
		bytes.TrimRight(pass, " \t\r\n\x00"), bytes.ToUpper(pass), bytes.ToLower(pass), []byte{}, []byte("\n"))
	if len(pass) > 0 {
		out = append(out, pass[:len(pass)-1], pass[1:])
		q := append([]byte{}, pass...)
		q[c.Intn(len(q))] ^= 1 << uint(c.Intn(8))
		out = append(out, q)
		for k := 0; k < 3; k++ { // one letter's case flipped
			q := append([]byte{}, pass...)
			p := c.Intn(len(q))
			if q[p] >= 'a' && q[p] <= 'z' || q[p] >= 'A' && q[p] <= 'Z' {
				q[p] ^= 0x20
				out = append(out, q)
			}
		}
	}
	out = append(out, cat(pass, []byte{byte(c.Intn(256))}), cat([]byte{byte(c.Intn(256))}, pass))
	// Unicode normal forms: e-acute as one code point (NFC) or as e + combining acute (NFD)
	nfc, nfd := []byte("\u00e9"), []byte("e\u0301")
	out = append(out, bytes.ReplaceAll(pass, nfc, nfd), bytes.ReplaceAll(pass, nfd, nfc))
	out = append(out, c.RandBytes(1+c.Intn(12)))
	var uniq [][]byte
	for _, p := range out {
		dup := bytes.Equal(p, pass)
		for _, u := range uniq {
			dup = dup || bytes.Equal(u, p)
		}
		if !dup {
			uniq = append(uniq, append([]byte{}, p...))
		}
	}
	return uniq
}

func kcOptStr(s *string) string {
	if s == nil {
		return hx.None()
	}
	return hx.Some(hx.Str(*s))
}

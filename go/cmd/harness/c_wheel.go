//go:build comp_all || comp_wheel

package main

import (
	"fmt"
	"math"
	"strings"
	"time"

	nebula "github.com/slackhq/nebula"
	"verifharness/hx"
)

func init() {
	hx.Register("wheel", runWheel)
}

// one operation of a timer wheel history
type wop struct {
	k  int    // 0 add, 1 advance, 2 purge
	id uint64 // add: the item (unique per history)
	t  int64  // add: timeout (ns); advance: instant (ns)
}

type whist struct {
	mn, mx  int64
	locking bool
	ops     []wop
}

// result of running a history on the real wheel
type wobs struct {
	out      []int64 // one per purge: item, or -1 when Purge said false
	panicked string
}

func runWheelImpl(h *whist) (o wobs) {
	defer func() {
		if r := recover(); r != nil {
			o.panicked = fmt.Sprint(r)
		}
	}()
	w := nebula.VerifNewWheel(time.Duration(h.mn), time.Duration(h.mx), h.locking)
	for _, op := range h.ops {
		switch op.k {
		case 0:
			w.Add(op.id, time.Duration(op.t))
		case 1:
			w.Advance(op.t)
		case 2:
			v, ok := w.Purge()
			if ok {
				o.out = append(o.out, int64(v))
			} else {
				o.out = append(o.out, -1)
			}
		}
	}
	return o
}

// zlit prints an int64 as a Z literal; long decimal literals are slow to parse in Coq (quadratic in the
// number of digits), hexadecimal ones are not.
func zlit(x int64) string {
	if x > -100000 && x < 100000 {
		return hx.Z(x)
	}
	if x < 0 {
		return fmt.Sprintf("(-0x%x)%%Z", -uint64(x)) // two's complement magnitude, right for MinInt64 too
	}
	return fmt.Sprintf("0x%x%%Z", x)
}

// wheelLit: WA/WV/WP are monomorphic aliases of OAdd/OAdvance/OPurge (cheap to elaborate); the outputs are
// encoded as item+1, 0 standing for "Purge said false".
func wheelLit(h *whist, o *wobs) string {
	var sb strings.Builder
	sb.WriteString("(Wheel_corr.CWheel ")
	sb.WriteString(hx.Bool(h.locking))
	sb.WriteString(" " + zlit(h.mn) + " " + zlit(h.mx) + " [")
	for i, op := range h.ops {
		if i > 0 {
			sb.WriteString("; ")
		}
		switch op.k {
		case 0:
			fmt.Fprintf(&sb, "WA %d %s", op.id, zlit(op.t))
		case 1:
			fmt.Fprintf(&sb, "WV %s", zlit(op.t))
		default:
			sb.WriteString("WP")
		}
	}
	sb.WriteString("] [")
	for i, v := range o.out {
		if i > 0 {
			sb.WriteString("; ")
		}
		fmt.Fprintf(&sb, "%d", v+1)
	}
	sb.WriteString("])")
	return sb.String()
}

func wheelDesc(h *whist, o *wobs) map[string]any {
	ops := make([]any, len(h.ops))
	for i, op := range h.ops {
		switch op.k {
		case 0:
			ops[i] = []any{"add", op.id, op.t}
		case 1:
			ops[i] = []any{"advance", op.t}
		default:
			ops[i] = "purge"
		}
	}
	d := map[string]any{"min_ns": h.mn, "max_ns": h.mx, "locking": h.locking, "ops": ops, "purge_outputs": o.out}
	if o.panicked != "" {
		d["panic"] = o.panicked
	}
	return d
}

func wheelLenOf(mn, mx int64) int64 { return mx/mn + 2 }

// the timeouts the property quantifies over: below, at and above the limits
func wheelTimeout(c *hx.Ctx, mn, mx int64) int64 {
	wl := wheelLenOf(mn, mx)
	if c.Chance(0.55) {
		k := int64(c.Intn(int(wl)+2)) + 1
		edge := []int64{math.MinInt64, -1, 0, 1, mn - 1, mn, mn + 1, k*mn - 1, k * mn, k*mn + 1, mx - 1, mx, mx + 1,
			mx + mn, 1 << 62, math.MaxInt64}
		return edge[c.Intn(len(edge))]
	}
	if mx > mn {
		return mn + int64(c.Rng.Int64N(mx-mn+1))
	}
	return int64(c.Rng.Int64N(3*mn + 1))
}

func wheelParams(c *hx.Ctx) (mn, mx int64) {
	units := []int64{1, 2, 3, 7, 10, 1000, 999983, 1e6, 1e8, 1e9, 5e9}
	mn = units[c.Intn(len(units))]
	switch c.Intn(12) {
	case 0: // the smallest wheels
		mn = 1
		mx = []int64{0, 1, 2, 5}[c.Intn(4)]
	case 1, 2: // max < min
		mx = c.Rng.Int64N(mn)
	case 3: // max == min
		mx = mn
	case 4, 5: // exact multiple
		mx = mn * int64(1+c.Intn(12))
	case 6: // the wheels nebula builds: conntrack 3m..12m, handshakes 100ms..5.5s, traffic 5s..10s
		switch c.Intn(3) {
		case 0:
			mn, mx = 180e9, 720e9
		case 1:
			mn, mx = 100e6, 5500e6
		default:
			mn, mx = 5e9, 10e9
		}
	case 7: // a long wheel
		mx = mn*int64(30+c.Intn(170)) + c.Rng.Int64N(mn)
	default: // not a multiple
		mx = mn*int64(1+c.Intn(15)) + c.Rng.Int64N(mn)
	}
	return
}

// genWheelHistory: kind is mono | revolution | jitter | backward
func genWheelHistory(c *hx.Ctx, kind string) *whist {
	mn, mx := wheelParams(c)
	h := &whist{mn: mn, mx: mx, locking: c.Chance(0.25)}
	wl := wheelLenOf(mn, mx)
	rev := wl * mn
	starts := []int64{0, 1, mn, 1 << 40, 1726000000000000000}
	now := starts[c.Intn(len(starts))]
	if c.Chance(0.3) {
		now = c.Rng.Int64N(1 << 50)
	}
	maxNow := now
	var id uint64
	nops := 15 + c.Intn(70)
	if wl > 40 {
		nops += 60
	}
	advanced := false
	didBack := false
	// a live wheel, used only to size the "purge until it says false" loops of the generated history
	live := nebula.VerifNewWheel(time.Duration(mn), time.Duration(mx), false)
	drain := func() {
		defer func() { _ = recover() }()
		for j := uint64(0); j <= id+1; j++ { // a correct wheel says false after at most `id` items
			h.ops = append(h.ops, wop{k: 2})
			if _, ok := live.Purge(); !ok {
				return
			}
		}
	}
	liveDo := func(f func()) {
		defer func() { _ = recover() }()
		f()
	}
	adv := func() {
		var step int64
		switch c.Intn(12) {
		case 0:
			step = 0
		case 1:
			step = c.Rng.Int64N(mn)
		case 2:
			step = mn - 1
		case 3:
			step = mn
		case 4:
			step = mn + 1
		case 5, 6, 7:
			step = mn*int64(c.Intn(int(wl)+1)) + c.Rng.Int64N(mn)
		case 8:
			step = rev - 1 + int64(c.Intn(3))
		case 9:
			step = rev + mn*int64(c.Intn(4)) + c.Rng.Int64N(mn)
		case 10:
			step = 2*rev + c.Rng.Int64N(rev)
		default:
			step = 2 * mn
		}
		if kind == "revolution" && c.Chance(0.5) {
			step = rev + 1 + c.Rng.Int64N(2*rev)
		}
		if c.Chance(0.01) {
			step = 1e15
		}
		t := maxNow + step
		if advanced && kind == "jitter" && mn > 1 && c.Chance(0.4) {
			t = maxNow - 1 - c.Rng.Int64N(mn-1) // less than one tick behind the latest instant seen
		}
		if advanced && kind == "backward" && (c.Chance(0.3) || !didBack) {
			t = maxNow - mn - c.Rng.Int64N(3*mn+1) // a full tick or more behind
			didBack = true
		}
		if t < 0 {
			t = 0
		}
		now = t
		if now > maxNow {
			maxNow = now
		}
		advanced = true
		h.ops = append(h.ops, wop{k: 1, t: now})
		liveDo(func() { live.Advance(now) })
	}
	if c.Chance(0.7) {
		adv()
	}
	for len(h.ops) < nops {
		r := c.Rng.Float64()
		switch {
		case r < 0.45:
			n := 1
			if c.Chance(0.2) {
				n = 2 + c.Intn(5)
			}
			for j := 0; j < n; j++ {
				to := wheelTimeout(c, mn, mx)
				h.ops = append(h.ops, wop{k: 0, id: id, t: to})
				liveDo(func() { live.Add(id, time.Duration(to)) })
				id++
			}
		case r < 0.72:
			adv()
		default:
			if c.Chance(0.6) { // the documented loop: purge until it says false
				drain()
			} else {
				for j := c.Intn(3); j >= 0; j-- {
					h.ops = append(h.ops, wop{k: 2})
					liveDo(func() { live.Purge() })
				}
			}
		}
	}
	// closing: advance twice far beyond everything, then purge until it says false
	end := maxNow + (wl+3)*mn + c.Rng.Int64N(mn)
	h.ops = append(h.ops, wop{k: 1, t: maxNow}, wop{k: 1, t: end})
	liveDo(func() { live.Advance(maxNow); live.Advance(end) })
	drain()
	return h
}

// ---- the executable specification in Go (used only for the bulk history, which is too long for Coq) ----

func specClamp(mn, mx, t int64) int64 {
	if t > mx {
		t = mx
	}
	if t < mn {
		t = mn
	}
	return t
}

// specCheck: monotone histories only. Every item returned exactly once; returned only when the clock is at
// least (clock at Add) + roundup(clamp(timeout)); whenever Purge says false every item whose
// (clock at Add) + roundup + 2 ticks has been reached by the latest Advance must already have been returned.
func specCheck(h *whist, out []int64) (returned int, ok bool) {
	type pe struct {
		lo, hi int64
		known  bool
		t      int64
	}
	pend := map[uint64]*pe{}
	var clk int64
	have := false
	lateChecked := false // the late rule was evaluated for the current clock value
	ok = true
	bounds := func(p *pe, c int64) {
		ct := specClamp(h.mn, h.mx, p.t)
		ru := (ct + h.mn - 1) / h.mn * h.mn
		p.lo, p.hi, p.known = c+ru, c+ru+2*h.mn, true
	}
	oi := 0
	for _, op := range h.ops {
		switch op.k {
		case 0:
			p := &pe{t: op.t}
			if have {
				bounds(p, clk)
			}
			if _, dup := pend[op.id]; dup {
				ok = false
			}
			pend[op.id] = p
		case 1:
			clk, have, lateChecked = op.t, true, false
			for _, p := range pend {
				if !p.known {
					bounds(p, clk)
				}
			}
		case 2:
			if oi >= len(out) {
				return returned, false
			}
			v := out[oi]
			oi++
			if v >= 0 {
				p, in := pend[uint64(v)]
				if !in || !p.known || clk < p.lo {
					ok = false
				}
				delete(pend, uint64(v))
				returned++
			} else if !lateChecked { // items added since the last check have hi > clk
				lateChecked = true
				for _, p := range pend {
					if p.known && p.hi <= clk {
						ok = false
					}
				}
			}
		}
	}
	if oi != len(out) || len(pend) != 0 {
		ok = false
	}
	return returned, ok
}

// bulkWheelHistory pushes more than timerCacheMax list cells through Purge (the cache fills and overflows),
// then re-adds as many items (every cached cell is recycled, the rest freshly allocated), in three rounds with
// interleaved partial purges so the cache level moves up and down.
func bulkWheelHistory(c *hx.Ctx) (*whist, int) {
	cacheMax := nebula.VerifTimerCacheMax
	mn, mx := int64(1000), int64(7300)
	h := &whist{mn: mn, mx: mx, locking: false}
	var id uint64
	now := int64(5000)
	h.ops = append(h.ops, wop{k: 1, t: now})
	k := cacheMax + 1500
	for round := 0; round < 3; round++ {
		for j := 0; j < k; j++ {
			h.ops = append(h.ops, wop{k: 0, id: id, t: wheelTimeout(c, mn, mx)})
			id++
			if j%9973 == 0 { // a little clock movement and purging in between
				now += mn/2 + int64(c.Intn(int(2*mn)))
				h.ops = append(h.ops, wop{k: 1, t: now})
				for q := c.Intn(2000); q >= 0; q-- {
					h.ops = append(h.ops, wop{k: 2})
				}
			}
		}
		now += (wheelLenOf(mn, mx) + 3) * mn
		h.ops = append(h.ops, wop{k: 1, t: now})
		for j := 0; j <= int(id); j++ { // more than enough: drains, then keeps saying false
			h.ops = append(h.ops, wop{k: 2})
			if round == 1 && j == k/2 {
				break // leave half of them in the expired queue for the next round
			}
		}
	}
	now += (wheelLenOf(mn, mx) + 3) * mn
	h.ops = append(h.ops, wop{k: 1, t: now})
	for j := 0; j <= int(id); j++ {
		h.ops = append(h.ops, wop{k: 2})
	}
	return h, int(id)
}

func runWheel(c *hx.Ctx) {
	cw := c.NewCaseWriter("From NV Require Import model.Wheel corr.Wheel_corr.", "Wheel_corr.case", "Wheel_corr.check_case", 100)
	var failures []map[string]any
	emit := func(h *whist, kind string) {
		o := runWheelImpl(h)
		returned := 0
		for _, v := range o.out {
			if v >= 0 {
				returned++
			}
		}
		idx := cw.Total()
		cw.Add(wheelLit(h, &o), kind, o.panicked == "" && returned >= 2, wheelDesc(h, &o))
		if o.panicked != "" {
			failures = append(failures, map[string]any{"i": idx, "code": 2})
		}
	}

	// 0. corpus: the histories of props/C33.v (examples and the backward-clock witness)
	{
		A := func(id uint64, t int64) wop { return wop{k: 0, id: id, t: t} }
		V := func(t int64) wop { return wop{k: 1, t: t} }
		P := wop{k: 2}
		corpus := [][]wop{
			{V(100), A(7, 10), V(75), V(100), P, P}, // C33_backward_clock_refuted: 7 comes out at 100 < 110
			{A(1, 5), V(93), V(100), P, A(2, 1000), A(7, 25), V(125), P, V(130), P},
			{A(1, 5), V(93), V(100), P, A(2, 1000), A(7, 25), V(139), P, P, V(140), P, P},
			{V(0), A(1, 35), A(2, 10), A(3, 20), V(10007), P, P, P, P},
		}
		for _, ops := range corpus {
			emit(&whist{mn: 10, mx: 35, ops: ops}, "corpus")
		}
	}

	// 1. boundary sweep: for small wheels, every boundary timeout added right after an Advance, then the clock
	//    walked in half ticks over more than a revolution with a full purge after each step; and the same
	//    with a single jump of k ticks (k up to wheelLen + 2).
	sweep := [][2]int64{{1, 0}, {1, 1}, {1, 3}, {10, 0}, {10, 9}, {10, 10}, {10, 11}, {10, 35}, {10, 40}, {3, 20}, {1000, 7300}, {7, 3}}
	for _, p := range sweep {
		mn, mx := p[0], p[1]
		wl := wheelLenOf(mn, mx)
		touts := []int64{math.MinInt64, -1, 0, 1, mn - 1, mn, mn + 1, 2*mn - 1, 2 * mn, 2*mn + 1, mx - 1, mx, mx + 1, mx + mn, mx + 2*mn, math.MaxInt64}
		for variant := int64(0); variant <= wl+2; variant++ {
			for _, t0 := range []int64{0, 12345} {
				h := &whist{mn: mn, mx: mx, locking: variant%2 == 1}
				h.ops = append(h.ops, wop{k: 1, t: t0})
				off := (variant * 7) % mn // the real time of the Add lies `off` ns after lastTick
				if off > 0 {
					h.ops = append(h.ops, wop{k: 1, t: t0 + off})
				}
				for i, t := range touts {
					h.ops = append(h.ops, wop{k: 0, id: uint64(i), t: t})
				}
				now := t0 + off
				purgeAll := func() {
					for j := 0; j <= len(touts); j++ {
						h.ops = append(h.ops, wop{k: 2})
					}
				}
				if variant == 0 {
					for s := int64(0); s < 2*(wl+3); s++ {
						for _, tt := range []int64{now + mn/2, now + mn - 1, now + mn} {
							if tt > now {
								h.ops = append(h.ops, wop{k: 1, t: tt})
								purgeAll()
							}
						}
						now += mn
					}
				} else {
					now += variant*mn - 1
					h.ops = append(h.ops, wop{k: 1, t: now})
					purgeAll()
					now++
					h.ops = append(h.ops, wop{k: 1, t: now})
					purgeAll()
					now += (wl + 3) * mn
					h.ops = append(h.ops, wop{k: 1, t: now})
					purgeAll()
				}
				emit(h, "sweep")
			}
		}
	}

	// 2. random histories
	for i := 0; i < c.N; i++ {
		r := c.Rng.Float64()
		kind := "mono"
		switch {
		case r < 0.60:
		case r < 0.78:
			kind = "revolution"
		case r < 0.95:
			kind = "jitter"
		default:
			kind = "backward"
		}
		emit(genWheelHistory(c, kind), kind)
	}

	// 3. the item cache: too long for evaluation inside Coq, so the executable specification is evaluated here
	//    and only its verdict is re-checked by Coq (CBulk).
	{
		h, added := bulkWheelHistory(c)
		o := runWheelImpl(h)
		returned, ok := specCheck(h, o.out)
		ok = ok && o.panicked == ""
		idx := cw.Total()
		cw.Add(hx.App("Wheel_corr.CBulk", hx.N(uint64(added)), hx.N(uint64(returned)), hx.Bool(ok)), "bulk-cache", ok,
			map[string]any{"bulk": true, "min_ns": h.mn, "max_ns": h.mx, "added": added, "returned": returned,
				"timerCacheMax": nebula.VerifTimerCacheMax, "ops": len(h.ops), "spec_ok": ok, "panic": o.panicked})
		if !ok {
			failures = append(failures, map[string]any{"i": idx, "code": 2})
		}
	}
	if len(failures) > 0 {
		cw.Meta("failures", failures)
	}
	cw.Meta("timerCacheMax", nebula.VerifTimerCacheMax)
	cw.Close("boundary sweep (12 wheels x all single-jump sizes x 16 boundary timeouts) + random add/advance/purge histories " +
		"(tick 1ns..5s, span 0..200 ticks incl. span < tick and non-multiples; timeouts MinInt64..MaxInt64; gaps 0..>2 revolutions; " +
		"kinds mono/revolution/jitter(<1 tick back)/backward(>=1 tick back)) + one history of 3 x (timerCacheMax+1500) items for the cell cache; " +
		"non-trivial = no panic and at least two items returned; distinct by literal")
}

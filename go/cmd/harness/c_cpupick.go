//go:build (comp_all || comp_cpupick) && linux

package main

// C46 correspondence: cpupick.parseCPUList / splitmix64 / pickCandidates / arrange / perfCPUsFrom /
// readTopologyFrom / Default against model/CpuPick.v (corr/CpuPick_corr.v).

import (
	"bufio"
	"encoding/hex"
	"fmt"
	"math"
	"os"
	"os/exec"
	"path/filepath"
	"sort"
	"strconv"
	"strings"
	"syscall"
	"time"

	"github.com/slackhq/nebula/cpupick"
	"github.com/slackhq/nebula/util"
	"verifharness/hx"
)

func init() {
	hx.Register("cpupick", runCPUPick)
	hx.Register("cpupick_parse_worker", cpupickParseWorker)
}

// ---- literals ---------------------------------------------------------------------------------

func cpNum(x uint64) string {
	if x < 100000 {
		return strconv.FormatUint(x, 10)
	}
	return fmt.Sprintf("0x%x", x)
}

func cpNList(xs []int) string {
	var sb strings.Builder
	sb.WriteByte('[')
	for i, x := range xs {
		if i > 0 {
			sb.WriteString("; ")
		}
		sb.WriteString(cpNum(uint64(x)))
	}
	sb.WriteByte(']')
	return sb.String()
}

func cpZ(x int) string {
	if x > -100000 && x < 100000 {
		return hx.Z(int64(x))
	}
	if x < 0 {
		return fmt.Sprintf("(-0x%x)%%Z", -uint64(x))
	}
	return fmt.Sprintf("0x%x%%Z", x)
}

// cpMap prints a Go map[int]int as an association list sorted by key.
func cpMap(m map[int]int) string {
	keys := make([]int, 0, len(m))
	for k := range m {
		keys = append(keys, k)
	}
	sort.Ints(keys)
	items := make([]string, len(keys))
	for i, k := range keys {
		items[i] = fmt.Sprintf("(%s, %s)", cpNum(uint64(k)), cpZ(m[k]))
	}
	return hx.List(items)
}

func cpOptBytes(s *string) string {
	if s == nil {
		return hx.None()
	}
	return hx.Some(hx.Str(*s))
}

// cpRuns prints a list of non-negative ints as its maximal runs of consecutive values, (a, k) = a..a+k.
func cpRuns(xs []int) string {
	var items []string
	for i := 0; i < len(xs); {
		j := i
		for j+1 < len(xs) && xs[j] < xs[j+1] && xs[j+1]-xs[j] == 1 {
			j++
		}
		items = append(items, fmt.Sprintf("(%s, %d)", cpNum(uint64(xs[i])), j-i))
		i = j + 1
	}
	return hx.List(items)
}

func cpNonNeg(xs []int) bool {
	for _, x := range xs {
		if x < 0 {
			return false
		}
	}
	return true
}

func cpCopyMap(m map[int]int) map[int]int {
	r := make(map[int]int, len(m))
	for k, v := range m {
		r[k] = v
	}
	return r
}

func cpIntsEq(a, b []int) bool {
	if len(a) != len(b) {
		return false
	}
	for i := range a {
		if a[i] != b[i] {
			return false
		}
	}
	return true
}

// ---- parseCPUList in a throw-away worker process ----------------------------------------------

type cpParseObs struct {
	hung bool
	ok   bool
	cpus []int
}

const cpupickParseTimeout = 4 * time.Second

// cpupickParseWorker: one hex-encoded input per stdin line, one answer per stdout line ("E" error,
// "O n n n" list). Every call runs in its own goroutine; when one does not return within the time limit
// (or the address-space limit stops its allocations) the process ends without an answer for that input,
// which is how the parent learns that the call did not return.
func cpupickParseWorker(c *hx.Ctx) {
	lim := syscall.Rlimit{Cur: 6 << 30, Max: 6 << 30}
	_ = syscall.Setrlimit(syscall.RLIMIT_AS, &lim)
	in := bufio.NewScanner(os.Stdin)
	in.Buffer(make([]byte, 1<<20), 1<<26)
	w := bufio.NewWriterSize(os.Stdout, 1<<20)
	for in.Scan() {
		raw, err := hex.DecodeString(strings.TrimPrefix(in.Text(), "x"))
		if err != nil {
			os.Exit(4)
		}
		type res struct {
			l  []int
			ok bool
		}
		ch := make(chan res, 1)
		go func() {
			l, ok := cpupick.VerifParseCPUList(string(raw))
			ch <- res{l, ok}
		}()
		select {
		case r := <-ch:
			if !r.ok {
				w.WriteString("E\n")
			} else {
				w.WriteString("O")
				for _, v := range r.l {
					w.WriteByte(' ')
					w.WriteString(strconv.Itoa(v))
				}
				w.WriteByte('\n')
			}
			w.Flush()
		case <-time.After(cpupickParseTimeout):
			w.Flush()
			os.Exit(3)
		}
	}
}

// cpRunParseWorker feeds inputs to one worker and returns the answers it gave before it ended.
func cpRunParseWorker(c *hx.Ctx, inputs []string) []cpParseObs {
	exe, err := os.Executable()
	if err != nil {
		panic(err)
	}
	cmd := exec.Command(exe, "-out", c.Out, "cpupick_parse_worker")
	stdin, err := cmd.StdinPipe()
	if err != nil {
		panic(err)
	}
	stdout, err := cmd.StdoutPipe()
	if err != nil {
		panic(err)
	}
	cmd.Stderr = nil
	if err := cmd.Start(); err != nil {
		panic(err)
	}
	go func() {
		bw := bufio.NewWriterSize(stdin, 1<<20)
		for _, s := range inputs {
			bw.WriteString("x" + hex.EncodeToString([]byte(s)) + "\n")
		}
		bw.Flush()
		stdin.Close()
	}()
	guard := time.AfterFunc(10*time.Minute, func() { cmd.Process.Kill() })
	defer guard.Stop()
	var out []cpParseObs
	sc := bufio.NewScanner(stdout)
	sc.Buffer(make([]byte, 1<<20), 1<<28)
	for sc.Scan() {
		line := sc.Text()
		switch {
		case line == "E":
			out = append(out, cpParseObs{})
		case strings.HasPrefix(line, "O"):
			f := strings.Fields(line[1:])
			l := make([]int, len(f))
			for i, x := range f {
				v, err := strconv.Atoi(x)
				if err != nil {
					panic("cpupick worker: bad answer " + line)
				}
				l[i] = v
			}
			out = append(out, cpParseObs{ok: true, cpus: l})
		default:
			panic("cpupick worker: bad answer " + line)
		}
	}
	cmd.Wait()
	return out
}

// cpParseAll observes parseCPUList on every input. An input whose call did not return is tried once more
// in a fresh worker before it is recorded as not returning.
func cpParseAll(c *hx.Ctx, inputs []string) []cpParseObs {
	res := make([]cpParseObs, len(inputs))
	next := 0
	retried := map[int]bool{}
	for next < len(inputs) {
		got := cpRunParseWorker(c, inputs[next:])
		if len(got) > len(inputs)-next {
			panic("cpupick worker: too many answers")
		}
		copy(res[next:], got)
		next += len(got)
		if next < len(inputs) {
			if !retried[next] {
				retried[next] = true
				continue
			}
			res[next] = cpParseObs{hung: true}
			next++
		}
	}
	return res
}

// ---- cpulist strings ---------------------------------------------------------------------------

func cpCorpus() []string {
	mi := "9223372036854775807"
	s := []string{
		// valid lists
		"", "0", "3", "0-7", "0-7,16-23", "0,1,2,3", "0-3,8-11,16", "5-5", "007", "00-01", "0-0", "1,1,1", "3,1,2", "7-9,2-4",
		"0-1023", "0-8191", "0-8192", "5-8197", "100000-108192", "4294967295", "4294967296", "4294967295-4294967297",
		// blanks: around items, inside items, the six ASCII ones, trailing newline
		" ", "  ", "\n", "0-7\n", "0-3,8\n", " 0-7", "0-7 ", " 0 , 1 ", "\t1\t", "\v1\f", "\r1\r\n", "1 ,2", "1, 2", "1 2", "1 -2", "1- 2",
		" 1 - 2", "1\n,2", "1,\n2", "0-3 ,\t8-11\n", " \t\n\v\f\r5 \t\n\v\f\r", "5\x00", "\x005", "5\x1c", "\x1f5", "5\x7f", "5\x08", "\x0e5",
		// empty items
		",", ",,", ",1", "1,", ",,1,,", "1,,2", " , ", "1, ,2", ",\n",
		// signs (F13)
		"+3", "-3", "1-+4", "+1-4", "+1-+4", "0,+2", "+0", "-0", "0--0", "00--00", "1--4", "--", "-", "1-", "-1", "1-2-3", "1--", "+", "+-", "3+", "3-+",
		// reversed and oversized ranges
		"3-1", "1-0", "8-7", "0-8193", "5-8198", "0-9000", "0-100000", "10-9", "9223372036854775807-0",
		// strided / grouped kernel input forms, other syntax
		"0-3:1/2", "0-7:2/4", "0-3/2", "0:1", "all", "none", "0-", "1;2", "1.5", "1e3", "0x10", "0X1", "1_000", "1_0", "0b1", "0o7", "1,2;3", "[1]", "1..3", "1~3", "1\u20133",
		"a", "1a", "a1", "1-a", "cpu0", "\uff10", "\uff11-\uff12", "\u0663", "\u0967",
		// numbers near 2^63 and 2^64 (F14: a range that ends at the largest int)
		mi, "9223372036854775808", "9223372036854775806", "9223372036854775806-" + mi, mi + "-" + mi, "9223372036854775800-" + mi,
		"9223372036854767615-" + mi, "9223372036854767614-" + mi, mi + "-9223372036854775808", "9223372036854775808-9223372036854775809",
		"0-" + mi, "18446744073709551615", "18446744073709551616", "18446744073709551617", "99999999999999999999", "340282366920938463463374607431768211456",
		"0009223372036854775807", "0000000000000000000000000000000000000000007", "00000000000000000000000000000000000000000-00000000000000000000000000000000002",
		"9223372036854775807,0", "1," + mi + ",2", "9223372036854775799-9223372036854775806",
		// Unicode blanks (F17): must be refused
		"\u00a03", "3\u00a0", "\u20033-4\u3000", "1,\u0085,2", "1,\u00a0", "\u00a0", "\u0085", "\u16801", "1\u1680", "\u20001", "1\u200a", "\u20281", "1\u2029",
		"\u202f1", "1\u205f", "\u3000", "\u30001", "1\u3000,2", "0-3\u00a0,4",
		"\xa03", "\xc23", "3\xc2", "\x85", "3\x85", "\xc2\xa0", "\ufeff0-3", "0-3\ufeff", "\u200b1", "1\u200b",
	}
	// every single byte before, after and inside a number
	for b := 0; b < 256; b++ {
		ch := string([]byte{byte(b)})
		s = append(s, ch+"3", "3"+ch, "1"+ch+"2", ch)
	}
	return s
}

// cpGenCPUList: a list in the grammar most of the time, then possibly damaged.
func cpGenCPUList(c *hx.Ctx) (string, string) {
	blank := func() string {
		if !c.Chance(0.25) {
			return ""
		}
		bl := []string{" ", "\t", "\n", "\v", "\f", "\r", "  ", " \n"}
		return bl[c.Intn(len(bl))]
	}
	num := func() uint64 {
		switch c.Intn(10) {
		case 0:
			return math.MaxInt64 - uint64(c.Intn(9000))
		case 1:
			return c.EdgeU64(63)
		case 2:
			return uint64(c.Intn(100000))
		default:
			return uint64(c.Intn(300))
		}
	}
	digits := func(v uint64) string {
		d := strconv.FormatUint(v, 10)
		if c.Chance(0.1) {
			d = strings.Repeat("0", 1+c.Intn(3)) + d
		}
		return d
	}
	n := 1 + c.Intn(5)
	if c.Chance(0.1) {
		n = 0
	}
	var parts []string
	for i := 0; i < n; i++ {
		if c.Chance(0.08) {
			parts = append(parts, blank())
			continue
		}
		a := num()
		it := digits(a)
		if c.Chance(0.5) {
			span := uint64(c.Intn(12))
			switch c.Intn(12) {
			case 0:
				span = 8192
			case 1:
				span = 8191 + uint64(c.Intn(4))
			case 2:
				span = uint64(c.Intn(3000))
			}
			b := a + span
			if b < a || b > math.MaxInt64 {
				b = math.MaxInt64
			}
			it += "-" + digits(b)
		}
		parts = append(parts, blank()+it+blank())
	}
	s := strings.Join(parts, ",")
	kind := "parse-grammar"
	if c.Chance(0.3) {
		kind = "parse-damaged"
		alpha := []string{"+", "-", ",", " ", ":", "/", "x", "_", "0", "9", "\n", "\u00a0", "\xc2", "\x00", "a", "--", "-+", ".", "\t"}
		for k := 1 + c.Intn(2); k > 0; k-- {
			pos := 0
			if len(s) > 0 {
				pos = c.Intn(len(s) + 1)
			}
			ins := alpha[c.Intn(len(alpha))]
			switch c.Intn(3) {
			case 0:
				s = s[:pos] + ins + s[pos:]
			case 1:
				if pos < len(s) {
					s = s[:pos] + ins + s[pos+1:]
				}
			default:
				if pos < len(s) {
					s = s[:pos] + s[pos+1:]
				}
			}
		}
	}
	return s, kind
}

func cpGenShortString(c *hx.Ctx) string {
	alpha := "019+-, _x\n"
	n := c.Intn(8)
	b := make([]byte, n)
	for i := range b {
		b[i] = alpha[c.Intn(len(alpha))]
	}
	return string(b)
}

// ---- machines ----------------------------------------------------------------------------------

type cpMachine struct {
	ncpu   int
	node   []int // NUMA node id of each CPU
	pkg    []int // physical_package_id
	coreID []int // core_id (repeats across packages)
	desc   string
}

// cpMkMachine: nodes x coresPerNode x smt threads; layout 0: siblings adjacent, node-major; 1: sibling
// = cpu + number of cores (the usual x86 numbering); 2: as 1 with the nodes interleaved.
func cpMkMachine(nodes, cpn, smt, layout int, nodeIDs []int, pkgPerNode bool) cpMachine {
	cores := nodes * cpn
	m := cpMachine{ncpu: cores * smt, desc: fmt.Sprintf("%dn x %dc x %dt layout%d", nodes, cpn, smt, layout)}
	m.node, m.pkg, m.coreID = make([]int, m.ncpu), make([]int, m.ncpu), make([]int, m.ncpu)
	for n := 0; n < nodes; n++ {
		for k := 0; k < cpn; k++ {
			for t := 0; t < smt; t++ {
				var cpu int
				switch layout {
				case 0:
					cpu = (n*cpn+k)*smt + t
				case 1:
					cpu = t*cores + n*cpn + k
				default:
					cpu = t*cores + k*nodes + n
				}
				m.node[cpu] = nodeIDs[n]
				if pkgPerNode {
					m.pkg[cpu], m.coreID[cpu] = n, k
				} else { // two nodes per package (sub-NUMA clustering)
					m.pkg[cpu], m.coreID[cpu] = n/2, (n%2)*cpn+k
				}
			}
		}
	}
	return m
}

// topoFor: the maps readTopology would build for cands on machine m (dense core ids in order of first
// appearance; zeroCore = CPU 0's core when a candidate lives on it).
func (m cpMachine) topoFor(cands []int) (nodeOf, coreOf map[int]int, zeroCore int) {
	nodeOf, coreOf = map[int]int{}, map[int]int{}
	ids := map[[2]int]int{}
	next := 0
	for _, c := range cands {
		nodeOf[c] = m.node[c]
		k := [2]int{m.pkg[c], m.coreID[c]}
		id, ok := ids[k]
		if !ok {
			id = next
			next++
			ids[k] = id
		}
		coreOf[c] = id
	}
	zeroCore = -1
	if id, ok := ids[[2]int{m.pkg[0], m.coreID[0]}]; ok {
		zeroCore = id
	}
	return
}

func cpGenMachine(c *hx.Ctx) cpMachine {
	nodes := 1 + c.Intn(4)
	cpn := 1 + c.Intn(4)
	smt := []int{1, 2, 2, 4}[c.Intn(4)]
	ids := []int{0, 1, 2, 3}
	if c.Chance(0.2) {
		ids = []int{0, 2, 8, 10}
	}
	return cpMkMachine(nodes, cpn, smt, c.Intn(3), ids, c.Chance(0.8))
}

func cpGenCands(c *hx.Ctx, m cpMachine) ([]int, string) {
	all := make([]int, m.ncpu)
	for i := range all {
		all[i] = i
	}
	var cands []int
	kind := "all"
	switch c.Intn(6) {
	case 0, 1:
		cands = all
	case 2:
		cands, kind = all[1:], "no-cpu0"
	case 3:
		kind = "subset"
		for _, x := range all {
			if c.Chance(0.75) {
				cands = append(cands, x)
			}
		}
	case 4:
		kind = "window"
		lo := c.Intn(m.ncpu)
		cands = all[lo : lo+1+c.Intn(m.ncpu-lo)]
	default:
		kind = "no-cpu0-core" // the cpuset leaves out CPU 0 but keeps its siblings, or the reverse
		for _, x := range all {
			if x != 0 && (m.pkg[x] != m.pkg[0] || m.coreID[x] != m.coreID[0] || c.Chance(0.7)) {
				cands = append(cands, x)
			}
		}
	}
	cands = append([]int(nil), cands...)
	if c.Chance(0.1) {
		kind += "+shuffled"
		c.Rng.Shuffle(len(cands), func(i, j int) { cands[i], cands[j] = cands[j], cands[i] })
	}
	if c.Chance(0.03) && len(cands) > 0 {
		kind += "+dup"
		cands = append(cands, cands[c.Intn(len(cands))])
	}
	return cands, kind
}

func cpGenRoutines(c *hx.Ctx, m cpMachine, ncands int) int {
	perNode := 1
	if m.ncpu > 0 {
		cnt := map[int]int{}
		for _, n := range m.node {
			cnt[n]++
		}
		perNode = cnt[m.node[0]]
	}
	switch c.Intn(10) {
	case 0:
		return 0
	case 1:
		return -1
	case 2:
		return perNode
	case 3:
		return perNode + 1
	case 4:
		return ncands
	case 5:
		return ncands + 1
	default:
		return 1 + c.Intn(perNode+1)
	}
}

// ---- arrange -----------------------------------------------------------------------------------

func cpAddArrange(cw *hx.CaseWriter, kind string, cands []int, nodeOf, coreOf map[int]int, zeroCore, routines int, h uint64) {
	out, panicked := cpupick.VerifArrange(cands, cpCopyMap(nodeOf), cpCopyMap(coreOf), zeroCore, routines, h)
	out2, panicked2 := cpupick.VerifArrange(cands, cpCopyMap(nodeOf), cpCopyMap(coreOf), zeroCore, routines, h)
	stable := panicked == panicked2 && cpIntsEq(out, out2)
	obs := hx.None()
	if !panicked && cpNonNeg(out) {
		obs = hx.Some(cpNList(out))
	}
	lit := hx.App("CpuPick_corr.CArr", cpNList(cands), cpMap(nodeOf), cpMap(coreOf), cpZ(zeroCore), cpZ(routines), cpNum(h), obs, hx.Bool(stable))
	cw.Add(lit, kind, len(out) > 1, map[string]any{"op": "arrange", "cands": cands, "nodeOf": fmt.Sprint(nodeOf), "coreOf": fmt.Sprint(coreOf),
		"zeroCore": zeroCore, "routines": routines, "h": h, "out": out, "panicked": panicked, "stable": stable})
}

// ---- sysfs trees -------------------------------------------------------------------------------

type cpTree struct {
	root string
	n    int
}

func (t *cpTree) fresh() string {
	t.n++
	d := filepath.Join(t.root, strconv.Itoa(t.n))
	if err := os.MkdirAll(d, 0o755); err != nil {
		panic(err)
	}
	return d
}

func cpWriteFile(path, content string) {
	if err := os.MkdirAll(filepath.Dir(path), 0o755); err != nil {
		panic(err)
	}
	if err := os.WriteFile(path, []byte(content), 0o644); err != nil {
		panic(err)
	}
}

// cpIntFile: the text of a sysfs integer file; the bool says whether readIntFile can read it as the value.
func cpIntFile(c *hx.Ctx, v int) (string, bool) {
	switch c.Intn(40) {
	case 0:
		return "", false
	case 1:
		return "n/a\n", false
	case 2:
		return strconv.Itoa(v) + "x\n", false
	case 3:
		return "1.5\n", false
	case 4:
		return " " + strconv.Itoa(v) + " \n", true
	case 5:
		return strconv.Itoa(v), true
	default:
		return strconv.Itoa(v) + "\n", true
	}
}

// cpKernelList formats CPUs the way the kernel prints a cpulist (ranges, ascending).
func cpKernelList(cpus []int) string {
	s := append([]int(nil), cpus...)
	sort.Ints(s)
	var parts []string
	for i := 0; i < len(s); {
		j := i
		for j+1 < len(s) && s[j+1] == s[j]+1 {
			j++
		}
		if j > i {
			parts = append(parts, fmt.Sprintf("%d-%d", s[i], s[j]))
		} else {
			parts = append(parts, strconv.Itoa(s[i]))
		}
		i = j + 1
	}
	return strings.Join(parts, ",")
}

func cpAddPerf(c *hx.Ctx, cw *hx.CaseWriter, tr *cpTree) {
	capPct, freqPct := cpupick.VerifConsts()
	dir := tr.fresh()
	cpuDir := filepath.Join(dir, "cpu")
	maskPath := filepath.Join(dir, "cpu_core_cpus")
	ncpu := 1 + c.Intn(12)
	var allowed []int
	for i := 0; i < ncpu; i++ {
		if c.Chance(0.8) {
			allowed = append(allowed, i)
		}
	}
	if c.Chance(0.05) {
		allowed = nil
	}
	kind := "perf-" + []string{"capacity", "mask", "freq", "none", "mixed"}[c.Intn(5)]
	capV, freqV := map[int]int{}, map[int]int{}
	var mask *string
	tiers := func(pct int) []int {
		mx := []int{1024, 1000, 5000000, 100, 7}[c.Intn(5)]
		th := mx * pct / 100
		return []int{mx, mx, th, th - 1, th + 1, mx / 4, mx * 3 / 4, mx - 1}
	}
	fill := func(dst map[int]int, file string, pct int) {
		tv := tiers(pct)
		mode := c.Intn(8)
		for i := 0; i < ncpu; i++ {
			v := tv[c.Intn(len(tv))]
			switch mode {
			case 0: // homogeneous
				v = tv[0]
			case 1: // negative / zero values
				v = []int{-5, 0, -1024, 3}[c.Intn(4)]
			case 2: // products that overflow int64
				v = []int{math.MaxInt64 / 100, math.MaxInt64/100 + 1, math.MaxInt64 / 50, 1 << 40, math.MaxInt64}[c.Intn(5)]
			}
			if mode == 3 && c.Chance(0.15) { // a CPU without the file
				continue
			}
			txt, ok := cpIntFile(c, v)
			cpWriteFile(filepath.Join(cpuDir, fmt.Sprintf("cpu%d", i), file), txt)
			if ok {
				dst[i] = v
			}
		}
	}
	if kind == "perf-capacity" || (kind == "perf-mixed" && c.Chance(0.5)) {
		fill(capV, "cpu_capacity", capPct)
	}
	if kind == "perf-mask" || (kind == "perf-mixed" && c.Chance(0.5)) {
		var set []int
		for i := 0; i < ncpu+2; i++ {
			if c.Chance(0.5) {
				set = append(set, i)
			}
		}
		m := cpKernelList(set) + "\n"
		switch c.Intn(12) {
		case 0:
			m = "\n"
		case 1:
			m = "0-3:1/2\n"
		case 2:
			m = "+1\n"
		case 3:
			m = " " + cpKernelList(set) + " \n\n"
		case 4:
			m = cpKernelList(set) + ",\u00a0,0\n" // a non-ASCII blank inside the list: not a cpulist
		case 5:
			m = strconv.Itoa(ncpu+5) + "-" + strconv.Itoa(ncpu+9) + "\n" // names no allowed CPU
		}
		mask = &m
		cpWriteFile(maskPath, m)
	}
	if kind == "perf-freq" || (kind == "perf-mixed" && c.Chance(0.5)) {
		fill(freqV, "cpufreq/cpuinfo_max_freq", freqPct)
	}
	out := cpupick.VerifPerfCPUsFrom(cpuDir, maskPath, allowed)
	lit := hx.App("CpuPick_corr.CPerf", cpNList(allowed), cpMap(capV), cpOptBytes(mask), cpMap(freqV), cpZ(capPct), cpZ(freqPct), cpNList(out))
	d := map[string]any{"op": "perfCPUsFrom", "allowed": allowed, "cpu_capacity": fmt.Sprint(capV), "max_freq": fmt.Sprint(freqV), "out": out}
	if mask != nil {
		d["mask"] = *mask
	}
	cw.Add(lit, kind, len(out) > 0 && len(out) < len(allowed), d)
	os.RemoveAll(dir)
}

func cpAddTopo(c *hx.Ctx, cw *hx.CaseWriter, tr *cpTree) {
	dir := tr.fresh()
	nodeDir, cpuDir := filepath.Join(dir, "node"), filepath.Join(dir, "cpu")
	m := cpGenMachine(c)
	cands, ckind := cpGenCands(c, m)
	mode := c.Intn(8) // 0: no node directory at all; 1: some node without cpulist; 2: overlapping claims; 3: damaged cpulist
	type ent struct {
		name    string
		id      int
		content *string
	}
	var ents []ent
	if mode != 0 {
		byNode := map[int][]int{}
		for cpu, n := range m.node {
			byNode[n] = append(byNode[n], cpu)
		}
		var nodeIDs []int
		for n := range byNode {
			nodeIDs = append(nodeIDs, n)
		}
		sort.Ints(nodeIDs) // map order must not steer the PRNG: a seed has to replay exactly
		for _, n := range nodeIDs {
			cpus := byNode[n]
			name := fmt.Sprintf("node%d", n)
			if mode == 2 && c.Chance(0.5) {
				cpus = append(cpus, c.Intn(m.ncpu))
			}
			txt := cpKernelList(cpus) + "\n"
			if mode == 3 && c.Chance(0.4) {
				txt = []string{"", "\n", "0-\n", "+1\n", "0-3:1/2\n", cpKernelList(cpus) + ",\n", " " + cpKernelList(cpus) + "\n"}[c.Intn(7)]
			}
			if mode == 1 && c.Chance(0.4) {
				if err := os.MkdirAll(filepath.Join(nodeDir, name), 0o755); err != nil {
					panic(err)
				}
				ents = append(ents, ent{name, n, nil})
				continue
			}
			cpWriteFile(filepath.Join(nodeDir, name, "cpulist"), txt)
			t := txt
			ents = append(ents, ent{name, n, &t})
		}
		for _, decoy := range []string{"has_cpu", "possible", "online", "nodefoo", "node", "power"} {
			if c.Chance(0.5) {
				cpWriteFile(filepath.Join(nodeDir, decoy, "cpulist"), "0-63\n")
			}
		}
		if c.Chance(0.3) {
			cpWriteFile(filepath.Join(nodeDir, "has_memory"), "0\n") // a plain file, as in the real sysfs
		}
	}
	sort.Slice(ents, func(i, j int) bool { return ents[i].name < ents[j].name }) // os.ReadDir order
	pc := map[int][2]int{}
	for cpu := 0; cpu < m.ncpu; cpu++ {
		if c.Chance(0.06) { // unreadable topology
			if c.Chance(0.5) {
				cpWriteFile(filepath.Join(cpuDir, fmt.Sprintf("cpu%d", cpu), "topology", "core_id"), strconv.Itoa(m.coreID[cpu])+"\n")
			}
			continue
		}
		t1, ok1 := cpIntFile(c, m.pkg[cpu])
		t2, ok2 := cpIntFile(c, m.coreID[cpu])
		cpWriteFile(filepath.Join(cpuDir, fmt.Sprintf("cpu%d", cpu), "topology", "physical_package_id"), t1)
		cpWriteFile(filepath.Join(cpuDir, fmt.Sprintf("cpu%d", cpu), "topology", "core_id"), t2)
		if ok1 && ok2 {
			pc[cpu] = [2]int{m.pkg[cpu], m.coreID[cpu]}
		}
	}
	nodeOf, coreOf, zc := cpupick.VerifReadTopologyFrom(nodeDir, cpuDir, cands)
	var el []string
	for _, e := range ents {
		el = append(el, hx.Tuple(cpZ(e.id), cpOptBytes(e.content)))
	}
	keys := make([]int, 0, len(pc))
	for k := range pc {
		keys = append(keys, k)
	}
	sort.Ints(keys)
	var pl []string
	for _, k := range keys {
		pl = append(pl, fmt.Sprintf("(%d, (%s, %s))", k, cpZ(pc[k][0]), cpZ(pc[k][1])))
	}
	lit := hx.App("CpuPick_corr.CTopo", hx.List(el), hx.List(pl), cpNList(cands), cpMap(nodeOf), cpMap(coreOf), cpZ(zc))
	cw.Add(lit, fmt.Sprintf("topo-mode%d", mode), len(cands) > 1, map[string]any{"op": "readTopologyFrom", "machine": m.desc, "cands": cands,
		"cands_kind": ckind, "mode": mode, "nodeOf": fmt.Sprint(nodeOf), "coreOf": fmt.Sprint(coreOf), "zeroCore": zc})
	// and arrange on what the readers reported
	cpAddArrange(cw, "arrange-sysfs", cands, nodeOf, coreOf, zc, cpGenRoutines(c, m, len(cands)), c.EdgeU64(64))
	os.RemoveAll(dir)
}

// ---- the component -----------------------------------------------------------------------------

func runCPUPick(c *hx.Ctx) {
	cw := c.NewCaseWriter("From NV Require Import corr.CpuPick_corr.", "CpuPick_corr.case", "CpuPick_corr.check_case", 300)
	tr := &cpTree{root: filepath.Join(c.Out, "sysfs")}
	defer os.RemoveAll(tr.root)

	// 1. cpulist strings: corpus first, then generated ones; all observed through the worker process
	type pin struct{ s, kind string }
	var pins []pin
	for _, s := range cpCorpus() {
		pins = append(pins, pin{s, "parse-corpus"})
	}
	nParse := c.N * 45 / 100
	for i := 0; i < nParse; i++ {
		if c.Chance(0.15) {
			pins = append(pins, pin{cpGenShortString(c), "parse-short"})
		} else {
			s, k := cpGenCPUList(c)
			pins = append(pins, pin{s, k})
		}
	}
	inputs := make([]string, len(pins))
	for i, p := range pins {
		inputs[i] = p.s
	}
	obs := cpParseAll(c, inputs)
	var failures []map[string]any
	for i, p := range pins {
		o := obs[i]
		lit := "CpuPick_corr.PHung"
		d := map[string]any{"op": "parseCPUList", "s": p.s, "bytes": hx.Ints([]byte(p.s))}
		switch {
		case o.hung:
			d["result"] = "did not return"
		case !o.ok:
			lit = hx.App("CpuPick_corr.PRet", hx.None())
			d["result"] = "error"
		case !cpNonNeg(o.cpus): // cannot be written as a list of N: a negative CPU id is outside any expansion
			d["result"] = "negative cpu id"
			failures = append(failures, map[string]any{"i": cw.Total(), "code": 2})
		default:
			lit = hx.App("CpuPick_corr.PRet", hx.Some(cpRuns(o.cpus)))
			d["n_cpus"] = len(o.cpus)
			if len(o.cpus) <= 32 {
				d["result"] = o.cpus
			} else {
				d["result_head"] = o.cpus[:8]
				d["result_last"] = o.cpus[len(o.cpus)-1]
			}
		}
		cw.Add(hx.App("CpuPick_corr.CParse", hx.Str(p.s), lit), p.kind, o.ok && len(o.cpus) > 0, d)
	}
	if failures != nil {
		cw.Meta("failures", failures)
	}

	// 2. splitmix64
	keys := []uint64{0, 1, 2, 4242, 4243, 5242, 65535, 1 << 32, math.MaxUint64, math.MaxUint64 - 1, 0x9e3779b97f4a7c15, 0x61c8864680b583eb}
	for i := 0; i < 20; i++ {
		keys = append(keys, c.U64())
	}
	for _, k := range keys {
		cw.Add(hx.App("CpuPick_corr.CMix", cpNum(k), cpNum(cpupick.VerifSplitmix64(k))), "splitmix64", true,
			map[string]any{"op": "splitmix64", "key": k})
	}

	// 3. arrange: sweep of small machines (1-4 nodes, SMT 1/2/4, three numberings, with / without CPU 0)
	for nodes := 1; nodes <= 4; nodes++ {
		for _, smt := range []int{1, 2, 4} {
			for layout := 0; layout < 3; layout++ {
				for _, cpn := range []int{1, 2} {
					m := cpMkMachine(nodes, cpn, smt, layout, []int{0, 1, 2, 3}, true)
					if c.Tier != "thorough" && m.ncpu > 16 {
						continue // the quick tier leaves the two largest shapes to the random machines
					}
					all := make([]int, m.ncpu)
					for i := range all {
						all[i] = i
					}
					h1 := uint64(nodes+1)<<32 | 1
					for _, cands := range [][]int{all, all[1:]} {
						nodeOf, coreOf, zc := m.topoFor(cands)
						for _, rh := range []struct {
							r int
							h uint64
						}{{1, 0}, {cpn * smt, h1}, {cpn * smt, 0}, {cpn*smt + 1, h1}} {
							cpAddArrange(cw, "arrange-sweep", cands, nodeOf, coreOf, zc, rh.r, rh.h)
						}
						if c.Tier == "thorough" {
							cpAddArrange(cw, "arrange-sweep", cands, nodeOf, coreOf, zc, 1, h1)
							cpAddArrange(cw, "arrange-sweep", cands, nodeOf, coreOf, zc, cpn*smt+1, 0)
						}
					}
				}
			}
		}
	}
	// flat topology (what non-Linux builds use) and empty / single candidates
	for _, cands := range [][]int{{}, {0}, {5}, {0, 1}, {3, 0}, {0, 1, 2, 3, 4, 5, 6, 7}, {4, 5, 6, 7}, {2, 0, 2}} {
		n, co, zc := cpupick.VerifFlatTopology(cands)
		for _, r := range []int{0, 1, 4, 9} {
			cpAddArrange(cw, "arrange-flat", cands, n, co, zc, r, c.U64())
		}
	}
	nArr := c.N * 35 / 100
	for i := 0; i < nArr; i++ {
		m := cpGenMachine(c)
		cands, ckind := cpGenCands(c, m)
		nodeOf, coreOf, zc := m.topoFor(cands)
		kind := "arrange-" + ckind
		switch c.Intn(12) {
		case 0: // zeroCore unknown
			zc, kind = -1, kind+"+zc-unknown"
		case 1: // arbitrary core labels (only equality may matter)
			mul, off := 1+c.Intn(5), c.Intn(7)-3
			for k, v := range coreOf {
				coreOf[k] = v*mul + off
			}
			if zc >= 0 {
				zc = zc*mul + off
			}
			kind += "+relabel"
		case 2: // map entries missing: a missing key reads as 0
			for _, k := range cands { // in candidate order, not map order: a seed has to replay exactly
				if c.Chance(0.3) {
					delete(nodeOf, k)
				}
				if c.Chance(0.2) {
					delete(coreOf, k)
				}
			}
			kind += "+missing"
		case 3: // CPU 0's core id points at a core no candidate is on
			zc, kind = 1000, kind+"+zc-foreign"
		}
		cpAddArrange(cw, kind, cands, nodeOf, coreOf, zc, cpGenRoutines(c, m, len(cands)), c.EdgeU64(64))
	}

	// 4. pickCandidates
	for i := 0; i < 40+c.N/50; i++ {
		n := c.Intn(9)
		var allowed, perf []int
		for j := 0; j < n; j++ {
			allowed = append(allowed, j*2)
			if c.Chance(0.5) {
				perf = append(perf, j*2)
			}
		}
		r := c.Intn(n+3) - 1
		out := cpupick.VerifPickCandidates(allowed, perf, r)
		cw.Add(hx.App("CpuPick_corr.CPick", cpNList(allowed), cpNList(perf), cpZ(r), cpNList(out)), "pickCandidates", len(out) > 0,
			map[string]any{"op": "pickCandidates", "allowed": allowed, "perf": perf, "routines": r, "out": out})
	}

	// 5. sysfs readers on generated trees
	nTree := c.N * 10 / 100
	for i := 0; i < nTree; i++ {
		cpAddPerf(c, cw, tr)
		cpAddTopo(c, cw, tr)
	}

	// 6. the real Default on this machine
	if allowed, err := util.AllowedCPUs(); err == nil {
		perf := cpupick.VerifPerfCPUs(allowed)
		for _, r := range []int{0, 1, 2, 3, 4, 8, len(allowed), len(allowed) + 1} {
			cands := cpupick.VerifPickCandidates(allowed, perf, r)
			nodeOf, coreOf, zc := cpupick.VerifReadTopology(cands)
			for _, key := range []uint64{0, 4242, 4243, c.U64()} {
				out := cpupick.Default(r, key, nil)
				out2 := cpupick.Default(r, key, nil)
				stable := cpIntsEq(out, out2) && (out == nil) == (out2 == nil)
				obs := hx.None()
				if out != nil {
					obs = hx.Some(cpNList(out))
				}
				cw.Add(hx.App("CpuPick_corr.CDefault", cpNList(allowed), cpNList(perf), cpMap(nodeOf), cpMap(coreOf), cpZ(zc), cpZ(r), cpNum(key), obs, hx.Bool(stable)),
					"default-this-machine", len(out) > 1, map[string]any{"op": "Default", "allowed": allowed, "perf": perf, "routines": r, "key": key, "out": out})
			}
		}
	}

	cw.Close("corpus of cpulist strings (valid lists, blanks, empty items, signs, reversed / oversized ranges, strided forms, numbers around 2^63 and 2^64, " +
		"non-ASCII blanks, every single byte before / after / inside a number) + generated lists (70% in the grammar, 30% damaged) + short strings over \"019+-, _x\\n\", " +
		"each observed in a worker process with a time limit; arrange on all small machines (1-4 nodes x 1-2 cores x SMT 1/2/4 x 3 numberings x with/without CPU 0) " +
		"and on random machines / candidate sets / routines / hashes (zeroCore unknown, relabelled cores, missing map entries, shuffled and repeated candidates); " +
		"pickCandidates; perfCPUsFrom and readTopologyFrom on generated sysfs trees; the real Default on this machine. " +
		"non-trivial = accepted non-empty list / pin list of >= 2 CPUs / proper performance subset")
}

//go:build comp_all || comp_converge || comp_convergenet

package main

// Component converge (C31): ties the swap rule and the overlay address order of model/Converge.v to the code.
//   gen_converge: T1 constants and a T2 table - the real shouldSwapPrimary evaluated on every combination of
//                 (peer address <, =, > mine; counter past the re-key threshold; own certificate gone; signature
//                 equal), several concrete situations per row (IPv4, IPv6, mixed families; counters at and around
//                 the threshold; v1 and v2 certificates). Rows whose situations disagree fail the run.
//   converge:     random situations (CSwap) and random address pairs against netip.Addr.Compare (CCmp).

import (
	"fmt"
	"math/big"
	"net/netip"
	"strings"

	"github.com/slackhq/nebula"
	"verifharness/hx"
)

func init() {
	hx.Register("gen_converge", genConverge)
	hx.Register("converge", runConverge)
}

func convAddrLitAny(a netip.Addr) string {
	b := a.AsSlice()
	v := new(big.Int).SetBytes(b)
	return hx.App("mkAddr", hx.Bool(a.Is6()), v.String())
}

func convRandAddr(c *hx.Ctx, v6 bool) netip.Addr {
	if v6 {
		var b [16]byte
		copy(b[:], c.RandBytes(16))
		switch c.Intn(4) {
		case 0:
			b = [16]byte{0xfd, 0x00}
			b[15] = byte(c.Intn(4))
		case 1:
			for i := 0; i < 15; i++ {
				b[i] = 0xff
			}
		}
		return netip.AddrFrom16(b)
	}
	var b [4]byte
	copy(b[:], c.RandBytes(4))
	switch c.Intn(4) {
	case 0:
		b = [4]byte{10, 128, 0, byte(c.Intn(4))}
	case 1:
		b = [4]byte{255, 255, 255, byte(252 + c.Intn(4))}
	}
	return netip.AddrFrom4(b)
}

// a pair of addresses with peer.Compare(me) of the wanted sign, the k-th concrete variant
func convPair(c *hx.Ctx, cls int, k int) (me, peer netip.Addr) {
	for {
		switch k % 3 {
		case 0:
			me, peer = convRandAddr(c, false), convRandAddr(c, false)
		case 1:
			me, peer = convRandAddr(c, true), convRandAddr(c, true)
		default: // mixed families: IPv4 sorts before IPv6
			if cls == 0 {
				me, peer = convRandAddr(c, true), convRandAddr(c, false)
			} else {
				me, peer = convRandAddr(c, false), convRandAddr(c, true)
			}
		}
		if cls == 1 {
			peer = me
		}
		s := peer.Compare(me)
		if (cls == 0 && s < 0) || (cls == 1 && s == 0) || (cls == 2 && s > 0) {
			return
		}
	}
}

func convCounter(c *hx.Ctx, rekey bool, k int) uint64 {
	th := uint64(nebula.VerifConvRehandshakeAfterMessage)
	if rekey {
		return []uint64{th, th + 1, th + uint64(c.Intn(1<<20)), 1 << 40}[k%4]
	}
	return []uint64{th - 1, 0, uint64(c.Intn(1000)), th - 2}[k%4]
}

func genConverge(c *hx.Ctx) {
	var sb strings.Builder
	sb.WriteString("(* GENERATED from /repo (connection_manager.go shouldSwapPrimary, hostmap.go, handshake_manager.go) by harness gen_converge: do not edit *)\nFrom Coq Require Import List NArith Bool.\nImport ListNotations.\nOpen Scope N_scope.\n")
	fmt.Fprintf(&sb, "Definition MaxHostInfosPerVpnIp : N := %d.\nDefinition maxCachedPackets : N := %d.\nDefinition RehandshakeAfterMessages : N := %d.\n",
		nebula.VerifConvMaxHostInfosPerVpnIp, nebula.VerifConvMaxCachedPackets, uint64(nebula.VerifConvRehandshakeAfterMessage))
	var rows []string
	for cls := 0; cls < 3; cls++ {
		for _, rk := range []bool{false, true} {
			for _, nc := range []bool{false, true} {
				for _, se := range []bool{false, true} {
					var res *bool
					for k := 0; k < 6; k++ {
						me, peer := convPair(c, cls, k)
						r := nebula.VerifConvShouldSwap(me, peer, convCounter(c, rk, k), !nc, se, k%2 == 1, byte(k))
						if res == nil {
							res = &r
						} else if *res != r {
							panic(fmt.Sprintf("shouldSwapPrimary depends on more than (address order, re-key threshold, certificate configured, signature equal): class %d rk %v nc %v se %v", cls, rk, nc, se))
						}
					}
					rows = append(rows, hx.Tuple(hx.N(uint64(cls)), hx.Bool(rk), hx.Bool(nc), hx.Bool(se), hx.Bool(*res)))
				}
			}
		}
	}
	fmt.Fprintf(&sb, "(* peer address vs mine (0 <, 1 =, 2 >), counter >= RehandshakeAfterMessages, own certificate gone, signature equal, shouldSwapPrimary *)\nDefinition swap_tab : list (N * bool * bool * bool * bool) := [\n  %s].\n", strings.Join(rows, ";\n  "))
	c.WriteFile("Tab_Converge.v", sb.String())
}

func runConverge(c *hx.Ctx) {
	cw := c.NewCaseWriter("From NV Require Import model.Converge corr.Converge_corr.", "Converge_corr.case", "Converge_corr.check_case", 1500)
	th := uint64(nebula.VerifConvRehandshakeAfterMessage)
	for i := 0; i < c.N; i++ {
		if i%2 == 0 {
			cls := c.Intn(3)
			me, peer := convPair(c, cls, c.Intn(3))
			ctr := c.EdgeU64(40)
			if c.Chance(0.3) {
				ctr = th - 2 + uint64(c.Intn(4))
			}
			configured, sigeq, v2 := c.Chance(0.7), c.Chance(0.6), c.Chance(0.5)
			r := nebula.VerifConvShouldSwap(me, peer, ctr, configured, sigeq, v2, byte(i))
			cw.Add(hx.App("Converge_corr.CSwap", convAddrLitAny(me), convAddrLitAny(peer), hx.Bool(ctr >= th), hx.Bool(!configured), hx.Bool(sigeq), hx.Bool(r)),
				fmt.Sprintf("swap-class%d", cls), r, map[string]any{"op": "swap", "me": me.String(), "peer": peer.String(), "counter": ctr, "configured": configured, "sigeq": sigeq, "v2": v2, "r": r})
		} else {
			var a, b netip.Addr
			switch c.Intn(4) {
			case 0:
				a, b = convRandAddr(c, false), convRandAddr(c, true)
			case 1:
				a, b = convRandAddr(c, true), convRandAddr(c, false)
			case 2:
				a = convRandAddr(c, c.Chance(0.5))
				b = a
			default:
				v6 := c.Chance(0.5)
				a, b = convRandAddr(c, v6), convRandAddr(c, v6)
			}
			s := a.Compare(b)
			code := uint64(1)
			if s < 0 {
				code = 0
			} else if s > 0 {
				code = 2
			}
			cw.Add(hx.App("Converge_corr.CCmp", convAddrLitAny(a), convAddrLitAny(b), hx.N(code)), "cmp", s != 0,
				map[string]any{"op": "cmp", "a": a.String(), "b": b.String(), "r": code})
		}
	}
	cw.Close("a swap decision or an address comparison of the real code equal to the model's; nontrivial = swap decided / addresses differ")
}

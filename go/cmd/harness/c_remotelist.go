//go:build comp_all || comp_remotelist

package main

import (
	"fmt"
	"net/netip"
	"slices"
	"strings"

	"github.com/slackhq/nebula"
	"verifharness/hx"
)

func init() {
	hx.Register("remotelist", runRemoteList)
}

type rlDeny struct {
	vpn netip.Addr
	ap  netip.AddrPort
}
type rlDenyDNS struct {
	vpn  netip.Addr
	addr netip.Addr
}

// rlCase drives one real RemoteList and records the Gallina op list next to it.
type rlCase struct {
	c       *hx.Ctx
	p       *rlPools
	rl      *nebula.VerifRL
	vpn     []netip.Addr
	owners  []netip.Addr
	deny    []rlDeny
	denyDNS []rlDenyDNS
	dns     []netip.AddrPort
	ops     []string // Gallina (rop, option obs)
	desc    []string // human readable
	copies  int
	nonEmpty int
	panicked string
}

func (k *rlCase) check(vpn netip.Addr, a netip.AddrPort) bool {
	for _, d := range k.deny {
		if d.vpn == vpn && d.ap == a {
			return false
		}
	}
	return true
}

func (k *rlCase) shouldAdd(vpns []netip.Addr, a netip.Addr) bool {
	for _, v := range vpns {
		for _, d := range k.denyDNS {
			if d.vpn == v && d.addr == a {
				return false
			}
		}
	}
	return true
}

func (k *rlCase) emit(op, desc string) {
	k.ops = append(k.ops, "("+op+", None)")
	k.desc = append(k.desc, desc)
}

func (k *rlCase) owner() netip.Addr { return k.owners[k.c.Intn(len(k.owners))] }

func (k *rlCase) opLearn() {
	o, a := k.owner(), k.p.ap()
	if !a.Addr().Is4() && k.c.Chance(0.0) {
		return
	}
	if a.Addr().Is4() && k.c.Chance(0.15) {
		a = netip.AddrPortFrom(netip.AddrFrom16(a.Addr().As16()), a.Port()) // a 4in6 source address
	}
	k.rl.Learn(o, a)
	k.emit(fmt.Sprintf("RLearn %s %s", rlAddrLit(o), rlAPLit(a)), fmt.Sprintf("learn owner=%s %s", o, a))
}

func (k *rlCase) opSet4() {
	o, vpn := k.owner(), k.vpn[k.c.Intn(len(k.vpn))]
	n := k.c.Intn(5)
	if k.c.Chance(0.2) {
		n = 8 + k.c.Intn(8) // around the cap
	}
	to := make([][2]uint32, n)
	for i := range to {
		to[i] = rlProtoV4(k.p.v4(), k.p.protoPort())
		if k.c.Chance(0.15) { // a fresh address so that long lists are not all duplicates
			to[i][0] = uint32(k.c.EdgeU64(32))
		}
	}
	k.rl.SetV4(o, vpn, to, k.check)
	k.emit(fmt.Sprintf("RSet4 %s %s %s", rlAddrLit(o), rlAddrLit(vpn), rlV4sLit(to)), fmt.Sprintf("set4 owner=%s vpn=%s %v", o, vpn, to))
}

func (k *rlCase) opSet6() {
	o, vpn := k.owner(), k.vpn[k.c.Intn(len(k.vpn))]
	n := k.c.Intn(5)
	if k.c.Chance(0.2) {
		n = 8 + k.c.Intn(8)
	}
	to := make([][3]uint64, n)
	for i := range to {
		to[i] = rlProtoV6(k.p.v6entry(), k.p.protoPort())
		if k.c.Chance(0.15) {
			to[i][0], to[i][1] = k.c.EdgeU64(64), k.c.EdgeU64(64)
		}
	}
	k.rl.SetV6(o, vpn, to, k.check)
	k.emit(fmt.Sprintf("RSet6 %s %s %s", rlAddrLit(o), rlAddrLit(vpn), rlV6sLit(to)), fmt.Sprintf("set6 owner=%s vpn=%s %v", o, vpn, to))
}

func (k *rlCase) opPre() {
	o := k.owner()
	if k.c.Chance(0.5) {
		e := rlProtoV4(k.p.v4(), k.p.protoPort())
		k.rl.PrependV4(o, e)
		k.emit(fmt.Sprintf("RPre4 %s (%d, %d)", rlAddrLit(o), e[0], e[1]), fmt.Sprintf("prepend4 owner=%s %v", o, e))
	} else {
		e := rlProtoV6(k.p.v6entry(), k.p.protoPort())
		k.rl.PrependV6(o, e)
		k.emit(fmt.Sprintf("RPre6 %s (%d, %d, %d)", rlAddrLit(o), e[0], e[1], e[2]), fmt.Sprintf("prepend6 owner=%s %v", o, e))
	}
}

func (k *rlCase) opRelay() {
	o := k.owner()
	n := k.c.Intn(4)
	if k.c.Chance(0.15) {
		n = 9 + k.c.Intn(4)
	}
	to := make([]netip.Addr, n)
	for i := range to {
		to[i] = k.p.addr()
		if k.c.Chance(0.3) {
			to[i] = k.owner()
		}
		if n > 8 {
			b := [4]byte{10, 9, byte(k.c.Intn(2)), byte(k.c.Intn(16))}
			to[i] = netip.AddrFrom4(b)
		}
	}
	k.rl.SetRelay(o, to)
	k.emit(fmt.Sprintf("RRelay %s %s", rlAddrLit(o), rlAddrsLit(to)), fmt.Sprintf("relay owner=%s %v", o, to))
}

func (k *rlCase) opBlock() {
	a := k.p.ap()
	// prefer something that is currently in the list
	if cur := k.rl.R.CopyCache(); cur != nil && k.c.Chance(0.6) {
		var all []netip.AddrPort
		for _, c := range *cur {
			all = append(all, c.Learned...)
			all = append(all, c.Reported...)
		}
		all = append(all, k.dns...)
		if len(all) > 0 {
			slices.SortFunc(all, func(x, y netip.AddrPort) int { return x.Compare(y) }) // map order must not leak into the seed replay
			a = all[k.c.Intn(len(all))]
		}
	}
	k.rl.Block(a)
	k.emit(fmt.Sprintf("RBlock %s", rlAPLit(a)), fmt.Sprintf("block %s", a))
}

func (k *rlCase) opDNS() {
	n := k.c.Intn(4)
	l := make([]netip.AddrPort, 0, n)
	for i := 0; i < n; i++ {
		a := k.p.ap()
		if a.Addr().Is4() && k.c.Chance(0.1) {
			a = netip.AddrPortFrom(netip.AddrFrom16(a.Addr().As16()), a.Port()) // a literal "::ffff:a.b.c.d" stays mapped
		}
		if !slices.Contains(l, a) {
			l = append(l, a)
		}
	}
	k.dns = l
	k.rl.SetDNS(l)
	k.emit(fmt.Sprintf("RDns %s", rlAPsLit(l)), fmt.Sprintf("dns %v", l))
}

func (k *rlCase) opRedirty() {
	k.rl.SetDNS(k.dns)
	k.emit(fmt.Sprintf("RDns %s", rlAPsLit(k.dns)), fmt.Sprintf("dns(same) %v", k.dns))
}

func (k *rlCase) opClearDNS() {
	k.dns = nil
	k.rl.ClearDNS()
	k.emit("RClearDns", "cleardns")
}

func (k *rlCase) opResetOwner() {
	o := k.owner()
	k.rl.ResetOwner(o)
	k.emit(fmt.Sprintf("RResetOwner %s", rlAddrLit(o)), fmt.Sprintf("resetowner %s", o))
}

func (k *rlCase) opUnblock() {
	k.rl.Unblock()
	k.emit("RUnblock", "unblock")
}

func (k *rlCase) opRefresh() {
	n := 1 + k.c.Intn(2)
	v := make([]netip.Addr, n)
	for i := range v {
		v[i] = k.vpn[k.c.Intn(len(k.vpn))]
		if k.c.Chance(0.3) {
			v[i] = k.owner()
		}
	}
	k.rl.Refresh(v)
	k.emit(fmt.Sprintf("RRefresh %s", rlAddrsLit(v)), fmt.Sprintf("refresh %v", v))
}

func (k *rlCase) opCopy(pref []netip.Prefix) {
	as, rs := k.rl.Copy(pref)
	// ForEach (handshake / punch destinations) and Len must agree with CopyAddrs
	fe, _ := k.rl.ForEach(pref)
	if !slices.Equal(fe, as) || k.rl.Len(pref) != len(as) {
		k.panicked = fmt.Sprintf("ForEach/Len disagree with CopyAddrs: %v vs %v", fe, as)
	}
	k.ops = append(k.ops, fmt.Sprintf("(RRebuild %s, Some (%s, %s))", rlPrefixesLit(pref), rlAPsLit(as), rlAddrsLit(rs)))
	k.desc = append(k.desc, fmt.Sprintf("copy pref=%v -> %v relays=%v", pref, as, rs))
	k.copies++
	if len(as) > 1 {
		k.nonEmpty++
	}
}

func (k *rlCase) mutate() {
	switch r := k.c.Intn(100); {
	case r < 18:
		k.opLearn()
	case r < 38:
		k.opSet4()
	case r < 55:
		k.opSet6()
	case r < 65:
		k.opPre()
	case r < 75:
		k.opRelay()
	case r < 85:
		k.opBlock()
	case r < 92:
		k.opDNS()
	case r < 94:
		k.opClearDNS()
	case r < 97:
		k.opResetOwner()
	default:
		if k.c.Chance(0.5) {
			k.opUnblock()
		} else {
			k.opRefresh()
		}
	}
}

func newRLCase(c *hx.Ctx) *rlCase {
	k := &rlCase{c: c, p: newRLPools(c, 4+c.Intn(6))}
	vp := rlParse([]string{"10.77.0.2", "10.77.0.3", "fd77::2"})
	k.vpn = vp[:1+c.Intn(2)]
	if c.Chance(0.2) {
		k.vpn = []netip.Addr{vp[2], vp[0]}
	}
	k.owners = rlParse([]string{"10.77.0.1", "10.77.0.9", "fd77::1", "10.77.0.2"})[:2+c.Intn(3)]
	for i, n := 0, c.Intn(4); i < n; i++ {
		a := k.p.ap()
		if a.Addr().Is4() || c.Chance(0.5) {
			k.deny = append(k.deny, rlDeny{k.vpn[c.Intn(len(k.vpn))], a})
		}
	}
	for i, n := 0, c.Intn(3); i < n; i++ {
		k.denyDNS = append(k.denyDNS, rlDenyDNS{k.vpn[c.Intn(len(k.vpn))], k.p.addr()})
	}
	k.rl = nebula.VerifNewRL(k.vpn, k.shouldAdd)
	return k
}

func (k *rlCase) literal() string {
	dl := make([]string, len(k.deny))
	for i, d := range k.deny {
		dl[i] = "(" + rlAddrLit(d.vpn) + ", " + rlAPLit(d.ap) + ")"
	}
	dd := make([]string, len(k.denyDNS))
	for i, d := range k.denyDNS {
		dd[i] = "(" + rlAddrLit(d.vpn) + ", " + rlAddrLit(d.addr) + ")"
	}
	return hx.App("RemoteList_corr.Case", rlAddrsLit(k.vpn), hx.List(dl), hx.List(dd), "["+strings.Join(k.ops, ";\n  ")+"]")
}

func (k *rlCase) json(kind string) map[string]any {
	return map[string]any{"kind": kind, "vpn": rlStrs(k.vpn), "owners": rlStrs(k.owners), "deny": fmt.Sprint(k.deny), "deny_dns": fmt.Sprint(k.denyDNS), "ops": k.desc}
}

func runRemoteList(c *hx.Ctx) {
	cw := c.NewCaseWriter("From NV Require Import model.RemoteList corr.RemoteList_corr.", "RemoteList_corr.case", "RemoteList_corr.check_case", 20)
	var failures []map[string]any
	add := func(k *rlCase, kind string) {
		defer func() {
			if k.panicked != "" {
				failures = append(failures, map[string]any{"i": cw.Total() - 1, "code": 2, "what": k.panicked})
			}
		}()
		cw.Add(k.literal(), kind, k.nonEmpty > 0, k.json(kind))
	}
	run := func(k *rlCase, f func()) {
		defer func() {
			if r := recover(); r != nil {
				k.panicked = fmt.Sprint("panic: ", r)
			}
		}()
		f()
	}

	// ---- boundary sweep: the class order, the private-range edges, the cap ----
	{
		// every address of the corpus in one list, under several preferred-range lists
		all := append(append(append(rlParse(rlV4Public), rlParse(rlV4Private)...), rlParse(rlV6)...), rlParse(rlMapped)...)
		prefs := [][]netip.Prefix{nil,
			{netip.MustParsePrefix("10.0.0.0/8")}, {netip.MustParsePrefix("172.16.0.0/12"), netip.MustParsePrefix("fc00::/7")},
			{netip.MustParsePrefix("0.0.0.0/0")}, {netip.MustParsePrefix("::/0")}, {netip.MustParsePrefix("1.1.1.1/32"), netip.MustParsePrefix("2001:db8::2/128")},
			{netip.PrefixFrom(netip.MustParseAddr("192.168.77.77"), 16)}, {netip.MustParsePrefix("::ffff:0:0/96")}}
		k := newRLCase(c)
		k.deny, k.denyDNS = nil, nil
		k.rl = nebula.VerifNewRL(k.vpn, k.shouldAdd)
		run(k, func() {
			// resolver results are not capped: every corpus address with two ports (mapped literals stay mapped)
			var dns []netip.AddrPort
			for _, a := range all {
				dns = append(dns, netip.AddrPortFrom(a, 4242), netip.AddrPortFrom(a, 1))
			}
			k.dns = dns
			k.rl.SetDNS(dns)
			k.emit(fmt.Sprintf("RDns %s", rlAPsLit(dns)), "dns <whole corpus> x {4242, 1}")
			// the mapped forms also as reported v6 entries (unmapped on the way out), spread over the owners
			for i, a := range rlParse(rlMapped) {
				o := k.owners[i%len(k.owners)]
				e := rlProtoV6(a, 4242+65536)
				k.rl.PrependV6(o, e)
				k.emit(fmt.Sprintf("RPre6 %s (%d, %d, %d)", rlAddrLit(o), e[0], e[1], e[2]), fmt.Sprintf("prepend6 owner=%s %v", o, e))
			}
			for _, pf := range prefs {
				k.opCopy(pf)
			}
		})
		add(k, "sweep-order")
		// the cap: lists of 0..14 distinct entries, the check rejecting every third
		for n := 0; n <= 14; n++ {
			k := newRLCase(c)
			k.deny, k.denyDNS = nil, nil
			to4 := make([][2]uint32, n)
			to6 := make([][3]uint64, n)
			rel := make([]netip.Addr, n)
			for i := 0; i < n; i++ {
				to4[i] = [2]uint32{0x01010100 + uint32(i), 4242}
				to6[i] = [3]uint64{0x20010db800000000, uint64(i), 4242}
				rel[i] = netip.AddrFrom4([4]byte{10, 77, 1, byte(i)})
				if i%3 == 2 {
					k.deny = append(k.deny, rlDeny{k.vpn[0], netip.AddrPortFrom(netip.AddrFrom4([4]byte{1, 1, 1, byte(i)}), 4242)})
				}
			}
			k.rl = nebula.VerifNewRL(k.vpn, k.shouldAdd)
			run(k, func() {
				o := k.owners[0]
				k.rl.SetV4(o, k.vpn[0], to4, k.check)
				k.emit(fmt.Sprintf("RSet4 %s %s %s", rlAddrLit(o), rlAddrLit(k.vpn[0]), rlV4sLit(to4)), fmt.Sprintf("set4 %d entries", n))
				k.rl.SetV6(o, k.vpn[0], to6, k.check)
				k.emit(fmt.Sprintf("RSet6 %s %s %s", rlAddrLit(o), rlAddrLit(k.vpn[0]), rlV6sLit(to6)), fmt.Sprintf("set6 %d entries", n))
				k.rl.SetRelay(o, rel)
				k.emit(fmt.Sprintf("RRelay %s %s", rlAddrLit(o), rlAddrsLit(rel)), fmt.Sprintf("relay %d entries", n))
				k.opCopy(nil)
				for j := 0; j < 3; j++ { // prepend on top of a full list
					e := [2]uint32{0x08080800 + uint32(j), 1}
					k.rl.PrependV4(o, e)
					k.emit(fmt.Sprintf("RPre4 %s (%d, %d)", rlAddrLit(o), e[0], e[1]), "prepend4")
					k.opCopy(nil)
				}
			})
			add(k, "sweep-cap")
		}
	}

	// ---- random histories ----
	for i := 0; i < c.N; i++ {
		k := newRLCase(c)
		kind := "history"
		stale := i%25 == 24
		if stale {
			kind = "stale_unblock"
		}
		run(k, func() {
			nops := 4 + c.Intn(18)
			pref := k.p.prefixes(3)
			for j := 0; j < nops; j++ {
				k.mutate()
				if c.Chance(0.25) {
					if c.Chance(0.4) {
						pref = k.p.prefixes(3) // a preferred-range change (HUP) between rebuilds
					}
					k.opCopy(pref)
					if c.Chance(0.5) { // same sources, new enumeration of the owner map
						k.opRedirty()
						k.opCopy(pref)
					}
					if c.Chance(0.3) { // re-sort only
						pref = k.p.prefixes(3)
						k.opCopy(pref)
					}
				}
			}
			k.opCopy(pref)
			if stale {
				// block something that is listed, read, unblock (or complete a handshake) and read again without any
				// operation in between that marks the list dirty
				if as, _ := k.rl.Copy(pref); len(as) > 0 {
					a := as[c.Intn(len(as))]
					k.rl.Block(a)
					k.emit(fmt.Sprintf("RBlock %s", rlAPLit(a)), fmt.Sprintf("block %s", a))
					k.opCopy(pref)
					if c.Chance(0.5) {
						k.opUnblock()
					} else {
						k.rl.Refresh(k.vpn)
						k.emit(fmt.Sprintf("RRefresh %s", rlAddrsLit(k.vpn)), fmt.Sprintf("refresh %v", k.vpn))
					}
					k.opCopy(pref)
				}
			}
		})
		add(k, kind)
	}
	if len(failures) > 0 {
		cw.Meta("failures", failures)
	}
	cw.Close("histories of 4..21 random RemoteList mutations (learn, set v4/v6 with a rejecting check and lists around the cap, prepend, relays, block, resolver results, reset) on 2..4 owners over a pool of 4..9 addresses, CopyAddrs+relays observed after ~25% of the operations with preferred-range changes and re-collections; sweeps of the class order and of the cap first; non-trivial = some observation with >= 2 addresses; distinct by literal")
}

//go:build comp_all || comp_hsmgr

package main

// Component hsmgr (C09, C10): histories of handshake-manager operations run against the real HandshakeManager +
// HostMap through the overlay shim verif_hsmgr.go (real Noise IX messages, real signed certificates). One case
// is a whole history; every step carries the operation, the packets the node sent and the changes of the
// canonical dump. Also gen_hsmgr (T1 constants for C32).

import (
	"fmt"
	"sort"
	"strings"

	nebula "github.com/slackhq/nebula"
	"verifharness/hx"
)

func init() {
	hx.Register("gen_hsmgr", genHsmgr)
	hx.Register("hsmgr", func(c *hx.Ctx) { runHsmgr(c, "HsMgr_corr.check_case10") })
	hx.Register("hsmgr09", func(c *hx.Ctx) { runHsmgr(c, "HsMgr_corr.check_case09") })
}

func genHsmgr(c *hx.Ctx) {
	var sb strings.Builder
	sb.WriteString("(* GENERATED from /repo by harness gen_hsmgr: do not edit *)\nFrom Coq Require Import NArith ZArith.\n")
	fmt.Fprintf(&sb, "Definition maxCachedPackets : N := %d%%N.\n", nebula.VerifHSMaxCachedPackets)
	fmt.Fprintf(&sb, "Definition DefaultHandshakeRetries : Z := %d%%Z.\n", nebula.VerifHSDefaultRetries)
	fmt.Fprintf(&sb, "Definition DefaultHandshakeTryInterval : Z := %d%%Z.\n", nebula.VerifHSDefaultTryIntervalNs)
	c.WriteFile("Consts_HsMgr.v", sb.String())
	// model/HostMap.v (which model/HsMgr.v is layered on) reads gen/Consts_HostMap.v; it is written here too, in
	// exactly the text of gen_hostmap, so that the checks of C09/C10/C32 regenerate it even when only this
	// component's harness could be built
	c.WriteFile("Consts_HostMap.v", fmt.Sprintf("(* GENERATED from /repo by harness gen_hostmap: do not edit *)\nFrom Coq Require Import NArith.\n"+
		"Open Scope N_scope.\nDefinition MaxHostInfosPerVpnIp : N := %d.\n", nebula.VerifHSMaxHostInfosPerVpnIp))
}

// ---- literals -----------------------------------------------------------------------------------------

func hsU32s(xs []uint32) []uint64 {
	r := make([]uint64, len(xs))
	for i, x := range xs {
		r[i] = uint64(x)
	}
	return r
}

func hsKVGet(xs []nebula.VerifHSKV, k uint64) (uint64, bool) {
	for _, e := range xs {
		if e.K == k {
			return e.V, true
		}
	}
	return 0, false
}

func hsKVLit(xs []nebula.VerifHSKV) string {
	s := make([]string, len(xs))
	for i, e := range xs {
		s[i] = hx.Tuple(hx.N(e.K), hx.N(e.V))
	}
	return hx.List(s)
}

func hsKLLit(xs []nebula.VerifHSKL) string {
	s := make([]string, len(xs))
	for i, e := range xs {
		s[i] = hx.Tuple(hx.N(e.K), hx.NList(e.L))
	}
	return hx.List(s)
}

func hsKVDelta(old, cur []nebula.VerifHSKV) string {
	var s []string
	for _, e := range cur {
		if v, ok := hsKVGet(old, e.K); !ok || v != e.V {
			s = append(s, hx.Tuple(hx.N(e.K), hx.Some(hx.N(e.V))))
		}
	}
	for _, e := range old {
		if _, ok := hsKVGet(cur, e.K); !ok {
			s = append(s, hx.Tuple(hx.N(e.K), "None"))
		}
	}
	return hx.List(s)
}

func hsU64Eq(a, b []uint64) bool {
	if len(a) != len(b) {
		return false
	}
	for i := range a {
		if a[i] != b[i] {
			return false
		}
	}
	return true
}

func hsKLDelta(old, cur []nebula.VerifHSKL) string {
	get := func(xs []nebula.VerifHSKL, k uint64) ([]uint64, bool) {
		for _, e := range xs {
			if e.K == k {
				return e.L, true
			}
		}
		return nil, false
	}
	var s []string
	for _, e := range cur {
		if l, ok := get(old, e.K); !ok || !hsU64Eq(l, e.L) {
			s = append(s, hx.Tuple(hx.N(e.K), hx.Some(hx.NList(e.L))))
		}
	}
	for _, e := range old {
		if _, ok := get(cur, e.K); !ok {
			s = append(s, hx.Tuple(hx.N(e.K), "None"))
		}
	}
	return hx.List(s)
}

func hsInfoLit(h nebula.VerifHSInfo) string {
	return hx.Tuple(hx.N(h.ID), hx.App("mkHI", hx.NList(h.Addrs), hx.N(uint64(h.Local)), hx.N(uint64(h.Remote)), hx.NList(hsU32s(h.Relays))))
}

func hsInfoEq(a, b nebula.VerifHSInfo) bool {
	if a.Local != b.Local || a.Remote != b.Remote || !hsU64Eq(a.Addrs, b.Addrs) || len(a.Relays) != len(b.Relays) {
		return false
	}
	for i := range a.Relays {
		if a.Relays[i] != b.Relays[i] {
			return false
		}
	}
	return true
}

func hsTunnelLit(t nebula.VerifHSTunnel) string {
	rem := "None"
	if t.HasRemote {
		rem = hx.Some(hx.N(t.Remote))
	}
	return hx.Tuple(hx.N(t.ID), hx.App("mkHX", hx.Bool(t.Initiator), hx.N(t.Pkt0), hx.N(t.Time), rem))
}

func hsDumpLit(d nebula.VerifHSDump) string {
	is := make([]string, len(d.Infos))
	for i, hi := range d.Infos {
		is[i] = hsInfoLit(hi)
	}
	return hx.App("mkSt", hx.List(is), hsKVLit(d.Hosts), hsKLLit(d.More), hsKVLit(d.Indexes), hsKVLit(d.Remote), hsKVLit(d.Relays),
		hsKVLit(d.PVpn), hsKVLit(d.PIdx), "[]")
}

// ---- one history --------------------------------------------------------------------------------------

type hsPeer struct {
	num   int      // shim peer number
	addrs []uint64 // certificate addresses in certificate order
	v1      bool
	self    bool
	selfPos string // where the (last) own address sits in the certificate: self-first / self-mid / self-last
}

type hsPkt struct {
	id   uint64
	peer int // index into peers
	ridx uint32
	t    uint64
}

type hsHist struct {
	c       *hx.Ctx
	w       *nebula.VerifHSWorld
	my      []uint64
	pref    bool
	peers   []hsPeer
	pkts    []hsPkt
	prev    nebula.VerifHSDump
	infos   map[uint64]nebula.VerifHSInfo
	tunnels map[uint64]nebula.VerifHSTunnel
	blocked map[uint64][]uint64
	created uint64 // ids 1..created exist
	steps   []string
	ops     []any
	feat    map[string]bool
	space   int
	maxT    uint64
	maxRel  uint64 // largest relative peer time handed out so far
	tmode   int    // peer clocks: 0 behind the responder's, 1 ahead of it, 2 mixed
	forged  []uint64 // payload numbers that are altered copies of a captured genuine stage 1
	certs   string   // which certificates the node holds / initiating version
	v4only  bool     // the node holds a v1 certificate only: it cannot initiate to IPv6 addresses, the peers are IPv4
}

func newHsHist(c *hx.Ctx, my []uint64, pref bool, space int) *hsHist {
	return newHsHistCerts(c, nebula.VerifHSConfig{MyAddrs: my, Preferred: pref}, space)
}

// newHsHistCerts: the node's certificates are given by cfg (v1 only / v2 only / both, initiating version); the model's
// own-address set is every address of every certificate the node holds, the node's own tables are built by pki.go.
func newHsHistCerts(c *hx.Ctx, cfg nebula.VerifHSConfig, space int) *hsHist {
	w := nebula.VerifHSNewWorld(cfg)
	my, pref := w.OwnAddrs(), cfg.Preferred
	h := &hsHist{certs: hsCertsLabel(cfg), c: c, w: w, my: my, pref: pref, infos: map[uint64]nebula.VerifHSInfo{}, tunnels: map[uint64]nebula.VerifHSTunnel{},
		blocked: map[uint64][]uint64{}, feat: map[string]bool{}, space: space}
	h.v4only = cfg.NoV2
	return h
}

func hsCertsLabel(cfg nebula.VerifHSConfig) string {
	s := "v1+v2"
	switch {
	case cfg.NoV2:
		s = "v1"
	case cfg.NoV1:
		s = "v2"
	}
	if cfg.InitiateV1 {
		return s + "/init1"
	}
	return s + "/init2"
}

func (h *hsHist) addPeer(version int, addrs []nebula.VerifHSPeerAddr) int {
	n := h.w.NewPeer(version, addrs)
	p := hsPeer{num: n, addrs: h.w.PeerAddrs(n), v1: version == 1}
	for i, a := range p.addrs {
		for _, m := range h.my {
			if a == m {
				p.self = true
				switch {
				case i == 0:
					p.selfPos = "self-first"
				case i == len(p.addrs)-1:
					p.selfPos = "self-last"
				default:
					p.selfPos = "self-mid"
				}
			}
		}
	}
	h.peers = append(h.peers, p)
	return len(h.peers) - 1
}

func (h *hsHist) cfgLit() string {
	var pref []uint64
	if h.pref {
		for u := uint64(100); u < 104; u++ {
			pref = append(pref, u)
		}
	}
	return hx.App("mkCfg", hx.NList(h.my), hx.NList(pref))
}

func hsOutLit(o nebula.VerifHSOut) (string, bool) {
	switch o.Kind {
	case nebula.VerifHSOutStage0:
		return "", false
	case nebula.VerifHSOutStage2:
		return hx.App("OStage2", hx.N(o.X), hx.N(o.U)), true
	case nebula.VerifHSOutTest:
		return hx.App("OTest", hx.N(uint64(o.R)), hx.N(o.U)), true
	case nebula.VerifHSOutClose:
		return hx.App("OClose", hx.N(uint64(o.R)), hx.N(o.U)), true
	}
	return hx.App("OTest", hx.N(nebula.VerifHSUnknown), hx.N(nebula.VerifHSUnknown)), true
}

// record finishes a step: outputs, dump, deltas, literal.
func (h *hsHist) record(opLit string, desc any) {
	outs := h.w.TakeOutputs()
	var ol []string
	for _, o := range outs {
		if l, ok := hsOutLit(o); ok {
			ol = append(ol, l)
		}
		switch o.Kind {
		case nebula.VerifHSOutStage2:
			if o.X <= h.created {
				h.feat["resend"] = true
			}
		case nebula.VerifHSOutTest:
			h.feat["test"] = true
		case nebula.VerifHSOutClose:
			h.feat["wrong"] = true
		}
	}
	d := h.w.Dump()
	var dinfos, dhxs, dblk []string
	for _, hi := range d.Infos {
		old, ok := h.infos[hi.ID]
		if !ok || !hsInfoEq(old, hi) {
			dinfos = append(dinfos, hsInfoLit(hi))
			h.infos[hi.ID] = hi
		}
		if hi.ID > h.created && hi.ID != nebula.VerifHSUnknown {
			h.created = hi.ID
		}
	}
	for _, t := range d.Tunnels {
		old, ok := h.tunnels[t.ID]
		if !ok || old != t {
			dhxs = append(dhxs, hsTunnelLit(t))
			h.tunnels[t.ID] = t
		}
		if t.Time > h.maxT {
			h.maxT = t.Time
		}
	}
	for _, b := range d.Blocked {
		old, ok := h.blocked[b.ID]
		if !ok || !hsU64Eq(old, b.Blocked) {
			dblk = append(dblk, hx.Tuple(hx.N(b.ID), hx.NList(b.Blocked)))
			h.blocked[b.ID] = b.Blocked
		}
	}
	if len(d.Indexes) < len(h.prev.Indexes) || (len(d.Indexes) == len(h.prev.Indexes) && hsKVDelta(h.prev.Indexes, d.Indexes) != "[]") {
		if !strings.HasPrefix(opLit, "(DelMain") {
			h.feat["evict"] = true
		}
	}
	if len(d.More) > 0 {
		h.feat["multi"] = true
	}
	p := h.prev
	h.steps = append(h.steps, hx.App("mkObs", opLit, hx.List(ol), hx.List(dinfos), hsKVDelta(p.Hosts, d.Hosts), hsKLDelta(p.More, d.More),
		hsKVDelta(p.Indexes, d.Indexes), hsKVDelta(p.Remote, d.Remote), hsKVDelta(p.Relays, d.Relays), hsKVDelta(p.PVpn, d.PVpn),
		hsKVDelta(p.PIdx, d.PIdx), hx.List(dhxs), hx.List(dblk)))
	h.ops = append(h.ops, desc)
	h.prev = d
}

// ---- operations ---------------------------------------------------------------------------------------

func (h *hsHist) opStart(a uint64) {
	h.w.Start(a)
	h.record(hx.App("Start", hx.N(a)), []any{"start", a})
}

func (h *hsHist) opAlloc(id uint64, script []uint32) {
	if !h.w.Known(id) || !h.w.AllocApplicable(id) {
		h.record(hx.App("Alloc", hx.N(id), hx.NList(hsU32s(script))), []any{"alloc", id, hsU32s(script), "n/a"})
		return
	}
	served := h.w.Alloc(id, script)
	if len(served) > 2 {
		h.feat["collide"] = true
	}
	h.record(hx.App("Alloc", hx.N(id), hx.NList(hsU32s(served))), []any{"alloc", id, hsU32s(served)})
}

func (h *hsHist) opStage2(id uint64, peer int, ridx uint32, t, v uint64) {
	p := h.peers[peer]
	lit := hx.App("InitComplete", hx.N(id), hx.NList(p.addrs), hx.N(uint64(ridx)), hx.N(t), hx.N(v))
	desc := []any{"stage2", id, p.addrs, ridx, t, v}
	if h.w.Known(id) && h.w.Stage2Applicable(id) {
		if p.self {
			h.feat["self"] = true
			h.feat[p.selfPos] = true
		}
		h.w.DeliverStage2(id, p.num, ridx, t, v)
	}
	h.record(lit, desc)
}

// opStage1 delivers payload number pk (index into h.pkts) from underlay v.
func (h *hsHist) opStage1(pk int, v uint64, script []uint32) {
	q := h.pkts[pk]
	p := h.peers[q.peer]
	if p.self {
		h.feat["self"] = true
		h.feat[p.selfPos] = true
	}
	served := h.w.DeliverStage1(q.id, v, script)
	h.record(hx.App("RespStage1", hx.N(q.id), hx.NList(hsU32s(served)), hx.N(uint64(q.ridx)), hx.N(q.t), hx.NList(p.addrs), hx.N(v)),
		[]any{"stage1", q.id, hsU32s(served), q.ridx, q.t, p.addrs, v})
}

// alterPkt: an attacker's copy of captured payload pk with the peer-reported time rewritten to t.
func (h *hsHist) alterPkt(pk int, t uint64) int {
	q := h.pkts[pk]
	id := h.w.AlterStage1Time(q.id, t)
	h.pkts = append(h.pkts, hsPkt{id: id, peer: q.peer, ridx: q.ridx, t: t})
	h.forged = append(h.forged, id)
	return len(h.pkts) - 1
}

func (h *hsHist) newPkt(peer int, ridx uint32, t uint64) int {
	id := h.w.NewStage1(h.peers[peer].num, ridx, t)
	h.pkts = append(h.pkts, hsPkt{id: id, peer: peer, ridx: ridx, t: t})
	return len(h.pkts) - 1
}

func (h *hsHist) opDelPending(id uint64) {
	if h.w.Known(id) {
		h.w.DelPending(id)
	}
	h.record(hx.App("DelPending", hx.N(id)), []any{"delpending", id})
}

func (h *hsHist) opDelMain(id uint64) {
	if h.w.Known(id) {
		h.w.DelMain(id)
	}
	h.record(hx.App("DelMain", hx.N(id)), []any{"delmain", id})
}

func (h *hsHist) opPromote(id uint64) {
	if h.w.Known(id) {
		h.w.Promote(id)
	}
	h.record(hx.App("Promote", hx.N(id)), []any{"promote", id})
}

func (h *hsHist) opTimeout(a uint64) {
	h.w.Timeout(a)
	h.record(hx.App("Tick", hx.N(a)), []any{"timeout", a})
}

// ---- random choices -----------------------------------------------------------------------------------

func (h *hsHist) liveIDs() []uint64 {
	var r []uint64
	for _, e := range h.prev.Indexes {
		r = append(r, e.V)
	}
	sort.Slice(r, func(i, j int) bool { return r[i] < r[j] })
	return r
}

func (h *hsHist) pendIDs() []uint64 {
	var r []uint64
	for _, e := range h.prev.PVpn {
		r = append(r, e.V)
	}
	sort.Slice(r, func(i, j int) bool { return r[i] < r[j] })
	return r
}

// pending hostinfos that have built their stage 0 (a stage 2 can be delivered to them)
func (h *hsHist) readyPend() []uint64 {
	var r []uint64
	for _, id := range h.pendIDs() {
		if h.w.Stage2Applicable(id) {
			r = append(r, id)
		}
	}
	return r
}

func (h *hsHist) anyID(wLive, wPend, wAny int) uint64 {
	if h.created == 0 {
		return 1
	}
	r := h.c.Intn(wLive + wPend + wAny)
	var xs []uint64
	switch {
	case r < wLive:
		xs = h.liveIDs()
	case r < wLive+wPend:
		xs = h.pendIDs()
	}
	if len(xs) == 0 {
		return 1 + uint64(h.c.Intn(int(h.created)+1)) // may be one past the last id: unknown
	}
	return xs[h.c.Intn(len(xs))]
}

func (h *hsHist) script() []uint32 {
	var held []uint32
	for _, e := range h.prev.Indexes {
		held = append(held, uint32(e.K))
	}
	for _, e := range h.prev.PIdx {
		held = append(held, uint32(e.K))
	}
	sort.Slice(held, func(i, j int) bool { return held[i] < held[j] })
	n := 1 + h.c.Intn(3)
	out := make([]uint32, 0, n)
	for len(out) < n {
		r := h.c.Intn(100)
		switch {
		case r < 10:
			out = append(out, 0)
		case r < 22 && len(held) > 0:
			out = append(out, held[h.c.Intn(len(held))])
		case r < 26:
			out = append(out, uint32(h.c.EdgeU64(32)))
		default:
			out = append(out, uint32(1+h.c.Intn(h.space)))
		}
	}
	return out
}

func (h *hsHist) ridx() uint32 {
	if h.c.Chance(0.1) {
		r := uint32(h.c.EdgeU64(32))
		if r != 0 {
			return r
		}
	}
	return uint32(1 + h.c.Intn(6)) // small space: RemoteIndexes shadowing between peers
}

// hsFuture: 2200-01-01 in Unix nanoseconds - a peer clock far ahead of the responder's. The harness never derives a
// peer time from time.Now() and never clamps it: the peer-reported time is an input.
const hsFuture = uint64(7258118400) * 1000000000

// time: a peer-reported handshake time around the ones already used in this history, so that older / equal / newer
// all occur; in the responder's past (small numbers), in its future (hsFuture + small numbers), or mixed.
func (h *hsHist) time() uint64 {
	if h.c.Chance(0.04) {
		return 0
	}
	if h.c.Chance(0.01) {
		return ^uint64(0)
	}
	rel := uint64(h.c.Intn(int(h.maxRel) + 3))
	if rel > h.maxRel {
		h.maxRel = rel
	}
	switch h.tmode {
	case 1:
		return hsFuture + rel
	case 2:
		if h.c.Chance(0.5) {
			return hsFuture + rel
		}
	}
	return rel
}

func (h *hsHist) underlay() uint64 {
	if h.c.Chance(0.4) {
		return 100 + uint64(h.c.Intn(3))
	}
	return 1 + uint64(h.c.Intn(3))
}

// address pool of the peers: IPv4 below and above my IPv4 address 5, IPv6 above my IPv6 address 1001
var hsPool = []uint64{3, 4, 6, 8, 9, 1003, 1004}

func (h *hsHist) isMine(a uint64) bool {
	for _, m := range h.my {
		if a == m {
			return true
		}
	}
	return false
}

func (h *hsHist) pool() []uint64 {
	var r []uint64
	for _, a := range hsPool {
		if !h.isMine(a) && !(h.v4only && a >= 1000) {
			r = append(r, a)
		}
	}
	return r
}

func (h *hsHist) poolAddr() uint64 {
	p := h.pool()
	return p[h.c.Intn(len(p))]
}

func (h *hsHist) makePeers() {
	n := 4 + h.c.Intn(3)
	for i := 0; i < n; i++ {
		if h.c.Chance(0.3) {
			h.addPeer(1, hsA([]uint64{3, 4, 6, 8}[h.c.Intn(4)])) // v1: one IPv4 network
			continue
		}
		k := 1 + h.c.Intn(3)
		seen := map[string]bool{}
		var addrs []nebula.VerifHSPeerAddr
		for len(addrs) < k {
			x := h.poolAddr()
			a := nebula.VerifHSPeerAddr{Addr: x, Bits: hsBits(x, h.c.Intn(3))}
			key := fmt.Sprintf("%d/%d", a.Addr, a.Bits)
			if !seen[key] {
				seen[key] = true
				addrs = append(addrs, a)
			}
		}
		h.addPeer(2, addrs)
	}
	// a peer whose certificate overlaps the hot peer's first address at a non-primary index: a smaller address first
	if first := h.peers[0].addrs[0]; first > 3 && first < 1000 {
		h.addPeer(2, hsAs(3, first))
	} else if first >= 1000 && !h.isMine(4) {
		h.addPeer(2, hsAs(4, first))
	}
	// peers claiming one of my addresses, at every position of the certificate: alone, first, in the middle, last.
	// The certificate sorts its networks (IPv4 before IPv6, ascending), so the position is decided by the other
	// addresses: smaller ones come before mine, larger ones after.
	for _, m := range h.my {
		var smaller, larger []uint64
		for _, a := range h.pool() {
			if (a < 1000) == (m < 1000) && a < m || (a < 1000 && m >= 1000) {
				smaller = append(smaller, a)
			} else {
				larger = append(larger, a)
			}
		}
		pick := func(xs []uint64) uint64 { return xs[h.c.Intn(len(xs))] }
		switch h.c.Intn(4) {
		case 0:
			h.addPeer(2, hsAs(m))
		case 1:
			if len(larger) > 0 {
				h.addPeer(2, hsAs(m, pick(larger)))
			}
		case 2:
			if len(smaller) > 0 && len(larger) > 0 {
				h.addPeer(2, hsAs(pick(smaller), m, pick(larger)))
			}
		case 3:
			if len(smaller) > 0 {
				h.addPeer(2, hsAs(pick(smaller), m))
			}
		}
		// and always one with my address NOT first (the position a first-address-only check would miss)
		if len(smaller) > 0 {
			if len(larger) > 0 && h.c.Chance(0.5) {
				h.addPeer(2, hsAs(pick(smaller), m, pick(larger)))
			} else {
				h.addPeer(2, hsAs(pick(smaller), m))
			}
		}
	}
}

func (h *hsHist) pickPeer(selfOK bool) int {
	for {
		i := h.c.Intn(len(h.peers))
		if h.peers[i].self && !(selfOK && h.c.Chance(0.6)) {
			continue
		}
		return i
	}
}

func (h *hsHist) peerHolding(a uint64) (int, bool) {
	var c []int
	for i, p := range h.peers {
		if p.self {
			continue
		}
		for _, x := range p.addrs {
			if x == a {
				c = append(c, i)
				break
			}
		}
	}
	if len(c) == 0 {
		return 0, false
	}
	return c[h.c.Intn(len(c))], true
}

func (h *hsHist) randomOp() {
	w := []int{28, 18, 10, 6, 16, 4, 6, 7, 5} // stage1-new stage1-replay start alloc stage2 delpending delmain promote timeout
	tot := 0
	for _, x := range w {
		tot += x
	}
	r := h.c.Intn(tot)
	k := 0
	for r >= w[k] {
		r -= w[k]
		k++
	}
	switch k {
	case 0:
		var peer int
		if h.c.Chance(0.6) {
			peer = 0 // hot peer: re-handshakes and rotation on one address
			if h.peers[0].self {
				peer = h.pickPeer(false)
			}
		} else {
			peer = h.pickPeer(true)
		}
		pk := h.newPkt(peer, h.ridx(), h.time())
		h.opStage1(pk, h.underlay(), h.script())
	case 1:
		if len(h.pkts) == 0 {
			h.opStart(h.peers[0].addrs[0])
			return
		}
		// prefer payloads whose tunnel is still held
		var held []int
		for i, q := range h.pkts {
			for _, t := range h.prev.Indexes {
				if tt, ok := h.tunnels[t.V]; ok && tt.Pkt0 == q.id {
					held = append(held, i)
				}
			}
		}
		pk := h.c.Intn(len(h.pkts))
		if len(held) > 0 && h.c.Chance(0.75) {
			pk = held[h.c.Intn(len(held))]
		}
		h.opStage1(pk, h.underlay(), h.script())
	case 2:
		p := h.peers[h.pickPeer(true)]
		a := p.addrs[h.c.Intn(len(p.addrs))]
		h.opStart(a)
		if id, ok := hsKVGet(h.prev.PVpn, a); ok && h.c.Chance(0.6) {
			h.opAlloc(id, h.script())
		}
	case 3:
		h.opAlloc(h.anyID(1, 8, 1), h.script())
	case 4:
		id := h.anyID(1, 10, 1)
		if ready := h.readyPend(); len(ready) > 0 && h.c.Chance(0.8) {
			id = ready[h.c.Intn(len(ready))]
		}
		var peer int
		hi, ok := h.infos[id]
		r := h.c.Intn(100)
		if ok && len(hi.Addrs) > 0 && r < 62 {
			if p, found := h.peerHolding(hi.Addrs[0]); found {
				peer = p
			} else {
				peer = h.pickPeer(false)
			}
		} else if r < 80 {
			peer = h.pickPeer(false) // most likely a wrong responder
		} else if ok && len(hi.Addrs) > 0 {
			// a host claiming one of my addresses, preferably one whose certificate also lists the address we asked for
			peer = h.pickPeer(true)
			for i, p := range h.peers {
				if p.self && h.c.Chance(0.5) {
					for _, a := range p.addrs {
						if a == hi.Addrs[0] {
							peer = i
						}
					}
				}
			}
		} else {
			peer = h.pickPeer(true)
		}
		h.opStage2(id, peer, h.ridx(), h.time(), h.underlay())
	case 5:
		h.opDelPending(h.anyID(1, 6, 2))
	case 6:
		h.opDelMain(h.anyID(6, 1, 2))
	case 7:
		h.opPromote(h.anyID(6, 1, 2))
	case 8:
		var as []uint64
		for _, e := range h.prev.PVpn {
			as = append(as, e.K)
		}
		if len(as) == 0 {
			as = []uint64{3}
		}
		h.opTimeout(as[h.c.Intn(len(as))])
	}
}

func (h *hsHist) kind() string {
	var fs []string
	for _, f := range []string{"resend", "wrong", "self-first", "self-mid", "self-last", "evict", "collide", "test"} {
		if h.feat[f] {
			fs = append(fs, f)
		}
	}
	if len(fs) == 0 {
		return "hist"
	}
	return "hist+" + strings.Join(fs, "+")
}

// emitForged emits the history under the reading "a replayed - possibly altered - first message never replaces the
// primary" (known finding F27): the case carries the payload numbers that are altered copies.
func (h *hsHist) emitForged(cw *hx.CaseWriter, label string) {
	var peers [][]uint64
	for _, p := range h.peers {
		peers = append(peers, p.addrs)
	}
	cw.Add(hx.App("CHsF", h.cfgLit(), hx.NList(h.forged), hx.List(h.steps), hsDumpLit(h.prev)), label, true,
		map[string]any{"my": h.my, "preferred": h.pref, "peers": peers, "ops": h.ops, "altered_stage1": h.forged})
}

func (h *hsHist) emit(cw *hx.CaseWriter, label string) {
	n := 0
	for _, f := range []string{"resend", "wrong", "self", "evict", "collide", "test", "multi"} {
		if h.feat[f] {
			n++
		}
	}
	kind := label
	if kind == "" {
		kind = h.kind()
	}
	var peers [][]uint64
	for _, p := range h.peers {
		peers = append(peers, p.addrs)
	}
	cw.Add(hx.App("CHs", h.cfgLit(), hx.List(h.steps), hsDumpLit(h.prev)), kind, n >= 2,
		map[string]any{"my": h.my, "certificates": h.certs, "preferred": h.pref, "peers": peers, "ops": h.ops,
			"peer_clock": []string{"past", "future", "mixed"}[h.tmode]})
}

// ---- fixed histories (corpus / boundaries), emitted first ---------------------------------------------

func hsBits(a uint64, k int) int {
	if a >= 1000 {
		return []int{64, 56, 48}[k%3]
	}
	return []int{8, 16, 24}[k%3]
}

func hsA(a uint64) []nebula.VerifHSPeerAddr { return []nebula.VerifHSPeerAddr{{Addr: a, Bits: hsBits(a, 0)}} }

// hsAs: a certificate with the given addresses (the certificate sorts them: IPv4 before IPv6, ascending)
func hsAs(as ...uint64) []nebula.VerifHSPeerAddr {
	var r []nebula.VerifHSPeerAddr
	for _, a := range as {
		r = append(r, nebula.VerifHSPeerAddr{Addr: a, Bits: hsBits(a, 0)})
	}
	return r
}

// hsForgedWitness: known finding F27 on the real code. The first message of Noise IX is not authenticated when the
// responder acts on it; an attacker rewrites the peer-reported time of a captured stage 1 (no key needed) and sends
// it from its own address: it is taken as a newer handshake - a new tunnel for the peer becomes primary with the
// attacker's address as remote; five altered copies evict the genuine tunnel; a time in the future makes the peer's
// genuine later handshake be refused as too old.
func hsForgedWitness(c *hx.Ctx) *hsHist {
	h := newHsHist(c, []uint64{1}, false, 60)
	p := h.addPeer(2, hsA(3))
	genuine := h.newPkt(p, 7, 5)
	h.opStage1(genuine, 1, []uint32{10}) // the genuine handshake: tunnel 1
	h.opStage1(h.alterPkt(genuine, 6), 4, []uint32{11}) // altered copy from the attacker's address 4: replaces the primary
	for i := 0; i < 4; i++ {
		h.opStage1(h.alterPkt(genuine, uint64(7+i)), 4, []uint32{uint32(12 + i)}) // the fifth evicts the genuine tunnel
	}
	h.opStage1(h.alterPkt(genuine, 1000), 4, []uint32{20})
	h.opStage1(h.newPkt(p, 8, 50), 1, []uint32{21}) // the peer's genuine re-handshake (time 50 < 1000): refused as too old
	return h
}

func hsCorpus(c *hx.Ctx, cw *hx.CaseWriter) {
	max := int(nebula.VerifHSMaxHostInfosPerVpnIp)
	// 0. the F27 history judged as an ordinary history (model against implementation, the C09/C10 specifications as proved)
	hsForgedWitness(c).emit(cw, "corpus-altered-stage1")
	// 1. replay right after completion, after rotation to the per-address limit, and after the tunnel was evicted
	{
		h := newHsHist(c, []uint64{1}, false, 60)
		p := h.addPeer(2, hsA(3))
		first := h.newPkt(p, 1, 5)
		h.opStage1(first, 1, []uint32{10})
		h.opStage1(first, 2, []uint32{11}) // replay: resend only
		var pks []int
		for i := 0; i < max-1; i++ {
			pk := h.newPkt(p, uint32(2+i), uint64(6+i))
			pks = append(pks, pk)
			h.opStage1(pk, 1, []uint32{uint32(20 + i)})
		}
		h.opStage1(first, 3, []uint32{12}) // still held (oldest of five): resend, not primary
		h.opStage1(pks[1], 1, []uint32{13})
		last := h.newPkt(p, 9, 20)
		h.opStage1(last, 1, []uint32{30})  // evicts the first tunnel
		h.opStage1(first, 1, []uint32{14}) // no longer held and older than the primary: refused as too old
		h.opStage1(last, 1, []uint32{15})
		h.emit(cw, "corpus-replay-rotation")
	}
	// 2. time order against a responder primary (older, equal, newer) and against an initiator primary
	{
		h := newHsHist(c, []uint64{1}, false, 60)
		p := h.addPeer(2, hsA(3))
		h.opStage1(h.newPkt(p, 1, 10), 1, []uint32{10})
		h.opStage1(h.newPkt(p, 2, 9), 1, []uint32{11})  // older: refused
		h.opStage1(h.newPkt(p, 3, 10), 1, []uint32{12}) // equal: refused
		h.opStage1(h.newPkt(p, 4, 11), 1, []uint32{13}) // newer: taken
		h.opStage1(h.newPkt(p, 5, 0), 1, []uint32{14})  // time 0: refused
		h.opStart(3)
		h.opAlloc(3, []uint32{40})
		h.opStage2(3, p, 6, 50, 1)                      // we initiated: primary with time 50
		h.opStage1(h.newPkt(p, 7, 2), 1, []uint32{15})  // older than an initiator primary: taken all the same
		h.opStage1(h.newPkt(p, 8, 1), 1, []uint32{16})  // now the primary is a responder tunnel with time 2: refused
		h.emit(cw, "corpus-time-order")
	}
	// 2b. the same with peer clocks AHEAD of the responder's (peer times in the responder's future, up to 2^64-1) and
	//     mixed: a newer stage 1 is accepted first, then an older one (smaller peer time, different bytes) arrives later:
	//     it must be refused as too old whatever the responder's own clock says; the stored time is the peer's
	for _, base := range []uint64{hsFuture, ^uint64(0) - 20} {
		h := newHsHist(c, []uint64{1}, false, 60)
		h.tmode = 1
		p := h.addPeer(2, hsA(3))
		h.opStage1(h.newPkt(p, 1, base+10), 1, []uint32{10}) // accepted: primary with peer time base+10
		h.opStage1(h.newPkt(p, 2, base+5), 2, []uint32{11})  // older, arrives later: refused
		h.opStage1(h.newPkt(p, 3, base+10), 1, []uint32{12}) // equal: refused
		h.opStage1(h.newPkt(p, 4, base+9), 3, []uint32{13})  // older again
		h.opStage1(h.newPkt(p, 5, base+11), 1, []uint32{14}) // newer: taken
		h.opStage1(h.newPkt(p, 6, base+10), 1, []uint32{15}) // older than the new primary: refused
		h.opStage1(h.newPkt(p, 7, 7), 1, []uint32{16})       // a time in the responder's past: older, refused
		h.emit(cw, "corpus-time-order-future")
	}
	{
		h := newHsHist(c, []uint64{1}, false, 60)
		h.tmode = 2
		p := h.addPeer(2, hsA(3))
		q := h.addPeer(2, hsA(4))
		h.opStage1(h.newPkt(p, 1, 100), 1, []uint32{10})          // past clock
		h.opStage1(h.newPkt(p, 2, hsFuture+1), 1, []uint32{11})   // future: newer, taken
		h.opStage1(h.newPkt(p, 3, 200), 1, []uint32{12})          // past again: older, refused
		h.opStage1(h.newPkt(p, 4, hsFuture), 1, []uint32{13})     // future but older than the primary: refused
		h.opStage1(h.newPkt(q, 5, hsFuture+50), 1, []uint32{14})  // another peer, far ahead
		h.opStage1(h.newPkt(q, 6, hsFuture+49), 2, []uint32{15})  // its delayed older message: refused
		h.opDelMain(3)
		h.opStage1(h.newPkt(q, 7, hsFuture+49), 2, []uint32{16})  // tunnel gone: taken
		h.emit(cw, "corpus-time-order-mixed")
	}
	// 3. wrong responder twice (second underlay, then the same again), then the right host; self certificates
	{
		h := newHsHist(c, []uint64{1, 2}, false, 60)
		right := h.addPeer(2, hsA(3))
		wrong := h.addPeer(2, hsA(4))
		self1 := h.addPeer(2, hsA(1))
		self2 := h.addPeer(2, []nebula.VerifHSPeerAddr{{Addr: 3, Bits: 16}, {Addr: 2, Bits: 24}})
		h.opStart(3)
		h.opAlloc(1, []uint32{0, 5})
		h.opStage2(1, wrong, 9, 1, 2) // wrong host at underlay 2: restart as hostinfo 2, blocked [2]
		h.opAlloc(2, []uint32{5})     // index 5 is free again
		h.opStage2(2, wrong, 9, 2, 3) // blocked [2;3]
		h.opAlloc(3, []uint32{6})
		h.opStage2(3, wrong, 9, 3, 2) // blocked stays [2;3]
		h.opAlloc(4, []uint32{7})
		h.opStage2(4, self2, 9, 4, 1) // a certificate that also names my second address: dropped, not restarted
		h.opStart(3)
		h.opAlloc(5, []uint32{8})
		h.opStage2(5, right, 9, 5, 1) // completes
		h.opStage1(h.newPkt(self1, 1, 9), 1, []uint32{20}) // responder side: refused
		h.opStage1(h.newPkt(self2, 1, 9), 1, []uint32{21})
		h.opStage2(1, right, 9, 6, 1) // late reply for a dropped handshake: nothing
		h.emit(cw, "corpus-wrong-responder-self")
	}
	// 4. multi-address certificates: lists of both addresses, replay found through the first address only,
	//    delete then replay creates a fresh tunnel, v1 peer on an address of a v2 peer
	{
		h := newHsHist(c, []uint64{1}, false, 60)
		ab := h.addPeer(2, []nebula.VerifHSPeerAddr{{Addr: 3, Bits: 8}, {Addr: 4, Bits: 8}})
		b1 := h.addPeer(1, hsA(4))
		dup := h.addPeer(2, []nebula.VerifHSPeerAddr{{Addr: 5, Bits: 8}, {Addr: 5, Bits: 16}})
		p1 := h.newPkt(ab, 1, 5)
		h.opStage1(p1, 1, []uint32{10})
		p2 := h.newPkt(b1, 2, 3)
		h.opStage1(p2, 1, []uint32{11}) // primary for 4 is the [3;4] tunnel (time 5): older, refused
		p3 := h.newPkt(b1, 2, 7)
		h.opStage1(p3, 1, []uint32{12})
		h.opStage1(p1, 2, []uint32{13}) // replay of the [3;4] payload: found in the list of 3
		h.opDelMain(1)
		h.opStage1(p1, 2, []uint32{14}) // not held any more: a new tunnel
		h.opStage1(h.newPkt(dup, 3, 1), 1, []uint32{15})
		h.opPromote(2)
		h.opStage1(p3, 3, []uint32{16})
		h.emit(cw, "corpus-multi-address")
	}
	// 5. preferred ranges: a replay from a preferred underlay address moves the remote and triggers a test packet
	{
		h := newHsHist(c, []uint64{1}, true, 60)
		p := h.addPeer(2, hsA(3))
		pk := h.newPkt(p, 1, 5)
		h.opStage1(pk, 1, []uint32{10})
		h.opStage1(pk, 2, []uint32{11})   // not preferred: resend only
		h.opStage1(pk, 100, []uint32{12}) // preferred: remote moves, test + resend
		h.opStage1(pk, 101, []uint32{13}) // already on a preferred remote: resend only
		h.opStage1(h.newPkt(p, 2, 4), 1, []uint32{14}) // too old: test packet to the (moved) remote
		h.emit(cw, "corpus-preferred")
	}
	// 6. responder index collisions with the main and the pending index map
	{
		h := newHsHist(c, []uint64{1}, false, 60)
		p := h.addPeer(2, hsA(3))
		q := h.addPeer(2, hsA(4))
		h.opStage1(h.newPkt(p, 1, 5), 1, []uint32{10})
		h.opStart(4)
		h.opAlloc(2, []uint32{10, 0, 11})
		h.opStage1(h.newPkt(q, 2, 5), 1, []uint32{10}) // collides with a main index
		h.opStage1(h.newPkt(q, 3, 5), 1, []uint32{11}) // collides with a pending index
		h.opStage1(h.newPkt(q, 4, 5), 1, []uint32{0, 12})
		h.opTimeout(4)
		h.opStage1(h.newPkt(q, 5, 6), 1, []uint32{11}) // free again
		h.emit(cw, "corpus-index-collision")
	}
}

// hsSelfCorpus: a node with an IPv4 and an IPv6 address (5 and 1001); peer certificates that list one of these at
// every position - alone, first, in the middle, last - next to addresses of their own; each is tried on the responder
// path (stage 1) and on the initiator path (stage 2 for a handshake started to one of the certificate's other
// addresses); then a certificate that overlaps another peer's address at a non-primary index.
func hsSelfCorpus(c *hx.Ctx, cw *hx.CaseWriter, wcfg nebula.VerifHSConfig, label string) {
	certs := [][]uint64{
		{5}, {5, 8}, {3, 5, 8}, {3, 5}, {3, 4, 5}, // my IPv4 address: alone, first, middle, last, last of three
		{1001}, {1001, 1003}, {6, 1001, 1003}, {6, 1001}, {3, 8, 1001}, // my IPv6 address: alone, first of the IPv6 part, middle, last
		{3, 5, 1001}, // both of mine
	}
	h := newHsHistCerts(c, wcfg, 60)
	good := h.addPeer(2, hsAs(3, 1004))
	h.opStage1(h.newPkt(good, 1, 5), 1, []uint32{10}) // an ordinary tunnel to compare with: [3; 1004]
	idx := uint32(20)
	for _, cert := range certs {
		p := h.addPeer(2, hsAs(cert...))
		h.opStage1(h.newPkt(p, 2, 9), 2, []uint32{idx}) // responder: refused
		idx++
		target := uint64(0)
		for _, a := range h.peers[p].addrs {
			if !h.isMine(a) {
				target = a
			}
		}
		if target == 0 {
			target = 9 // nothing but my addresses in the certificate: it answers a handshake to somebody else
		}
		h.opStart(target)
		if id, ok := hsKVGet(h.prev.PVpn, target); ok {
			h.opAlloc(id, []uint32{idx})
			idx++
			h.opStage2(id, p, 3, 9, 2) // initiator: dropped, not restarted, nothing installed
		}
	}
	// overlap with another peer's address at a non-primary index: [4; 1004] shares 1004 with the first peer
	over := h.addPeer(2, hsAs(4, 1004))
	h.opStage1(h.newPkt(over, 4, 1), 1, []uint32{idx})   // address 4 is new: installed although older than the tunnel holding 1004
	h.opStage1(h.newPkt(good, 5, 6), 1, []uint32{idx + 1}) // the first peer again: primary of 3 and 1004
	h.opStage1(h.newPkt(over, 6, 2), 1, []uint32{idx + 2})
	h.emit(cw, label)
}

func runHsmgr(c *hx.Ctx, check string) {
	cw := c.NewCaseWriter("From NV Require Import model.HostMap model.HsMgr corr.HsMgr_corr.", "HsMgr_corr.case", check, 10)
	if check == "HsMgr_corr.check_case10" {
		// first: the witness of known finding F27, judged under the reading it violates (code 2 expected)
		hsForgedWitness(c).emitForged(cw, "ix-responder-unauthenticated-msg1")
	}
	hsCorpus(c, cw)
	// the node holds a v1 certificate [5] and a v2 certificate [5; 1001] (the IPv6 address is certified by the v2 one
	// only) and initiates with version 2 / with version 1 (the default of pki.initiating_version); and a v2-only node
	hsSelfCorpus(c, cw, nebula.VerifHSConfig{MyAddrs: []uint64{5, 1001}}, "corpus-own-address-positions")
	hsSelfCorpus(c, cw, nebula.VerifHSConfig{MyAddrs: []uint64{5, 1001}, InitiateV1: true}, "corpus-own-address-positions-init-v1")
	hsSelfCorpus(c, cw, nebula.VerifHSConfig{MyAddrs: []uint64{5, 1001}, NoV1: true}, "corpus-own-address-positions-v2-only")
	for i := 0; i < c.N; i++ {
		my := [][]uint64{{1}, {1, 2}, {5}, {5, 7}, {5, 1001}, {4, 1001}, {5, 7, 1001}}[c.Intn(7)]
		// the certificates the node holds: v1 + v2 (the v2 one with extra addresses when there are several), v2 only,
		// v1 only (one IPv4 address), and which version it initiates with
		wcfg := nebula.VerifHSConfig{MyAddrs: my, Preferred: c.Chance(0.5), InitiateV1: c.Chance(0.5)}
		switch r := c.Intn(10); {
		case r < 2:
			wcfg.NoV1 = true
		case r < 3:
			wcfg.NoV2 = true
		}
		space := 40
		if c.Chance(0.3) {
			space = 6 + c.Intn(8)
		}
		h := newHsHistCerts(c, wcfg, space)
		h.tmode = c.Intn(3)
		h.makePeers()
		n := 35 + c.Intn(16)
		for j := 0; j < n; j++ {
			h.randomOp()
		}
		h.emit(cw, "")
	}
	cw.Close("operation histories of 35-50 handshake-manager operations on a node with one to three overlay addresses (IPv4 and IPv6) and " +
		"6-10 peers (v1 and v2 certificates, one to three IPv4/IPv6 addresses, overlapping between peers also at non-primary positions, one " +
		"address twice under different prefix lengths, and for every address of the node peers claiming it alone / first / in the middle / " +
		"last of their certificate): first deliveries and replays (75% of a payload whose tunnel is still held) of real Noise IX stage-1 messages " +
		"with peer times around the times in the hostmap, index candidates colliding with held indexes, senders inside and outside the " +
		"preferred range; initiator handshakes answered by the right host, a wrong host or a host claiming my address; deletes, promotions, " +
		"timeouts; preceded by fixed boundary histories; non-trivial = history exercising at least two of {resend, wrong responder, self " +
		"certificate, eviction, index collision, test packet, multi-tunnel address}; distinct by literal")
}

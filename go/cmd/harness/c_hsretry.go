//go:build comp_all || comp_hsmgr

package main

// Component hsretry (C32): histories of retry-side operations on a real HandshakeManager (overlay shim
// verif_hsmgr.go) with an explicit clock: StartHandshake / GetOrHandshake + cachePacket, lighthouse triggers,
// NextOutboundHandshakeTimerTick(now), completion by the right host (queue replay through sendMessageNow and the
// real outbound firewall) and the wrong-responder restart. Built with the hsmgr component (shared shim).

import (
	"fmt"
	"strings"
	"time"

	nebula "github.com/slackhq/nebula"
	"verifharness/hx"
)

func init() {
	hx.Register("hsretry", runHsretry)
}

type hsrHist struct {
	c        *hx.Ctx
	w        *nebula.VerifHSWorld
	retries  int64
	interval time.Duration
	ports    []uint16
	base     time.Time
	now      int64 // ns since base
	right    map[uint64]int // address -> peer certified for it
	wrong    int
	steps    []string
	ops      []any
	feat     map[string]bool
	tag      uint32
	ridx     uint32
	maxQueue int
}

func newHsrHist(c *hx.Ctx, retries int64, interval time.Duration, ports []uint16) *hsrHist {
	w := nebula.VerifHSNewWorld(nebula.VerifHSConfig{MyAddrs: []uint64{1}, Retries: retries, TryInterval: interval, AllowPorts: ports})
	h := &hsrHist{c: c, w: w, retries: retries, interval: interval, ports: ports, base: time.Unix(1700000000, 0), right: map[uint64]int{},
		feat: map[string]bool{}}
	for a := uint64(3); a <= 6; a++ {
		h.right[a] = w.NewPeer(2, []nebula.VerifHSPeerAddr{{Addr: a, Bits: 8}})
	}
	h.wrong = w.NewPeer(2, []nebula.VerifHSPeerAddr{{Addr: 9, Bits: 8}})
	return h
}

func (h *hsrHist) cfgLit() string {
	var ps []uint64
	for _, p := range h.ports {
		ps = append(ps, uint64(p))
	}
	return hx.App("mkRC", hx.Z(int64(h.interval)), hx.Z(h.retries), hx.NList(ps))
}

func (h *hsrHist) record(opLit string, desc any) {
	outs := h.w.TakeOutputs()
	var ol []string
	for _, o := range outs {
		switch o.Kind {
		case nebula.VerifHSOutStage0:
			ol = append(ol, hx.App("RSend", hx.N(o.X), hx.N(o.U)))
			h.feat["send"] = true
		case nebula.VerifHSOutData:
			tag := uint64(nebula.VerifHSUnknown)
			if o.TagOK {
				tag = uint64(o.Tag)
			}
			ol = append(ol, hx.App("RData", hx.N(tag)))
			h.feat["release"] = true
		case nebula.VerifHSOutClose, nebula.VerifHSOutStage2:
			// the close-tunnel to a wrong responder and the responder's stage-2 reply are the subject of C09 / C10
		default:
			ol = append(ol, hx.App("RData", hx.N(nebula.VerifHSUnknown)))
		}
	}
	var pl []string
	for _, p := range h.w.Pending() {
		var q []string
		for i := range p.Queue {
			q = append(q, hx.App("mkPkt", hx.N(uint64(p.Queue[i])), hx.N(uint64(p.Ports[i]))))
		}
		if len(p.Queue) > h.maxQueue {
			h.maxQueue = len(p.Queue)
		}
		pl = append(pl, hx.Tuple(hx.N(p.Addr), hx.App("mkPE", hx.N(p.ID), hx.Z(p.Counter), hx.Bool(p.Ready), hx.List(q), "[]", "[]")))
	}
	h.steps = append(h.steps, hx.App("mkRObs", opLit, hx.List(ol), hx.List(pl), hx.NList(h.w.IndexOwners())))
	h.ops = append(h.ops, desc)
}

func (h *hsrHist) opStart(a uint64, remotes []uint64) {
	_, had := h.w.PendingID(a)
	h.w.StartWithRemotes(a, remotes)
	canon := remotes
	if !had {
		canon = h.w.Remotes(a)
	}
	h.record(hx.App("RStart", hx.N(a), hx.NList(canon)), []any{"start", a, canon})
}

func (h *hsrHist) opCache(a uint64, port uint16) {
	h.tag++
	pk := h.w.DataPacket(a, port, h.tag)
	if ready := h.w.Cache(a, pk); ready {
		panic("verif hsretry: a tunnel was ready")
	}
	h.record(hx.App("RCache", hx.N(a), hx.App("mkPkt", hx.N(uint64(h.tag)), hx.N(uint64(port)))), []any{"cache", a, h.tag, port})
}

func (h *hsrHist) opSetRemotes(a uint64, remotes []uint64) {
	canon := remotes
	if h.w.SetRemotes(a, remotes) {
		canon = h.w.Remotes(a)
	}
	h.record(hx.App("RSetRemotes", hx.N(a), hx.NList(canon)), []any{"remotes", a, canon})
}

func (h *hsrHist) opTrigger(a uint64) {
	h.w.Trigger(a)
	h.feat["trigger"] = true
	h.record(hx.App("RTrigger", hx.N(a)), []any{"trigger", a})
}

func (h *hsrHist) opTick(delta int64) {
	h.now += delta
	before := len(h.w.Pending())
	h.w.TimerTick(h.base.Add(time.Duration(h.now)))
	if len(h.w.Pending()) < before {
		h.feat["giveup"] = true
	}
	h.record(hx.App("RTick", hx.Z(h.now)), []any{"tick", h.now})
}

func (h *hsrHist) ready(a uint64) (uint64, bool) {
	id, ok := h.w.PendingID(a)
	if !ok || !h.w.Stage2Applicable(id) {
		return 0, false
	}
	return id, true
}

func (h *hsrHist) opComplete(a uint64) {
	if id, ok := h.ready(a); ok {
		h.w.DeliverStage2(id, h.right[a], 77, uint64(h.now), 1)
		h.w.DropMainTunnels() // this component follows pending handshakes only
		h.feat["complete"] = true
	}
	h.record(hx.App("RComplete", hx.N(a)), []any{"complete", a})
}

func (h *hsrHist) opWrong(a uint64, v uint64) {
	if id, ok := h.ready(a); ok {
		h.w.DeliverStage2(id, h.wrong, 78, uint64(h.now), v)
		h.feat["wrong"] = true
	}
	h.record(hx.App("RWrong", hx.N(a), hx.N(v)), []any{"wrong", a, v})
}

// queueAt arms the interleaving: inside the node's next log call with message msg, an inside packet for a goes
// through GetOrHandshake + cachePacket (what the tun reader does), on the goroutine that is inside
// continueHandshake / beginHandshake at that moment.
func (h *hsrHist) queueAt(msg string, a uint64, port uint16) string {
	h.tag++
	pk := h.w.DataPacket(a, port, h.tag)
	h.w.AtLog(msg, func() {
		if ready := h.w.Cache(a, pk); ready {
			panic("verif hsretry: a tunnel was ready inside the interleaving point")
		}
	})
	return hx.App("mkPkt", hx.N(uint64(h.tag)), hx.N(uint64(port)))
}

// opCompleteQ: stage 2 from the right host with a packet queued at the "Handshake message received" log line of
// continueHandshake (after the peer checks, before Complete).
func (h *hsrHist) opCompleteQ(a uint64, port uint16) {
	lit := h.queueAt(nebula.VerifHSLogReceived, a, port)
	if id, ok := h.ready(a); ok {
		h.w.DeliverStage2(id, h.right[a], 77, uint64(h.now), 1)
		if !h.w.LogHookFired() {
			panic("verif hsretry: the interleaving point was not reached")
		}
		h.w.DropMainTunnels()
		h.feat["complete"] = true
		h.feat["interleave"] = true
	}
	h.w.LogHookFired()
	h.record(hx.App("RCompleteQ", hx.N(a), lit), []any{"complete-q", a, h.tag, port})
}

// opWrongQ: stage 2 from a wrong host with a packet queued at the "Incorrect host responded" log line.
func (h *hsrHist) opWrongQ(a, v uint64, port uint16) {
	lit := h.queueAt(nebula.VerifHSLogIncorrectHost, a, port)
	if id, ok := h.ready(a); ok {
		h.w.DeliverStage2(id, h.wrong, 78, uint64(h.now), v)
		if !h.w.LogHookFired() {
			panic("verif hsretry: the interleaving point was not reached")
		}
		h.feat["wrong"] = true
		h.feat["interleave"] = true
	}
	h.w.LogHookFired()
	h.record(hx.App("RWrongQ", hx.N(a), hx.N(v), lit), []any{"wrong-q", a, v, h.tag, port})
}

// opRespQ: a stage 1 FROM the peer certified for a (this node is responder) with a packet for a queued at the
// "Handshake message received" log line of beginHandshake (before CheckAndComplete).
func (h *hsrHist) opRespQ(a uint64, port uint16) {
	lit := h.queueAt(nebula.VerifHSLogReceived, a, port)
	h.ridx++
	pk := h.w.NewStage1(h.right[a], 1000+h.ridx, uint64(h.now)+uint64(h.ridx))
	h.w.DeliverStage1Anon(pk, 1)
	if !h.w.LogHookFired() {
		panic("verif hsretry: the interleaving point was not reached")
	}
	h.w.DropMainTunnels()
	h.feat["interleave"] = true
	h.record(hx.App("RRespQ", hx.N(a), lit), []any{"resp-q", a, h.tag, port})
}

func (h *hsrHist) emit(cw *hx.CaseWriter, label string) {
	kind := label
	if kind == "" {
		var fs []string
		for _, f := range []string{"giveup", "complete", "wrong", "trigger", "release", "full", "interleave"} {
			if h.feat[f] {
				fs = append(fs, f)
			}
		}
		kind = "hist"
		if len(fs) > 0 {
			kind += "+" + strings.Join(fs, "+")
		}
	}
	n := 0
	for _, f := range []string{"giveup", "complete", "wrong", "trigger", "release", "full"} {
		if h.feat[f] {
			n++
		}
	}
	cw.Add(hx.App("CRetry", h.cfgLit(), hx.List(h.steps)), kind, n >= 2,
		map[string]any{"retries": h.retries, "interval_ns": int64(h.interval), "allow_ports": h.ports, "ops": h.ops})
}

func (h *hsrHist) remotes() []uint64 {
	n := h.c.Intn(4)
	seen := map[uint64]bool{}
	var r []uint64
	for len(r) < n {
		u := uint64(1 + h.c.Intn(5))
		if !seen[u] {
			seen[u] = true
			r = append(r, u)
		}
	}
	return r
}

func (h *hsrHist) port() uint16 { return []uint16{1000, 1001, 2000, 53}[h.c.Intn(4)] }

func (h *hsrHist) delta() int64 {
	i := int64(h.interval)
	switch r := h.c.Intn(100); {
	case r < 8:
		return 0
	case r < 20:
		return 1 + h.c.Rng.Int64N(i)
	case r < 55:
		return i
	case r < 65:
		return i + h.c.Rng.Int64N(i) - i/2
	case r < 90:
		return i * int64(1+h.c.Intn(4))
	case r < 97:
		return i*int64(h.retries+1) + h.c.Rng.Int64N(i)
	default:
		return i * int64(h.retries*h.retries+5) // longer than a revolution of the wheel
	}
}

func (h *hsrHist) randomOp() {
	a := uint64(3 + h.c.Intn(4))
	if h.c.Chance(0.5) {
		a = 3
	}
	switch r := h.c.Intn(100); {
	case r < 45:
		h.opTick(h.delta())
	case r < 55:
		h.opStart(a, h.remotes())
	case r < 75:
		k := 1
		if h.c.Chance(0.15) {
			k = 1 + h.c.Intn(40)
		}
		for i := 0; i < k; i++ {
			h.opCache(a, h.port())
		}
	case r < 82:
		h.opSetRemotes(a, h.remotes())
	case r < 88:
		h.opTrigger(a)
	case r < 91:
		h.opComplete(a)
	case r < 94:
		h.opCompleteQ(a, h.port())
	case r < 96:
		h.opWrongQ(a, uint64(1+h.c.Intn(5)), h.port())
	case r < 97:
		h.opRespQ(a, h.port())
	default:
		h.opWrong(a, uint64(1+h.c.Intn(5)))
	}
}

// ---- fixed histories ------------------------------------------------------------------------------------

func hsrCorpus(c *hx.Ctx, cw *hx.CaseWriter) {
	sec := time.Second
	// 1. every retry count 1..12: start, tick through all attempts one interval at a time, until the handshake is gone
	for r := int64(1); r <= 12; r++ {
		h := newHsrHist(c, r, sec, []uint16{1000})
		h.opTick(0)
		h.opStart(3, []uint64{1, 2})
		h.opCache(3, 1000)
		for i := int64(0); i < r*(r+1)/2+r+4; i++ {
			h.opTick(int64(sec))
		}
		h.opTick(int64(sec) * (r + 3))
		h.emit(cw, fmt.Sprintf("corpus-retries-%d", r))
	}
	// 2. the queue bound: 0, 1, 99, 100, 101, 150 packets, mixed ports, then completion (and completion of an empty queue)
	for _, n := range []int{0, 1, 99, 100, 101, 150} {
		h := newHsrHist(c, 10, 100*time.Millisecond, []uint16{1000, 2000})
		h.opTick(0)
		h.opStart(3, []uint64{1})
		for i := 0; i < n; i++ {
			h.opCache(3, []uint16{1000, 1001, 2000}[i%3])
		}
		if n >= 100 {
			h.feat["full"] = true
		}
		h.opTick(int64(100 * time.Millisecond))
		h.opTick(int64(100 * time.Millisecond))
		h.opComplete(3)
		h.opTick(int64(300 * time.Millisecond)) // the stale wheel entry finds nothing
		h.emit(cw, fmt.Sprintf("corpus-queue-%d", n))
	}
	// 3. completion at attempt j = 1..5, never; wrong responder keeps the queue and restarts the schedule (with the old
	//    wheel entry still turning)
	for j := 1; j <= 5; j++ {
		h := newHsrHist(c, 5, sec, []uint16{1000})
		h.opTick(0)
		h.opCache(4, 1000)
		h.opCache(4, 53)
		h.opSetRemotes(4, []uint64{1, 2, 3})
		for i := 0; i < j; i++ {
			h.opTick(int64(sec) * int64(i+1))
		}
		if j%2 == 1 {
			h.opWrong(4, 2)
			h.opCache(4, 1000)
			for i := 0; i < 4; i++ {
				h.opTick(int64(sec))
			}
		}
		h.opComplete(4)
		h.emit(cw, fmt.Sprintf("corpus-complete-at-%d", j))
	}
	// 4. lighthouse triggers: no new remotes (counts as an attempt, sends nothing), new remotes (sends, timer untouched)
	{
		h := newHsrHist(c, 4, sec, []uint16{1000})
		h.opTick(0)
		h.opStart(3, nil)
		h.opTrigger(3)
		h.opSetRemotes(3, []uint64{1})
		h.opTrigger(3)
		h.opTrigger(3)
		h.opTick(int64(sec))
		h.opTick(int64(sec))
		h.opTick(int64(sec) * 4)
		h.opTick(int64(sec) * 5)
		h.emit(cw, "corpus-trigger")
	}
	// 4b. the witnesses of props/C32.v on the real code: two triggers use up retries = 2; after a wrong-responder restart
	//     the timer entry of the abandoned attempt keeps turning and the restarted handshake transmits twice in one tick
	{
		h := newHsrHist(c, 2, 10*time.Millisecond, nil)
		h.opTick(0)
		h.opStart(3, []uint64{1})
		h.opTrigger(3)
		h.opTrigger(3)
		h.opTick(int64(20 * time.Millisecond))
		h.emit(cw, "corpus-witness-trigger")
	}
	{
		h := newHsrHist(c, 5, 10*time.Millisecond, nil)
		h.opTick(0)
		h.opStart(3, []uint64{1})
		h.opTick(int64(20 * time.Millisecond))
		h.opWrong(3, 2)
		h.opTick(int64(20 * time.Millisecond))
		h.opTick(int64(20 * time.Millisecond))
		h.emit(cw, "corpus-witness-stale-entry")
	}
	// 4c. the tun reader interleaved with the UDP reader at every log line between the receipt of a handshake message
	//     and Complete / the restart / CheckAndComplete, with 0, 1, 99 and 100 packets already queued (the interleaved
	//     packet is stored, or - queue full - dropped) and ports inside and outside the rule set
	for _, n := range []int{0, 1, 99, 100} {
		for _, port := range []uint16{1000, 53} {
			prep := func() *hsrHist {
				h := newHsrHist(c, 5, 100*time.Millisecond, []uint16{1000, 2000})
				h.opTick(0)
				h.opStart(3, []uint64{1})
				for i := 0; i < n; i++ {
					h.opCache(3, []uint16{1000, 1001, 2000}[i%3])
				}
				h.opTick(int64(100 * time.Millisecond))
				h.opTick(int64(100 * time.Millisecond))
				return h
			}
			{
				h := prep()
				h.opCompleteQ(3, port)
				h.opTick(int64(300 * time.Millisecond))
				h.emit(cw, "interleave-at-continue-received")
			}
			{
				h := prep()
				h.opWrongQ(3, 2, port)
				h.opTick(int64(100 * time.Millisecond))
				h.opTick(int64(100 * time.Millisecond))
				h.opCompleteQ(3, port)
				h.emit(cw, "interleave-at-incorrect-host")
			}
			{
				h := prep()
				h.opRespQ(3, port) // the pending initiator handshake keeps the packet
				h.opRespQ(4, port) // no handshake pending for 4: the packet starts one
				h.opTick(int64(100 * time.Millisecond))
				h.opTick(int64(100 * time.Millisecond))
				h.opComplete(3)
				h.opComplete(4)
				h.emit(cw, "interleave-at-begin-received")
			}
		}
	}
	// 5. irregular clock: sub-interval ticks, a gap longer than a revolution, interval not dividing the gaps
	{
		h := newHsrHist(c, 6, 7*time.Millisecond, []uint16{1000})
		h.opTick(0)
		h.opStart(3, []uint64{1})
		h.opStart(4, []uint64{2})
		for _, d := range []int64{1, 3000000, 3999999, 1, 7000000, 6999999, 14000001, 1, 500000000, 7000000, 7000000, 49000000, 1000000000} {
			h.opTick(d)
		}
		h.emit(cw, "corpus-clock")
	}
}

func runHsretry(c *hx.Ctx) {
	cw := c.NewCaseWriter("From NV Require Import model.Wheel model.HsRetry corr.HsRetry_corr.", "HsRetry_corr.case", "HsRetry_corr.check_case", 8)
	hsrCorpus(c, cw)
	intervals := []time.Duration{100 * time.Millisecond, time.Second, 7 * time.Millisecond, 250 * time.Millisecond, 1500 * time.Microsecond}
	for i := 0; i < c.N; i++ {
		r := int64(1 + c.Intn(12))
		ports := [][]uint16{{1000}, {1000, 2000}, nil, {53, 1001}}[c.Intn(4)]
		h := newHsrHist(c, r, intervals[c.Intn(len(intervals))], ports)
		h.opTick(0)
		n := 40 + c.Intn(30)
		for j := 0; j < n; j++ {
			h.randomOp()
		}
		if h.maxQueue >= 100 {
			h.feat["full"] = true
		}
		h.emit(cw, "")
	}
	cw.Close("histories of 40-70 retry-side operations on a real HandshakeManager with retries 1..12 and five tick sizes: starts with 0-3 " +
		"underlay addresses, inside packets queued one at a time or in bursts of up to 40 (ports inside and outside the outbound rule set), " +
		"remote-list updates, lighthouse triggers, timer ticks (zero, sub-interval, one interval, several intervals, beyond all attempts, " +
		"beyond a wheel revolution), completion by the right host at any attempt, wrong-responder restarts; preceded by fixed histories " +
		"(every retry count run to the timeout; queues of 0, 1, 99, 100, 101, 150 packets; completion at attempt 1..5; triggers; " +
		"irregular clocks); non-trivial = history exercising at least two of {timeout, completion, wrong responder, trigger, released " +
		"packets, full queue}; distinct by literal")
}

//go:build comp_all || comp_hostmap

package main

// Components for C28/C29: gen_hostmap (T1 constant), hostmap (C28 emphasis), hostmap_idx (C29 emphasis:
// tiny index space, many pending-handshake operations). One case is a whole operation history run against
// the real HostMap / HandshakeManager / AddRelay through the overlay shim verif_hostmap.go.

import (
	"fmt"
	"sort"
	"strings"

	nebula "github.com/slackhq/nebula"
	"verifharness/hx"
)

func init() {
	hx.Register("gen_hostmap", genHostmap)
	hx.Register("hostmap", func(c *hx.Ctx) { runHostmap(c, false) })
	hx.Register("hostmap_idx", func(c *hx.Ctx) { runHostmap(c, true) })
	hx.Register("hostmap_rx", func(c *hx.Ctx) { runHostmapRx(c, "HostMap_corr.check_case29") })
	hx.Register("hostmap_rx28", func(c *hx.Ctx) { runHostmapRx(c, "HostMap_corr.check_case28") })
}


func genHostmap(c *hx.Ctx) {
	var sb strings.Builder
	sb.WriteString("(* GENERATED from /repo by harness gen_hostmap: do not edit *)\nFrom Coq Require Import NArith.\nOpen Scope N_scope.\n")
	fmt.Fprintf(&sb, "Definition MaxHostInfosPerVpnIp : N := %d.\n", nebula.VerifMaxHostInfosPerVpnIp)
	c.WriteFile("Consts_HostMap.v", sb.String())
}

// ---- literals ---------------------------------------------------------------------------------------

func hmU32s(xs []uint32) []uint64 {
	r := make([]uint64, len(xs))
	for i, x := range xs {
		r[i] = uint64(x)
	}
	return r
}

func hmKvLit(xs []nebula.VerifHMKV) string {
	s := make([]string, len(xs))
	for i, e := range xs {
		s[i] = hx.Tuple(hx.N(e.K), hx.N(e.V))
	}
	return hx.List(s)
}

func hmKlLit(xs []nebula.VerifHMKL) string {
	s := make([]string, len(xs))
	for i, e := range xs {
		s[i] = hx.Tuple(hx.N(e.K), hx.NList(e.L))
	}
	return hx.List(s)
}

// hmKvDelta: entries of cur that are new or changed, and keys of old that are gone (both sorted by key).
func hmKvDelta(old, cur []nebula.VerifHMKV) string {
	var s []string
	for _, e := range cur {
		if v, ok := hmKvGet(old, e.K); !ok || v != e.V {
			s = append(s, hx.Tuple(hx.N(e.K), hx.Some(hx.N(e.V))))
		}
	}
	for _, e := range old {
		if _, ok := hmKvGet(cur, e.K); !ok {
			s = append(s, hx.Tuple(hx.N(e.K), "None"))
		}
	}
	return hx.List(s)
}

func hmKlGet(xs []nebula.VerifHMKL, k uint64) ([]uint64, bool) {
	for _, e := range xs {
		if e.K == k {
			return e.L, true
		}
	}
	return nil, false
}

func hmU64sEq(a, b []uint64) bool {
	if len(a) != len(b) {
		return false
	}
	for i := range a {
		if a[i] != b[i] {
			return false
		}
	}
	return true
}

func hmKlDelta(old, cur []nebula.VerifHMKL) string {
	var s []string
	for _, e := range cur {
		if l, ok := hmKlGet(old, e.K); !ok || !hmU64sEq(l, e.L) {
			s = append(s, hx.Tuple(hx.N(e.K), hx.Some(hx.NList(e.L))))
		}
	}
	for _, e := range old {
		if _, ok := hmKlGet(cur, e.K); !ok {
			s = append(s, hx.Tuple(hx.N(e.K), "None"))
		}
	}
	return hx.List(s)
}

func hmDumpLit(d nebula.VerifHMDump) string {
	is := make([]string, len(d.Infos))
	for i, hi := range d.Infos {
		is[i] = hmHiLit(hi)
	}
	return hx.App("mkSt", hx.List(is), hmKvLit(d.Hosts), hmKlLit(d.More), hmKvLit(d.Indexes), hmKvLit(d.Remote), hmKvLit(d.Relays),
		hmKvLit(d.PVpn), hmKvLit(d.PIdx), "[]")
}

func hmHiLit(h nebula.VerifHMInfo) string {
	return hx.Tuple(hx.N(h.ID), hx.App("mkHI", hx.NList(h.Addrs), hx.N(uint64(h.Local)), hx.N(uint64(h.Remote)), hx.NList(hmU32s(h.Relays))))
}

func hmHiEq(a, b nebula.VerifHMInfo) bool {
	if a.Local != b.Local || a.Remote != b.Remote || len(a.Addrs) != len(b.Addrs) || len(a.Relays) != len(b.Relays) {
		return false
	}
	for i := range a.Addrs {
		if a.Addrs[i] != b.Addrs[i] {
			return false
		}
	}
	for i := range a.Relays {
		if a.Relays[i] != b.Relays[i] {
			return false
		}
	}
	return true
}

// ---- one history ------------------------------------------------------------------------------------

type hmHist struct {
	c        *hx.Ctx
	v        *nebula.VerifHM
	nextID   uint64
	prev     nebula.VerifHMDump
	infos    map[uint64]nebula.VerifHMInfo
	steps    []string
	ops      []any
	feat     map[string]bool
	unsafeAt int
	idxSpace int // candidates for "fresh" indexes are drawn from 1..idxSpace
	peers    [][]uint64
	rx       bool  // real PKI; pending operations go through handleOutbound / continueHandshake / HandleIncoming
	rxPeers  []int // rx peer number of peers[i]
}

func hmNewHist(c *hx.Ctx, idxSpace int) *hmHist {
	return hmNewHistOn(c, nebula.VerifNewHM(), idxSpace)
}

func hmNewHistRx(c *hx.Ctx, idxSpace int) *hmHist {
	h := hmNewHistOn(c, nebula.VerifNewHMReal(), idxSpace)
	h.rx = true
	return h
}

func hmNewHistOn(c *hx.Ctx, v *nebula.VerifHM, idxSpace int) *hmHist {
	return &hmHist{c: c, v: v, nextID: 1, infos: map[uint64]nebula.VerifHMInfo{}, feat: map[string]bool{},
		unsafeAt: -1, idxSpace: idxSpace}
}

func hmKvGet(xs []nebula.VerifHMKV, k uint64) (uint64, bool) {
	for _, e := range xs {
		if e.K == k {
			return e.V, true
		}
	}
	return 0, false
}

func (h *hmHist) unsafeDelete(id uint64) bool {
	hi, ok := h.infos[id]
	if !ok {
		return false
	}
	if o, ok := hmKvGet(h.prev.Indexes, uint64(hi.Local)); ok && o != id {
		return true
	}
	for _, r := range hi.Relays {
		if o, ok := hmKvGet(h.prev.Relays, uint64(r)); ok && o != id {
			return true
		}
	}
	return false
}

func (h *hmHist) unsafePendDelete(id uint64) bool {
	hi, ok := h.infos[id]
	if !ok {
		return false
	}
	o, ok := hmKvGet(h.prev.PIdx, uint64(hi.Local))
	return ok && o != id
}

// record finishes a step: dump, delta of hostinfos, literal.
func (h *hmHist) record(opLit, outLit string, desc any) {
	d := h.v.Dump()
	var delta []string
	for _, hi := range d.Infos {
		old, ok := h.infos[hi.ID]
		if !ok || !hmHiEq(old, hi) {
			delta = append(delta, hmHiLit(hi))
			h.infos[hi.ID] = hi
		}
	}
	// an eviction: a hostinfo left Indexes although the operation was not a delete of it
	if !strings.HasPrefix(opLit, "(ODelete") {
		for _, e := range h.prev.Indexes {
			if v, ok := hmKvGet(d.Indexes, e.K); !ok || v != e.V {
				h.feat["evict"] = true
			}
		}
	}
	if len(d.More) > 0 {
		h.feat["multi"] = true
	}
	p := h.prev
	h.steps = append(h.steps, hx.App("mkStep", opLit, outLit, hx.List(delta), hmKvDelta(p.Hosts, d.Hosts), hmKlDelta(p.More, d.More),
		hmKvDelta(p.Indexes, d.Indexes), hmKvDelta(p.Remote, d.Remote), hmKvDelta(p.Relays, d.Relays), hmKvDelta(p.PVpn, d.PVpn),
		hmKvDelta(p.PIdx, d.PIdx)))
	h.ops = append(h.ops, desc)
	h.prev = d
}

func hmIdxOut(idx uint32, ok bool) string {
	if !ok {
		return "(RIdx None)"
	}
	return hx.App("RIdx", hx.Some(hx.N(uint64(idx))))
}

func (h *hmHist) opStart(addr uint64) {
	id := h.nextID
	h.nextID++
	got, created := h.v.Start(id, addr)
	h.record(hx.App("OStart", hx.N(id), hx.N(addr)), hx.App("RId", hx.N(got), hx.Bool(created)), []any{"start", id, addr})
}

func (h *hmHist) opAlloc(id uint64, script []uint32) {
	if !h.v.Known(id) || !h.v.PendingByAddr(id) || h.v.LocalIndex(id) != 0 {
		// handleOutbound would not reach allocateIndex for this hostinfo
		h.record(hx.App("OAlloc", hx.N(id), hx.NList(hmU32s(script))), "RNone", []any{"alloc", id, hmU32s(script), "n/a"})
		return
	}
	idx, ok, served := h.v.Alloc(id, script)
	if len(served) > 2 {
		h.feat["collide"] = true
	}
	h.record(hx.App("OAlloc", hx.N(id), hx.NList(hmU32s(served))), hmIdxOut(idx, ok), []any{"alloc", id, hmU32s(served)})
}

func (h *hmHist) opComplete(id uint64, addrs []uint64, remote uint32) {
	lit := hx.App("OComplete", hx.N(id), hx.NList(addrs), hx.N(uint64(remote)))
	desc := []any{"complete", id, addrs, remote}
	if !h.v.Known(id) || !h.v.PendingByIndex(id) {
		h.record(lit, "RNone", desc)
		return
	}
	orig := h.infos[id].Addrs[0]
	correct := false
	for _, a := range addrs {
		if a == orig {
			correct = true
		}
	}
	if !correct { // continueHandshake: "Incorrect host responded" -> DeleteHostInfo on the pending hostmap
		h.v.PendDelete(id, false)
		h.record(lit, "(RBool false)", desc)
		return
	}
	h.v.Complete(id, addrs, remote)
	h.feat["complete"] = true
	h.record(lit, "(RBool true)", desc)
}

func (h *hmHist) opResp(addrs []uint64, remote uint32, script []uint32) {
	id := h.nextID
	h.nextID++
	out, local, served := h.v.Resp(id, addrs, remote, script)
	if out == 1 {
		h.feat["collide"] = true
	}
	h.record(hx.App("OResp", hx.N(id), hx.NList(addrs), hx.N(uint64(remote)), hx.NList(hmU32s(served))),
		hx.App("RResp", hx.N(uint64(out)), hx.N(uint64(local))), []any{"resp", id, addrs, remote, hmU32s(served)})
}

// a stale delete whose index is held by another tunnel by now (fix F16: it must leave that entry alone)
func (h *hmHist) noteUnsafe(u bool) {
	if u {
		h.feat["reuse"] = true
		if h.unsafeAt < 0 {
			h.unsafeAt = len(h.steps)
		}
	}
}

func (h *hmHist) opDelete(id uint64) {
	if !h.v.Known(id) {
		h.record(hx.App("ODelete", hx.N(id)), "RNone", []any{"delete", id, "n/a"})
		return
	}
	if _, live := h.liveSet()[id]; !live {
		h.feat["stale"] = true
	}
	h.noteUnsafe(h.unsafeDelete(id))
	f := h.v.Delete(id)
	h.record(hx.App("ODelete", hx.N(id)), hx.App("RBool", hx.Bool(f)), []any{"delete", id})
}

func (h *hmHist) opPromote(id uint64) {
	if !h.v.Known(id) {
		h.record(hx.App("OPromote", hx.N(id)), "RNone", []any{"promote", id, "n/a"})
		return
	}
	b := h.v.MakePrimary(id)
	if !b {
		h.feat["stale"] = true
	}
	h.record(hx.App("OPromote", hx.N(id)), hx.App("RBool", hx.Bool(b)), []any{"promote", id})
}

func (h *hmHist) opAddRelay(id, peer uint64, script []uint32) {
	if !h.v.Known(id) {
		h.record(hx.App("OAddRelay", hx.N(id), hx.N(peer), hx.NList(hmU32s(script))), "RNone", []any{"relay", id, "n/a"})
		return
	}
	idx, ok, served := h.v.AddRelay(id, peer, script)
	if ok {
		h.feat["relay"] = true
	}
	h.record(hx.App("OAddRelay", hx.N(id), hx.N(peer), hx.NList(hmU32s(served))), hmIdxOut(idx, ok), []any{"relay", id, peer, hmU32s(served)})
}

func (h *hmHist) opPendDelete(id uint64, viaTimeout bool) {
	if !h.v.Known(id) {
		h.record(hx.App("OPendDelete", hx.N(id)), "RNone", []any{"pdelete", id, "n/a"})
		return
	}
	h.noteUnsafe(h.unsafePendDelete(id))
	h.v.PendDelete(id, viaTimeout)
	h.record(hx.App("OPendDelete", hx.N(id)), "RUnit", []any{"pdelete", id, viaTimeout})
}

// ---- state-aware random choices ---------------------------------------------------------------------

func (h *hmHist) liveSet() map[uint64]bool {
	m := map[uint64]bool{}
	for _, e := range h.prev.Indexes {
		m[e.V] = true
	}
	return m
}

func (h *hmHist) pendingSet() map[uint64]bool {
	m := map[uint64]bool{}
	for _, e := range h.prev.PVpn {
		m[e.V] = true
	}
	return m
}

func hmSortedKeys(m map[uint64]bool) []uint64 {
	r := make([]uint64, 0, len(m))
	for k := range m {
		r = append(r, k)
	}
	sort.Slice(r, func(i, j int) bool { return r[i] < r[j] })
	return r
}

func (h *hmHist) pickFrom(xs []uint64) (uint64, bool) {
	if len(xs) == 0 {
		return 0, false
	}
	return xs[h.c.Intn(len(xs))], true
}

// anyID picks live / pending / removed ids with the given weights (falls back to any created id).
func (h *hmHist) anyID(wLive, wPend, wDead int) uint64 {
	if h.nextID == 1 {
		return 1
	}
	live, pend := h.liveSet(), h.pendingSet()
	var dead []uint64
	for id := uint64(1); id < h.nextID; id++ {
		if !live[id] && !pend[id] {
			dead = append(dead, id)
		}
	}
	r := h.c.Intn(wLive + wPend + wDead)
	var id uint64
	var ok bool
	switch {
	case r < wLive:
		id, ok = h.pickFrom(hmSortedKeys(live))
	case r < wLive+wPend:
		id, ok = h.pickFrom(hmSortedKeys(pend))
	default:
		id, ok = h.pickFrom(dead)
	}
	if !ok {
		id = 1 + uint64(h.c.Intn(int(h.nextID-1)))
	}
	return id
}

// cands builds a candidate script for the main/pending namespace (relay=false) or the relay namespace.
func (h *hmHist) cands(relay bool, n int) []uint32 {
	var held, reuse []uint32
	if relay {
		for _, e := range h.prev.Relays {
			held = append(held, uint32(e.K))
		}
		for _, hi := range h.infos {
			for _, r := range hi.Relays {
				if _, ok := hmKvGet(h.prev.Relays, uint64(r)); !ok {
					reuse = append(reuse, r)
				}
			}
		}
	} else {
		for _, e := range h.prev.Indexes {
			held = append(held, uint32(e.K))
		}
		for _, e := range h.prev.PIdx {
			held = append(held, uint32(e.K))
		}
		live, pend := h.liveSet(), h.pendingSet()
		for id, hi := range h.infos {
			if !live[id] && !pend[id] && hi.Local != 0 {
				if _, ok := hmKvGet(h.prev.Indexes, uint64(hi.Local)); ok {
					continue
				}
				if _, ok := hmKvGet(h.prev.PIdx, uint64(hi.Local)); ok {
					continue
				}
				reuse = append(reuse, hi.Local)
			}
		}
	}
	sort.Slice(held, func(i, j int) bool { return held[i] < held[j] })
	sort.Slice(reuse, func(i, j int) bool { return reuse[i] < reuse[j] })
	out := make([]uint32, 0, n)
	for len(out) < n {
		r := h.c.Intn(100)
		switch {
		case r < 12:
			out = append(out, 0)
		case r < 32 && len(held) > 0:
			out = append(out, held[h.c.Intn(len(held))])
		case r < 50 && len(reuse) > 0:
			out = append(out, reuse[h.c.Intn(len(reuse))])
		case r < 55:
			out = append(out, uint32(h.c.EdgeU64(32)))
		default:
			out = append(out, uint32(1+h.c.Intn(h.idxSpace)))
		}
	}
	return out
}

// longCollide: k candidates that are all currently held (interleaved with a few zeros), then one fresh.
func (h *hmHist) longCollide(relay bool, k int) []uint32 {
	var held []uint32
	if relay {
		for _, e := range h.prev.Relays {
			held = append(held, uint32(e.K))
		}
	} else {
		for _, e := range h.prev.Indexes {
			held = append(held, uint32(e.K))
		}
		for _, e := range h.prev.PIdx {
			held = append(held, uint32(e.K))
		}
	}
	if len(held) == 0 {
		return h.cands(relay, 2)
	}
	var out []uint32
	for i := 0; i < k; i++ {
		if h.c.Chance(0.1) {
			out = append(out, 0)
		}
		out = append(out, held[h.c.Intn(len(held))])
	}
	return append(out, 0x40000000+uint32(h.c.Intn(1000)))
}

func (h *hmHist) script(relay bool) []uint32 {
	if h.c.Chance(0.06) {
		return h.longCollide(relay, 30+h.c.Intn(4)) // around the 32-try limit
	}
	return h.cands(relay, 1+h.c.Intn(4))
}

func (h *hmHist) remote() uint32 {
	if h.c.Chance(0.1) {
		return uint32(h.c.EdgeU64(32))
	}
	return uint32(h.c.Intn(7)) // small space: RemoteIndexes collisions between peers; 0 included
}

func (h *hmHist) makePeers() {
	n := 5 + h.c.Intn(2)
	pool := 7
	h.peers = nil
	for i := 0; i < n; i++ {
		k := 1 + h.c.Intn(3)
		var cert []uint64
		for j := 0; j < k; j++ {
			cert = append(cert, uint64(1+h.c.Intn(pool)))
		}
		if h.c.Chance(0.25) { // duplicate inside one certificate
			cert = append(cert, cert[h.c.Intn(len(cert))])
		}
		h.peers = append(h.peers, cert)
	}
}

func (h *hmHist) peerAddrs(hot bool) []uint64 {
	if hot && h.c.Chance(0.55) {
		return append([]uint64(nil), h.peers[0]...)
	}
	return append([]uint64(nil), h.peers[h.c.Intn(len(h.peers))]...)
}

func (h *hmHist) randomOp(idxHeavy bool) {
	w := []int{34, 8, 9, 9, 15, 9, 10, 6} // resp start alloc complete delete promote relay pdelete
	if idxHeavy {
		w = []int{24, 14, 18, 12, 10, 3, 9, 10}
	}
	tot := 0
	for _, x := range w {
		tot += x
	}
	r := h.c.Intn(tot)
	k := 0
	for r >= w[k] {
		r -= w[k]
		k++
	}
	switch k {
	case 0:
		h.opResp(h.peerAddrs(true), h.remote(), h.script(false))
	case 1:
		var a uint64
		if h.c.Chance(0.8) {
			a = h.peers[h.c.Intn(len(h.peers))][0]
		} else {
			a = uint64(1 + h.c.Intn(8))
		}
		h.opStart(a)
	case 2:
		h.opAlloc(h.anyID(1, 8, 1), h.script(false))
	case 3:
		id := h.anyID(1, 8, 1)
		var addrs []uint64
		hi, ok := h.infos[id]
		if ok && len(hi.Addrs) > 0 && h.c.Chance(0.8) {
			// a certificate holding the address we asked for, plus overlapping/divergent others
			orig := hi.Addrs[0]
			addrs = h.peerAddrs(false)
			has := false
			for _, a := range addrs {
				if a == orig {
					has = true
				}
			}
			if !has {
				addrs[h.c.Intn(len(addrs))] = orig
			}
		} else {
			addrs = h.peerAddrs(false)
		}
		h.opComplete(id, addrs, h.remote())
	case 4:
		h.opDelete(h.anyID(6, 1, 3))
	case 5:
		h.opPromote(h.anyID(6, 1, 3))
	case 6:
		h.opAddRelay(h.anyID(8, 1, 2), uint64(1+h.c.Intn(7)), h.script(true))
	case 7:
		h.opPendDelete(h.anyID(2, 6, 3), h.c.Chance(0.5))
	}
}

func (h *hmHist) kind() string {
	var fs []string
	for _, f := range []string{"evict", "collide", "stale", "relay", "complete"} {
		if h.feat[f] {
			fs = append(fs, f)
		}
	}
	k := "hist"
	if h.feat["reuse"] {
		k = "hist-reuse"
	}
	if len(fs) > 0 {
		k += "+" + strings.Join(fs, "+")
	}
	return k
}

func (h *hmHist) emit(cw *hx.CaseWriter, ctor, label string) {
	nfeat := 0
	for _, f := range []string{"evict", "collide", "stale", "relay", "complete", "multi"} {
		if h.feat[f] {
			nfeat++
		}
	}
	kind := label
	if kind == "" {
		kind = h.kind()
	}
	cw.Add(hx.App(ctor, hx.List(h.steps), hmDumpLit(h.prev)), kind, nfeat >= 2,
		map[string]any{"ops": h.ops, "stale_delete_on_reused_index_at": h.unsafeAt, "peers": h.peers})
}

// ---- fixed histories (corpus / boundaries), emitted first ------------------------------------------------

func hmCorpus(c *hx.Ctx, cw *hx.CaseWriter) {
	max := int(nebula.VerifMaxHostInfosPerVpnIp)
	// 1. per-address cap: max+2 tunnels on one address, then delete primary / middle / evicted, promote a removed one
	{
		h := hmNewHist(c, 50)
		for i := 0; i < max+2; i++ {
			h.opResp([]uint64{1}, uint32(i+1), []uint32{uint32(10 + i)})
		}
		h.opDelete(uint64(max + 2)) // primary
		h.opDelete(3)               // middle
		h.opDelete(1)               // already evicted
		h.opPromote(1)              // removed tunnel must not come back
		h.opPromote(4)
		h.opDelete(3) // already deleted
		h.emit(cw, "CHist", "corpus-cap")
	}
	// 2. overlapping and divergent multi-address certificates, duplicates inside one certificate
	{
		h := hmNewHist(c, 50)
		h.opResp([]uint64{1, 2}, 1, []uint32{1})
		h.opResp([]uint64{2, 3}, 2, []uint32{2})
		h.opResp([]uint64{3, 1, 3}, 3, []uint32{3})
		h.opResp([]uint64{2, 2}, 3, []uint32{4}) // shadows remote index 3
		h.opPromote(1)
		h.opAddRelay(2, 9, []uint32{0, 7})
		h.opAddRelay(2, 9, []uint32{7, 8}) // 7 is taken
		h.opDelete(3)                      // does not own remote index 3 any more
		h.opDelete(4)
		h.opDelete(2)
		h.opDelete(1)
		h.emit(cw, "CHist", "corpus-overlap")
	}
	// 3. eviction through a multi-address tunnel: the oldest of address 1 also holds 2 and 3
	{
		h := hmNewHist(c, 50)
		h.opResp([]uint64{1, 2, 3}, 1, []uint32{1})
		h.opAddRelay(1, 5, []uint32{9})
		for i := 0; i < max; i++ {
			h.opResp([]uint64{1}, uint32(2+i), []uint32{uint32(2 + i)})
		}
		h.opPromote(1)
		h.opAddRelay(1, 6, []uint32{10})
		h.emit(cw, "CHist", "corpus-evict-multi")
	}
	// 4. the 32-try limit of allocateIndex and AddRelay: 31 collisions then a free index, 32 collisions
	for _, k := range []int{31, 32} {
		h := hmNewHist(c, 50)
		h.opResp([]uint64{1}, 1, []uint32{5})
		h.opStart(2)
		h.opStart(3)
		h.opAlloc(2, []uint32{0, 0, 6})
		sc := []uint32{}
		for i := 0; i < k; i++ {
			sc = append(sc, uint32(5+i%2))
		}
		h.opAlloc(3, append(sc, 77))
		h.opAddRelay(1, 4, []uint32{8})
		sr := []uint32{}
		for i := 0; i < k; i++ {
			sr = append(sr, 8)
		}
		h.opAddRelay(1, 4, append(sr, 0, 9))
		h.opComplete(2, []uint64{2, 1}, 4)
		h.opComplete(3, []uint64{1}, 4) // wrong host if it got an index, n/a otherwise
		h.opPendDelete(3, true)
		h.emit(cw, "CHist", fmt.Sprintf("corpus-tries-%d", k))
	}
	// 5. pending life cycle: start twice, allocate, responder collides with the pending index, timeout, reuse
	{
		h := hmNewHist(c, 50)
		h.opStart(1)
		h.opStart(1)
		h.opAlloc(1, []uint32{0, 3})
		h.opAlloc(1, []uint32{4})                  // already ready: n/a
		h.opResp([]uint64{1}, 1, []uint32{3})      // collides with the pending index
		h.opResp([]uint64{1}, 1, []uint32{0, 0, 4}) // fine
		h.opPendDelete(1, true)
		h.opResp([]uint64{1}, 2, []uint32{3}) // index 3 is free again
		h.opComplete(1, []uint64{1}, 9)       // no longer tracked: n/a
		h.opPendDelete(4, false)              // recv_error path: a main hostinfo removed from the pending hostmap
		h.opDelete(4)
		h.opDelete(4)
		h.emit(cw, "CHist", "corpus-pending")
	}
}

// hmMaxIndex: allocations that land on MaxUint32 and collide there (and on the 0xfffffffe/0xffffffff pair), in the
// pending map, the main map and the relay map. The code must refuse or draw again; a retry strategy that probes
// forward from the colliding value would wrap to 0 and hand out the "unknown" index.
func hmMaxIndex(c *hx.Ctx, cw *hx.CaseWriter) {
	const m = 0xffffffff
	{
		h := hmNewHist(c, 50)
		h.opStart(1)
		h.opAlloc(1, []uint32{m}) // pending h1 holds MaxUint32
		h.opStart(2)
		h.opAlloc(2, []uint32{m, 7})            // collides in the pending map
		h.opResp([]uint64{3}, 1, []uint32{m, 8}) // responder draws MaxUint32: local index collision
		h.opResp([]uint64{3}, 1, []uint32{m - 1})
		h.opStart(4)
		h.opAlloc(5, []uint32{m - 1, m, 9}) // main holds 0xfffffffe, pending holds 0xffffffff
		h.opComplete(1, []uint64{1}, 5)     // MaxUint32 moves to the main map
		h.opStart(5)
		h.opAlloc(6, []uint32{m, m, 0, m - 1, 10}) // collides in the main map
		h.opAddRelay(1, 9, []uint32{m})
		h.opAddRelay(1, 8, []uint32{m, m - 1})
		h.opAddRelay(4, 8, []uint32{m - 1, m, 0, 11}) // hostinfo 4 is the second responder tunnel
		h.opDelete(1)
		h.opStart(1)
		h.opAlloc(7, []uint32{m}) // MaxUint32 is free again
		h.emit(cw, "CHist", "corpus-maxindex")
	}
	{
		h := hmNewHist(c, 50)
		h.opResp([]uint64{1}, 1, []uint32{m})
		h.opStart(2)
		h.opAlloc(2, []uint32{m, m, m, 3})
		h.opStart(3)
		sc := []uint32{}
		for i := 0; i < 31; i++ {
			sc = append(sc, m)
		}
		h.opAlloc(3, append(sc, 4)) // 31 collisions at MaxUint32, then a free index
		h.opStart(4)
		h.opAlloc(4, append(sc, m, 5)) // 32 collisions: must fail, not wrap
		h.emit(cw, "CHist", "corpus-maxindex-tries")
	}
}

// hmWitness: regression histories for fix F16. A tunnel is deleted, its local index is handed out again, and a
// second (stale) delete of the first tunnel must leave the new owner's Indexes entry alone; the same through a
// relay index and through the pending index map.
func hmWitness(c *hx.Ctx, cw *hx.CaseWriter) {
	{
		h := hmNewHist(c, 50)
		h.opResp([]uint64{1}, 1, []uint32{5})
		h.opDelete(1)
		h.opResp([]uint64{2}, 2, []uint32{5})
		h.opDelete(1)
		h.opPromote(2)
		h.emit(cw, "CHist", "corpus-stale-indexes")
	}
	{
		h := hmNewHist(c, 50)
		h.opResp([]uint64{1}, 1, []uint32{5})
		h.opAddRelay(1, 9, []uint32{7})
		h.opDelete(1)
		h.opResp([]uint64{2}, 2, []uint32{6})
		h.opAddRelay(2, 9, []uint32{7})
		h.opDelete(1)
		h.opDelete(2)
		h.emit(cw, "CHist", "corpus-stale-relays")
	}
	{
		h := hmNewHist(c, 50)
		h.opResp([]uint64{1}, 1, []uint32{5})
		h.opDelete(1)
		h.opStart(2)
		h.opAlloc(2, []uint32{5})
		h.opPendDelete(1, false)
		h.opComplete(2, []uint64{2}, 3)
		h.emit(cw, "CHist", "corpus-stale-pending")
	}
}

func runHostmap(c *hx.Ctx, idxHeavy bool) {
	check := "HostMap_corr.check_case28"
	if idxHeavy {
		check = "HostMap_corr.check_case29"
	}
	cw := c.NewCaseWriter("From NV Require Import model.HostMap corr.HostMap_corr.", "HostMap_corr.case", check, 20)
	hmCorpus(c, cw)
	hmWitness(c, cw)
	hmMaxIndex(c, cw)
	for i := 0; i < c.N; i++ {
		space := 40
		if idxHeavy {
			space = 5 + c.Intn(6)
		} else if c.Chance(0.3) {
			space = 8 + c.Intn(8)
		}
		h := hmNewHist(c, space)
		h.makePeers()
		n := 40 + c.Intn(21)
		for j := 0; j < n; j++ {
			h.randomOp(idxHeavy)
		}
		h.emit(cw, "CHist", "")
	}
	cw.Close("operation histories of 40-60 operations over 5-6 peers with overlapping/divergent multi-address certificates (duplicates inside a " +
		"certificate), scripted index candidates (zeros, collisions with held indexes, reuse of released indexes, the 32-try limit), deletes of " +
		"primaries / non-primaries / already removed tunnels, promotions of removed tunnels, relay allocations, pending start/allocate/complete/" +
		"timeout; preceded by fixed boundary histories; non-trivial = history exercising at least two of {eviction, index collision, stale " +
		"operation, relay allocation, pending completion, multi-tunnel address}; distinct by literal")
}

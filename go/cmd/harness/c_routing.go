//go:build comp_all || comp_routing

package main

import (
	"net/netip"

	"github.com/slackhq/nebula/firewall"
	"github.com/slackhq/nebula/routing"
	"verifharness/hx"
)

func init() {
	hx.Register("routing", runRouting)
}

const rtMaxW = 1<<31 - 1

func rtAddr(i int) netip.Addr {
	return netip.AddrFrom4([4]byte{10, byte(i >> 16), byte(i >> 8), byte(i)})
}

// rtCalc builds the gateways and runs CalculateBucketsForGateways (unless calc is false).
func rtCalc(ws []uint64, calc bool) (gws []routing.Gateway, bounds []int64, panicked bool) {
	gws = make([]routing.Gateway, len(ws))
	for i, w := range ws {
		gws[i] = routing.NewGateway(rtAddr(i), int(w))
	}
	func() {
		defer func() {
			if r := recover(); r != nil {
				panicked = true
			}
		}()
		if calc {
			routing.CalculateBucketsForGateways(gws)
		}
	}()
	bounds = make([]int64, len(gws))
	for i := range gws {
		bounds[i] = int64(gws[i].BucketUpperBound())
	}
	return
}

func rtBalance(p *firewall.Packet, gws []routing.Gateway) (idx int, ok bool, panicked bool) {
	defer func() {
		if r := recover(); r != nil {
			panicked = true
		}
	}()
	a, ok := routing.BalancePacket(p, gws)
	idx = -1
	for i := range gws {
		if gws[i].Addr() == a {
			idx = i
			break
		}
	}
	return idx, ok, false
}

func rtZList(xs []int64) string {
	s := make([]string, len(xs))
	for i, x := range xs {
		s[i] = hx.Z(x)
	}
	return hx.List(s)
}

func rtValid(ws []uint64) bool {
	if len(ws) == 0 {
		return false
	}
	for _, w := range ws {
		if w < 1 || w > rtMaxW {
			return false
		}
	}
	return true
}

func rtTotal(ws []uint64) uint64 {
	var t uint64
	for _, w := range ws {
		t += w
	}
	return t
}

func rtKind(base string, ws []uint64) string {
	if rtValid(ws) && rtTotal(ws) >= 1<<33-1 {
		return "overflow" // total weight where the 64-bit expression of the unrepaired code wrapped (F10)
	}
	return base
}

func rep(w uint64, n int) []uint64 {
	r := make([]uint64, n)
	for i := range r {
		r[i] = w
	}
	return r
}

// fixed corpus: edges, F10 witnesses, lists with an empty share, degenerate lists
func rtCorpus() [][]uint64 {
	c := [][]uint64{
		{1}, {rtMaxW}, {1, 1}, {1, 1, 1}, {10, 5}, {1, 2, 3, 4, 5, 6, 7, 8}, {3, 5, 7, 11, 13}, {2, 3}, {1, rtMaxW}, {rtMaxW, 1},
		rep(rtMaxW, 2), rep(rtMaxW, 3), rep(rtMaxW, 4), rep(rtMaxW, 5), rep(rtMaxW, 8), rep(rtMaxW, 12), rep(rtMaxW, 40),
		{1, rtMaxW, rtMaxW, rtMaxW}, {rtMaxW, rtMaxW, 1, rtMaxW, rtMaxW}, {1, 1, rtMaxW, rtMaxW, rtMaxW, rtMaxW, rtMaxW},
		{rtMaxW, rtMaxW, rtMaxW, rtMaxW, 4},              // total exactly 2^33
		{rtMaxW, rtMaxW, rtMaxW, rtMaxW, 3},              // total 2^33 - 1
		{rtMaxW, rtMaxW, rtMaxW, rtMaxW, 2},              // total 2^33 - 2 (largest the old code handled)
		{1 << 30, 1 << 30}, {1 << 30, 1<<30 + 1}, {1<<31 - 2, 1<<31 - 3, 65537, 257}, {2147483629, 2147483587, 2147483579},
		rep(1, 8), rep(7, 8), rep(1, 64), rep(3, 200),
		// degenerate (outside the configuration range): weight 0, nothing, all zero (divide by zero)
		{0, 1}, {1, 0, 1}, {5, 0}, {}, {0}, {0, 0},
	}
	return c
}

func (rtGen) edgeW(c *hx.Ctx) uint64 {
	switch c.Intn(7) {
	case 0:
		return 1
	case 1:
		return rtMaxW
	case 2:
		return rtMaxW - uint64(c.Intn(4))
	case 3:
		return 1 + uint64(c.Intn(4))
	case 4:
		return uint64(1) << uint(c.Intn(31))
	default:
		return 1 + c.U64()%rtMaxW
	}
}

type rtGen struct{}

var rtPrimes = []uint64{2, 3, 5, 7, 11, 13, 17, 19, 23, 101, 257, 65537, 2147483629, 2147483587, 2147483579, 2147483647}

func (g rtGen) weights(c *hx.Ctx) ([]uint64, string) {
	n := 1 + c.Intn(8)
	switch k := c.Intn(20); {
	case k < 4:
		return rep(g.edgeW(c), n), "equal"
	case k < 8:
		ws := make([]uint64, n)
		for i := range ws {
			ws[i] = g.edgeW(c)
		}
		return ws, "edges"
	case k < 11:
		ws := make([]uint64, n)
		for i := range ws {
			ws[i] = rtPrimes[c.Intn(len(rtPrimes))]
		}
		return ws, "coprime"
	case k < 14:
		ws := make([]uint64, n)
		for i := range ws {
			ws[i] = 1 + uint64(c.Intn(100))
		}
		return ws, "small"
	case k < 17:
		n = 5 + c.Intn(8)
		ws := make([]uint64, n)
		for i := range ws {
			ws[i] = rtMaxW - uint64(c.Intn(1<<20))
			if c.Chance(0.15) {
				ws[i] = 1 + c.U64()%rtMaxW
			}
		}
		return ws, "large-total"
	case k < 18:
		n = 9 + c.Intn(60)
		ws := make([]uint64, n)
		for i := range ws {
			ws[i] = g.edgeW(c)
		}
		return ws, "many"
	case k < 19:
		ws := make([]uint64, n)
		for i := range ws {
			ws[i] = g.edgeW(c)
			if c.Chance(0.4) {
				ws[i] = 0
			}
		}
		return ws, "degenerate"
	default:
		ws := make([]uint64, n)
		for i := range ws {
			ws[i] = 1 + c.U64()%rtMaxW
		}
		return ws, "random"
	}
}

func rtAddBuckets(cw *hx.CaseWriter, ws []uint64, kind string) {
	_, bounds, panicked := rtCalc(ws, true)
	res := hx.None()
	if !panicked {
		res = hx.Some(rtZList(bounds))
	}
	cw.Add(hx.App("Routing_corr.CBuckets", hx.NList(ws), res), rtKind("buckets-"+kind, ws), rtValid(ws),
		map[string]any{"op": "buckets", "weights": ws, "bounds": bounds, "panicked": panicked})
}

func rtAddBalance(c *hx.Ctx, cw *hx.CaseWriter, lp, rp uint16, ws []uint64, calc bool, kind string) {
	gws, bounds, panicked := rtCalc(ws, calc)
	if panicked {
		rtAddBuckets(cw, ws, kind)
		return
	}
	base := firewall.Packet{LocalAddr: netip.MustParseAddr("10.9.0.1"), RemoteAddr: netip.MustParseAddr("192.168.7.7"),
		LocalPort: lp, RemotePort: rp, Protocol: firewall.ProtoTCP}
	h := routing.VerifHashPacket(&base)
	idx, ok, bp := rtBalance(&base, gws)
	// everything but the two ports varies; a second call on the same packet must agree too
	variants := []firewall.Packet{base, base, base, base, base, base}
	variants[1].LocalAddr = netip.AddrFrom4([4]byte{byte(c.Intn(256)), byte(c.Intn(256)), byte(c.Intn(256)), byte(c.Intn(256))})
	variants[2].RemoteAddr = netip.AddrFrom16([16]byte{0xfd, byte(c.Intn(256)), 3, 4, 5, 6, 7, 8, 9, 10, 11, 12, 13, 14, 15, byte(c.Intn(256))})
	variants[3].Protocol = uint8(c.Intn(256))
	variants[4].Fragment = true
	variants[5] = firewall.Packet{LocalAddr: variants[2].RemoteAddr, RemoteAddr: variants[1].LocalAddr, LocalPort: lp, RemotePort: rp,
		Protocol: firewall.ProtoUDP, Fragment: c.Chance(0.5)}
	indep := true
	for i := range variants {
		h2 := routing.VerifHashPacket(&variants[i])
		idx2, ok2, bp2 := rtBalance(&variants[i], gws)
		if h2 != h || idx2 != idx || ok2 != ok || bp2 != bp {
			indep = false
		}
	}
	res := hx.None()
	if !bp && idx >= 0 {
		res = hx.Some(hx.Tuple(hx.N(uint64(idx)), hx.Bool(ok)))
	}
	if h < 0 {
		h = -h | 1<<40 // cannot happen with the masked hash; keep the literal a valid N and make the spec refuse it
	}
	k := "balance-" + kind
	if !calc {
		k = "balance-uncalculated"
	}
	cw.Add(hx.App("Routing_corr.CBalance", hx.N(uint64(lp)), hx.N(uint64(rp)), hx.NList(ws), hx.Bool(calc), rtZList(bounds),
		hx.N(uint64(h)), res, hx.Bool(indep)), rtKind(k, ws), calc && rtValid(ws),
		map[string]any{"op": "balance", "lport": lp, "rport": rp, "weights": ws, "calc": calc, "bounds": bounds, "hash": h,
			"gateway": idx, "ok": ok, "panicked": bp, "indep": indep})
}

func runRouting(c *hx.Ctx) {
	cw := c.NewCaseWriter("From NV Require Import corr.Routing_corr.", "Routing_corr.case", "Routing_corr.check_case", 600)
	g := rtGen{}
	corpus := rtCorpus()
	// 1. bounds of the whole corpus
	for _, ws := range corpus {
		rtAddBuckets(cw, ws, "corpus")
	}
	// 2. port grid (33 x 33 incl. both ends) over rotating corpus lists of 1..12 gateways
	var lists [][]uint64
	for _, ws := range corpus {
		if rtValid(ws) && len(ws) <= 12 {
			lists = append(lists, ws)
		}
	}
	grid := make([]uint16, 0, 33)
	for i := 0; i < 32; i++ {
		grid = append(grid, uint16(i*2114+i%3))
	}
	grid = append(grid, 65535)
	k := 0
	for _, lp := range grid {
		for _, rp := range grid {
			rtAddBalance(c, cw, lp, rp, lists[k%len(lists)], true, "grid")
			k++
		}
	}
	// every corpus list once through BalancePacket, calculated and not
	for _, ws := range corpus {
		rtAddBalance(c, cw, uint16(c.Intn(65536)), uint16(c.Intn(65536)), ws, true, "corpus")
		rtAddBalance(c, cw, uint16(c.Intn(65536)), uint16(c.Intn(65536)), ws, false, "corpus")
	}
	// 3. random
	for i := 0; i < c.N; i++ {
		ws, kind := g.weights(c)
		switch r := c.Intn(10); {
		case r < 2:
			rtAddBuckets(cw, ws, kind)
		case r < 9:
			rtAddBalance(c, cw, uint16(c.EdgeU64(16)), uint16(c.EdgeU64(16)), ws, true, kind)
		default:
			rtAddBalance(c, cw, uint16(c.EdgeU64(16)), uint16(c.EdgeU64(16)), ws, false, kind)
		}
	}
	cw.Close("corpus of weight lists (edges, F10 witnesses, empty-share lists, degenerate), 33x33 port grid, then random lists of 1..8 " +
		"(some up to 68) gateways with equal / edge / coprime / small / near-maximal weights and edge-biased ports; " +
		"non-trivial = weights all in 1..2^31-1 with calculated buckets; distinct by literal")
}

//go:build comp_all || comp_allowlist

package main

import (
	"fmt"
	"math/big"
	"net/netip"
	"strings"

	nebula "github.com/slackhq/nebula"
	"verifharness/hx"
)

func init() { hx.Register("allowlist", runAllowList) }

// ---- addresses as numbers ---------------------------------------------------------------------------

const alRebuilds = 5 // every map is built this many times; Go visits it in a different order each time

var alOne = big.NewInt(1)

func alWidth(fam int) uint {
	if fam == 4 {
		return 32
	}
	return 128
}

func alAddr(fam int, v *big.Int) netip.Addr {
	if fam == 4 {
		var b [4]byte
		v.FillBytes(b[:])
		return netip.AddrFrom4(b)
	}
	var b [16]byte
	v.FillBytes(b[:])
	return netip.AddrFrom16(b)
}

// alNum: family and numeric value of an address exactly as netip holds it (a 4in6 address is IPv6).
func alNum(a netip.Addr) (int, *big.Int) {
	if a.Is4() {
		b := a.As4()
		return 4, new(big.Int).SetBytes(b[:])
	}
	b := a.As16()
	return 6, new(big.Int).SetBytes(b[:])
}

func alAddrLit(a netip.Addr) string {
	f, v := alNum(a)
	return fmt.Sprintf("(V%d, %s)", f, v.String())
}

func alMapped(v4 *big.Int) netip.Addr {
	v := new(big.Int).Lsh(big.NewInt(0xffff), 32)
	v.Or(v, v4)
	return alAddr(6, v)
}

func alRandNum(c *hx.Ctx, fam int) *big.Int {
	w := alWidth(fam)
	v := new(big.Int)
	switch c.Intn(10) {
	case 0:
		return v
	case 1:
		return v.Sub(new(big.Int).Lsh(alOne, w), alOne)
	case 2: // private-looking
		if fam == 4 {
			return big.NewInt(int64(10<<24 | c.Intn(1<<24)))
		}
		v.Lsh(big.NewInt(0xfd00), 112)
		return v.Or(v, new(big.Int).SetUint64(c.U64()))
	}
	v.SetUint64(c.U64())
	if fam == 6 {
		v.Lsh(v, 64)
		v.Or(v, new(big.Int).SetUint64(c.U64()))
	} else {
		v.And(v, big.NewInt(0xffffffff))
	}
	return v
}

// first / last address of v/bits
func alRange(fam int, v *big.Int, bits int) (*big.Int, *big.Int) {
	host := alWidth(fam) - uint(bits)
	mask := new(big.Int).Sub(new(big.Int).Lsh(alOne, host), alOne)
	first := new(big.Int).AndNot(v, mask)
	last := new(big.Int).Or(first, mask)
	return first, last
}

// ---- configured entries ------------------------------------------------------------------------------

type alEntry struct {
	key   string
	addr  netip.Addr // as netip.ParsePrefix sees the key (4in6 stays IPv6)
	bits  int
	val   any  // what goes into the map
	valOK bool // config.AsBool accepts it
	b     bool
	// the IPv4/IPv6 network the key denotes when it is valid (after the mapped rule)
	nfam  int
	nnum  *big.Int
	nbits int
	valid bool
}

func alMkEntry(c *hx.Ctx, a netip.Addr, bits int, b bool) alEntry {
	e := alEntry{addr: a, bits: bits, b: b, valOK: true}
	e.key = fmt.Sprintf("%s/%d", a.String(), bits)
	switch c.Intn(6) { // the spellings config.AsBool accepts
	case 0:
		if b {
			e.val = "yes"
		} else {
			e.val = "no"
		}
	case 1:
		if b {
			e.val = "y"
		} else {
			e.val = "n"
		}
	default:
		e.val = b
	}
	f, v := alNum(a)
	e.valid = bits >= 0 && uint(bits) <= alWidth(f)
	if a.Is4In6() {
		if bits < 96 {
			e.valid = false
		}
		e.nfam, e.nnum, e.nbits = 4, new(big.Int).And(v, big.NewInt(0xffffffff)), bits-96
	} else {
		e.nfam, e.nnum, e.nbits = f, v, bits
	}
	if bits >= 0 && uint(bits) <= alWidth(f) {
		p, err := netip.ParsePrefix(e.key)
		if err != nil || p.Addr() != a || p.Bits() != bits {
			panic(fmt.Sprintf("harness: key %q does not parse back to (%v, %d): %v %v", e.key, a, bits, p, err))
		}
	}
	return e
}

func (e alEntry) keyLit() string {
	f, v := alNum(e.addr)
	return fmt.Sprintf("(V%d, %s, %d)", f, v.String(), e.bits)
}

func (e alEntry) lit() string {
	v := hx.None()
	if e.valOK {
		v = hx.Some(hx.Bool(e.b))
	}
	return hx.Tuple(e.keyLit(), v)
}

type alList struct {
	es    []alEntry
	kinds []string
}

func (l *alList) has(key string) bool {
	for _, e := range l.es {
		if e.key == key {
			return true
		}
	}
	return false
}

func (l *alList) add(e alEntry) {
	if !l.has(e.key) {
		l.es = append(l.es, e)
	}
}

func (e alEntry) net() string {
	first, _ := alRange(e.nfam, e.nnum, e.nbits)
	return fmt.Sprintf("%d/%s/%d", e.nfam, first, e.nbits)
}

// addGen adds a generated entry; an entry for a network the list already holds (under another spelling) is
// dropped when conflicts are excluded and labelled otherwise.
func (l *alList) addGen(e alEntry, o alOpts) {
	if l.has(e.key) {
		return
	}
	if e.valid {
		for _, x := range l.es {
			if x.valid && x.net() == e.net() {
				if x.b != e.b {
					if o.noConflict {
						return
					}
					l.kinds = append(l.kinds, "dup-conflict")
				} else {
					l.kinds = append(l.kinds, "dup-same")
				}
				break
			}
		}
	}
	l.es = append(l.es, e)
}

func (l *alList) raw() map[string]any {
	m := map[string]any{}
	for _, e := range l.es {
		m[e.key] = e.val
	}
	return m
}

func (l *alList) lit() string {
	s := make([]string, len(l.es))
	for i, e := range l.es {
		s[i] = e.lit()
	}
	return hx.List(s)
}

func (l *alList) json() map[string]any {
	m := map[string]any{}
	for _, e := range l.es {
		m[e.key] = e.val
	}
	return m
}

var alLens4 = []int{1, 7, 8, 9, 12, 15, 16, 17, 23, 24, 25, 30, 31, 32}
var alLens6 = []int{1, 7, 8, 9, 16, 32, 47, 48, 56, 63, 64, 65, 95, 96, 97, 104, 112, 120, 127, 128}

// spell a network of family fam: plain, with host bits left in, or (IPv4 only) as an IPv4-mapped IPv6 prefix
func alSpell(c *hx.Ctx, fam int, v *big.Int, bits int, allowMapped bool) (netip.Addr, int) {
	first, last := alRange(fam, v, bits)
	n := first
	if c.Chance(0.3) { // host bits set: netip.ParsePrefix keeps them, bart masks them
		span := new(big.Int).Sub(last, first)
		if span.Sign() > 0 {
			r := alRandNum(c, fam)
			r.Mod(r, new(big.Int).Add(span, alOne))
			n = new(big.Int).Add(first, r)
		}
	}
	if fam == 4 && allowMapped && c.Chance(0.3) {
		return alMapped(n), bits + 96
	}
	return alAddr(fam, n), bits
}

type alOpts struct {
	noConflict bool // never write one network twice with different values
	noBad      bool // no malformed keys / values
}

// alGenList builds one allow-list map.
func alGenList(c *hx.Ctx, o alOpts) *alList {
	l := &alList{}
	fams := [][]int{{4}, {6}, {4, 6}, {4, 6}}[c.Intn(4)]
	for _, fam := range fams {
		lens := alLens4
		if fam == 6 {
			lens = alLens6
		}
		mode := c.Intn(10) // 0-2 all true, 3-5 all false, 6-9 mixed
		val := func() bool {
			switch {
			case mode <= 2:
				return true
			case mode <= 5:
				return false
			}
			return c.Chance(0.5)
		}
		nb := 1 + c.Intn(2)
		for b := 0; b < nb; b++ {
			base := alRandNum(c, fam)
			k := 1 + c.Intn(4)
			for i := 0; i < k; i++ { // nested prefixes of one base address, plus siblings
				bits := lens[c.Intn(len(lens))]
				n := base
				if c.Chance(0.25) && bits > 0 { // sibling: flip the last network bit
					n = new(big.Int).Xor(base, new(big.Int).Lsh(alOne, alWidth(fam)-uint(bits)))
				}
				a, sb := alSpell(c, fam, n, bits, true)
				l.addGen(alMkEntry(c, a, sb, val()), o)
			}
		}
		pDefault := 0.35
		if mode > 5 {
			pDefault = 0.8
		}
		if c.Chance(pDefault) {
			a, sb := alSpell(c, fam, alRandNum(c, fam), 0, true)
			if c.Chance(0.7) {
				a, sb = alSpell(c, fam, new(big.Int), 0, true)
			}
			l.addGen(alMkEntry(c, a, sb, val()), o)
		}
	}
	// one network written twice
	if len(l.es) > 0 && c.Chance(0.2) {
		e := l.es[c.Intn(len(l.es))]
		if e.valid {
			a, sb := alSpell(c, e.nfam, e.nnum, e.nbits, true)
			v := e.b
			if !o.noConflict && c.Chance(0.4) {
				v = !v
			}
			l.addGen(alMkEntry(c, a, sb, v), o)
		}
	}
	// malformed stream
	if !o.noBad && c.Chance(0.1) {
		switch c.Intn(4) {
		case 0: // value that is not a boolean
			if len(l.es) > 0 {
				i := c.Intn(len(l.es))
				l.es[i].val = []any{"maybe", 1, "true", 0.5, nil}[c.Intn(5)]
				l.es[i].valOK = false
				l.kinds = append(l.kinds, "bad-value")
			}
		case 1: // prefix length beyond the family
			fam := []int{4, 6}[c.Intn(2)]
			l.add(alMkEntry(c, alAddr(fam, alRandNum(c, fam)), int(alWidth(fam))+1+c.Intn(3), c.Chance(0.5)))
			l.kinds = append(l.kinds, "bad-bits")
		default: // IPv4-mapped key shorter than /96
			bits := []int{0, 1, 8, 16, 24, 32, 33, 64, 95}[c.Intn(9)]
			l.add(alMkEntry(c, alMapped(alRandNum(c, 4)), bits, c.Chance(0.5)))
			l.kinds = append(l.kinds, "mapped-short")
		}
	}
	return l
}

// query addresses around the entries: first/last address of every network, their outside neighbours, the
// configured address itself, and random ones; IPv4 queries are sometimes written as IPv4-mapped IPv6.
func alQueries(c *hx.Ctx, lists []*alList, max int) []netip.Addr {
	var qs []netip.Addr
	seen := map[netip.Addr]bool{}
	add := func(fam int, v *big.Int) {
		if v.Sign() < 0 || v.BitLen() > int(alWidth(fam)) {
			return
		}
		a := alAddr(fam, v)
		if fam == 4 && c.Chance(0.25) {
			a = alMapped(v)
		}
		if !seen[a] {
			seen[a] = true
			qs = append(qs, a)
		}
	}
	for _, l := range lists {
		if l == nil {
			continue
		}
		for _, e := range l.es {
			if !e.valid {
				continue
			}
			first, last := alRange(e.nfam, e.nnum, e.nbits)
			add(e.nfam, first)
			add(e.nfam, last)
			add(e.nfam, new(big.Int).Sub(first, alOne))
			add(e.nfam, new(big.Int).Add(last, alOne))
			add(e.nfam, e.nnum)
		}
	}
	c.Rng.Shuffle(len(qs), func(i, j int) { qs[i], qs[j] = qs[j], qs[i] })
	if len(qs) > max-4 {
		qs = qs[:max-4]
	}
	for i := 0; i < 2; i++ {
		add(4, alRandNum(c, 4))
		add(6, alRandNum(c, 6))
	}
	return qs
}

// ---- interface names -----------------------------------------------------------------------------------

var alIfNames = []string{"eth0", "eth1", "ens5", "docker0", "tun0", "wg0", "lo", "br0", "veth12ab", "eth"}

type alNameRule struct {
	kind  int // 0 literal, 1 literal + ".*", 2 does not compile
	lit   string
	key   string
	val   any
	valOK bool
	b     bool
}

func alGenNames(c *hx.Ctx) ([]alNameRule, string) {
	n := c.Intn(4)
	if c.Chance(0.1) {
		n = 0
	}
	var rs []alNameRule
	mode := c.Intn(10) // 0-3 all true, 4-7 all false, 8-9 mixed (refused unless they happen to agree)
	kind := "names"
	seen := map[string]bool{}
	for i := 0; i < n; i++ {
		r := alNameRule{valOK: true}
		base := alIfNames[c.Intn(len(alIfNames))]
		switch {
		case c.Chance(0.5):
			r.kind, r.lit = 1, strings.TrimRight(base, "0123456789")
			if r.lit == "" || c.Chance(0.2) {
				r.lit = base[:1+c.Intn(len(base))]
			}
			r.key = r.lit + ".*"
		case c.Chance(0.06):
			r.kind, r.lit, r.key = 2, base, "("+base
		default:
			r.kind, r.lit, r.key = 0, base, base
		}
		switch {
		case mode <= 3:
			r.b = true
		case mode <= 7:
			r.b = false
		default:
			r.b = c.Chance(0.5)
		}
		r.val = r.b
		if c.Chance(0.3) {
			r.val = map[bool]string{true: "yes", false: "no"}[r.b]
		}
		if c.Chance(0.04) {
			r.val, r.valOK = "maybe", false
		}
		if !seen[r.key] {
			seen[r.key] = true
			rs = append(rs, r)
		}
	}
	return rs, kind
}

func alNamesLit(rs []alNameRule) string {
	s := make([]string, len(rs))
	for i, r := range rs {
		v := hx.None()
		if r.valOK {
			v = hx.Some(hx.Bool(r.b))
		}
		s[i] = hx.Tuple(hx.Tuple(hx.N(uint64(r.kind)), hx.Str(r.lit)), v)
	}
	return hx.List(s)
}

func alNameQueries(c *hx.Ctx, rs []alNameRule) []string {
	qs := append([]string{}, alIfNames...)
	for _, r := range rs {
		qs = append(qs, r.lit, r.lit+"9", r.lit+"x0")
		if len(r.lit) > 1 {
			qs = append(qs, r.lit[:len(r.lit)-1], "x"+r.lit)
		}
	}
	qs = append(qs, "", "zz")
	c.Rng.Shuffle(len(qs), func(i, j int) { qs[i], qs[j] = qs[j], qs[i] })
	if len(qs) > 12 {
		qs = qs[:12]
	}
	return qs
}

// ---- cases -----------------------------------------------------------------------------------------------

func alBools(b []bool) string {
	s := make([]byte, len(b))
	for i, x := range b {
		s[i] = '0'
		if x {
			s[i] = '1'
		}
	}
	return string(s)
}

// alLocalCase builds the list (and the interface rules) alRebuilds times and records every answer.
func alLocalCase(c *hx.Ctx, cw *hx.CaseWriter, l *alList, names []alNameRule, withNames bool, qs []netip.Addr, qn []string, kind string) {
	var raw any
	if l != nil {
		m := l.raw()
		if withNames {
			ifs := map[string]any{}
			for _, r := range names {
				ifs[r.key] = r.val
			}
			m["interfaces"] = ifs
		}
		raw = m
	}
	refused, stable := false, true
	var ans, ansN []bool
	for round := 0; round < alRebuilds; round++ {
		var a, an []bool
		var ok bool
		if withNames || c.Chance(0.5) {
			var v *nebula.VerifLocalAllowList
			v, ok = nebula.VerifNewLocalAllowList(raw)
			if ok {
				for _, q := range qs {
					a = append(a, v.Allow(q))
				}
				for _, q := range qn {
					an = append(an, v.AllowName(q))
				}
			}
		} else {
			var v *nebula.VerifAllowList
			v, ok = nebula.VerifNewAllowList(raw)
			if ok {
				for _, q := range qs {
					a = append(a, v.Allow(q))
				}
				for range qn {
					an = append(an, true) // no interface rules on this path: a nil rule set allows
				}
			}
		}
		if round == 0 {
			refused, ans, ansN = !ok, a, an
		} else if !ok != refused || alBools(a) != alBools(ans) || alBools(an) != alBools(ansN) {
			stable = false
		}
	}
	esLit, namesLit := hx.None(), hx.None()
	var jl any
	if l != nil {
		esLit, jl = hx.Some(l.lit()), l.json()
	}
	if withNames {
		namesLit = hx.Some(alNamesLit(names))
	}
	ql := make([]string, 0, len(qs))
	jq := map[string]bool{}
	if !refused {
		for i, q := range qs {
			ql = append(ql, hx.Tuple(alAddrLit(q), hx.Bool(ans[i])))
			jq[q.String()] = ans[i]
		}
	}
	nl := make([]string, 0, len(qn))
	jn := map[string]bool{}
	if !refused {
		for i, q := range qn {
			nl = append(nl, hx.Tuple(hx.Str(q), hx.Bool(ansN[i])))
			jn[q] = ansN[i]
		}
	}
	jnames := map[string]any{}
	for _, r := range names {
		jnames[r.key] = r.val
	}
	if refused {
		kind += "/refused"
	}
	if !stable {
		kind += "/order-dependent"
	}
	cw.Add(hx.App("AllowList_corr.CLocal", esLit, namesLit, hx.Bool(refused), hx.Bool(stable), hx.List(ql), hx.List(nl)),
		kind, !refused && l != nil && len(l.es) >= 2,
		map[string]any{"op": "local", "list": jl, "interfaces": jnames, "with_interfaces": withNames, "refused": refused,
			"stable_over_rebuilds": stable, "allow": jq, "allow_name": jn})
}

func alKind(prefix string, ls ...*alList) string {
	k := prefix
	for _, l := range ls {
		if l != nil {
			for _, x := range l.kinds {
				if !strings.Contains(k, x) {
					k += "+" + x
				}
			}
		}
	}
	return k
}

type alRangeEntry struct {
	outer alEntry
	inner *alList
}

func alRemoteCase(c *hx.Ctx, cw *hx.CaseWriter, g *alList, rg []alRangeEntry, haveRanges bool, kind string) {
	var graw, rraw any
	if g != nil {
		graw = g.raw()
	}
	lists := []*alList{g}
	outer := &alList{}
	if haveRanges {
		m := map[string]any{}
		for _, r := range rg {
			m[r.outer.key] = r.inner.raw()
			lists = append(lists, r.inner)
			outer.es = append(outer.es, r.outer)
		}
		rraw = m
	}
	udps := alQueries(c, lists, 10)
	vpns := alQueries(c, []*alList{outer}, 8)
	type pair struct{ vpn, udp netip.Addr }
	var qa []pair
	for _, v := range vpns {
		for i := 0; i < 2 && len(udps) > 0; i++ {
			qa = append(qa, pair{v, udps[c.Intn(len(udps))]})
		}
	}
	type allq struct {
		vpns []netip.Addr
		udp  netip.Addr
	}
	var qall []allq
	for i := 0; i < 6 && len(udps) > 0; i++ {
		n := c.Intn(4)
		var vs []netip.Addr
		for j := 0; j < n; j++ {
			vs = append(vs, vpns[c.Intn(len(vpns))])
		}
		qall = append(qall, allq{vs, udps[c.Intn(len(udps))]})
	}
	refused, stable := false, true
	var first string
	var aA, aAll, aU []bool
	for round := 0; round < alRebuilds; round++ {
		v, ok := nebula.VerifNewRemoteAllowList(graw, rraw)
		var a, b, u []bool
		if ok {
			for _, q := range qa {
				a = append(a, v.Allow(q.vpn, q.udp))
			}
			for _, q := range qall {
				b = append(b, v.AllowAll(q.vpns, q.udp))
			}
			for _, q := range udps {
				u = append(u, v.AllowUnknownVpnAddr(q))
			}
		}
		sig := fmt.Sprintf("%v|%s|%s|%s", ok, alBools(a), alBools(b), alBools(u))
		if round == 0 {
			refused, first, aA, aAll, aU = !ok, sig, a, b, u
		} else if sig != first {
			stable = false
		}
	}
	gLit, rLit := hx.None(), hx.None()
	var jg any
	if g != nil {
		gLit, jg = hx.Some(g.lit()), g.json()
	}
	jr := map[string]any{}
	if haveRanges {
		s := make([]string, len(rg))
		for i, r := range rg {
			s[i] = hx.Tuple(r.outer.keyLit(), r.inner.lit())
			jr[r.outer.key] = r.inner.json()
		}
		rLit = hx.Some(hx.List(s))
	}
	var la, lall, lu []string
	var ja, jall, ju []any
	if !refused {
		for i, q := range qa {
			la = append(la, hx.Tuple(alAddrLit(q.vpn), alAddrLit(q.udp), hx.Bool(aA[i])))
			ja = append(ja, []any{q.vpn.String(), q.udp.String(), aA[i]})
		}
		for i, q := range qall {
			vs := make([]string, len(q.vpns))
			js := make([]string, len(q.vpns))
			for j, v := range q.vpns {
				vs[j], js[j] = alAddrLit(v), v.String()
			}
			lall = append(lall, hx.Tuple(hx.List(vs), alAddrLit(q.udp), hx.Bool(aAll[i])))
			jall = append(jall, []any{js, q.udp.String(), aAll[i]})
		}
		for i, q := range udps {
			lu = append(lu, hx.Tuple(alAddrLit(q), hx.Bool(aU[i])))
			ju = append(ju, []any{q.String(), aU[i]})
		}
	}
	if refused {
		kind += "/refused"
	}
	if !stable {
		kind += "/order-dependent"
	}
	cw.Add(hx.App("AllowList_corr.CRemote", gLit, rLit, hx.Bool(refused), hx.Bool(stable), hx.List(la), hx.List(lall), hx.List(lu)),
		kind, !refused && haveRanges && len(rg) > 0,
		map[string]any{"op": "remote", "remote_allow_list": jg, "remote_allow_ranges": jr, "have_ranges": haveRanges,
			"refused": refused, "stable_over_rebuilds": stable, "allow": ja, "allow_all": jall, "allow_unknown": ju})
}

// a list from literal "key": value pairs (corpus)
func alFixed(c *hx.Ctx, kv ...any) *alList {
	l := &alList{}
	for i := 0; i+1 < len(kv); i += 2 {
		s := kv[i].(string)
		slash := strings.LastIndexByte(s, '/')
		a := netip.MustParseAddr(s[:slash])
		bits := 0
		fmt.Sscanf(s[slash+1:], "%d", &bits)
		e := alMkEntry(c, a, bits, kv[i+1].(bool))
		e.val = kv[i+1].(bool)
		l.add(e)
	}
	return l
}

func alAddrs(ss ...string) []netip.Addr {
	r := make([]netip.Addr, len(ss))
	for i, s := range ss {
		r[i] = netip.MustParseAddr(s)
	}
	return r
}

func runAllowList(c *hx.Ctx) {
	cw := c.NewCaseWriter("From NV Require Import model.AllowList corr.AllowList_corr.", "AllowList_corr.case", "AllowList_corr.check_case", 150)

	// ---- corpus: the repository's own examples, the F9 witnesses, nil lists -----------------------------
	alLocalCase(c, cw, nil, nil, false, alAddrs("1.1.1.1", "::1", "::ffff:10.0.0.1"), []string{"docker0", ""}, "corpus/nil")
	f9 := alAddrs("10.1.2.3", "10.255.255.255", "10.0.0.0", "11.0.0.0", "9.255.255.255", "::ffff:10.1.2.3", "::ffff:11.0.0.1", "::1", "fd00::1")
	alLocalCase(c, cw, alFixed(c, "::ffff:10.0.0.0/104", true), nil, false, f9, nil, "corpus/f9")
	alLocalCase(c, cw, alFixed(c, "10.0.0.0/8", true), nil, false, f9, nil, "corpus/f9")
	alLocalCase(c, cw, alFixed(c, "::ffff:0.0.0.0/96", false, "10.0.0.0/8", true, "10.42.0.0/16", false), nil, false, f9, nil, "corpus/f9")
	alLocalCase(c, cw, alFixed(c, "::ffff:10.0.0.0/8", true), nil, false, f9, nil, "corpus/f9")
	alLocalCase(c, cw, alFixed(c, "::ffff:10.0.0.0/95", true), nil, false, f9, nil, "corpus/f9")
	alLocalCase(c, cw, alFixed(c, "::ffff:10.1.2.3/128", false), nil, false, f9, nil, "corpus/f9")
	alLocalCase(c, cw, alFixed(c, "192.168.0.0/16", true, "10.0.0.0/8", false), nil, false, f9, nil, "corpus/repo-test")
	alLocalCase(c, cw, alFixed(c, "0.0.0.0/0", true, "10.0.0.0/8", false, "10.42.42.0/24", true, "fd00::/8", true, "fd00:fd00::/16", false), nil, false, f9, nil, "corpus/repo-test")
	rt := alAddrs("1.1.1.1", "10.0.0.4", "10.42.42.42", "10.42.42.41", "10.42.0.1", "::1", "::2", "fd00::1", "fd00:fd00::1", "fe80::1")
	alLocalCase(c, cw, alFixed(c, "0.0.0.0/0", true, "10.0.0.0/8", false, "10.42.42.0/24", true, "::/0", false, "fd00::/8", true, "fd00:fd00::/16", false), nil, false, rt, nil, "corpus/repo-test")
	alLocalCase(c, cw, alFixed(c, "0.0.0.0/0", true, "10.0.0.0/8", false, "10.42.42.42/32", true, "10.42.0.0/16", true, "10.42.42.0/24", false, "::1/128", true, "::2/128", false, "::/0", true), nil, false, rt, nil, "corpus/repo-test")
	alLocalCase(c, cw, alFixed(c, "1.2.3.4/0", false, "10.0.0.0/8", true), nil, false, rt, nil, "corpus/default-with-host-bits")
	alLocalCase(c, cw, &alList{}, []alNameRule{{kind: 1, lit: "docker", key: "docker.*", val: false, valOK: true, b: false}, {kind: 1, lit: "tun", key: "tun.*", val: false, valOK: true, b: false}}, true, rt, []string{"docker0", "tun0", "eth0", "docker", "xdocker0"}, "corpus/names")
	alLocalCase(c, cw, &alList{}, []alNameRule{{kind: 1, lit: "docker", key: "docker.*", val: false, valOK: true, b: false}, {kind: 1, lit: "eth", key: "eth.*", val: true, valOK: true, b: true}}, true, rt, []string{"docker0"}, "corpus/names")
	{
		in := alFixed(c, "192.168.0.0/16", true)
		ou := alMkEntry(c, netip.MustParseAddr("::ffff:10.42.0.0"), 112, true)
		alRemoteCase(c, cw, alFixed(c, "::ffff:172.16.0.0/108", false), []alRangeEntry{{ou, in}}, true, "corpus/remote-f9")
		ou2 := alMkEntry(c, netip.MustParseAddr("::ffff:10.42.0.0"), 16, true)
		alRemoteCase(c, cw, nil, []alRangeEntry{{ou2, in}}, true, "corpus/remote-f9")
		alRemoteCase(c, cw, nil, nil, false, "corpus/remote-nil")
	}

	// ---- boundary sweep: one entry of every prefix length, queried at its edges --------------------------
	for bits := 0; bits <= 32; bits++ {
		base := alRandNum(c, 4)
		a, sb := alSpell(c, 4, base, bits, bits%3 == 0)
		l := &alList{}
		l.add(alMkEntry(c, a, sb, bits%2 == 0))
		alLocalCase(c, cw, l, nil, false, alQueries(c, []*alList{l}, 12), nil, "sweep/v4-len")
	}
	for bits := 0; bits <= 128; bits++ {
		base := alRandNum(c, 6)
		a, sb := alSpell(c, 6, base, bits, false)
		l := &alList{}
		l.add(alMkEntry(c, a, sb, bits%2 == 1))
		alLocalCase(c, cw, l, nil, false, alQueries(c, []*alList{l}, 12), nil, "sweep/v6-len")
	}
	for bits := 0; bits <= 128; bits++ { // every IPv4-mapped key length
		l := &alList{}
		l.add(alMkEntry(c, alMapped(alRandNum(c, 4)), bits, bits%2 == 0))
		alLocalCase(c, cw, l, nil, false, alQueries(c, []*alList{l}, 10), nil, "sweep/mapped-len")
	}

	// ---- generated ------------------------------------------------------------------------------------
	for i := 0; i < c.N; i++ {
		switch r := c.Intn(10); {
		case r < 5: // a plain list
			l := alGenList(c, alOpts{})
			alLocalCase(c, cw, l, nil, false, alQueries(c, []*alList{l}, 24), nil, alKind("list", l))
		case r < 7: // local allow list with interface rules
			var l *alList
			if c.Chance(0.6) {
				l = alGenList(c, alOpts{})
			} else {
				l = &alList{}
			}
			names, _ := alGenNames(c)
			alLocalCase(c, cw, l, names, true, alQueries(c, []*alList{l}, 10), alNameQueries(c, names), alKind("local+interfaces", l))
		default: // remote allow list + ranges
			var g *alList
			if c.Chance(0.8) {
				g = alGenList(c, alOpts{noConflict: true})
			}
			haveRanges := c.Chance(0.85)
			var rg []alRangeEntry
			if haveRanges {
				n := c.Intn(4)
				outer := &alList{}
				var nets []string
				for j := 0; j < n; j++ {
					fam := []int{4, 4, 6}[c.Intn(3)]
					lens := alLens4
					if fam == 6 {
						lens = alLens6
					}
					var base *big.Int
					if j > 0 && c.Chance(0.5) && rg[0].outer.valid && rg[0].outer.nfam == fam { // nest inside the first range
						base = rg[0].outer.nnum
					} else {
						base = alRandNum(c, fam)
					}
					bits := lens[c.Intn(len(lens))]
					if c.Chance(0.1) {
						bits = 0
					}
					a, sb := alSpell(c, fam, base, bits, true)
					e := alMkEntry(c, a, sb, true)
					if c.Chance(0.04) { // malformed outer key
						e = alMkEntry(c, alMapped(alRandNum(c, 4)), []int{8, 16, 95}[c.Intn(3)], true)
					}
					first, _ := alRange(e.nfam, e.nnum, max(e.nbits, 0))
					net := fmt.Sprintf("%d/%s/%d", e.nfam, first, e.nbits)
					dup := outer.has(e.key)
					for _, x := range nets { // one range written twice would make the inside list order dependent
						dup = dup || (e.valid && x == net)
					}
					if dup {
						continue
					}
					nets = append(nets, net)
					outer.add(e)
					rg = append(rg, alRangeEntry{e, alGenList(c, alOpts{noConflict: true, noBad: c.Chance(0.9)})})
				}
			}
			ls := []*alList{g}
			for _, r := range rg {
				ls = append(ls, r.inner)
			}
			alRemoteCase(c, cw, g, rg, haveRanges, alKind("remote", ls...))
		}
	}
	cw.Close("allow-list maps over IPv4 / IPv6 / IPv4-mapped keys (nested prefixes and siblings of shared base addresses, host bits kept or masked, " +
		"uniform or mixed values, with/without /0), interface rule sets with literal and literal.* patterns, remote_allow_list + remote_allow_ranges; " +
		"each map is built 5 times (Go visits it in a new order each time) and queried at the first/last address of every network, their outside neighbours " +
		"and random addresses, IPv4 queries partly written as ::ffff:a.b.c.d; non-trivial = accepted configuration with >= 2 entries (or >= 1 range); distinct by literal")
}

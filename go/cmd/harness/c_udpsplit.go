//go:build (comp_all || comp_udpsplit) && linux && !android && !e2e_testing

package main

import (
	"bytes"
	"encoding/binary"
	"encoding/hex"
	"fmt"
	"math"
	"sort"
	"strings"

	"github.com/slackhq/nebula/udp"
	"golang.org/x/sys/unix"
	"verifharness/hx"
)

func init() {
	hx.Register("gen_udpsplit", genUdpSplit)
	hx.Register("udpsplit", runUdpSplit)
}

// genUdpSplit (T1): the cmsg layout constants parseRecvCmsg is compiled with.
func genUdpSplit(c *hx.Ctx) {
	m := udp.VerifUdpSplitConsts()
	keys := make([]string, 0, len(m))
	for k := range m {
		keys = append(keys, k)
	}
	sort.Strings(keys)
	var sb strings.Builder
	sb.WriteString("(* GENERATED from /repo/udp + golang.org/x/sys/unix by harness gen_udpsplit: do not edit *)\nFrom Coq Require Import NArith.\nOpen Scope N_scope.\n")
	for _, k := range keys {
		if k == "us_little_endian" {
			fmt.Fprintf(&sb, "Definition %s : bool := %s.\n", k, hx.Bool(m[k] == 1))
			continue
		}
		fmt.Fprintf(&sb, "Definition %s : N := %d.\n", k, m[k])
	}
	c.WriteFile("Consts_UdpSplit.v", sb.String())
}

func runUdpSplit(c *hx.Ctx) {
	cw := c.NewCaseWriter("From Coq Require Import String.\nFrom NV Require Import corr.UdpSplit_corr.", "UdpSplit_corr.case", "UdpSplit_corr.check_case", 250)
	hexs := func(b []byte) string { return "\"" + hex.EncodeToString(b) + "\"%string" }

	addSplit := func(p []byte, seg int, kind string) {
		pieces, alias, pan := udp.VerifDeliverSegments(p, seg)
		lens := make([]int, len(pieces))
		lensN := make([]uint64, len(pieces))
		contentOK := true
		off := 0
		for i := range pieces {
			lens[i] = len(pieces[i])
			lensN[i] = uint64(len(pieces[i]))
			if off+len(pieces[i]) > len(p) || !bytes.Equal(pieces[i], p[off:off+len(pieces[i])]) {
				contentOK = false
			}
			off += len(pieces[i])
		}
		if len(lens) > 12 {
			lens = append(lens[:6:6], lens[len(lens)-6:]...)
		}
		cw.Add(hx.App("UdpSplit_corr.CSplit", hexs(p), hx.Z(int64(seg)), hx.NList(lensN), hx.Bool(contentOK), hx.Bool(pan)),
			kind, seg > 0 && seg < len(p),
			map[string]any{"op": "split", "len": len(p), "seg": seg, "pieces": len(pieces), "piece_lens_head_tail": lens, "content_ok": contentOK, "alias_ok": alias, "panicked": pan})
	}
	addCmsg := func(buf []byte, kind string) {
		gso, pan := udp.VerifParseRecvCmsg(buf)
		cw.Add(hx.App("UdpSplit_corr.CCmsg", hexs(buf), hx.Z(int64(gso)), hx.Bool(pan)), kind, gso != 0,
			map[string]any{"op": "cmsg", "buf": hx.Ints(buf), "gso": gso, "panicked": pan})
	}

	// ---- boundary sweep: every payload length 0..300 x interesting segment sizes -------------------
	for l := 0; l <= 300; l++ {
		p := make([]byte, l)
		for i := range p {
			p[i] = byte((i*7 + l) % 251)
		}
		segs := []int{math.MinInt32, -7, -1, 0, 1, 2, 3, l / 3, l / 2, l/2 + 1, l - 2, l - 1, l, l + 1, 1400, math.MaxInt32}
		seen := map[int]bool{}
		for _, s := range segs {
			if seen[s] {
				continue
			}
			seen[s] = true
			// keep the sweep affordable: seg 1/2/3 on long payloads produce hundreds of pieces; sample them
			if l > 64 && (s == 2 || s == 3) && l%8 != 0 {
				continue
			}
			if l > 64 && s == 1 && l%16 != 0 {
				continue
			}
			addSplit(p, s, "split-sweep")
		}
	}
	// a few large superdatagrams as the kernel produces them (GRO: up to 64 segments of an MTU-sized datagram)
	for _, ls := range [][2]int{{5488, 1372}, {5489, 1372}, {4200, 1400}, {2801, 1400}, {9001, 9000}} {
		p := c.RandBytes(ls[0])
		addSplit(p, ls[1], "split-large")
	}

	// ---- cmsg corpus ------------------------------------------------------------------------------
	hdrLen := unix.CmsgLen(0)
	mk := func(level, typ int32, clen uint64, data []byte, space int) []byte {
		b := make([]byte, space)
		if len(b) >= 8 {
			binary.NativeEndian.PutUint64(b[0:8], clen)
		}
		if len(b) >= 12 {
			binary.NativeEndian.PutUint32(b[8:12], uint32(level))
		}
		if len(b) >= 16 {
			binary.NativeEndian.PutUint32(b[12:16], uint32(typ))
		}
		if len(b) > hdrLen {
			copy(b[hdrLen:], data)
		}
		return b
	}
	u32 := func(v uint32) []byte { b := make([]byte, 4); binary.NativeEndian.PutUint32(b, v); return b }
	gro := func(v uint32) []byte {
		return mk(unix.SOL_UDP, unix.UDP_GRO, uint64(unix.CmsgLen(4)), u32(v), unix.CmsgSpace(4))
	}
	tos := mk(unix.IPPROTO_IP, unix.IP_TOS, uint64(unix.CmsgLen(1)), []byte{0x2e}, unix.CmsgSpace(1))
	cat := func(bs ...[]byte) []byte {
		var o []byte
		for _, b := range bs {
			o = append(o, b...)
		}
		return o
	}
	addCmsg(nil, "cmsg-corpus")
	addCmsg([]byte{}, "cmsg-corpus")
	for _, v := range []uint32{0, 1, 1372, 1400, 65535, 0x7fffffff, 0x80000000, 0xffffffff} {
		addCmsg(gro(v), "cmsg-corpus")
		addCmsg(cat(tos, gro(v)), "cmsg-corpus")
		addCmsg(cat(gro(v), tos), "cmsg-corpus")
		addCmsg(cat(gro(7), gro(v)), "cmsg-corpus")
	}
	full := cat(tos, gro(1400), tos)
	for l := 0; l <= len(full); l++ { // every truncation
		addCmsg(full[:l], "cmsg-truncated")
	}
	// lying length in the second header (the cases of TestParseRecvCmsgCorruptLenNoPanic and neighbours)
	for _, lv := range []uint64{0, 1, 15, 16, 17, 20, 23, 24, 25, 32, 40, 41, 1 << 20, 1<<31 - 1, 1 << 31, 1 << 32, 1<<63 - 9, 1<<63 - 8, 1<<63 - 1, 1 << 63, 1<<64 - 16, 1<<64 - 1} {
		addCmsg(cat(gro(1400), mk(unix.IPPROTO_IP, unix.IP_TOS, lv, []byte{1, 2, 3, 4}, unix.CmsgSpace(4))), "cmsg-lying-len")
		addCmsg(cat(mk(unix.SOL_UDP, unix.UDP_GRO, lv, u32(1234), unix.CmsgSpace(4)), gro(99)), "cmsg-lying-len")
		addCmsg(mk(unix.SOL_UDP, unix.UDP_GRO, lv, u32(1234), unix.CmsgSpace(4)), "cmsg-lying-len")
	}
	// UDP_GRO header without room for its payload: len 16 at the very end, and with 1..3 bytes following
	for extra := 0; extra <= 8; extra++ {
		addCmsg(mk(unix.SOL_UDP, unix.UDP_GRO, 16, []byte{9, 9, 9, 9, 9, 9, 9, 9}, 16+extra), "cmsg-short-data")
		addCmsg(cat(tos, mk(unix.SOL_UDP, unix.UDP_GRO, uint64(16+extra), []byte{9, 8, 7, 6, 5, 4, 3, 2}, 16+extra)), "cmsg-short-data")
	}

	// ---- random -----------------------------------------------------------------------------------
	levels := []int32{unix.SOL_UDP, unix.SOL_UDP, unix.SOL_UDP, unix.IPPROTO_IP, unix.SOL_SOCKET, unix.IPPROTO_IPV6, -1}
	types := []int32{unix.UDP_GRO, unix.UDP_GRO, unix.UDP_GRO, unix.UDP_SEGMENT, unix.IP_TOS, unix.SO_TIMESTAMP, 0, -1}
	for i := 0; i < c.N; i++ {
		switch r := c.Intn(100); {
		case r < 25: // random split
			l := c.Intn(400)
			if c.Chance(0.1) {
				l = 400 + c.Intn(1200)
			}
			var seg int
			switch c.Intn(6) {
			case 0:
				seg = int(int32(c.EdgeU64(32)))
			case 1:
				seg = l - 2 + c.Intn(5)
			default:
				seg = 1 + c.Intn(l+2)
				if l > 100 && seg < 8 {
					seg += 8
				}
			}
			addSplit(c.RandBytes(l), seg, "split-random")
		case r < 70: // well-formed chain of 1..4 cmsgs, then perhaps damaged
			var parts [][]byte
			n := 1 + c.Intn(4)
			for j := 0; j < n; j++ {
				lv := levels[c.Intn(len(levels))]
				ty := types[c.Intn(len(types))]
				dl := []int{0, 1, 2, 4, 4, 4, 8, 12, 16}[c.Intn(9)]
				if lv == unix.SOL_UDP && ty == unix.UDP_GRO && c.Chance(0.8) {
					dl = 4
				}
				data := c.RandBytes(dl)
				if dl == 4 && c.Chance(0.6) {
					data = u32(uint32(1 + c.Intn(9000)))
				}
				parts = append(parts, mk(lv, ty, uint64(unix.CmsgLen(dl)), data, unix.CmsgSpace(dl)))
			}
			buf := cat(parts...)
			kind := "cmsg-wellformed"
			switch c.Intn(10) {
			case 0: // truncate
				buf = buf[:c.Intn(len(buf)+1)]
				kind = "cmsg-truncated"
			case 1: // corrupt one length field
				j := c.Intn(n)
				off := 0
				for k := 0; k < j; k++ {
					off += len(parts[k])
				}
				var lv uint64
				switch c.Intn(5) {
				case 0:
					lv = uint64(c.Intn(17))
				case 1:
					lv = uint64(len(buf)-off) + uint64(c.Intn(3)) - 1
				case 2:
					lv = c.EdgeU64(64)
				case 3:
					lv = uint64(1)<<63 - uint64(c.Intn(32))
				default:
					lv = uint64(c.Intn(80))
				}
				binary.NativeEndian.PutUint64(buf[off:off+8], lv)
				kind = "cmsg-lying-len"
			case 2: // unaligned tail garbage
				buf = append(buf, c.RandBytes(1+c.Intn(20))...)
				kind = "cmsg-trailing"
			}
			addCmsg(buf, kind)
		case r < 85: // zero-filled / zero-length headers
			l := c.Intn(72)
			buf := make([]byte, l)
			if c.Chance(0.5) && l >= 16 {
				copy(buf, mk(unix.SOL_UDP, unix.UDP_GRO, uint64(c.Intn(3)*8+8), nil, 16))
			}
			addCmsg(buf, "cmsg-zero")
		default: // random bytes, lengths biased around the header size and its multiples
			l := c.Intn(80)
			if c.Chance(0.4) {
				l = []int{15, 16, 17, 19, 20, 23, 24, 31, 32, 33, 40, 48}[c.Intn(12)]
			}
			buf := c.RandBytes(l)
			if l >= 8 && c.Chance(0.7) { // a plausible length so the walk gets past the first check
				binary.NativeEndian.PutUint64(buf[0:8], uint64(16+c.Intn(l)))
			}
			if l >= 16 && c.Chance(0.5) {
				binary.NativeEndian.PutUint32(buf[8:12], uint32(unix.SOL_UDP))
				binary.NativeEndian.PutUint32(buf[12:16], uint32(unix.UDP_GRO))
			}
			addCmsg(buf, "cmsg-random")
		}
	}
	cw.Close("sweep: payload lengths 0..300 x segment sizes {min32,-7,-1,0,1,2,3,l/3,l/2,l/2+1,l-2,l-1,l,l+1,1400,max32} (seg 1..3 sampled above 64 bytes), large GRO shapes; cmsg corpus (UDP_GRO values, every truncation, lying lengths incl. 2^63 edges, header without payload room); random: splits, well-formed cmsg chains (damaged 30%), zero buffers, random bytes. non-trivial = split with 0<seg<len, or cmsg walk returning a non-zero size; distinct by literal")
}
